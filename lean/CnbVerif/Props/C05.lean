import CnbVerif.Lemmas.Runtime
/-!
# C05 — detect and build phases exit and write outputs as the buildpack API requires

Property theorems only (helper lemmas live in `Lemmas/Runtime.lean`). The model is `Model/Runtime.lean`
(`runtime : Invocation → Outcome`, mirroring `libcnb_runtime`, `libcnb_runtime_detect`, `libcnb_runtime_build`,
`context_target` in the code's order; exit codes and supported API from `Gen`); the specification is the decision table
`Spec/RuntimeTable.lean`, whose notions `gateOpen`, `detectError`, `buildError`, `providedSbom`, `expected` are written from
the property text. Every theorem holds for all invocations: any argument count, any API version, any payload types
`P L S D`, any lists of SBOMs (with repeated formats), any pre-existing state of the output paths, and any environment —
`Invocation.vars` carries the *value* of each `CNB_*` variable (unset / any text / bytes that are not Unicode), so "for all
invocations" includes every choice of CNB_TARGET_OS, CNB_TARGET_ARCH, … values.
-/
namespace CnbVerif.C05
open CnbVerif.Runtime CnbVerif.Runtime.Spec

variable {P L S D : Type}

set_option linter.unusedSimpArgs false

/-! ## M1 — detect -/

/-- **M1a.** Run as `detect` with all gates open and no error: detection passed with a plan ⇒ exit 0, the build plan is
written with exactly the buildpack's plan, detect ran, `on_error` not called. -/
theorem detect_pass_with_plan (i : Invocation P L S D) (p : P) (hg : gateOpen i = true) (hexe : i.exe = .detect)
    (hne : detectError i = false) (hb : i.dbeh = .passPlan p) :
    (runtime i).exit = 0 ∧ (runtime i).plan = .written p ∧ (runtime i).detectRan = true ∧ (runtime i).onError = 0 := by
  obtain ⟨ok, hdesc, ⟨rbp, hbp⟩, hct, hn⟩ := open_detect i hg hexe
  simp [detectError, contextError, hdesc, descValid, hb] at hne
  obtain ⟨⟨⟨hcwd, rfl⟩, hplat⟩, hpre⟩ := hne
  have hw : canWrite i.planPre = true := by rw [canWrite_eq, hpre]; rfl
  simp [runtime, apiCheck, Gen.supportedApi, detectPhase, descFullOk, finish, hdesc, hbp, hct,
    hexe, hn, hcwd, hplat, hb, hw, Gen.exit_DETECT_DETECTION_PASSED]

/-- **M1b.** Detection passed without a plan ⇒ exit 0 and the build plan path is untouched. -/
theorem detect_pass_without_plan (i : Invocation P L S D) (hg : gateOpen i = true) (hexe : i.exe = .detect)
    (hne : detectError i = false) (hb : i.dbeh = .pass) :
    (runtime i).exit = 0 ∧ (runtime i).plan = .untouched ∧ (runtime i).detectRan = true ∧ (runtime i).onError = 0 := by
  obtain ⟨ok, hdesc, ⟨rbp, hbp⟩, hct, hn⟩ := open_detect i hg hexe
  simp [detectError, contextError, hdesc, descValid, hb] at hne
  obtain ⟨⟨hcwd, rfl⟩, hplat⟩ := hne
  simp [runtime, apiCheck, Gen.supportedApi, detectPhase, descFullOk, finish, hdesc, hbp, hct,
    hexe, hn, hcwd, hplat, hb, Gen.exit_DETECT_DETECTION_PASSED]

/-- **M1c.** Detection failed ⇒ exit 100 and the build plan path is untouched. -/
theorem detect_fail (i : Invocation P L S D) (hg : gateOpen i = true) (hexe : i.exe = .detect)
    (hne : detectError i = false) (hb : i.dbeh = .fail) :
    (runtime i).exit = 100 ∧ (runtime i).plan = .untouched ∧ (runtime i).detectRan = true ∧ (runtime i).onError = 0 := by
  obtain ⟨ok, hdesc, ⟨rbp, hbp⟩, hct, hn⟩ := open_detect i hg hexe
  simp [detectError, contextError, hdesc, descValid, hb] at hne
  obtain ⟨⟨hcwd, rfl⟩, hplat⟩ := hne
  simp [runtime, apiCheck, Gen.supportedApi, detectPhase, descFullOk, finish, hdesc, hbp, hct,
    hexe, hn, hcwd, hplat, hb, Gen.exit_DETECT_DETECTION_FAILED]

/-- **M1d.** Any error of the detect phase (context assembly, the buildpack's own error, the plan cannot be written) ⇒
`on_error` is called exactly once, the exit status is neither 0 nor 100, and no plan is written. -/
theorem detect_error (i : Invocation P L S D) (hg : gateOpen i = true) (hexe : i.exe = .detect)
    (he : detectError i = true) :
    (runtime i).onError = 1 ∧ (runtime i).exit ≠ 0 ∧ (runtime i).exit ≠ 100 ∧ (runtime i).plan = .untouched := by
  obtain ⟨ok, hdesc, ⟨rbp, hbp⟩, hct, hn⟩ := open_detect i hg hexe
  cases hc : i.cwdOk <;> cases ok <;> cases hp : i.plat <;> cases hb : i.dbeh <;> cases hpp : i.planPre <;>
    simp [detectError, contextError, hdesc, descValid, hb, hc, hp, hpp, blocked] at he <;>
    simp [runtime, apiCheck, Gen.supportedApi, detectPhase, descFullOk, finish, hdesc, hbp, hct,
      hexe, hn, hc, hp, hb, hpp, canWrite, Eff.none, Gen.exit_GENERIC_UNSPECIFIED_ERROR]

/-! ## M2 — build -/

/-- **M2a.** Run as `build` with all gates open and no error: exit 0, build ran, `on_error` not called, and launch.toml,
store.toml and every build / launch SBOM file are written exactly for the parts of the result that were provided
(`expected`: provided ⇒ written with that payload; not provided ⇒ untouched — nothing stale is deleted, nothing else is
written; for a format provided several times the last one is in the file). -/
theorem build_ok (i : Invocation P L S D) (r : BuildOk L S D) (hg : gateOpen i = true) (hexe : i.exe = .build)
    (hne : buildError i = false) (hb : i.bbeh = .ok r) :
    (runtime i).exit = 0 ∧ (runtime i).buildRan = true ∧ (runtime i).onError = 0 ∧
    (runtime i).launch = expected r.launch ∧ (runtime i).store = expected r.store ∧
    (∀ f, (runtime i).bsbom f = expected (providedSbom f r.bsboms)) ∧
    (∀ f, (runtime i).lsbom f = expected (providedSbom f r.lsboms)) ∧ (runtime i).plan = .untouched := by
  obtain ⟨ok, hdesc, ⟨rbp, hbp⟩, hct, hn⟩ := open_build i hg hexe
  simp [buildError, contextError, hdesc, descValid, hb] at hne
  obtain ⟨⟨⟨⟨⟨hcwd, rfl⟩, hplat⟩, hplan⟩, hstore⟩, hwb⟩ := hne
  have hst : ¬ (i.storePre = .malformed ∨ i.storePre = .dir) := by
    cases h : i.storePre <;> simp [h, storeUnreadable] at hstore ⊢
  obtain ⟨h2, _, h4, h5, h6, h7, h8, h9⟩ := buildWrites_free i { buildRan := true } r hwb ⟨rfl, rfl, fun _ => rfl, fun _ => rfl⟩
  simp [runtime, apiCheck, Gen.supportedApi, buildPhase, descFullOk, finish, hdesc, hbp, hct,
    hexe, hn, hcwd, hplat, hplan, hst, hb, h2, h4, h5, h6, h7, h8, h9, Gen.exit_GENERIC_SUCCESS]

/-- **M2b, with the status.** Any error of the build phase (context assembly incl. buildpack plan and previous store, the
buildpack's own error, a layer error, a provided part that cannot be written — because the path cannot be opened or because
the write itself fails) ⇒ `on_error` is called exactly once and the exit status is neither 0 nor 100. -/
theorem build_error_status (i : Invocation P L S D) (hg : gateOpen i = true) (hexe : i.exe = .build)
    (he : buildError i = true) :
    (runtime i).onError = 1 ∧ (runtime i).exit ≠ 0 ∧ (runtime i).exit ≠ 100 := by
  obtain ⟨ok, hdesc, ⟨rbp, hbp⟩, hct, hn⟩ := open_build i hg hexe
  have hfin : ∀ r : Eff P L S D × Except ErrKind Int, (∃ k, r.2 = .error k) →
      (finish r).onError = 1 ∧ (finish r).exit ≠ 0 ∧ (finish r).exit ≠ 100 := by
    intro r ⟨k, hk⟩; simp [finish, hk, Gen.exit_GENERIC_UNSPECIFIED_ERROR]
  have hrt : runtime i = finish (buildPhase i) := by
    simp [runtime, apiCheck, Gen.supportedApi, hdesc, hbp, hexe, hn]
  rw [hrt]
  apply hfin
  cases hc : i.cwdOk <;> cases ok <;> cases hp : i.plat <;> cases hpl : i.planIn <;> cases hs : i.storePre <;>
    simp [buildPhase, descFullOk, hdesc, hbp, hct, hc, hp, hpl, hs] <;>
    cases hb : i.bbeh <;> simp [hb] <;>
    simp [buildError, contextError, hdesc, descValid, hb, hc, hp, hpl, hs, storeUnreadable] at he <;>
    (obtain ⟨k, hk, _⟩ := buildWrites_blocked i { buildRan := true } _ he; exact ⟨k, hk⟩)

/-- **M2b.** Any error of the build phase (context assembly incl. buildpack plan and previous store, the buildpack's own
error, a layer error, a provided part that cannot be written) ⇒ `on_error` is called exactly once and the exit status
is not 0. -/
theorem build_error (i : Invocation P L S D) (hg : gateOpen i = true) (hexe : i.exe = .build)
    (he : buildError i = true) :
    (runtime i).onError = 1 ∧ (runtime i).exit ≠ 0 :=
  ⟨(build_error_status i hg hexe he).1, (build_error_status i hg hexe he).2.1⟩

/-! ## M2c — a write that fails -/

/-- **M2c / M1d, write faults.** *If writing any provided output fails, the phase does not end in success.* Behind open gates:
when detection passed with a plan and the plan path can be opened but not written, or the build result provides launch.toml /
store.toml / a build or launch SBOM of some format and the write to that file fails (`Pre.writeFails`: no space left on the
device — at whichever output, whatever comes before or after it in the result, whatever the payloads are, with any other
error source present or not), then `on_error` is called exactly once and the exit status is neither 0 nor 100. -/
theorem write_fault_is_an_error (i : Invocation P L S D) (hg : gateOpen i = true) (hw : writeFault i = true) :
    (runtime i).onError = 1 ∧ (runtime i).exit ≠ 0 ∧ (runtime i).exit ≠ 100 := by
  have hwb : ∀ p : Pre, Spec.writeFails p = true → blocked p = true := by intro p; cases p <;> simp [Spec.writeFails, blocked]
  have hany : ∀ (pre : Fmt → Pre) (l : List (Fmt × D)), l.any (fun x => Spec.writeFails (pre x.1)) = true →
      l.any (fun x => blocked (pre x.1)) = true := by
    intro pre l h
    rw [List.any_eq_true] at h ⊢
    obtain ⟨x, hx, hxw⟩ := h
    exact ⟨x, hx, hwb _ hxw⟩
  unfold writeFault at hw
  cases hexe : i.exe with
  | other => simp [hexe] at hw
  | detect =>
    have he : detectError i = true := by
      cases hb : i.dbeh <;> simp [hexe, hb] at hw
      simp [detectError, hb, hwb _ hw]
    obtain ⟨a, b, c, _⟩ := detect_error i hg hexe he
    exact ⟨a, b, c⟩
  | build =>
    have he : buildError i = true := by
      cases hb : i.bbeh with
      | err => simp [hexe, hb] at hw
      | layerErr => simp [hexe, hb] at hw
      | ok r =>
        simp only [hexe, hb, Bool.or_eq_true, Bool.and_eq_true] at hw
        have : writeBlocked i r = true := by
          unfold writeBlocked
          simp only [Bool.or_eq_true, Bool.and_eq_true]
          rcases hw with ((⟨h1, h2⟩ | ⟨h1, h2⟩) | h) | h
          · exact Or.inl (Or.inl (Or.inl ⟨h1, hwb _ h2⟩))
          · refine Or.inl (Or.inl (Or.inr ⟨h1, ?_⟩))
            cases hs : i.storePre <;> simp [hs] at h2; rfl
          · exact Or.inl (Or.inr (hany _ _ h))
          · exact Or.inr (hany _ _ h)
        simp [buildError, hb, this]
    exact build_error_status i hg hexe he

/-! ## M3 — gatekeeping -/

/-- **M3.** A buildpack.toml whose API is unsupported, malformed or missing (or that is missing / unreadable), an
executable name other than `detect` / `build`, a wrong argument count, or a missing mandatory variable: neither detect
nor build code runs, the exit status is not 0 (nor 100), and no output path is touched. -/
theorem gatekeeping (i : Invocation P L S D) (hg : gateOpen i = false) :
    (runtime i).detectRan = false ∧ (runtime i).buildRan = false ∧ (runtime i).exit ≠ 0 ∧
    (runtime i).plan = .untouched ∧ (runtime i).launch = .untouched ∧ (runtime i).store = .untouched ∧
    (∀ f, (runtime i).bsbom f = .untouched) ∧ (∀ f, (runtime i).lsbom f = .untouched) ∧ (runtime i).exit ≠ 100 := by
  obtain ⟨h1, h2⟩ := runtime_closed_shape i hg
  cases hp : phaseEntered i
  · obtain ⟨c, hc0, hc100, hr⟩ := h1 hp
    rw [hr]; simp [exitEarly, hc0, hc100]
  · obtain ⟨k, hr⟩ := h2 hp
    rw [hr]; simp [finish, Eff.none, Gen.exit_GENERIC_UNSPECIFIED_ERROR]

/-- **M3-env.** *Missing mandatory environment, whatever the rest of the environment holds.* If any one of
CNB_BUILDPACK_DIR, CNB_TARGET_OS, CNB_TARGET_ARCH, CNB_TARGET_DISTRO_NAME, CNB_TARGET_DISTRO_VERSION is not provided (unset, or
not Unicode), then — for **every** value of every other variable (`linux`, `windows`, the empty string, anything), every
executable name, argument count, descriptor, behaviour and pre-existing state — neither detect nor build code runs, the exit
status is neither 0 nor 100, `on_error` is called at most once, and no output path is touched. The only hypothesis is about
the missing variable itself. -/
theorem mandatory_variable_missing (i : Invocation P L S D) (hm : mandatoryPresent i.vars = false) :
    (runtime i).detectRan = false ∧ (runtime i).buildRan = false ∧ (runtime i).exit ≠ 0 ∧ (runtime i).exit ≠ 100 ∧
    (runtime i).plan = .untouched ∧ (runtime i).launch = .untouched ∧ (runtime i).store = .untouched ∧
    (∀ f, (runtime i).bsbom f = .untouched) ∧ (∀ f, (runtime i).lsbom f = .untouched) := by
  have hg : gateOpen i = false := by simp [gateOpen, hm]
  obtain ⟨a, b, c, d, e, f, g, h, k⟩ := gatekeeping i hg
  exact ⟨a, b, c, k, d, e, f, g, h⟩

/-- **M3-env, the unset case spelled out.** One of the five mandatory variables is unset: the conclusion of
`mandatory_variable_missing`, with no condition whatsoever on the values of the others. -/
theorem mandatory_variable_unset (i : Invocation P L S D)
    (hm : i.vars.bpDir = none ∨ i.vars.os = none ∨ i.vars.arch = none ∨ i.vars.dname = none ∨ i.vars.dver = none) :
    (runtime i).detectRan = false ∧ (runtime i).buildRan = false ∧ (runtime i).exit ≠ 0 ∧ (runtime i).exit ≠ 100 ∧
    (runtime i).plan = .untouched ∧ (runtime i).launch = .untouched ∧ (runtime i).store = .untouched ∧
    (∀ f, (runtime i).bsbom f = .untouched) ∧ (∀ f, (runtime i).lsbom f = .untouched) := by
  apply mandatory_variable_missing
  rcases hm with h | h | h | h | h <;> simp [mandatoryPresent, targetPresent, provided, h]

/-- **M3-env, the handler.** With the phase determined (supported API, `detect` / `build` with the right argument count, the
buildpack directory provided) a target variable that is not provided is an error of that phase: `on_error` is called exactly
once, the exit status is neither 0 nor 100, detect / build code is not reached and nothing is written — again for every
value of the variables that *are* set. -/
theorem target_variable_missing_is_an_error (i : Invocation P L S D) (hp : phaseEntered i = true)
    (ht : targetPresent i.vars = false) :
    (runtime i).onError = 1 ∧ (runtime i).exit ≠ 0 ∧ (runtime i).exit ≠ 100 ∧
    (runtime i).detectRan = false ∧ (runtime i).buildRan = false ∧
    (runtime i).plan = .untouched ∧ (runtime i).launch = .untouched ∧ (runtime i).store = .untouched ∧
    (∀ f, (runtime i).bsbom f = .untouched) ∧ (∀ f, (runtime i).lsbom f = .untouched) := by
  have hg : gateOpen i = false := by simp [gateOpen, mandatoryPresent, ht]
  obtain ⟨k, hr⟩ := (runtime_closed_shape i hg).2 hp
  rw [hr]; simp [finish, Eff.none, Gen.exit_GENERIC_UNSPECIFIED_ERROR]

/-- **M3-values.** The outcome depends on the environment only through *which* variables are provided, never through what
they hold: forgetting every value (`canonVars`: a provided variable becomes the empty text, anything else becomes unset)
leaves the outcome of every invocation unchanged. In particular no value of CNB_TARGET_OS (or of any other variable) can make
a missing variable acceptable or a provided one unacceptable. -/
theorem outcome_independent_of_values (i : Invocation P L S D) :
    runtime { i with vars := canonVars i.vars } = runtime i := by
  have hct := contextTarget_canon i.vars
  have hbw : ∀ e r, buildWrites { i with vars := canonVars i.vars } e r = buildWrites i e r := fun _ _ => rfl
  unfold runtime apiCheck detectPhase buildPhase
  simp only [hct, hbw]
  rcases readBuildpackDir_canon i.vars with ⟨k, h1, h2⟩ | ⟨a, b, h1, h2⟩ <;> simp only [h1, h2]

/-! ## M4 — the error handler -/

/-- **M4a.** `on_error` is never called more than once, whatever the invocation. -/
theorem on_error_at_most_once (i : Invocation P L S D) : (runtime i).onError ≤ 1 := by
  have hf : ∀ r : Eff P L S D × Except ErrKind Int, (finish r).onError ≤ 1 := by
    intro r; unfold finish; split <;> simp
  unfold runtime
  split
  · simp [exitEarly]
  · split
    · split
      · exact hf _
      · simp [exitEarly]
    · split
      · exact hf _
      · simp [exitEarly]
    · simp [exitEarly]

/-- **M4b.** When the exit status is 0 or 100, `on_error` was not called. -/
theorem no_on_error_when_exit_0_or_100 (i : Invocation P L S D) (h : (runtime i).exit = 0 ∨ (runtime i).exit = 100) :
    (runtime i).onError = 0 := by
  have hf : ∀ r : Eff P L S D × Except ErrKind Int, ((finish r).exit = 0 ∨ (finish r).exit = 100) → (finish r).onError = 0 := by
    intro r; unfold finish; split <;> simp [Gen.exit_GENERIC_UNSPECIFIED_ERROR]
  revert h
  unfold runtime
  split
  · simp [exitEarly]
  · split
    · split
      · exact hf _
      · simp [exitEarly]
    · split
      · exact hf _
      · simp [exitEarly]
    · simp [exitEarly]

/-- **M1e.** The build plan is written *only* when the executable ran as `detect` behind open gates and detection passed
with a plan — and then with exactly that plan. -/
theorem plan_written_only_when_passed_with_plan (i : Invocation P L S D) (p : P) (h : (runtime i).plan = .written p) :
    i.exe = .detect ∧ gateOpen i = true ∧ i.dbeh = .passPlan p := by
  cases hg : gateOpen i
  · have := (gatekeeping i hg).2.2.2.1
    rw [this] at h; cases h
  · obtain ⟨ok, hdesc, hbp, hct, hex⟩ := gateOpen_cases i hg
    rcases hex with ⟨hexe, hn⟩ | ⟨hexe, hn⟩
    · refine ⟨hexe, rfl, ?_⟩
      cases he : detectError i
      · cases hb : i.dbeh with
        | pass => rw [(detect_pass_without_plan i hg hexe he hb).2.1] at h; cases h
        | fail => rw [(detect_fail i hg hexe he hb).2.1] at h; cases h
        | err => simp [detectError, hb] at he
        | passPlan q =>
          rw [(detect_pass_with_plan i q hg hexe he hb).2.1] at h
          cases h; rfl
      · rw [(detect_error i hg hexe he).2.2.2] at h; cases h
    · exfalso
      cases he : buildError i
      · cases hb : i.bbeh with
        | ok r => rw [(build_ok i r hg hexe he hb).2.2.2.2.2.2.2] at h; cases h
        | err => simp [buildError, hb] at he
        | layerErr => simp [buildError, hb] at he
      · -- an erroring build never touches the plan path
        have : (runtime i).plan = .untouched := build_plan_untouched i hexe
        rw [this] at h; cases h

/-- **M4c.** The phases are exclusive: run as `detect` the build code never runs, and conversely. -/
theorem phases_exclusive (i : Invocation P L S D) :
    (i.exe = .detect → (runtime i).buildRan = false) ∧ (i.exe = .build → (runtime i).detectRan = false) := by
  constructor
  · intro hexe; exact detect_never_builds i hexe
  · intro hexe; exact build_never_detects i hexe

/-! ## The decision table -/

/-- **Table.** For every invocation the model's outcome satisfies every line of the decision table
`Spec.checks` (the same table the harness evaluates on the real executable's observations). -/
theorem runtime_meets_table [DecidableEq P] [DecidableEq L] [DecidableEq S] [DecidableEq D]
    (i : Invocation P L S D) : Meets i (runtime i) := by
  unfold Meets checks
  have h1 := on_error_at_most_once i
  have h2 := no_on_error_when_exit_0_or_100 i
  have h3 := plan_written_only_when_passed_with_plan i
  intro c hc
  simp only [List.mem_append, List.mem_cons, List.not_mem_nil, or_false] at hc
  rcases hc with (rfl | rfl | rfl) | hc
  · simpa using h1
  · by_cases h : (runtime i).exit = 0 ∨ (runtime i).exit = 100
    · simp [h, h2 h]
    · simp [h]
  · cases hp : (runtime i).plan with
    | untouched => rfl
    | other => exact absurd hp (plan_never_other i)
    | written p =>
      obtain ⟨a, b, c⟩ := h3 p hp
      simp [a, b, c]
  · cases hg : gateOpen i
    · obtain ⟨g1, g2, g3, _, g5, g6, g7, g8, g9⟩ := gatekeeping i hg
      simp only [hg, Bool.not_false, if_true, List.mem_append, List.mem_cons, List.not_mem_nil, or_false] at hc
      rcases hc with (rfl | rfl | rfl | rfl | rfl | rfl | rfl) | hc
      · simp [g1]
      · simp [g2]
      · simp [g3]
      · simp [g5]
      · simp [g6]
      · simp [g7, Fmt.all]
      · simp [g8, Fmt.all]
      · cases hp : phaseEntered i
        · simp [hp] at hc
        · have ht : targetPresent i.vars = false := by
            have hp' := hp
            simp only [phaseEntered, Bool.and_eq_true] at hp'
            obtain ⟨⟨ha, hb⟩, hc'⟩ := hp'
            simpa [gateOpen, mandatoryPresent, ha, hb, hc'] using hg
          obtain ⟨e1, e2, e3, _⟩ := target_variable_missing_is_an_error i hp ht
          simp only [hp, if_true, List.mem_cons, List.not_mem_nil, or_false] at hc
          rcases hc with rfl | rfl <;> simp [e1, e2, e3]
    · simp only [hg, Bool.not_true, Bool.false_eq_true, if_false] at hc
      rw [List.mem_append] at hc
      rcases hc with hc | hc
      · cases hw : writeFault i
        · simp [hw] at hc
        · obtain ⟨w1, w2, w3⟩ := write_fault_is_an_error i hg hw
          simp only [hw, if_true, List.mem_cons, List.not_mem_nil, or_false] at hc
          rcases hc with rfl | rfl <;> simp [w1, w2, w3]
      obtain ⟨ok, hdesc, hbp, hct, hex⟩ := gateOpen_cases i hg
      rcases hex with ⟨hexe, hn⟩ | ⟨hexe, hn⟩
      · simp only [hexe, List.mem_append, List.mem_cons, List.not_mem_nil, or_false] at hc
        rcases hc with rfl | hc
        · simp [(phases_exclusive i).1 hexe]
        · cases he : detectError i
          · simp only [he, Bool.false_eq_true, if_false] at hc
            cases hb : i.dbeh with
            | pass =>
              obtain ⟨a, b, c, _⟩ := detect_pass_without_plan i hg hexe he hb
              simp [hb] at hc; rcases hc with rfl | rfl | rfl <;> simp [a, b, c]
            | fail =>
              obtain ⟨a, b, c, _⟩ := detect_fail i hg hexe he hb
              simp [hb] at hc; rcases hc with rfl | rfl | rfl <;> simp [a, b, c]
            | err => simp [hb] at hc
            | passPlan q =>
              obtain ⟨a, b, c, _⟩ := detect_pass_with_plan i q hg hexe he hb
              simp [hb] at hc; rcases hc with rfl | rfl | rfl <;> simp [a, b, c]
          · obtain ⟨a, b, c, _⟩ := detect_error i hg hexe he
            simp [he] at hc; rcases hc with rfl | rfl <;> simp [a, b, c]
      · simp only [hexe, List.mem_append, List.mem_cons, List.not_mem_nil, or_false] at hc
        rcases hc with rfl | hc
        · simp [(phases_exclusive i).2 hexe]
        · cases he : buildError i
          · simp only [he, Bool.false_eq_true, if_false] at hc
            cases hb : i.bbeh with
            | ok r =>
              obtain ⟨a, b, c, d, e, f, g, _⟩ := build_ok i r hg hexe he hb
              simp [hb] at hc
              rcases hc with rfl | rfl | rfl | rfl | rfl | rfl <;> simp [a, b, c, d, e, f, g, exactly, Fmt.all]
            | err => simp [hb] at hc
            | layerErr => simp [hb] at hc
          · obtain ⟨a, b⟩ := build_error i hg hexe he
            simp [he] at hc; rcases hc with rfl | rfl <;> simp [a, b]

/-! ## Non-vacuity: the hypotheses above are met by concrete, non-trivial invocations -/

/-- an invocation with every gate open and no error source; payload types are `Nat` -/
def sample (exe : Exe) (nargs : Nat) (dbeh : DetectBeh Nat) (bbeh : BuildBeh Nat Nat Nat) : Invocation Nat Nat Nat Nat :=
  { exe := exe, nargs := nargs, desc := .api 0 10 true, vars := ⟨some (.text "/cnb/bp"), some (.text "windows"), some (.text ""), none, some (.text "ubuntu"), some (.text "24.04")⟩, cwdOk := true,
    plat := .noEnv, planIn := .ok, dbeh := dbeh, bbeh := bbeh, planPre := .file, launchPre := .file, storePre := .valid,
    bPre := fun f => if f = .syft then .dir else .file, lPre := fun _ => .absent }

example : gateOpen (sample .detect 2 (.passPlan 7) .err) = true ∧ detectError (sample .detect 2 (.passPlan 7) .err) = false := by decide
example : (runtime (sample .detect 2 (.passPlan 7) .err)).plan = .written 7 := by decide
example : (runtime (sample .detect 2 .fail .err)).exit = 100 := by decide
example : detectError { sample .detect 2 (.passPlan 7) .err with planPre := .dir } = true := by decide
example : (runtime { sample .detect 2 (.passPlan 7) .err with planPre := .dir }).onError = 1 := by decide
example : writeFault { sample .detect 2 (.passPlan 7) .err with planPre := .writeFails } = true ∧
    (runtime { sample .detect 2 (.passPlan 7) .err with planPre := .writeFails }).onError = 1 ∧
    (runtime { sample .detect 2 (.passPlan 7) .err with planPre := .writeFails }).exit = 1 ∧
    (runtime { sample .detect 2 (.passPlan 7) .err with planPre := .writeFails }).errKind = some .writePlan := by decide
/-- a plan path that cannot be written is no fault when no plan is to be written -/
example : writeFault { sample .detect 2 .pass .err with planPre := .writeFails } = false ∧
    (runtime { sample .detect 2 .pass .err with planPre := .writeFails }).exit = 0 := by decide
/-- a build result with a repeated format, next to a blocked path of a format that is *not* provided -/
def sampleResult : BuildOk Nat Nat Nat := ⟨some 1, none, [(.cdx, 10), (.spdx, 11), (.cdx, 12)], [(.syft, 13)]⟩
example : gateOpen (sample .build 3 .pass (.ok sampleResult)) = true ∧ buildError (sample .build 3 .pass (.ok sampleResult)) = false := by decide
example : (runtime (sample .build 3 .pass (.ok sampleResult))).bsbom .cdx = .written 12 ∧
    (runtime (sample .build 3 .pass (.ok sampleResult))).bsbom .syft = .untouched ∧
    (runtime (sample .build 3 .pass (.ok sampleResult))).store = .untouched := by decide
example : buildError (sample .build 3 .pass (.ok { sampleResult with bsboms := [(.cdx, 1), (.syft, 2)] })) = true := by decide
/-- the write of the launch SBOM (the last output) fails after everything else was written; the store's fault appears after it was read -/
example : writeFault { sample .build 3 .pass (.ok sampleResult) with lPre := fun f => if f = .syft then .writeFails else .file } = true ∧
    (runtime { sample .build 3 .pass (.ok sampleResult) with lPre := fun f => if f = .syft then .writeFails else .file }).errKind = some .writeLaunchSbom ∧
    (runtime { sample .build 3 .pass (.ok sampleResult) with lPre := fun f => if f = .syft then .writeFails else .file }).launch = .written 1 := by decide
example : (runtime { sample .build 3 .pass (.ok { sampleResult with store := some 5 }) with storePre := .writeFails }).errKind = some .writeStore ∧
    (runtime { sample .build 3 .pass (.ok sampleResult) with storePre := .writeFails }).exit = 0 := by decide
example : gateOpen (sample .other 2 .pass .err) = false ∧ gateOpen (sample .detect 3 .pass .err) = false ∧
    gateOpen { sample .build 3 .pass .err with desc := .api 0 9 true } = false ∧
    gateOpen { sample .build 3 .pass .err with vars := ⟨some (.text "/cnb/bp"), some (.text "windows"), some (.text "amd64"), some (.text "v3"), none, some (.text "")⟩ } = false ∧
    gateOpen { sample .build 3 .pass .err with vars := ⟨some (.text "/cnb/bp"), some (.raw [255]), some (.text "amd64"), none, some (.text "x"), some (.text "")⟩ } = false := by decide
/-- the hypotheses of the M3-env theorems are met with CNB_TARGET_OS = `windows` and a distro variable unset -/
def sampleWindowsNoDistro : Invocation Nat Nat Nat Nat :=
  { sample .detect 2 (.passPlan 7) .err with vars := ⟨some (.text "/cnb/bp"), some (.text "windows"), some (.text "amd64"), none, none, some (.text "")⟩ }
example : phaseEntered sampleWindowsNoDistro = true ∧ targetPresent sampleWindowsNoDistro.vars = false ∧
    mandatoryPresent sampleWindowsNoDistro.vars = false := by decide
example : (runtime sampleWindowsNoDistro).onError = 1 ∧ (runtime sampleWindowsNoDistro).exit = 1 ∧
    (runtime sampleWindowsNoDistro).detectRan = false ∧ (runtime sampleWindowsNoDistro).errKind = some .distroName := by decide

end CnbVerif.C05
