import CnbVerif.Lemmas.UriRoundTrip
/-!
# C14 — composite package descriptors are normalised without losing dependencies

Property theorems only. Model: `Model/PkgDescriptor.lean` — `packageDescriptor` = `package_composite_buildpack` from
the text of the original `package.toml` to the text of the written one: `readDescriptor` (every URI text through its
uriparse round trip), then `normalizeDescriptor` = `normalize_package_descriptor` (`replace_libcnb_uris`, then
`absolutize_dependency_paths` with `absolutize_path` / `normalize_path`). Specification: `Spec/PathDenote.lean`
(`kindOf` classifies a dependency URI from RFC 3986 scheme syntax, `denote` / `denoteFrom` say which directory a path
denotes, `dotFree`, `isAbsolute`, `idOk`, the spelling classes `authorityEmptyPath`, `schemeHasUpper`).

Throughout, `paths` is the id → packaged-location map, `parent` the directory holding the original `package.toml`,
`libcnb:<id>` is the text `libcnbScheme ++ ':' :: id`. Hypotheses where needed: the packaged locations are absolute
(`PathsAbsolute`, what both callers supply), `parent` is absolute, `libcnb:` references carry no authority
(`NoLibcnbAuthority`, DESIGN boundary).

**Known finding C14-authority-empty-path.** "Every other URI is copied verbatim" does not hold for the code: a URI with
an authority and an empty path gains a `/` (`docker://docker.io` ↦ `docker://docker.io/`) and a scheme from uriparse's
registry is printed in lower case (`HTTP://h/x` ↦ `http://h/x`). `FullStatement` keeps the full claim,
`full_statement_counterexample` refutes it on the model (the same witness the harness replays on the code), and
`others_verbatim_partial` / `buildpack_uri_preserved_partial` prove it outside exactly that class (`RoundTripChanges`).
-/
namespace CnbVerif.C14
open CnbVerif.Chars CnbVerif.PkgDescriptor CnbVerif.Spec.PathDenote

/-- every packaged location in the map is an absolute path -/
def PathsAbsolute (paths : Str → Option Str) : Prop := ∀ id p, paths id = some p → isAbsolute p = true

/-- no `libcnb:` reference of the descriptor has an authority part (`libcnb://…`) -/
def NoLibcnbAuthority (d : Descriptor) : Prop :=
  ∀ dep ∈ d.deps, ∀ id, kindOf dep = .libcnb id → hasAuthority dep = false

/-- the dependency at a position after reading: its round trip -/
theorem read_index {d : Descriptor} {i : Nat} {dep : Str} (h : d.deps[i]? = some dep) :
    (readDescriptor d).deps[i]? = some (roundTrip dep) := by
  simp [readDescriptor, List.getElem?_map, h]

/-- **M1a `libcnb_replaced`.** When packaging succeeds, the dependency at every position that was `libcnb:<id>` is
exactly the packaged location of that id — same position, not left in place, not dropped. -/
theorem libcnb_replaced (paths : Str → Option Str) (parent : Str) (d out : Descriptor) (hp : PathsAbsolute paths)
    (hna : NoLibcnbAuthority d) (h : packageDescriptor paths parent d = .ok out) (i : Nat) (dep id : Str)
    (hd : d.deps[i]? = some dep) (hk : kindOf dep = .libcnb id) :
    ∃ p, paths id = some p ∧ out.deps[i]? = some p := by
  have hmem : dep ∈ d.deps := List.mem_of_getElem? hd
  have hauth := hna dep hmem id hk
  obtain ⟨rfl, _⟩ := kindOf_libcnb hk
  have hr := read_index hd
  rw [roundTrip_libcnb hauth] at hr
  exact Core.libcnb_replaced paths parent (readDescriptor d) out hp h i _ id hr hk

/-- **M1b `error_iff`.** Packaging fails in the normaliser exactly when some dependency is a `libcnb:` reference whose
id is invalid or has no packaged location; there is no other error and such a reference is never skipped. -/
theorem error_iff (paths : Str → Option Str) (parent : Str) (d : Descriptor) (hna : NoLibcnbAuthority d) :
    (∃ e, packageDescriptor paths parent d = .error e) ↔
      ∃ dep ∈ d.deps, ∃ id, kindOf dep = .libcnb id ∧ (idOk id = false ∨ paths id = none) := by
  unfold packageDescriptor
  rw [Core.error_iff]
  constructor
  · rintro ⟨dep', hd', id, hk, hid⟩
    obtain ⟨dep, hd, rfl⟩ := List.mem_map.1 (by simpa [readDescriptor] using hd')
    obtain ⟨e, _⟩ := kindOf_libcnb hk
    have : dep = libcnbScheme ++ ':' :: id :=
      roundTrip_eq_libcnb e (fun id' e' => hna dep hd id' (by rw [e']; exact kindOf_libcnb_text id'))
    exact ⟨dep, hd, id, by rw [this]; exact kindOf_libcnb_text id, hid⟩
  · rintro ⟨dep, hd, id, hk, hid⟩
    have hauth := hna dep hd id hk
    obtain ⟨rfl, _⟩ := kindOf_libcnb hk
    refine ⟨_, ?_, id, hk, hid⟩
    have : roundTrip (libcnbScheme ++ ':' :: id) ∈ (readDescriptor d).deps := by
      simp only [readDescriptor]
      exact List.mem_map.2 ⟨_, hd, rfl⟩
    rwa [roundTrip_libcnb hauth] at this

/-- **M1c.** The error names the offending reference: a referenced id that is invalid, or valid and without a
packaged location. -/
theorem error_names_the_reference (paths : Str → Option Str) (parent : Str) (d : Descriptor) (e : Err)
    (hna : NoLibcnbAuthority d) (h : packageDescriptor paths parent d = .error e) :
    (∃ id, e = .missingPath id ∧ (libcnbScheme ++ ':' :: id) ∈ d.deps ∧ idOk id = true ∧ paths id = none) ∨
    (∃ id, e = .invalidId id ∧ (libcnbScheme ++ ':' :: id) ∈ d.deps ∧ idOk id = false) := by
  have back : ∀ id, (libcnbScheme ++ ':' :: id) ∈ (readDescriptor d).deps → (libcnbScheme ++ ':' :: id) ∈ d.deps := by
    intro id hm
    obtain ⟨dep, hd, e⟩ := List.mem_map.1 (by simpa [readDescriptor] using hm)
    have : dep = libcnbScheme ++ ':' :: id :=
      roundTrip_eq_libcnb e (fun id' e' => hna dep hd id' (by rw [e']; exact kindOf_libcnb_text id'))
    rwa [this] at hd
  rcases Core.error_names_the_reference paths parent (readDescriptor d) e h with ⟨id, h1, h2, h3⟩ | ⟨id, h1, h2, h3⟩
  · exact Or.inl ⟨id, h1, back id h2, h3⟩
  · exact Or.inr ⟨id, h1, back id h2, h3⟩

/-- **M2 `relative_denotes`.** A relative path (no scheme, no leading slash) becomes, at the same position, a path
that is absolute, dot-free and denotes the very directory the original path denotes from the directory of the original
`package.toml` — for any number of `.`, `..` and redundant separators, also when it climbs above the root. -/
theorem relative_denotes (paths : Str → Option Str) (parent : Str) (d out : Descriptor)
    (hpar : isAbsolute parent = true) (h : packageDescriptor paths parent d = .ok out) (i : Nat) (dep : Str)
    (hd : d.deps[i]? = some dep) (hk : kindOf dep = .relative) :
    ∃ o, out.deps[i]? = some o ∧ isAbsolute o = true ∧ dotFree o = true ∧
      denote o = denoteFrom (denote parent) dep := by
  have hr := read_index hd
  rw [roundTrip_schemeless (kindOf_relative hk).1] at hr
  exact Core.relative_denotes paths parent (readDescriptor d) out hpar h i dep hr hk

/-- **M2 (idempotent).** The path produced for a relative reference is a fixed point of `normalize_path`, and
absolutising it again, from any directory, leaves it unchanged. -/
theorem relative_idempotent (path parent parent' : Str) (hrel : isAbsolute path = false)
    (hpar : isAbsolute parent = true) :
    normalizePath (absolutizePath path parent) = absolutizePath path parent ∧
      absolutizePath (absolutizePath path parent) parent' = absolutizePath path parent :=
  Core.relative_idempotent path parent parent' hrel hpar

/-- The full claim "every other URI and the buildpack URI are copied verbatim" — refuted below (known finding). -/
def FullStatement : Prop :=
  ∀ (paths : Str → Option Str) (parent : Str) (d out : Descriptor), packageDescriptor paths parent d = .ok out →
    out.buildpack = d.buildpack ∧
      ∀ (i : Nat) (dep : Str), d.deps[i]? = some dep → kindOf dep = .other → out.deps[i]? = some dep

/-- **M3 `others_verbatim_partial`.** Every other URI — any scheme but `libcnb` (docker, http(s), urn, …) or an absolute
path — is copied verbatim, at the same position, unless it belongs to the class of the known finding: an authority
followed by an empty path, or a scheme of uriparse's registry spelled with an upper-case letter (`RoundTripChanges`).
Missing for the full statement: exactly that class, where the code does change the text (see the counterexample). -/
theorem others_verbatim_partial (paths : Str → Option Str) (parent : Str) (d out : Descriptor)
    (h : packageDescriptor paths parent d = .ok out) (i : Nat) (dep : Str)
    (hd : d.deps[i]? = some dep) (hk : kindOf dep = .other) (hst : RoundTripChanges dep = false) :
    out.deps[i]? = some dep := by
  have hr := read_index hd
  rw [roundTrip_stable hst] at hr
  exact Core.others_verbatim paths parent (readDescriptor d) out h i dep hr hk

/-- **M4b `buildpack_uri_preserved_partial`.** The buildpack URI is preserved, outside the same class. -/
theorem buildpack_uri_preserved_partial (paths : Str → Option Str) (parent : Str) (d out : Descriptor)
    (h : packageDescriptor paths parent d = .ok out) (hst : RoundTripChanges d.buildpack = false) :
    out.buildpack = d.buildpack := by
  have := (Core.shape_preserved paths parent (readDescriptor d) out h).2.1
  rw [this]
  exact roundTrip_stable hst

/-- the witness of the known finding: one `docker://` reference without a path -/
def findingWitness : Descriptor := ⟨".".toList, ["docker://docker.io".toList], "linux".toList⟩

/-- **The counterexample (known finding C14-authority-empty-path).** The full statement is false for the code as
modelled: `docker://docker.io` is of kind `other` and comes out as `docker://docker.io/`. -/
theorem full_statement_counterexample : ¬ FullStatement := by
  intro hfull
  have hrun : packageDescriptor (fun _ => none) "/ws".toList findingWitness =
      .ok ⟨".".toList, ["docker://docker.io/".toList], "linux".toList⟩ := by rfl
  have := (hfull _ _ _ _ hrun).2 0 "docker://docker.io".toList rfl (by decide +kernel)
  exact absurd this (by decide +kernel)

/-- **M4a `shape_preserved`.** Number (and, by the position-wise theorems, order) of dependencies and the platform are
preserved. -/
theorem shape_preserved (paths : Str → Option Str) (parent : Str) (d out : Descriptor)
    (h : packageDescriptor paths parent d = .ok out) :
    out.deps.length = d.deps.length ∧ out.platform = d.platform := by
  obtain ⟨h1, _, h3⟩ := Core.shape_preserved paths parent (readDescriptor d) out h
  exact ⟨by simpa [readDescriptor] using h1, h3⟩

/-- **Every dependency is of one of the three kinds treated above** (so the position-wise theorems cover every
position). -/
theorem kinds_exhaustive (dep : Str) :
    (∃ id, kindOf dep = .libcnb id) ∨ kindOf dep = .relative ∨ kindOf dep = .other :=
  Core.kinds_exhaustive dep

/-- **M5 (in place of `reparses`, URI level) `result_is_settled`.** In the result no `libcnb:` reference and no
relative path is left: every dependency is of kind `other`, and normalising the result again — from any other
location and with any other map — returns it unchanged. (That the written TOML text parses again is observed in the
correspondence, not proved: the TOML writer is outside the model.) -/
theorem result_is_settled (paths : Str → Option Str) (parent : Str) (d out : Descriptor) (hp : PathsAbsolute paths)
    (hpar : isAbsolute parent = true) (h : packageDescriptor paths parent d = .ok out) :
    (∀ o ∈ out.deps, kindOf o = .other) ∧
      ∀ (paths' : Str → Option Str) (parent' : Str), normalizeDescriptor paths' parent' out = .ok out :=
  Core.result_is_settled paths parent (readDescriptor d) out hp hpar h

/-! ### non-vacuity -/

def sampleMap (id : Str) : Option Str :=
  if id = "heroku/jvm".toList then some "/ws/packaged/heroku_jvm".toList else none

def sampleIn : Descriptor :=
  ⟨".".toList, ["libcnb:heroku/jvm".toList, "../..//x/./y/../z".toList, "docker://docker.io/a/b:1".toList,
     "/abs/../kept".toList, "../../../../up".toList], "linux".toList⟩

example : PathsAbsolute sampleMap := by
  intro id p h
  unfold sampleMap at h
  split at h
  · cases h; rfl
  · cases h

example : isAbsolute "/ws/src/meta".toList = true := rfl

/-- all three kinds occur in the sample, including a path climbing above the root -/
example : packageDescriptor sampleMap "/ws/src/meta".toList sampleIn =
    .ok ⟨".".toList, ["/ws/packaged/heroku_jvm".toList, "/ws/x/z".toList, "docker://docker.io/a/b:1".toList,
      "/abs/../kept".toList, "/up".toList], "linux".toList⟩ := by rfl

example : NoLibcnbAuthority sampleIn := by
  intro dep hd id hk
  simp only [sampleIn, List.mem_cons, List.not_mem_nil, or_false] at hd
  rcases hd with rfl | rfl | rfl | rfl | rfl
  · decide +kernel
  · have hk' : kindOf "../..//x/./y/../z".toList = .relative := by decide +kernel
    rw [hk'] at hk; cases hk
  · have hk' : kindOf "docker://docker.io/a/b:1".toList = .other := by decide +kernel
    rw [hk'] at hk; cases hk
  · have hk' : kindOf "/abs/../kept".toList = .other := by decide +kernel
    rw [hk'] at hk; cases hk
  · have hk' : kindOf "../../../../up".toList = .relative := by decide +kernel
    rw [hk'] at hk; cases hk

/-- the class excluded by the partial theorems is not everything: ordinary URIs are outside it … -/
example : RoundTripChanges "docker://docker.io/a/b:1".toList = false := by decide +kernel
example : RoundTripChanges "https://example.com/bp.tgz?x=1".toList = false := by decide +kernel
example : RoundTripChanges "Docker://x".toList = true := by decide +kernel
/-- … and the witness of the finding is inside it -/
example : RoundTripChanges "docker://docker.io".toList = true := by decide +kernel
example : RoundTripChanges "HTTP://h/x".toList = true := by decide +kernel

example : kindOf "libcnb:heroku/jvm".toList = .libcnb "heroku/jvm".toList := by decide
example : kindOf "../..//x/./y/../z".toList = .relative := by decide
example : kindOf "docker://docker.io/a/b:1".toList = .other := by decide

example : packageDescriptor sampleMap "/ws".toList ⟨".".toList, ["libcnb:nope".toList], "linux".toList⟩ =
    .error (.missingPath "nope".toList) := by rfl

example : packageDescriptor sampleMap "/ws".toList ⟨".".toList, ["libcnb:app".toList], "linux".toList⟩ =
    .error (.invalidId "app".toList) := by rfl

end CnbVerif.C14
