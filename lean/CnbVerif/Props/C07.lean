import CnbVerif.Lemmas.Written
import CnbVerif.Lemmas.BuilderSeq
import CnbVerif.Lemmas.LayerFiles
import CnbVerif.Spec.CnbSchemas
/-!
# C07 — written TOML decodes under an independent reader to the intended spec document

Property theorems only. Model: the builders (`Model/Builders.lean`, folds in the code's order) and the serde-derive
writer `encode` (`Base/Schema.lean`) applied to the schemas regenerated from /repo (`Gen/Schemas.lean`: renames,
`skip_serializing_if`, the custom `WorkingDirectory` serialiser). Specification: what a call sequence is meant to
construct (`Spec/Written.lean`) and a reader applying the CNB field names and defaults (`decode` under
`Spec/CnbSchemas.lean`). The TOML *text* layer (the `toml` crate's printer) is not modelled: it is sampled by the
correspondence with Python's `tomllib` as the independent parser.
-/
namespace CnbVerif.C07
open CnbVerif CnbVerif.Codec CnbVerif.Cnb CnbVerif.Builders CnbVerif.Spec.Written

/-- **M1 (generic round trip).** Whatever value of a written schema's type is encoded, a reader whose schema is
related to the writer's by `wrOK` (same keys and kinds; every key the writer may leave out — `skip_serializing_if`,
`None` — is one the reader defaults to exactly the value left out) decodes the written tree to that value. -/
theorem written_is_read_back (w r : Schema) (v : Val) (hwr : wrOK w r = true) (hv : hasType w v = true) :
    ∃ t, encode w v = some t ∧ decode r t = .ok v := roundtrip w r v hwr hv

/-- the written schema regenerated from the code is read back by the specification's schema of the same document -/
def readBySpec (p : String × Schema) : Bool :=
  match Gen.written.lookup p.1 with
  | some g => wrOK g p.2
  | none => false

/-- the documents of the specification that libcnb writes -/
def writtenDocs : List (String × Schema) :=
  Spec.Cnb.docs.filter (fun p => ["Label", "Process", "Slice", "Launch", "Provide", "Require", "Or", "BuildPlan", "LayerTypes",
    "LayerContentMetadata", "Store", "ExecDProgramOutput", "PackageDescriptorBuildpackReference", "PackageDescriptorDependency",
    "Platform", "PackageDescriptor"].contains p.1)

/-- **M4 (renames, skip-if-default, custom serialiser — from the regenerated schemas).** For every document libcnb
writes — launch.toml (processes, labels, slices), build plan (provides / requires / or), layer content metadata
(`[types]`, metadata), store.toml, exec.d output, package.toml — the keys the code writes are the specification's keys, and
every key the code leaves out (`Vec::is_empty`, `Not::not`, `WorkingDirectory::is_app`, `None`) is one the
specification defaults to the value left out. A changed `rename`, a dropped or wrong `skip_serializing_if`, or an `App`
working directory written as `"."` makes this fail. -/
theorem gen_written_read_by_spec : writtenDocs.all readBySpec = true := by decide

/-- **M3 (libcnb's own reader).** Every type libcnb both writes and reads is read back by its own schema. -/
theorem gen_written_read_by_own_reader :
    (Gen.written.filter (fun p => (Gen.readable.lookup p.1).isSome)).all (fun p => wrOK p.2 p.2) = true := by decide

/-- **M2 (`buildplan_groups`).** For every sequence of `provides` / `requires` / `or` calls, `BuildPlanBuilder::build`
yields the split of the sequence at `or`: first group at top level, the others in order under `or`, empty groups kept. -/
theorem buildplan_groups (ops : List PlanOp) : buildPlan ops = intendedPlan (ops.map toCall) := buildPlan_eq ops

/-- The full claim for `Require::metadata`: the require carries the metadata table it was given. It does **not** hold on
the current tree: a TOML datetime anywhere in the table is written as the table `{ "$__toml_private_datetime" = "…" }`
(`require_metadata_datetime_counterexample`). -/
def FullStatementRequireMetadata : Prop := ∀ (name : String) (t : Table), requireWithMetadata name t = ⟨name, t⟩

/-- **M2c (`Require::metadata`), partial: metadata tables without a datetime** (strings, integers, floats, booleans,
arrays and tables nested to any depth) are carried verbatim. -/
theorem require_metadata_partial (name : String) (t : Table) (h : noDtKVs t = true) : requireWithMetadata name t = ⟨name, t⟩ := by
  simp only [requireWithMetadata, privDtKVs_of_noDt t h]

/-- **M2c, repeated `metadata` calls, partial (tables without a datetime):** `Require::new(name)` followed by any number
of `metadata(..)` calls carries the table given last; without a call (also `requires("name")`) the empty table. -/
theorem require_metadata_calls_partial (name : String) (tables : List Table) (h : ∀ t ∈ tables, noDtKVs t = true) :
    requireSeq name tables = intendedRequire name tables := by
  unfold requireSeq intendedRequire
  rw [requireSeq_fold, map_privDtKVs_of_noDt tables h]

/-- The finding that keeps `FullStatementRequireMetadata` from holding (reproduced on the real builder). -/
theorem require_metadata_datetime_counterexample :
    requireWithMetadata "x" [("when", .dt "1979-05-27")] = ⟨"x", [("when", .tbl [("$__toml_private_datetime", .str "1979-05-27")])]⟩ ∧
    ¬ FullStatementRequireMetadata := by
  refine ⟨rfl, fun h => ?_⟩
  have := h "x" [("when", .dt "1979-05-27")]
  simp [requireWithMetadata, privDtKVs, privDt] at this

/-- **M2b (launch builders).** `LaunchBuilder` keeps processes, labels and slices each in call order;
`ProcessBuilder` keeps type and command, concatenates all `arg`/`args` in call order, and takes the last `default` and
the last `working_directory` (else `false` / the app directory). -/
theorem launch_builder_calls (ops : List LaunchOp) : buildLaunch ops = intendedLaunch (ops.map toLCall) := buildLaunch_eq ops

/-- **M2e (`build()` anywhere, ProcessBuilder).** `ProcessBuilder` is non-consuming: for every call sequence with any
number of `build()` calls at any positions (and the one at the end), the processes built are, in order, the intended
process of **all** calls made before the respective `build()` — a `build()` in between changes nothing. -/
theorem process_builder_every_build (t : String) (c : List String) (ops : List (SeqOp ProcOp)) :
    procSession t c ops = intendedBuilds (intendedProc t c) (ops.map (toStep toPCall) ++ [Step.build]) := procSession_eq t c ops

/-- **M2f (`build()` anywhere, LaunchBuilder).** For every call sequence over the whole surface of `LaunchBuilder`
(`process` fed from a `ProcessBuilder` with its own intermediate `build()`s, `processes`, `label`, `labels`, `slice`,
`slices`) with any number of `build()` calls at any positions and the one at the end, the list of `Launch` values built
is the specification's: one per `build()`, each the value of all calls made before it. -/
theorem launch_builder_every_build (ops : List (SeqOp LaunchOpX)) :
    launchSession ops = intendedLaunchDocs (ops.map (toStep toLCallX)) := launchSession_eq ops

/-- **M2f, history form.** Split the sequence (with its final `build()`) anywhere before a `build()`: that `build()` — the
`buildsIn pre`-th — returns what the configuring calls of the whole prefix `pre` are meant to construct, however many
`build()`s `pre` itself holds. In particular what was added before an earlier `build()` is in every later one. -/
theorem launch_build_returns_everything_added_so_far (ops pre post : List (SeqOp LaunchOpX))
    (h : ops ++ [SeqOp.build] = pre ++ SeqOp.build :: post) :
    (launchSession ops)[buildsIn pre]? = some (intendedLaunchX ((callsOf pre).map toLCallX)) := by
  unfold launchSession
  rw [h, runSeq_prefix, launchX_eq]

/-- **M2f, later builds contain earlier content.** Of two `build()`s of one `LaunchBuilder`, the later one returns the
labels, processes and slices of the earlier one, in the same order, followed by what was added in between; with nothing
added in between (`build()` twice in a row, or only `build()`s in between) the two values are equal. -/
theorem launch_later_build_extends_earlier (pre mid post : List (SeqOp LaunchOpX)) :
    ∃ a b, (launchSession (pre ++ SeqOp.build :: (mid ++ SeqOp.build :: post)))[buildsIn pre]? = some a ∧
      (launchSession (pre ++ SeqOp.build :: (mid ++ SeqOp.build :: post)))[buildsIn pre + 1 + buildsIn mid]? = some b ∧
      (∃ ls ps ss, b = ⟨a.labels ++ ls, a.processes ++ ps, a.slices ++ ss⟩) ∧ (callsOf mid = [] → b = a) := by
  refine ⟨(callsOf pre).foldl launchStepX ⟨[], [], []⟩, (callsOf pre ++ callsOf mid).foldl launchStepX ⟨[], [], []⟩, ?_, ?_, ?_, ?_⟩
  · unfold launchSession
    rw [List.append_assoc, List.cons_append, runSeq_prefix]
  · unfold launchSession
    have e : (pre ++ SeqOp.build :: (mid ++ SeqOp.build :: post)) ++ [SeqOp.build] =
        (pre ++ SeqOp.build :: mid) ++ SeqOp.build :: (post ++ [SeqOp.build]) := by simp
    have hb : buildsIn pre + 1 + buildsIn mid = buildsIn (pre ++ SeqOp.build :: mid) := by
      simp [buildsIn_append, buildsIn]; omega
    have hc : callsOf (pre ++ SeqOp.build :: mid) = callsOf pre ++ callsOf mid := by simp [callsOf_append, callsOf]
    rw [e, hb, runSeq_prefix, hc]
  · exact launch_extends (callsOf pre) (callsOf mid)
  · intro hm; rw [hm, List.append_nil]

/-- **M1 for every launch.toml of a builder.** Every `Launch` a `LaunchBuilder` hands out — at an intermediate `build()`
or at the last — is written as a tree that the specification's reader decodes to the value intended at that `build()`,
and libcnb's own reader to the value built. -/
theorem launch_every_built_document_decodes_to_constructed (ops : List (SeqOp LaunchOpX)) (i : Nat) (d : Launch)
    (hd : (launchSession ops)[i]? = some d) (hty : ∀ p ∈ d.processes, StrV.processType.valid p.type = true) :
    ∃ t, encode Gen.S.Launch d.toVal = some t ∧
      (∃ s, (intendedLaunchDocs (ops.map (toStep toLCallX)))[i]? = some s ∧ decode Spec.Cnb.launchToml t = .ok s.toVal) ∧
      decode Gen.S.Launch t = .ok d.toVal := by
  obtain ⟨t, h1, h2⟩ := roundtrip Gen.S.Launch Spec.Cnb.launchToml _ (by decide) (hasType_launch d hty)
  obtain ⟨t', h1', h2'⟩ := roundtrip Gen.S.Launch Gen.S.Launch _ (by decide) (hasType_launch d hty)
  rw [h1] at h1'; cases h1'
  exact ⟨t, h1, ⟨d, by rw [← launchSession_eq]; exact hd, h2⟩, h2'⟩

/-- **M1 for launch.toml.** For every call sequence (process types valid, as `ProcessType` guarantees) the tree libcnb
writes for the built `Launch` is decoded by the specification's reader to exactly the processes (type, command, args,
default flag, working directory), labels and slices the calls were meant to construct — and by libcnb's own reader too. -/
theorem launch_decodes_to_constructed (ops : List LaunchOp)
    (hty : ∀ p ∈ (buildLaunch ops).processes, StrV.processType.valid p.type = true) :
    ∃ t, encode Gen.S.Launch (buildLaunch ops).toVal = some t ∧
      decode Spec.Cnb.launchToml t = .ok (intendedLaunch (ops.map toLCall)).toVal ∧
      decode Gen.S.Launch t = .ok (buildLaunch ops).toVal := by
  obtain ⟨t, h1, h2⟩ := roundtrip Gen.S.Launch Spec.Cnb.launchToml _ (by decide) (hasType_launch _ hty)
  obtain ⟨t', h1', h2'⟩ := roundtrip Gen.S.Launch Gen.S.Launch _ (by decide) (hasType_launch _ hty)
  rw [h1] at h1'; cases h1'
  exact ⟨t, h1, by rw [← buildLaunch_eq]; exact h2, h2'⟩

/-- **M1 for the build plan.** For every call sequence, with arbitrary metadata tables (every TOML value kind), the
written tree is decoded by the specification's reader to exactly the intended provides / requires / or groups. -/
theorem buildplan_decodes_to_constructed (ops : List PlanOp) :
    ∃ t, encode Gen.S.BuildPlan (buildPlan ops).toVal = some t ∧
      decode Spec.Cnb.buildPlan t = .ok (intendedPlan (ops.map toCall)).toVal := by
  obtain ⟨t, h1, h2⟩ := roundtrip Gen.S.BuildPlan Spec.Cnb.buildPlan _ (by decide) (hasType_plan _)
  exact ⟨t, h1, by rw [← buildPlan_eq]; exact h2⟩

/-- **M1 for layer content metadata** (`[types]` launch / build / cache, metadata table; both optional), incl. libcnb's own reader. -/
theorem layer_metadata_decodes_to_constructed (m : LayerMeta) :
    ∃ t, encode (Gen.S.LayerContentMetadata .optionalTable) m.toVal = some t ∧
      decode Spec.Cnb.layerContentMetadata t = .ok m.toVal ∧
      decode (Gen.S.LayerContentMetadata .optionalTable) t = .ok m.toVal := by
  obtain ⟨t, h1, h2⟩ := roundtrip _ Spec.Cnb.layerContentMetadata _ (by decide) (hasType_layer m)
  obtain ⟨t', h1', h2'⟩ := roundtrip _ (Gen.S.LayerContentMetadata .optionalTable) _ (by decide) (hasType_layer m)
  rw [h1] at h1'; cases h1'
  exact ⟨t, h1, h2, h2'⟩

/-- **L1 (`layer_file_path_is_name_dot_toml`): the file libcnb uses for a layer is the one the CNB spec names.** For every
layer name (any bytes: dots anywhere, several dots, a trailing dot, …) the file the layer code reads and writes is the name's
bytes followed by `.toml` — the spec's `<layers>/<name>.toml` — and two layers have the same file exactly when they have the same
name: no layer's document can land on another layer's path (`python3.11` never on `python3.toml`). -/
theorem layer_file_path_is_name_dot_toml (a b : Bytes) :
    layerFilePath a = a ++ [46, 116, 111, 109, 108] ∧ layerFilePath a = specLayerFile a ∧ (layerFilePath a = layerFilePath b ↔ a = b) :=
  ⟨rfl, rfl, layerFilePath_inj⟩

/-- **L2 (layer types and metadata at the layer's spec path).** For every sequence of layer constructions through the public
layer APIs in one layers directory (`cached_layer` / `uncached_layer` with any types, followed or not by `write_metadata`; trait API
`handle_layer` returning any metadata; any names, repeated or extending one another in any order) and every layer name, the
document found at the path the CNB spec gives that layer holds exactly the types and the metadata table constructed under that
name — nothing a construction under another name did shows there, and a name never used has no file. -/
theorem layer_file_at_spec_path_holds_constructed (calls : List LayerCall) (name : Bytes) :
    dirGet (layerSession calls) (specLayerFile name) = intendedLayer name none (calls.map toLayerOp) := by
  rw [← (layer_file_path_is_name_dot_toml name name).2.1]
  exact dirGet_foldl_layerStep calls [] name

/-- **L3 (… and an independent reader recovers it).** The document at the layer's spec path is written as a tree which the
specification's reader — and libcnb's own — decodes to the constructed layer types and metadata table. -/
theorem layer_file_decodes_to_constructed (calls : List LayerCall) (name : Bytes) (m : LayerMeta)
    (h : intendedLayer name none (calls.map toLayerOp) = some m) :
    ∃ doc t, dirGet (layerSession calls) (specLayerFile name) = some doc ∧
      encode (Gen.S.LayerContentMetadata .optionalTable) doc.toVal = some t ∧
      decode Spec.Cnb.layerContentMetadata t = .ok m.toVal ∧
      decode (Gen.S.LayerContentMetadata .optionalTable) t = .ok m.toVal := by
  obtain ⟨t, h1, h2, h3⟩ := layer_metadata_decodes_to_constructed m
  exact ⟨m, t, by rw [layer_file_at_spec_path_holds_constructed, h], h1, h2, h3⟩

/-- the documents of a case are asked for in the order the specification lists the names: each once, in order of first use -/
theorem layer_names_in_order_of_first_use (calls : List LayerCall) :
    firstUses (calls.map LayerCall.name) = layerNames (calls.map toLayerOp) := firstUses_eq_layerNames calls

/-- **M1 for store.toml**, incl. libcnb's own reader. -/
theorem store_decodes_to_constructed (tbl : Table) :
    ∃ t, encode Gen.S.Store (storeVal tbl) = some t ∧ decode Spec.Cnb.storeToml t = .ok (storeVal tbl) ∧
      decode Gen.S.Store t = .ok (storeVal tbl) := by
  obtain ⟨t, h1, h2⟩ := roundtrip Gen.S.Store Spec.Cnb.storeToml _ (by decide) (hasType_store tbl)
  obtain ⟨t', h1', h2'⟩ := roundtrip Gen.S.Store Gen.S.Store _ (by decide) (hasType_store tbl)
  rw [h1] at h1'; cases h1'
  exact ⟨t, h1, h2, h2'⟩

/-- **M1 for exec.d output**: the key/value pairs of the map (keys valid, as `ExecDProgramOutputKey` guarantees). -/
theorem execd_decodes_to_constructed (kvs : List (String × String)) (hk : ∀ kv ∈ kvs, StrV.execdKey.valid kv.1 = true) :
    ∃ t, encode Gen.S.ExecDProgramOutput (execdVal kvs) = some t ∧ decode Spec.Cnb.execdOutput t = .ok (execdVal kvs) :=
  roundtrip _ _ _ (by decide) (hasType_execd kvs hk)

/-- **M1 for package.toml** (URI references valid, as `try_from` guarantees), incl. libcnb's own reader. The value is the
descriptor as constructed, i.e. with its URIs as `uriparse` holds them (see `package_uri_respelled_counterexample`). -/
theorem package_decodes_to_constructed (p : Package) (hos : p.os = "linux" ∨ p.os = "windows")
    (hb : StrV.uri.valid p.buildpack = true) (hdeps : ∀ u ∈ p.dependencies, StrV.uri.valid u = true) :
    ∃ t, encode Gen.S.PackageDescriptor p.toVal = some t ∧ decode Spec.Cnb.packageToml t = .ok p.toVal ∧
      decode Gen.S.PackageDescriptor t = .ok p.toVal := by
  obtain ⟨t, h1, h2⟩ := roundtrip Gen.S.PackageDescriptor Spec.Cnb.packageToml _ (by decide) (hasType_package p hos hb hdeps)
  obtain ⟨t', h1', h2'⟩ := roundtrip Gen.S.PackageDescriptor Gen.S.PackageDescriptor _ (by decide) (hasType_package p hos hb hdeps)
  rw [h1] at h1'; cases h1'
  exact ⟨t, h1, h2, h2'⟩

/-- The full claim for `PackageDescriptor{BuildpackReference,Dependency}::try_from(text)`: the descriptor carries the URI
text it was constructed from. It does **not** hold: `uriparse` re-prints the reference. -/
def FullStatementPackageUri : Prop := ∀ (s t : String), uriRespell s = some t → t = s

/-- **M2d (package URIs), partial: concrete spellings kept verbatim** — unregistered-scheme and host case, dot segments,
percent-escapes of unreserved characters — exactly the spellings an RFC 3986 normalisation would change. -/
theorem package_uri_verbatim_partial :
    ["docker://Docker.IO/heroku/x:1.2.3", "DOCKER://docker.io/x", "LIBCNB:foo/bar", "https://h/releases/./x.cnb", "file:///a/b/../c",
     "https://h/%7Eteam/node%2ejs.cnb", "https://h/%7eteam", "https://Example.TLD./a", "../a/./b/../c", "https://user:PW@Host/x"].all
      (fun s => uriRespell s == some s) = true := by decide

/-- The finding that keeps `FullStatementPackageUri` from holding (reproduced on the real code): a registered scheme is
lower-cased, a port re-printed as a number, an authority with empty path gains `/`. -/
theorem package_uri_respelled_counterexample :
    uriRespell "HTTPS://h:0080" = some "https://h:80/" ∧ ¬ FullStatementPackageUri := by
  refine ⟨by decide, fun h => ?_⟩
  have := h "https://h:/x" "https://h/x" (by decide)
  exact absurd this (by decide)

/-! ## non-vacuity -/

/-- `or` first, an empty group in the middle, metadata on a require: three `or` entries, the first group empty -/
example : buildPlan [.or, .provides "a", .or, .or, .requires ⟨"b", [("k", .int 1)]⟩] =
    ⟨⟨[], []⟩, [⟨["a"], []⟩, ⟨[], []⟩, ⟨[], [⟨"b", [("k", .int 1)]⟩]⟩]⟩ := by rfl

/-- the hypotheses of `launch_decodes_to_constructed` are met by a launch with an all-default process and one with
arguments, `default = true` and a working directory; the tree written for it is read back by the specification's reader -/
example : hasType Gen.S.Launch (buildLaunch [.process "web" ["x"] [], .process "w" [] [.arg "a", .dflt true, .wd (some "d")]]).toVal = true := by decide

example : (match encode Gen.S.Launch (buildLaunch [.process "web" ["x"] [], .process "w" [] [.arg "a", .dflt true, .wd (some "d")]]).toVal with
    | some t => accepts Spec.Cnb.launchToml t
    | none => false) = true := by rfl

example : writtenDocs.length = 16 := by decide

/-- process(web), build(), process(worker) from a `ProcessBuilder` built twice, labels(..), build(), build(): the first
document holds web only, the later ones web first and everything added since; the last two are equal -/
example : launchSession [.call (.session "web" ["x"] []), .build,
      .call (.session "worker" ["y"] [.call (.arg "1"), .build, .call (.arg "2")]), .call (.labels [("k", "v")]), .build] =
    [⟨[], [⟨"web", ["x"], [], false, none⟩], []⟩,
     ⟨[("k", "v")], [⟨"web", ["x"], [], false, none⟩, ⟨"worker", ["y"], ["1"], false, none⟩, ⟨"worker", ["y"], ["1", "2"], false, none⟩], []⟩,
     ⟨[("k", "v")], [⟨"web", ["x"], [], false, none⟩, ⟨"worker", ["y"], ["1"], false, none⟩, ⟨"worker", ["y"], ["1", "2"], false, none⟩], []⟩] := by rfl

/-- `build()` first: the empty launch configuration -/
example : launchSession [.build, .call (.slice ["a"])] = [⟨[], [], []⟩, ⟨[], [], [["a"]]⟩] := by rfl

/-- `python3` (cached, metadata written), then `python3.11` through the trait API, then `python3` again without metadata:
`python3.toml` holds the new types and the metadata kept, `python3.11.toml` its own document, `python3.12.toml` does not exist -/
example : (layerFileAfter [.cached [112, 51] true false (some [("v", .int 1)]), .handle [112, 51, 46, 49, 49] ⟨false, true, false⟩ none,
      .cached [112, 51] false true none] [112, 51],
    layerFileAfter [.cached [112, 51] true false (some [("v", .int 1)]), .handle [112, 51, 46, 49, 49] ⟨false, true, false⟩ none] [112, 51, 46, 49, 49],
    layerFileAfter [.cached [112, 51] true false none] [112, 51, 46, 49, 50]) =
    (some ⟨some ⟨false, true, true⟩, some [("v", .int 1)]⟩, some ⟨some ⟨false, true, false⟩, none⟩, none) := by rfl

end CnbVerif.C07
