import CnbVerif.Lemmas.FsProg
import CnbVerif.Lemmas.FsProgTol
import CnbVerif.Lemmas.FsProgRefine
import CnbVerif.Model.FsProgOps
import CnbVerif.Spec.FaultReport
/-!
# C12 — a failed file operation in layer handling or output writing is reported

Model: `Model/FsProg.lean` — the layer and runtime operations as programs over `std::fs` calls, in an error monad whose
only catching combinator is `tolerate` (= `default_on_not_found`); interpreter `run` with a fault plan "fail the k-th
call with errno e". Spec: `Spec/FaultReport.lean`.

The theorems are stated **once for the program language** (every program, every semantics of the primitives over any
state type, every fault position and errno) and then instantiated for the modelled operations. The claim is about the
program layer; that the Rust code is inside this language (no `let _ =`, `.ok()`, … around a file operation) is what the
fault enumeration of the correspondence samples at every real call position.
-/
namespace CnbVerif.C12
open CnbVerif CnbVerif.FsProg

variable {σ : Type}

/-- **M1 (a reached fault propagates).** For every program, pre-state, fault position `k` that is one of the calls the
fault-free run makes (`ev` is that call) and every errno `e` — except `ENOENT` at a call inside a `tolerate` — the run
with the k-th call failing returns the error `io e`. No constructor of the language other than `tolerate` can turn a
failed call into success, and `tolerate` does so for `ENOENT` only. -/
theorem fault_propagates (S : Sem σ) (p : Prog) (s : σ) (k : Nat) (e : Errno) (ev : Ev σ)
    (hk : (exec S none p s).log[k]? = some ev) (hx : ¬ (ev.tol = true ∧ e = .enoent)) :
    (exec S (some (k, e)) p s).out = .err (.io e) :=
  run_fault_propagates S k e p false s 0 ev (Nat.zero_le k) hk hx

/-- A fault position beyond the calls the operation makes changes nothing at all (result, final state, call log). -/
theorem unreached_fault_changes_nothing (S : Sem σ) (p : Prog) (s : σ) (k : Nat) (e : Errno)
    (hk : (exec S none p s).log.length ≤ k) :
    exec S (some (k, e)) p s = exec S none p s :=
  run_unreached S k e p false s 0 (Or.inr (by simpa [exec] using hk))

/-- **M2 (success only fault-free).** If a run with a fault returns `ok`, and the fault is not `ENOENT` at a tolerant
call, then no call failed: the run *is* the fault-free run — same result value, same final state, same calls. -/
theorem success_only_fault_free (S : Sem σ) (p : Prog) (s : σ) (k : Nat) (e : Errno)
    (hx : ∀ ev, (exec S none p s).log[k]? = some ev → ¬ (ev.tol = true ∧ e = .enoent))
    (hok : (exec S (some (k, e)) p s).out.isOk = true) :
    exec S (some (k, e)) p s = exec S none p s := by
  cases hget : (exec S none p s).log[k]? with
  | none =>
    exact unreached_fault_changes_nothing S p s k e (by simpa using hget)
  | some ev =>
    have := fault_propagates S p s k e ev hget (hx ev hget)
    rw [this] at hok
    cases hok

/-- the faults the property excludes: `ENOENT` at a call the code wraps in `default_on_not_found` -/
def Excluded (S : Sem σ) (p : Prog) (s : σ) (f : Nat × Errno) : Prop :=
  ∃ ev, (exec S none p s).log[f.1]? = some ev ∧ ev.tol = true ∧ f.2 = .enoent

/-- a program as a system in the sense of `Spec.Fault`: (reported success?, final state) under an optional fault -/
def asSystem (S : Sem σ) (p : Prog) (s : σ) (plan : Option (Nat × Errno)) : Bool × σ :=
  ((exec S plan p s).out.isOk, (exec S plan p s).st)

/-- **The property, for every program of the language**: it never reports success while the state differs from what
the successful (fault-free) call produces — `Spec.Fault.FailureIsReported`. -/
theorem failure_is_reported (S : Sem σ) (p : Prog) (s : σ) :
    Spec.Fault.FailureIsReported (asSystem S p s) (Excluded S p s) := by
  intro f hex hok
  have h := success_only_fault_free S p s f.1 f.2
    (fun ev hev hte => hex ⟨ev, hev, hte.1, hte.2⟩) hok
  show (exec S (some f) p s).st = (exec S none p s).st
  have : (some f : Option (Nat × Errno)) = some (f.1, f.2) := rfl
  rw [this, h]

/-- … and a fault that hits one of the operation's calls makes it return an error — `Spec.Fault.FailureReturnsError`. -/
theorem failure_returns_error (S : Sem σ) (p : Prog) (s : σ) :
    Spec.Fault.FailureReturnsError (asSystem S p s) (fun f => f.1 < (exec S none p s).log.length) (Excluded S p s) := by
  intro f hreach hex
  have hget : (exec S none p s).log[f.1]? = some ((exec S none p s).log[f.1]'hreach) := List.getElem?_eq_getElem hreach
  have h := fault_propagates S p s f.1 f.2 _ hget (fun hte => hex ⟨_, hget, hte.1, hte.2⟩)
  show (exec S (some f) p s).out.isOk = false
  have : (some f : Option (Nat × Errno)) = some (f.1, f.2) := rfl
  rw [this, h]
  rfl

/-- **Instantiation.** Every modelled operation (struct-API `cached_layer`/`uncached_layer`, `LayerRef::write_*`, trait-API
`handle_layer`, `LayerEnv::write_to_layer_dir`, the detect and build phase output writing), from every state of the flat
file system and under every single fault outside the exclusion: success only with the fault-free final directory, and an
error whenever the fault hits a call. -/
theorem modelled_operations_report_failures (op : String) (p : Prog) (_ : opProg op = some p) (fs : FS) :
    Spec.Fault.FailureIsReported (asSystem fsSem p fs) (Excluded fsSem p fs) ∧
    Spec.Fault.FailureReturnsError (asSystem fsSem p fs) (fun f => f.1 < (exec fsSem none p fs).log.length) (Excluded fsSem p fs) :=
  ⟨failure_is_reported fsSem p fs, failure_returns_error fsSem p fs⟩

/-- the struct-API request whose callbacks look at what was read (`cached-migrate` of `opProg`): typed read, generic read,
`invalid_metadata_action` as a migration of the old metadata, then the action it chose -/
def cachedMigrate : Prog := handleLayerD lx typesAll .versioned migrateInv restoredByMeta 3
/-- the trait-API request with a data-dependent `existing_layer_strategy` / `update` / `migrate_incompatible_metadata` (`t-migrate`) -/
def traitMigrate : Prog := tHandleD lx typesAll strategyByData migrateT created updatedByData 3

/-- **M1 for the migrating `cached_layer`.** In every state, a fault (other than ENOENT at a best-effort delete) at ANY call the
fault-free run makes — in particular at the second, generic read of `<layer>.toml` whose result is handed to
`invalid_metadata_action` — is returned as that error: the callback is never asked with "no metadata" in its place. -/
theorem cached_migrate_fault_propagates (fs : FS) (k : Nat) (e : Errno) (ev : Ev FS)
    (hk : (exec fsSem none cachedMigrate fs).log[k]? = some ev) (hx : ¬ (ev.tol = true ∧ e = .enoent)) :
    (exec fsSem (some (k, e)) cachedMigrate fs).out = .err (.io e) :=
  fault_propagates fsSem cachedMigrate fs k e ev hk hx

/-- **M2 for the migrating `cached_layer`**: success under a fault only as the fault-free run (same migrated metadata, same
directory), whatever the callbacks would have answered on other data. -/
theorem cached_migrate_success_only_fault_free (fs : FS) (k : Nat) (e : Errno)
    (hx : ∀ ev, (exec fsSem none cachedMigrate fs).log[k]? = some ev → ¬ (ev.tol = true ∧ e = .enoent))
    (hok : (exec fsSem (some (k, e)) cachedMigrate fs).out.isOk = true) :
    exec fsSem (some (k, e)) cachedMigrate fs = exec fsSem none cachedMigrate fs :=
  success_only_fault_free fsSem cachedMigrate fs k e hx hok

/-- **M1 for the migrating trait-API `handle_layer`** (typed read + env, generic read + env, migration, write-back, re-entry). -/
theorem trait_migrate_fault_propagates (fs : FS) (k : Nat) (e : Errno) (ev : Ev FS)
    (hk : (exec fsSem none traitMigrate fs).log[k]? = some ev) (hx : ¬ (ev.tol = true ∧ e = .enoent)) :
    (exec fsSem (some (k, e)) traitMigrate fs).out = .err (.io e) :=
  fault_propagates fsSem traitMigrate fs k e ev hk hx

/-- **M2 for the migrating trait-API `handle_layer`.** -/
theorem trait_migrate_success_only_fault_free (fs : FS) (k : Nat) (e : Errno)
    (hx : ∀ ev, (exec fsSem none traitMigrate fs).log[k]? = some ev → ¬ (ev.tol = true ∧ e = .enoent))
    (hok : (exec fsSem (some (k, e)) traitMigrate fs).out.isOk = true) :
    exec fsSem (some (k, e)) traitMigrate fs = exec fsSem none traitMigrate fs :=
  success_only_fault_free fsSem traitMigrate fs k e hx hok

/-- **The same for every program built from data-dependent callbacks**: whatever functions of the data read from disk the
buildpack supplies as `invalid_metadata_action` / `restored_layer_action`, a run of `struct_api::handle_layer` that returns
ok under a non-excluded fault is the fault-free run. -/
theorem handle_layer_any_callbacks_success_only_fault_free (n : String) (t : LTypes) (mt : MetaT)
    (ci : Option MetaTbl → CbInv) (cr : Option MetaTbl → CbRes) (fuel : Nat) (fs : FS) (k : Nat) (e : Errno)
    (hx : ∀ ev, (exec fsSem none (handleLayerD n t mt ci cr fuel) fs).log[k]? = some ev → ¬ (ev.tol = true ∧ e = .enoent))
    (hok : (exec fsSem (some (k, e)) (handleLayerD n t mt ci cr fuel) fs).out.isOk = true) :
    exec fsSem (some (k, e)) (handleLayerD n t mt ci cr fuel) fs = exec fsSem none (handleLayerD n t mt ci cr fuel) fs :=
  success_only_fault_free fsSem _ fs k e hx hok

/-- **The catching combinator swallows only not-found.** If the body of a `tolerate` ends in any error other than the I/O
error `ENOENT`, the whole `tolerate b k` ends in that error, in the body's final state, without running `k`. -/
theorem tolerate_swallows_only_not_found (S : Sem σ) (plan : Plan) (tol : Bool) (b k : Prog) (s : σ) (n : Nat) (x : Err)
    (hb : (run S plan true b s n).out = .err x) (hx : x ≠ .io .enoent) :
    run S plan tol (.tolerate b k) s n = run S plan true b s n := by
  have hsw : (run S plan true b s n).out.swallowed = false := by
    rw [hb]
    cases x with
    | other t => rfl
    | io e => cases e <;> first | rfl | exact absurd rfl hx
  simp [run, hsw]

/-- **Tolerance sits on deletes only.** In every modelled operation, from every state and under every fault plan, a call
that is logged as tolerant is a delete-type call (`set_permissions`/`read_dir`/`remove_file`/`remove_dir` of
`remove_dir_recursively`, or a `remove_file`) — or the read of `store.toml` at the start of the build phase. So the
exclusion of `Excluded` is exactly "not-found on a deliberate best-effort delete" (plus the optional `store.toml`). -/
theorem tolerant_calls_are_deletes (op : String) (p : Prog) (hp : opProg op = some p) (plan : Plan) (fs : FS) :
    ∀ ev ∈ (exec fsSem plan p fs).log, ev.tol = true → ev.prim.isBestEffort = true :=
  fun ev hev htol => wellTol_log fsSem plan p (opProg_wellTol op p hp) false fs 0 ev hev htol rfl

/-! ## Refinement: the program layer is not a second, diverging model

The fault-free run of a program computes what the C01 model function computes (`Model/LayerStore.lean`), read through the
abstraction `AbsL fs n l` of the flat file system (`l.dir` is some iff `layers/<n>` is a directory; `l.toml` is the parsed
`layers/<n>.toml`; `l.sboms`, as a map format ↦ data, is the set of `layers/<n>.sbom.*.json` files). -/

/-- **M3a.** `replace_layer_metadata` (`LayerRef::write_metadata`) as a program = `LayerStore.replaceMeta`: from every state
with a `layers` directory, the fault-free run succeeds exactly when the model function answers `some l'`, and then the final
state abstracts to `l'`; otherwise it fails and leaves the state untouched. -/
theorem refines_replaceMeta (n : String) (m : MetaTbl) (fs : FS) (l : Layer) (h : AbsL fs n l)
    (hL : fs.isDir ["layers"] = true) :
    let r := exec fsSem none (FsProg.replaceMeta n m unit) fs
    match CnbVerif.replaceMeta l m with
    | some l' => r.out.isOk = true ∧ AbsL r.st n l'
    | none => r.out.isOk = false ∧ r.st = fs :=
  refines_replaceMeta_lemma n m fs l h hL

/-- **M3b.** `replace_layer_types` (the `KeepLayer` branch of `cached_layer`) as a program = `LayerStore.replaceTypes`. -/
theorem refines_replaceTypes (n : String) (t : LTypes) (fs : FS) (l : Layer) (h : AbsL fs n l)
    (hL : fs.isDir ["layers"] = true) :
    let r := exec fsSem none (FsProg.replaceTypes n t unit) fs
    match CnbVerif.replaceTypes l t with
    | some l' => r.out.isOk = true ∧ AbsL r.st n l'
    | none => r.out.isOk = false ∧ r.st = fs :=
  refines_replaceTypes_lemma n t fs l h hL

/-- **M3c.** `replace_layer_sboms` (`LayerRef::write_sboms`) as a program = `LayerStore.replaceSboms`, for every list of
SBOMs with distinct formats: three tolerant deletes, then the writes, end in the state whose SBOM files are exactly the
requested ones, layer directory and `<layer>.toml` as before; without the layer directory both fail and change nothing.
(No directory sits at an SBOM path: `remove_file` would fail with EISDIR there, which the C01 model does not describe.) -/
theorem refines_replaceSboms (n : String) (sb : List (Nat × String)) (fs : FS) (l : Layer) (h : AbsL fs n l)
    (hL : fs.isDir ["layers"] = true) (hfmt : ∀ x ∈ sb, x.1 < 3) (hnodup : (sb.map (·.1)).Nodup)
    (hnd : ∀ s ∈ sbomSuffixList, ∀ md, fs.get (sbomPath n s) ≠ some (.dir md)) :
    let r := exec fsSem none (FsProg.replaceSboms n (sbomArgs sb) unit) fs
    let m := CnbVerif.replaceSboms l (sbomBytes sb)
    (m.2 = .ok → r.out.isOk = true ∧ AbsL r.st n m.1) ∧
    (m.2 ≠ .ok → r.out.isOk = false ∧ r.st = fs ∧ m.1 = l) :=
  refines_replaceSboms_lemma n sb fs l h hL hfmt hnodup hnd

/-! ## Non-vacuity -/

/-- the fault-free `cached_layer` (keep) on the restored layer `full` makes 3 calls (read, read, write of `x.toml`) and succeeds … -/
example : (exec fsSem none cachedKeep ((prepared "full").getD [])).log.length = 3
    ∧ (exec fsSem none cachedKeep ((prepared "full").getD [])).out.isOk = true := by decide

/-- … and failing its last call (the write of `x.toml`) with ENOSPC is an error -/
example : (exec fsSem (some (2, .enospc)) cachedKeep ((prepared "full").getD [])).out = .err (.io .enospc) := by decide

/-- `cached-migrate` on the layer `invalid` (metadata `{ w = 2 }`): seven calls — typed read, generic read, (migration to
`v = 12`) read + write of `replace_layer_metadata`, typed read of the re-entry, read + write of `replace_layer_types` — and
the layer is kept with the migrated metadata … -/
example : (exec fsSem none cachedMigrate ((prepared "invalid").getD [])).log.length = 7
    ∧ (exec fsSem none cachedMigrate ((prepared "invalid").getD [])).out.isOk = true
    ∧ (exec fsSem none cachedMigrate ((prepared "invalid").getD [])).st.get ["layers", "x.toml"]
        = some (.file (.ltoml (.doc (some typesAll) (some ⟨some 12, none⟩))))
    ∧ (exec fsSem none cachedMigrate ((prepared "invalid").getD [])).st.has ["layers", "x", "data", "file"] = true := by decide

/-- … and failing call 1 (the generic read handed to the migration) is an error, the layer untouched: not "no metadata → delete" -/
example : (exec fsSem (some (1, .eio)) cachedMigrate ((prepared "invalid").getD [])).out = .err (.io .eio)
    ∧ (exec fsSem (some (1, .eio)) cachedMigrate ((prepared "invalid").getD [])).st = (prepared "invalid").getD [] := by decide

/-- the callbacks really depend on the data: without metadata the migration deletes, a stale value is not kept -/
example : migrateInv none = .delete 2 ∧ migrateInv (some ⟨none, some 2⟩) = .replace ⟨some 12, none⟩ 1
    ∧ restoredByMeta (some ⟨some 7, none⟩) = .delete 4 ∧ restoredByMeta (some ⟨some 1, none⟩) = .keep 3 := by decide

/-- the exclusion is not empty: ENOENT at the tolerant `remove_file(<layer>.toml)` of `delete_layer` (call 3 on the state
`min`) is swallowed -/
example : Excluded fsSem (FsProg.deleteLayer "x" unit) ((prepared "min").getD []) (3, .enoent)
    ∧ (exec fsSem (some (3, .enoent)) (FsProg.deleteLayer "x" unit) ((prepared "min").getD [])).out.isOk = true :=
  ⟨⟨_, rfl, rfl, rfl⟩, by decide⟩

/-- … while EIO at the same call is reported -/
example : (exec fsSem (some (3, .eio)) (FsProg.deleteLayer "x" unit) ((prepared "min").getD [])).out = .err (.io .eio) := by decide

/-- the abstraction relation is inhabited by a non-trivial state: the restored layer `full` with its two SBOM files -/
example : AbsL ((prepared "full").getD []) "x"
    { dir := some [], toml := some (.doc none (some ⟨some 1, none⟩)),
      sboms := [(0, strBytes "{\"old\":1}"), (2, strBytes "{\"old\":3}")] } :=
  ⟨by decide, by decide, fun i => by
    by_cases h0 : i = 0
    · subst h0; rfl
    · by_cases h1 : i = 1
      · subst h1; rfl
      · by_cases h2 : i = 2
        · subst h2; rfl
        · have : ¬ i < 3 := by omega
          have e0 : (i == 0) = false := by simp [h0]
          have e2 : (i == 2) = false := by simp [h2]
          simp [sbomAt, this, List.lookup, e0, e2]⟩

end CnbVerif.C12
