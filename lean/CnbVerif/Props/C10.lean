import CnbVerif.Lemmas.LayerPaths
/-!
# C10 — implicit layer paths: from directories, build/launch only, never persisted

Model: `readLayerPaths` / `readFromLayerDir` / `writeToLayerDir` in `Model/EnvDir.lean`, table
`Gen.layerPathSpecs` regenerated from `read_from_layer_dir`. Spec: `Spec/LayerPaths.lean` (the CNB layer-paths
table, `:`-joined prepend). "Is a directory" follows symlinks (`Node.isDirFollow`).
-/
namespace CnbVerif.C10
open CnbVerif Spec

/-- **M1.** The generated table (variable, scope, sub-directory) is the CNB table, row for row as a set; the
sub-directory names and the separator are the spec's. -/
theorem table_is_spec :
    (Gen.layerPathSpecs.all (fun r => Spec.layerPathTable.contains r) &&
      Spec.layerPathTable.all (fun r => Gen.layerPathSpecs.contains r)) = true ∧
    (∀ s : LSub, s.dirName = Spec.subName s) ∧ Gen.pathListSeparator = [58] :=
  ⟨tables_agree, dirName_eq_subName, rfl⟩

/-- **M2 + M3 (build).** For every layer directory, starting environment and variable: in scope `build` the
variable's value is the spec's implicit rule — `<layer>/<sub>` prepended with `:` (no separator on an unset or
empty previous value) exactly when the table lists (variable, build) and `<layer>/<sub>` is a directory —
applied to the value the explicit `all` and `build` entries produce (so it comes *after* the explicit entries). -/
theorem implicit_exact_build (lp : Bytes) (layer : Dir) (le : LayerEnv) (h : readFromLayerDir lp layer = some le)
    (env : Env) (n : Bytes) :
    (le.apply .build env).get n =
      Spec.implicitRule lp (fun s => Node.isDirFollow (layer.get s.dirName)) n .build
        (ruleVar (fun b => le.build.find b n) (ruleVar (fun b => le.all.find b n) (env.get n))) := by
  obtain ⟨hwf, hp⟩ := readFromLayerDir_spec lp layer le h
  rw [layerEnv_apply_get le hwf]
  simp only []
  have : (fun b => le.pathsBuild.find b n) =
      fun b => specPathsLook lp (fun s => Node.isDirFollow (layer.get s.dirName)) .build b n := by
    funext b; exact hp .build b n
  rw [this, ruleVar_specPathsLook]

/-- **M2 + M3 (launch).** The same for scope `launch`. -/
theorem implicit_exact_launch (lp : Bytes) (layer : Dir) (le : LayerEnv) (h : readFromLayerDir lp layer = some le)
    (env : Env) (n : Bytes) :
    (le.apply .launch env).get n =
      Spec.implicitRule lp (fun s => Node.isDirFollow (layer.get s.dirName)) n .launch
        (ruleVar (fun b => le.launch.find b n) (ruleVar (fun b => le.all.find b n) (env.get n))) := by
  obtain ⟨hwf, hp⟩ := readFromLayerDir_spec lp layer le h
  rw [layerEnv_apply_get le hwf]
  simp only []
  have : (fun b => le.pathsLaunch.find b n) =
      fun b => specPathsLook lp (fun s => Node.isDirFollow (layer.get s.dirName)) .launch b n := by
    funext b; exact hp .launch b n
  rw [this, ruleVar_specPathsLook]

/-- **M2 (no other scope).** In scope `all` and in every process scope only the explicit entries act, whatever
bin/lib/include/pkgconfig are. -/
theorem no_implicit_paths_for_all_and_process (lp : Bytes) (layer : Dir) (le : LayerEnv)
    (h : readFromLayerDir lp layer = some le) (env : Env) (n : Bytes) :
    (le.apply .all env).get n = ruleVar (fun b => le.all.find b n) (env.get n) ∧
    ∀ p, (le.apply (.process p) env).get n =
      ruleVar (fun b => (le.scoped (.process p)).find b n) (ruleVar (fun b => le.all.find b n) (env.get n)) := by
  obtain ⟨hwf, _⟩ := readFromLayerDir_spec lp layer le h
  exact ⟨by rw [layerEnv_apply_get le hwf], fun p => by rw [layerEnv_apply_get le hwf]⟩

/-- **M2 (table facts).** Which (variable, scope) pairs are served, spelled out. -/
theorem implicit_table_facts :
    Spec.implicitSub [80, 65, 84, 72] .build = some .bin ∧ Spec.implicitSub [80, 65, 84, 72] .launch = some .bin ∧
    Spec.implicitSub [67, 80, 65, 84, 72] .build = some .incl ∧ Spec.implicitSub [67, 80, 65, 84, 72] .launch = none ∧
    Spec.implicitSub [76, 73, 66, 82, 65, 82, 89, 95, 80, 65, 84, 72] .launch = none := by decide

/-- **M4a (never persisted).** The writer does not look at the implicit deltas: writing an environment and writing
the same environment stripped of them produce the same directory. -/
theorem implicit_entries_never_written (le : LayerEnv) (layer : Dir) :
    writeToLayerDir le layer = writeToLayerDir { le with pathsBuild := [], pathsLaunch := [] } layer := rfl

/-- **M4b′ (the cycle re-establishes its own hypotheses).** As M4b, and in addition what was read back is again an
environment the writer handles (`le1.Ok`) and the written directory is again a layer directory the writer accepts
(`LayerOk t1`) — which is what lets the cycle be repeated (`read_write_cycles`). -/
theorem read_write_cycle_invariant (le : LayerEnv) (hok : le.Ok) (lp : Bytes) (t0 : Dir) (h0 : LayerOk t0) :
    ∃ t1 le1 t2 le2, writeToLayerDir le t0 = some t1 ∧ readFromLayerDir lp t1 = some le1 ∧
      writeToLayerDir le1 t1 = some t2 ∧ readFromLayerDir lp t2 = some le2 ∧
      t2.get nEnv = t1.get nEnv ∧ t2.get nEnvBuild = t1.get nEnvBuild ∧
      (∀ other, other ≠ nEnvLaunch → t2.get other = t1.get other) ∧
      (∀ s env, le2.apply s env = le1.apply s env) ∧ le1.Ok ∧ LayerOk t1 := by
  obtain ⟨t1, w1, g1, g2, g3, f1⟩ := writeToLayerDir_spec le t0 h0 hok.proc
  obtain ⟨le1, r1, ea, eb, el, ep, eproc, epb, epl⟩ := read_written le hok lp t1 g1 g2 g3
  -- what was read is again an environment the writer handles
  have hnd := nonEmptyProcs_nodup le.process hok.proc.nodup
  have hproc1 : le1.process = nonEmptyProcs le.process := by
    rw [eproc, foldl_procSet_nodup _ [] (by simpa using hnd)]; simp
  have hmem : ∀ pd ∈ le1.process, pd ∈ le.process := by
    intro pd hpd; rw [hproc1] at hpd
    exact ((mem_nonEmptyProcs le.process pd.1 pd.2).mp hpd).1
  have hok1 : le1.Ok := by
    refine ⟨by rw [ea]; exact hok.all, by rw [eb]; exact hok.build, by rw [el]; exact hok.launch,
      fun pd hpd => hok.process pd (hmem pd hpd), ⟨by rw [hproc1]; exact hnd, ?_⟩⟩
    intro pd hpd; rw [el]; exact hok.proc.free pd (hmem pd hpd)
  have ht1 : LayerOk t1 := by
    refine ⟨?_, ?_, ?_⟩
    · unfold EnvOk; rw [g1]; unfold deltaNode; split
      · exact Or.inl rfl
      · exact Or.inr ⟨_, rfl⟩
    · unfold EnvOk; rw [g2]; unfold deltaNode; split
      · exact Or.inl rfl
      · exact Or.inr ⟨_, rfl⟩
    · unfold EnvOk; rw [g3]; unfold launchNode; split
      · exact Or.inl rfl
      · exact Or.inr ⟨_, rfl⟩
  obtain ⟨t2, w2, k1, k2, k3, f2⟩ := writeToLayerDir_spec le1 t1 ht1 hok1.proc
  obtain ⟨le2, r2, ea2, eb2, el2, ep2, _, epb2, epl2⟩ := read_written le1 hok1 lp t2 k1 k2 k3
  have hsub : ∀ sub : LSub, t2.get sub.dirName = t1.get sub.dirName :=
    fun sub => f2 _ (sub_ne_env sub).1 (sub_ne_env sub).2.1 (sub_ne_env sub).2.2
  refine ⟨t1, le1, t2, le2, w1, r1, w2, r2, by rw [k1, g1, ea], by rw [k2, g2, eb], ?_, ?_, hok1, ht1⟩
  · intro other ho
    by_cases h1 : other = nEnv
    · subst h1; rw [k1, g1, ea]
    · by_cases h2 : other = nEnvBuild
      · subst h2; rw [k2, g2, eb]
      · exact f2 other h1 h2 ho
  · intro s env
    apply apply_congr le1 le2 ea2 eb2 el2 ep2
    · rw [epb2, epb, readLayerPaths_congr lp t1 t2 _ _ hsub]
    · rw [epl2, epl, readLayerPaths_congr lp t1 t2 _ _ hsub]

/-- **M4b (read → write → read).** Take any directory a writer produced (from an environment `le`, into any
layer directory incl. one with bin/lib/include/pkgconfig in any state), read it, write what was read back,
and read again: both writes succeed, `env` and `env.build` are entry-for-entry unchanged, and the second read
applies identically to the first for every scope and starting environment. -/
theorem read_write_cycle (le : LayerEnv) (hok : le.Ok) (lp : Bytes) (t0 : Dir) (h0 : LayerOk t0) :
    ∃ t1 le1 t2 le2, writeToLayerDir le t0 = some t1 ∧ readFromLayerDir lp t1 = some le1 ∧
      writeToLayerDir le1 t1 = some t2 ∧ readFromLayerDir lp t2 = some le2 ∧
      t2.get nEnv = t1.get nEnv ∧ t2.get nEnvBuild = t1.get nEnvBuild ∧
      (∀ other, other ≠ nEnvLaunch → t2.get other = t1.get other) ∧
      ∀ s env, le2.apply s env = le1.apply s env := by
  obtain ⟨t1, le1, t2, le2, a, b, c, d, e, f, g, h, _, _⟩ := read_write_cycle_invariant le hok lp t0 h0
  exact ⟨t1, le1, t2, le2, a, b, c, d, e, f, g, h⟩

/-- `n` rounds of "read the layer's environment, write what was read back into the same layer directory". -/
def cycles (lp : Bytes) : Nat → Dir → Option Dir
  | 0, t => some t
  | n + 1, t =>
    match readFromLayerDir lp t with
    | none => none
    | some le =>
      match writeToLayerDir le t with
      | none => none
      | some t' => cycles lp n t'

/-- **M4c (any number of times).** Take any directory a writer produced and read and re-write it `n` times, for any `n`:
every read and write succeeds, `env`, `env.build` and everything else outside `env.launch` are entry-for-entry what the first
write left, and the environment read at the end applies identically to the one read at the start, for every scope and
starting environment. (Induction on `n` over M4b′.) -/
theorem read_write_cycles (n : Nat) (le : LayerEnv) (hok : le.Ok) (lp : Bytes) (t0 : Dir) (h0 : LayerOk t0) :
    ∃ t1 tn le1 len, writeToLayerDir le t0 = some t1 ∧ cycles lp n t1 = some tn ∧
      readFromLayerDir lp t1 = some le1 ∧ readFromLayerDir lp tn = some len ∧
      tn.get nEnv = t1.get nEnv ∧ tn.get nEnvBuild = t1.get nEnvBuild ∧
      (∀ other, other ≠ nEnvLaunch → tn.get other = t1.get other) ∧
      ∀ s env, len.apply s env = le1.apply s env := by
  induction n generalizing le t0 with
  | zero =>
    obtain ⟨t1, le1, _, _, w1, r1, _⟩ := read_write_cycle_invariant le hok lp t0 h0
    exact ⟨t1, t1, le1, le1, w1, rfl, r1, r1, rfl, rfl, fun _ _ => rfl, fun _ _ => rfl⟩
  | succ n ih =>
    obtain ⟨t1, le1, t2, le2, w1, r1, w2, r2, e1, e2, e3, e4, hok1, ht1⟩ := read_write_cycle_invariant le hok lp t0 h0
    obtain ⟨t2', tn, le2', len, w2', c, r2', rn, f1, f2, f3, f4⟩ := ih le1 hok1 t1 ht1
    have ht : t2' = t2 := Option.some.inj (w2'.symm.trans w2)
    subst ht
    have hl : le2' = le2 := Option.some.inj (r2'.symm.trans r2)
    subst hl
    refine ⟨t1, tn, le1, len, w1, ?_, r1, rn, f1.trans e1, f2.trans e2, fun o ho => (f3 o ho).trans (e3 o ho), ?_⟩
    · simp only [cycles, r1, w2, c]
    · intro s env; rw [f4, e4]

/-- Non-vacuity of M4b: a concrete environment with a process scope satisfies `Ok`, into a layer with `bin`. -/
example : ∃ ins : List Ins, (buildEnv ins).Ok ∧ LayerOk [([98, 105, 110], .dir [])] :=
  ⟨[⟨.all, .append, [80], [1]⟩, ⟨.process [119], .override, [81], [2]⟩],
    buildEnv_ok _ (by decide) (by decide), ⟨Or.inl rfl, Or.inl rfl, Or.inl rfl⟩⟩

/-- Non-vacuity of M2: a layer whose `bin` is a symlink to a directory and whose `lib` is a file. -/
example : Spec.implicitRule [76] (fun s => Node.isDirFollow (Dir.get [([98, 105, 110], .link .toDir), ([108, 105, 98], .file [])] s.dirName))
    [80, 65, 84, 72] .build (some [47, 120]) = some [76, 47, 98, 105, 110, 58, 47, 120] := by decide

/-- Non-vacuity of M4c: three rounds on a concrete written layer succeed. -/
example : ∃ t1, writeToLayerDir (buildEnv [⟨.all, .append, [80], [1]⟩, ⟨.process [119], .override, [81], [2]⟩]) [([98, 105, 110], .dir [])] = some t1
    ∧ (cycles [76] 3 t1).isSome = true := by
  obtain ⟨t1, tn, _, _, w, c, _⟩ := read_write_cycles 3 _ (buildEnv_ok [⟨.all, .append, [80], [1]⟩, ⟨.process [119], .override, [81], [2]⟩] (by decide) (by decide))
    [76] [([98, 105, 110], .dir [])] ⟨Or.inl rfl, Or.inl rfl, Or.inl rfl⟩
  exact ⟨t1, w, by rw [c]; rfl⟩

end CnbVerif.C10
