import CnbVerif.Lemmas.Determinism2
import CnbVerif.Lemmas.NodeEq
import CnbVerif.Lemmas.DeterminismSbom
/-!
# C20 — identical inputs give byte-identical layer and phase outputs

A Lean function is deterministic, so the theorems expose the nondeterminism the Rust code could have: the order in
which a `HashMap` hands out its entries (std's `RandomState` is seeded per process). The writers that iterate a hash
map take it as a list in iteration order (`Model/EnvDir.writeToLayerDir` over `le.process`,
`Model/LayerStore.replaceExecd` and `Model/Determinism.replaceExecdLoop` over the exec.d programs,
`Model/Determinism.writeLayerTrait` = the trait API's `write_layer` over both) and the statements quantify over **every
permutation** of those lists. "The same output" is `Spec.Det.SameDir` / `SameLayer`: the same entries as a map at every
level of the directory tree (`canon` = every level sorted by name), which is what the harness's sorted snapshot prints.

The remaining obligations are about the generated facts `Gen.HashSites` (regenerated from /repo on every run): every
hash-iteration site of the phase and layer code is one the model covers, no serialised phase document has a hash-backed
field, `toml::Table` is a BTreeMap, no clock / random source is mentioned.

SBOM files (M5): a build result / a layer may carry several SBOMs of one format; they are written from a `Vec` front to
back (`Model/Determinism.writeBuildResultSboms`, `replaceLayerSbomFiles`), so the file of a (target, format) holds the
SBOM registered last for it — a function of the Vec alone (`phase_sboms_last_wins`, `layer_sboms_last_wins`), and the
order of the Vec matters exactly when a format repeats (`sboms_distinct_formats_order_irrelevant`, `sbom_vec_order_matters`).

Partial: the theorems hold on the success paths. On the error path of `replace_layer_exec_d_programs` (a source file is
missing) the copy loop has already copied an order-dependent subset — `FullStatement` is false
(`execd_error_path_counterexample`). The bytes of a TOML document given its value (toml crate) and the bytes std writes
are not modelled: sampled by the paired runs of the harness.
-/
namespace CnbVerif.C20
open CnbVerif Spec.Det Det

/-! ### what "the same directory" means -/

/-- **S1.** `canon` keeps every lookup, at every level (so `SameDir` loses nothing but order and shadowed duplicates). -/
theorem canon_preserves_lookup (d : Dir) (n : Bytes) : Dir.get (canon d) n = (d.get n).map canonNode :=
  get_canon d n

/-- **S2.** `canon d` is strictly sorted by name: a canonical representative (two sorted lists with the same lookups
are equal, `Lemmas/Determinism.sorted_ext`). -/
theorem canon_is_sorted (d : Dir) : StrictSorted (canon d) := sorted_sortDir _

/-- **S3.** Two directory values are the same directory iff every name looks up to the same node up to `canon`. -/
theorem sameDir_iff_same_lookups (a b : Dir) :
    SameDir a b ↔ ∀ n, (a.get n).map canonNode = (b.get n).map canonNode := sameDir_iff_ext a b

/-- **S4.** The same directory prints the same snapshot lines (what the harness compares byte for byte). -/
theorem sameDir_same_snapshot (a b : Dir) (h : SameDir a b) : snapshotLines a = snapshotLines b := by
  unfold snapshotLines; rw [h]

/-! ### M1: iteration order is irrelevant -/

/-- **M1a (`LayerEnv::write_to_layer_dir`).** For every two iteration orders `σ₁`, `σ₂` of the per-process map
(process types pairwise distinct — they are map keys — and none equal to a file name of the launch delta: `ProcOk`;
the layer's env entries absent or directories: `LayerOk`) both writes succeed and leave the same layer directory. -/
theorem env_iteration_order_irrelevant (le : LayerEnv) (σ₁ σ₂ : List (Bytes × Delta)) (layer : Dir)
    (h₁ : σ₁.Perm le.process) (h₂ : σ₂.Perm le.process) (hl : LayerOk layer) (hp : ProcOk le) :
    ∃ a b, writeToLayerDir { le with process := σ₁ } layer = some a ∧
      writeToLayerDir { le with process := σ₂ } layer = some b ∧ SameDir a b ∧ snapshotLines a = snapshotLines b := by
  obtain ⟨a, c, ha, _, hac⟩ := writeToLayerDir_perm le σ₁ layer h₁ hl hp
  obtain ⟨b, c', hb, hc', hbc⟩ := writeToLayerDir_perm le σ₂ layer h₂ hl hp
  have hcc : c = c' := by
    have := ‹writeToLayerDir le layer = some c›.symm.trans hc'
    exact Option.some.inj this
  subst hcc
  have hs : SameDir a b := (sameDir_iff_ext a b).mpr (hac.trans hbc.symm)
  exact ⟨a, b, ha, hb, hs, sameDir_same_snapshot a b hs⟩

/-- **M1b (`replace_layer_exec_d_programs`, the C01 model `replaceExecd`).** For every two iteration orders of the
program map (distinct names) the result value is the same and the layers are the same layer. -/
theorem execd_iteration_order_irrelevant (l : Layer) (progs σ₁ σ₂ : List (Bytes × Option Bytes))
    (h₁ : σ₁.Perm progs) (h₂ : σ₂.Perm progs) (hnd : (progs.map (·.1)).Nodup) :
    (replaceExecd l σ₁).2 = (replaceExecd l σ₂).2 ∧ SameLayer (replaceExecd l σ₁).1 (replaceExecd l σ₂).1 := by
  obtain ⟨e1, s1⟩ := replaceExecd_perm l h₁ hnd
  obtain ⟨e2, s2⟩ := replaceExecd_perm l h₂ hnd
  exact ⟨e1.trans e2.symm, sameLayer_trans s1 (sameLayer_symm s2)⟩

/-- the statement without the success-path hypothesis: the copy loop spelled out (`replaceExecdLoop` stops at the first
missing source), any two orders, distinct names -/
def FullStatement : Prop :=
  ∀ (l : Layer) (progs σ : List (Bytes × Option Bytes)), σ.Perm progs → (progs.map (·.1)).Nodup →
    (replaceExecdLoop l σ).2 = (replaceExecdLoop l progs).2 ∧ SameLayer (replaceExecdLoop l σ).1 (replaceExecdLoop l progs).1

/-- **M1c (the copy loop spelled out).** `FullStatement` when every source file exists. -/
theorem execd_loop_order_irrelevant_partial (l : Layer) (progs σ₁ σ₂ : List (Bytes × Option Bytes))
    (h₁ : σ₁.Perm progs) (h₂ : σ₂.Perm progs) (hnd : (progs.map (·.1)).Nodup) (hall : ∀ p ∈ progs, p.2.isSome = true) :
    (replaceExecdLoop l σ₁).2 = (replaceExecdLoop l σ₂).2 ∧ SameLayer (replaceExecdLoop l σ₁).1 (replaceExecdLoop l σ₂).1 := by
  obtain ⟨e1, s1⟩ := replaceExecdLoop_ext l l (sameLayer_refl l) h₁ hnd hall
  obtain ⟨e2, s2⟩ := replaceExecdLoop_ext l l (sameLayer_refl l) h₂ hnd hall
  exact ⟨e1.trans e2.symm, sameLayer_trans s1 (sameLayer_symm s2)⟩

/-- **M1c'.** On that path the loop model writes what the C01 model writes (ties M1c to the model the C01
correspondence validates). -/
theorem execd_loop_refines_layer_store_model (l : Layer) (progs : List (Bytes × Option Bytes))
    (hnd : (progs.map (·.1)).Nodup) (hall : ∀ p ∈ progs, p.2.isSome = true) :
    (replaceExecdLoop l progs).2 = (replaceExecd l progs).2 ∧ SameLayer (replaceExecdLoop l progs).1 (replaceExecd l progs).1 :=
  replaceExecdLoop_refines l progs hnd hall

/-- **M1c-counterexample.** With a missing source the `exec.d` directory left behind depends on the iteration order:
programs `a` (present) and `b` (source missing) leave `exec.d/a` when `a` is visited first and an empty `exec.d`
otherwise (both calls return `MissingExecDFile`). -/
theorem execd_error_path_counterexample : ¬ FullStatement := by
  intro h
  have h1 := (h { dir := some [] } [([97], some [1]), ([98], none)] [([98], none), ([97], some [1])]
    (List.Perm.swap _ _ _) (by decide)).2.1
  have h2 := (Dir.optBeq_iff _ _).mpr h1
  revert h2
  decide

/-- **M1d (a restored `exec.d`, `Dir` level).** Whatever entries the `exec.d` directory of the layer held before
(`old₁`, `old₂`: any files, links, directories) they do not reach the result: the call behaves as on the layer without
`exec.d`. No hypothesis on the programs (any order, missing sources, repeated names). -/
theorem execd_previous_content_irrelevant (l : Layer) (d old₁ old₂ : Dir) (progs : List (Bytes × Option Bytes)) :
    replaceExecdLoop { l with dir := some (d.set nExecd (.dir old₁)) } progs =
      replaceExecdLoop { l with dir := some (d.set nExecd (.dir old₂)) } progs ∧
    replaceExecdLoop { l with dir := some (d.set nExecd (.dir old₁)) } progs =
      replaceExecdLoop { l with dir := some (d.erase nExecd) } progs :=
  ⟨(replaceExecdLoop_forgets l d old₁ progs).trans (replaceExecdLoop_forgets l d old₂ progs).symm,
   replaceExecdLoop_forgets l d old₁ progs⟩

/-- **M1e (a restored `exec.d`, storage level; every source present).** `XFs` keeps which names of the restored
`exec.d` share storage (hard links of one inode, symlinks to a sibling or to a file elsewhere) and `XFs.copyTo` writes
through them as `fs::copy` does. For any two such states `fs₁`, `fs₂` and any two iteration orders of the wanted map
(distinct names, at least one): both calls complete; `exec.d` is the same directory; every name is a regular file of
the call's own (link count 1) holding its own source's bytes and nothing else is there; no pre-existing storage —
inside or outside `exec.d` — is written. The wipe is what makes this true: `in_place_overwrite_depends_on_order`. -/
theorem execd_rewrite_ignores_restored_entries (fs₁ fs₂ : XFs) (progs σ₁ σ₂ : List (Bytes × Bytes))
    (h₁ : σ₁.Perm progs) (h₂ : σ₂.Perm progs) (hnd : (progs.map (·.1)).Nodup) (hne : progs ≠ []) :
    ∃ r₁ r₂, replaceExecdX fs₁ σ₁ = (some r₁, true) ∧ replaceExecdX fs₂ σ₂ = (some r₂, true) ∧
      SameDir r₁.toDir r₂.toDir ∧
      (∀ n, r₁.toDir.get n = (List.lookup n progs).map Node.file) ∧
      (∀ e ∈ r₁.names, r₁.nlink e.2 = 1) ∧
      r₁.data = fs₁.data ∧ r₁.outer = fs₁.outer := by
  have ne₁ : σ₁ ≠ [] := fun e => hne (by subst e; exact h₁.symm.eq_nil)
  have ne₂ : σ₂ ≠ [] := fun e => hne (by subst e; exact h₂.symm.eq_nil)
  have nd₁ : (σ₁.map (·.1)).Nodup := (h₁.map (·.1)).nodup_iff.mpr hnd
  have nd₂ : (σ₂.map (·.1)).Nodup := (h₂.map (·.1)).nodup_iff.mpr hnd
  obtain ⟨r₁, e₁, d₁, o₁, own₁, v₁⟩ := replaceExecdX_spec fs₁ σ₁ ne₁
  obtain ⟨r₂, e₂, _, _, _, v₂⟩ := replaceExecdX_spec fs₂ σ₂ ne₂
  have g₁ : ∀ n, r₁.toDir.get n = (List.lookup n progs).map Node.file := fun n => by
    rw [v₁, copyExecd_get_wanted σ₁ nd₁ n, lookup_perm h₁ nd₁ n]
  have g₂ : ∀ n, r₂.toDir.get n = (List.lookup n progs).map Node.file := fun n => by
    rw [v₂, copyExecd_get_wanted σ₂ nd₂ n, lookup_perm h₂ nd₂ n]
  refine ⟨r₁, r₂, e₁, e₂, ?_, g₁, ?_, d₁, o₁⟩
  · exact (sameDir_iff_ext _ _).mpr (ext_of_get_eq (fun n => (g₁ n).trans (g₂ n).symm))
  · intro e he
    obtain ⟨b, hb⟩ := own₁ e he
    rw [hb]
    rfl

/-- **M1 (trait API `write_layer`: `LayerResult.env.process` and `LayerResult.exec_d_programs`).** For every two
iteration orders of both maps the call returns the same result and leaves the same layer (directory, `<layer>.toml`
document, SBOM files), provided the write succeeds at all (`LayerOk`, `ProcOk`, every exec.d source exists). -/
theorem iteration_order_irrelevant (l : Layer) (t : LTypes) (m : Option MetaTbl) (le : LayerEnv) (sb : List (Nat × Bytes))
    (procs p₁ p₂ : List (Bytes × Delta)) (progs e₁ e₂ : List (Bytes × Option Bytes))
    (hp₁ : p₁.Perm procs) (hp₂ : p₂.Perm procs) (he₁ : e₁.Perm progs) (he₂ : e₂.Perm progs)
    (hl : LayerOk (l.dir.getD [])) (hok : ProcOk { le with process := procs })
    (hnd : (progs.map (·.1)).Nodup) (hall : ∀ p ∈ progs, p.2.isSome = true) :
    (writeLayerTrait l t m le p₁ sb e₁).2 = (writeLayerTrait l t m le p₂ sb e₂).2 ∧
      SameLayer (writeLayerTrait l t m le p₁ sb e₁).1 (writeLayerTrait l t m le p₂ sb e₂).1 := by
  obtain ⟨a1, s1⟩ := writeLayerTrait_perm l t m le sb hp₁ he₁ hl hok hnd hall
  obtain ⟨a2, s2⟩ := writeLayerTrait_perm l t m le sb hp₂ he₂ hl hok hnd hall
  exact ⟨a1.trans a2.symm, sameLayer_trans s1 (sameLayer_symm s2)⟩

/-! ### M5: SBOM files are written from a Vec, front to back — the SBOM registered last for a format stays -/

/-- **M5a (`libcnb_runtime_build`, SBOMs of a `BuildResult`).** The build phase writes `build_sboms` and then
`launch_sboms` in the order in which `BuildResultBuilder::build_sbom` / `launch_sbom` were called. For every file
`k = (target, format)`: it holds the bytes of the SBOM registered **last** for it, for any number of SBOMs of one format
(`Spec.Det.lastRegistered` over the registration sequence); a file nothing was registered for is left as it was. The
right-hand side mentions the two Vecs and the prior file only: no iteration order of a hash container, no other file. -/
theorem phase_sboms_last_wins (fs : SbomFiles) (build launch : List (Nat × Bytes)) (k : SbomKey) :
    List.lookup k (writeBuildResultSboms fs build launch) =
      (lastRegistered k (sbomRegs "build" build ++ sbomRegs "launch" launch)).or (List.lookup k fs) := by
  unfold writeBuildResultSboms
  rw [writeSbomVec_lookup, writeSbomVec_lookup, lastRegistered_append]
  cases lastRegistered k (sbomRegs "launch" launch) <;> simp

/-- **M5a'.** A file some SBOM was registered for does not depend on what the layers directory held before: two runs
from any two prior states leave the same bytes there. -/
theorem phase_sboms_depend_on_the_vecs_only (fs₁ fs₂ : SbomFiles) (build launch : List (Nat × Bytes)) (k : SbomKey) (b : Bytes)
    (h : lastRegistered k (sbomRegs "build" build ++ sbomRegs "launch" launch) = some b) :
    List.lookup k (writeBuildResultSboms fs₁ build launch) = some b ∧
      List.lookup k (writeBuildResultSboms fs₂ build launch) = some b := by
  rw [phase_sboms_last_wins, phase_sboms_last_wins, h]; exact ⟨rfl, rfl⟩

/-- **M5b (`replace_layer_sboms`: `LayerRef::write_sboms`, trait API `Sboms::Replace`).** The layer's SBOM files are
exactly the last registration per format of the slice handed in (a format not in the slice has no file afterwards,
whatever was there); the SBOM files of other layers and of the build result are untouched. -/
theorem layer_sboms_last_wins (name : String) (fs : SbomFiles) (sb : List (Nat × Bytes)) :
    (∀ f, List.lookup (name, f) (replaceLayerSbomFiles name fs sb) = lastRegistered (name, f) (sbomRegs name sb)) ∧
    (∀ n f, n ≠ name → List.lookup (n, f) (replaceLayerSbomFiles name fs sb) = List.lookup (n, f) fs) := by
  constructor
  · intro f
    unfold replaceLayerSbomFiles
    rw [writeSbomVec_lookup, sbom_lookup_filter_base]
    cases lastRegistered (name, f) (sbomRegs name sb) <;> rfl
  · intro n f h
    unfold replaceLayerSbomFiles
    rw [writeSbomVec_lookup, sbom_lookup_filter_other name n f fs h, lastRegistered_other_base name n f sb h]
    rfl

/-- **M5c.** When the formats of a Vec are pairwise distinct (at most one SBOM per format — every scenario before the
`sbom` family) the files do not depend on the order of the Vec: a reordering is invisible there. -/
theorem sboms_distinct_formats_order_irrelevant (base : String) (fs : SbomFiles) (sb σ : List (Nat × Bytes))
    (hp : σ.Perm sb) (hnd : (sb.map (·.1)).Nodup) (k : SbomKey) :
    List.lookup k (writeSbomVec base fs σ) = List.lookup k (writeSbomVec base fs sb) := by
  rw [writeSbomVec_lookup, writeSbomVec_lookup,
    lastRegistered_perm k _ _ (sbomRegs_perm base hp) (sbomRegs_keys_nodup base sb hnd)]

/-- four build SBOMs, CycloneDX registered first and again last with other bytes … -/
def fourSboms : List (Nat × Bytes) := [(0, [1]), (1, [2]), (2, [3]), (0, [4])]
/-- … and the same four handed on in another order -/
def fourSbomsReordered : List (Nat × Bytes) := [(0, [4]), (1, [2]), (2, [3]), (0, [1])]

/-- **Sensitivity of M5a.** With a repeated format the order of the Vec decides the bytes: the same four SBOMs in two
orders leave different `build.sbom.cdx.json` files. Handing the Vec on in an order that is not the registration order
(e.g. through a hash set, whose order differs per process) therefore breaks the property; M5c is why it stays
invisible with at most one SBOM per format. -/
theorem sbom_vec_order_matters :
    fourSbomsReordered.Perm fourSboms ∧
      List.lookup ("build", 0) (writeBuildResultSboms [] fourSboms []) = some [4] ∧
      List.lookup ("build", 0) (writeBuildResultSboms [] fourSbomsReordered []) = some [1] := by
  refine ⟨by decide, by decide, by decide⟩

/-! ### M2 / M3: obligations on the generated facts -/

/-- **M3.** Every hash-iteration site found in the phase / layer code and in the libcnb-data files of the serialised
documents is one of the sites the model accounts for (`Det.coveredIterSites`, each with its reason). A new hash
iteration on these paths makes this fail. -/
theorem iteration_sites_are_modelled :
    ∀ s ∈ Gen.HashSites.iterSites, siteCovered coveredIterSites s = true := by decide

/-- **M3'.** Likewise every `read_dir` call (directory order is the other unordered source). -/
theorem read_dir_sites_are_modelled :
    ∀ s ∈ Gen.HashSites.readDirSites, siteCovered coveredReadDirSites s = true := by decide

/-- **M2.** No `#[derive(Serialize)]` type of the documents the phases write (build plan, launch.toml, store.toml,
`<layer>.toml`, SBOM format names) has a hash-backed field: they are built from `Vec`, `BTreeMap`-backed
`toml::Table`, strings, booleans. The only hash-backed serialised type is the exec.d program output, which no phase
writes (`Det.hashBackedOutsidePhases`). -/
theorem no_hash_backed_serialised_field :
    ∀ f ∈ Gen.HashSites.serFields, f.2.2.2.2 = true →
      (f.1, f.2.1, f.2.2.1) ∈ hashBackedOutsidePhases ∧ f.1 ∉ phaseDocumentFiles := by decide

/-- **M2'.** Every type named by a serialised field is defined in the scanned files, a std/toml leaf, or one of the
validated string newtypes; and the four phase documents are among the scanned `Serialize` types. -/
theorem serialised_types_are_closed :
    (∀ u ∈ Gen.HashSites.serUnresolved, u ∈ knownStringNewtypes) ∧
      ∀ t ∈ ["BuildPlan", "Launch", "Store", "LayerContentMetadata"], Gen.HashSites.serFields.any (fun f => f.2.1 == t) = true := by
  decide

/-- **M2''.** `toml::Table` is `BTreeMap`-backed: no manifest of /repo enables `preserve_order` on `toml` and the
resolved `toml` package (in /repo's and the harness's lock file) does not link `indexmap`. -/
theorem toml_tables_are_ordered :
    Gen.HashSites.tomlPreserveOrderDeclared = false ∧ Gen.HashSites.tomlLinksIndexmap = false := by decide

/-- **M4.** No clock, random source, process or thread id, temp-name generator is mentioned in the scanned files. -/
theorem no_clock_or_random_source : Gen.HashSites.entropySites = [] := by decide

/-! ### the hypotheses are satisfiable, and the statements are not list equalities -/
section NonVacuity

private def dA : Delta := [⟨.override, [65], [49]⟩]
private def dB : Delta := [⟨.append, [66], [50]⟩, ⟨.delim, [66], [58]⟩]
/-- three process types (`web`, `worker`, `cron`) plus entries in the other scopes -/
private def le3 : LayerEnv :=
  { all := dA, launch := dB, process := [([119, 101, 98], dA), ([119, 111, 114, 107, 101, 114], dB), ([99, 114, 111, 110], dA)] }
private def rot : List (Bytes × Delta) := [([99, 114, 111, 110], dA), ([119, 101, 98], dA), ([119, 111, 114, 107, 101, 114], dB)]

example : LayerOk ([] : Dir) := ⟨Or.inl rfl, Or.inl rfl, Or.inl rfl⟩
example : ProcOk le3 := ⟨by decide, by intro pd h; simp [le3] at h; rcases h with h | h | h <;> subst h <;> rfl⟩
example : rot.Perm le3.process := by decide
/-- the two orders really write different list values (the canonical form is needed) … -/
example : Dir.optBeq (writeToLayerDir { le3 with process := rot } []) (writeToLayerDir le3 []) = false := by decide
/-- … which are the same directory -/
example : Dir.optBeq ((writeToLayerDir { le3 with process := rot } []).map canon) ((writeToLayerDir le3 []).map canon) = true := by decide

private def progs3 : List (Bytes × Option Bytes) := [([97], some [1]), ([98], some [2]), ([99], some [3])]
example : (progs3.map (·.1)).Nodup ∧ ∀ p ∈ progs3, p.2.isSome = true := by decide
example : (replaceExecdLoop { dir := some [] } progs3).2 = .ok := by decide
/-- `SameDir` separates directories that differ -/
example : ¬ SameDir [([97], .file [1])] [([97], .file [2])] := by
  intro h; have := (Dir.optBeq_iff (some _) (some _)).mpr (congrArg some h); revert this; decide

/-- a restored `exec.d` as the harness prepares it: `10-env` → symlink to the sibling `20-path` (inode 0) … -/
private def fsSym : XFs := { names := [([49, 48], .symSib [50, 48]), ([50, 48], .ino 0)], data := [(0, [111])] }
/-- … or both names hard links of inode 0, which has a third name outside `exec.d` -/
private def fsHard : XFs := { names := [([49, 48], .ino 0), ([50, 48], .ino 0)], data := [(0, [111])], outer := [0] }
private def want2 : List (Bytes × Bytes) := [([49, 48], [65]), ([50, 48], [66])]
example : fsHard.nlink (.ino 0) = 3 := by decide
example : want2.reverse.Perm want2 := by decide
example : (want2.map (·.1)).Nodup ∧ want2 ≠ [] := by decide
/-- the model's `exec.d` after the call, from either state, in either order: both names regular files with their own bytes -/
example : Dir.optBeq ((replaceExecdX fsSym want2).1.map XFs.toDir) (some [([50, 48], .file [66]), ([49, 48], .file [65])]) = true := by decide
example : Dir.optBeq ((replaceExecdX fsHard want2.reverse).1.map XFs.toDir) (some [([49, 48], .file [65]), ([50, 48], .file [66])]) = true := by decide

/-- what the loop alone does on the restored directory (the call without its wipe) -/
private def overwriteInPlace (fs : XFs) (progs : List (Bytes × Bytes)) : Option (List (Bytes × Node)) × Bool :=
  let r := XFs.copyAll fs progs
  (some (sortDir r.1.toDir), r.2)

/-- **Sensitivity of M1e.** Without the wipe the same loop is order-dependent on exactly these states: through the
symlink / the shared inode both names end up with the bytes of whichever program was copied last. -/
theorem in_place_overwrite_depends_on_order :
    overwriteInPlace fsSym want2 ≠ overwriteInPlace fsSym want2.reverse ∧
      overwriteInPlace fsHard want2 ≠ overwriteInPlace fsHard want2.reverse := by
  constructor <;> intro h
  · have := congrArg (fun r => Dir.optBeq r.1 (overwriteInPlace fsSym want2).1) h
    revert this; decide
  · have := congrArg (fun r => Dir.optBeq r.1 (overwriteInPlace fsHard want2).1) h
    revert this; decide

/-- M5: two build SBOMs of one format and a launch SBOM on a directory that already holds files: the later document wins,
the unregistered file stays -/
example : List.lookup ("build", 1) (writeBuildResultSboms [(("build", 1), [9]), (("launch", 2), [8])] [(1, [5]), (1, [6])] [(0, [7])]) = some [6] ∧
    List.lookup ("launch", 2) (writeBuildResultSboms [(("build", 1), [9]), (("launch", 2), [8])] [(1, [5]), (1, [6])] [(0, [7])]) = some [8] := by decide
example : (([(0, [1]), (1, [2]), (2, [3])] : List (Nat × Bytes)).map (·.1)).Nodup := by decide

end NonVacuity

end CnbVerif.C20
