import CnbVerif.Lemmas.SchemaSerde
import CnbVerif.Gen.Schemas
import CnbVerif.Spec.CnbSchemas
/-!
# C08 — CNB documents are parsed strictly: unknown / missing keys, mixed kinds rejected

Property theorems only. The model of `toml::from_str::<T>` is `decodeSerde` (`Base/Schema.lean`: serde-derive reading
semantics, including its two leniencies) applied to the schemas regenerated from /repo (`Gen/Schemas.lean`); the
specification is the kind-strict reader `decode` applied to the schemas transcribed from the CNB spec
(`Spec/CnbSchemas.lean`), plus the rejection / classification clauses below, which are proved for `decode` under any
schema and carried to the model by `serde_reader_is_strict_reader_partial`.

One finding keeps the full wrong-kind statement from holding on the current tree (reproduced on the real code, see
`serde_leniency_counterexample`): serde's data model also reads a struct from an array and a unit-variant enum from a
single-key table.
-/
namespace CnbVerif.C08
open CnbVerif CnbVerif.Codec

/-- **M1 (unknown key, generic).** If every struct node of a schema outside free-form positions denies unknown
fields, a document with a key the format does not define — at any struct-level path: top level, nested table,
array element, map value; for an untagged enum under every variant — is rejected. -/
theorem strict_unknown_key (s : Schema) (t : TV) (hs : strict s = true) (h : UnknownKeyAt s t) : accepts s t = false :=
  (accepts_false_iff s t).2 (defect_isErr (unknownKeyAt_defect h hs))

/-- **M2 (the code's schemas are strict).** Every type libcnb reads (`#[derive(Deserialize)]` in the CNB data
files), as regenerated from the current source, denies unknown fields at every struct level outside free-form
metadata. One dropped `deny_unknown_fields` on a nested struct makes this fail. -/
theorem gen_schemas_strict : Gen.readable.all (fun p => strict p.2) = true := by decide

/-- **M3a (missing required key).** A table lacking a required key of the struct is rejected, whatever else it holds. -/
theorem missing_required_rejected (d : Bool) (fs : List Field) (kvs : List (String × TV)) (f : Field)
    (hf : f ∈ fs) (hreq : f.pres = .required) (hm : kvs.lookup f.key = none) :
    accepts (.struct d fs) (.tbl kvs) = false :=
  (accepts_false_iff _ _).2 (defect_isErr (.missing f hf hreq hm))

/-- **M3b (wrong kind).** A value whose TOML kind is not the one the schema reads (a scalar retyped, a table where
an array is expected, …) is rejected. -/
theorem wrong_kind_rejected (s : Schema) (t : TV) (h : kindMismatch s t = true) : accepts s t = false :=
  (accepts_false_iff _ _).2 (defect_isErr (.wrongKind h))

/-- **M3c (defects at any depth).** An undefined key under a strict struct, a missing required key or a value of the
wrong kind anywhere in the document (below fields, array elements, map values, and under every variant of an
untagged enum) makes the whole document rejected. -/
theorem defect_rejected (s : Schema) (t : TV) (h : Defect s t) : accepts s t = false :=
  (accepts_false_iff _ _).2 (defect_isErr h)

/-- **M3d (omitted optional keys take the default).** In an accepted table an omitted `Option` key is recorded as
absent and an omitted `default` key as the schema's default value; a required key is never omitted. -/
theorem omitted_key_takes_default (d : Bool) (fs : List Field) (kvs : List (String × TV)) (v : Val)
    (h : decode (.struct d fs) (.tbl kvs) = .ok v) (f : Field) (hf : f ∈ fs) (hm : kvs.lookup f.key = none) :
    ∃ vals, v = .record vals ∧ f.pres ≠ .required ∧
      (f.pres = .optional → (f.key, Val.absent) ∈ vals) ∧ (∀ dv, f.pres = .dflt dv → (f.key, dv.val) ∈ vals) := by
  obtain ⟨vals, hv, hfs, _⟩ := decode_struct_ok h
  exact ⟨vals, hv, ((decodeFields_ok hfs).2 f hf).2 hm⟩

/-- **M5a (exactly the values in the document).** In an accepted table every present key of the struct is recorded
with the decoding of the document's value under the field's schema, the record has exactly the struct's keys, and —
under a struct that denies unknown fields — the document has no other key. -/
theorem present_key_decodes_exactly (d : Bool) (fs : List Field) (kvs : List (String × TV)) (v : Val)
    (h : decode (.struct d fs) (.tbl kvs) = .ok v) :
    ∃ vals, v = .record vals ∧ vals.map Prod.fst = fieldKeys fs ∧
      (∀ f ∈ fs, ∀ t, kvs.lookup f.key = some t → ∃ w, decode f.schema t = .ok w ∧ (f.key, w) ∈ vals) ∧
      (d = true → ∀ kv ∈ kvs, hasKey fs kv.1 = true) := by
  obtain ⟨vals, hv, hfs, hd⟩ := decode_struct_ok h
  obtain ⟨hk, hall⟩ := decodeFields_ok hfs
  exact ⟨vals, hv, hk, fun f hf t ht => (hall f hf).1 t ht, hd⟩

/-- **M5b (scalars and free-form positions are kept verbatim).** -/
theorem leaf_decodes_exactly :
    (∀ s v, decode (.str .plain) (.str s) = .ok v → v = .str s) ∧
    (∀ i v, decode .int (.int i) = .ok v → v = .int i) ∧
    (∀ b v, decode .bool (.bool b) = .ok v → v = .bool b) ∧
    (∀ t v, decode .table t = .ok v → v = .free t) ∧
    (∀ t v, decode .any t = .ok v → v = .free t) := by
  refine ⟨?_, ?_, ?_, ?_, ?_⟩
  · intro s v h; simp [decode, StrV.valid, StrV.norm] at h; exact h.symm
  · intro i v h; simp [decode] at h; exact h.symm
  · intro b v h; simp [decode] at h; exact h.symm
  · intro t v h; cases t <;> simp [decode] at h; exact h.symm
  · intro t v h; simp [decode] at h; exact h.symm

/-- **M4a (with `order` ⇒ composite).** For every instantiation `BM` of the metadata parameter: an accepted
buildpack descriptor that has an `order` key is the composite variant, read by the composite schema. -/
theorem descriptor_with_order_is_composite (BM : Param) (kvs : List (String × TV)) (x : TV) (v : Val)
    (ho : kvs.lookup "order" = some x) (h : decode (Gen.S.BuildpackDescriptor BM) (.tbl kvs) = .ok v) :
    ∃ w, v = .variant 1 w ∧ decode (Gen.S.CompositeBuildpackDescriptor BM) (.tbl kvs) = .ok w := by
  rcases decode_untagged2 h with ⟨w, hw, _⟩ | ⟨_, w, hw, hv⟩
  · exfalso
    have : IsErr (decode (Gen.S.ComponentBuildpackDescriptor BM) (.tbl kvs)) :=
      defect_isErr (.unknownKey "order" x (lookup_mem ho) (by simp [hasKey]))
    rw [hw] at this; exact this
  · exact ⟨w, hv, hw⟩

/-- **M4b (without `order` ⇒ component).** An accepted descriptor without an `order` key is the component variant. -/
theorem descriptor_without_order_is_component (BM : Param) (kvs : List (String × TV)) (v : Val)
    (ho : kvs.lookup "order" = none) (h : decode (Gen.S.BuildpackDescriptor BM) (.tbl kvs) = .ok v) :
    ∃ w, v = .variant 0 w ∧ decode (Gen.S.ComponentBuildpackDescriptor BM) (.tbl kvs) = .ok w := by
  rcases decode_untagged2 h with ⟨w, hw, hv⟩ | ⟨_, w, hw, _⟩
  · exact ⟨w, hv, hw⟩
  · exfalso
    have : IsErr (decode (Gen.S.CompositeBuildpackDescriptor BM) (.tbl kvs)) :=
      defect_isErr (.missing ⟨"order", .required, .never, none, .vec Gen.S.Order, 2⟩ (by simp) rfl ho)
    rw [hw] at this; exact this

/-- **M4c (`order` mixed with `targets` or `stacks` ⇒ rejected).** -/
theorem descriptor_order_with_targets_or_stacks_rejected (BM : Param) (kvs : List (String × TV)) (x y : TV) (k : String)
    (ho : kvs.lookup "order" = some x) (hk : k = "targets" ∨ k = "stacks") (ht : kvs.lookup k = some y) :
    accepts (Gen.S.BuildpackDescriptor BM) (.tbl kvs) = false := by
  apply defect_rejected
  apply Defect.allVariants
  intro s hs
  simp only [List.mem_cons, List.not_mem_nil, or_false] at hs
  rcases hs with rfl | rfl
  · exact .unknownKey "order" x (lookup_mem ho) (by simp [hasKey])
  · rcases hk with rfl | rfl
    · exact .unknownKey "targets" y (lookup_mem ht) (by simp [hasKey])
    · exact .unknownKey "stacks" y (lookup_mem ht) (by simp [hasKey])

/-- the documents of the specification that libcnb reads -/
def readDocs : List (String × Schema) :=
  Spec.Cnb.docs.filter (fun p => !["Provide", "Require", "Or", "BuildPlan", "ExecDProgramOutput"].contains p.1)

/-- the schema regenerated from the code reads exactly like the specification's schema of the same document:
same keys, kinds, requiredness, defaults, strictness, variant order -/
def agrees (p : String × Schema) : Bool :=
  match Gen.readable.lookup p.1 with
  | some g => readEq g p.2
  | none => false

/-- **M6 (code and specification agree).** For every document of the specification that libcnb reads — buildpack.toml
(component, composite, untagged order, `[buildpack]`, licenses, targets, distros, stacks, order, group), buildpack plan,
launch.toml (processes, labels, slices), layer content metadata, store.toml, package.toml — the schema regenerated from
the code has the same keys after renaming, kinds, required / optional, defaults, `deny_unknown_fields` and untagged
variant order as the schema transcribed from the specification. -/
theorem gen_agrees_with_spec : readDocs.all agrees = true := by decide

/-- **M6 (consequence).** Hence the code's schema and the specification's schema accept the same documents and decode
them to the same values, for every TOML document. -/
theorem gen_decodes_as_spec (name : String) (g sp : Schema)
    (hsp : (name, sp) ∈ readDocs) (hg : Gen.readable.lookup name = some g) (t : TV) : decode g t = decode sp t := by
  have h := gen_agrees_with_spec
  rw [List.all_eq_true] at h
  have := h (name, sp) hsp
  simp only [agrees, hg] at this
  exact readEq_decode g sp this t

/-- The full wrong-kind claim for the model: serde's reader is the kind-strict reader on every document. It does
**not** hold: serde-derived structs are also read from arrays (positionally) and unit-variant enums from single-key
tables (`serde_leniency_counterexample`). -/
def FullStatementKinds : Prop := ∀ (s : Schema) (t : TV), decodeSerde false s t = decode s t

/-- **M7 (the model is the strict reader), partial: documents that do not put an array where the schema has a struct
or a table where it has a unit-variant enum, and spell every URI reference as `uriparse` prints it (along the
schema-directed walk).** On those documents every clause above
(M1–M5) holds verbatim for the model of `toml::from_str`. -/
theorem serde_reader_is_strict_reader_partial (s : Schema) (t : TV) (h : lenientFree s t = true) :
    decodeSerde false s t = decode s t := decodeSerde_eq false s t h

/-- **M7 (consequence): the model rejects every defect** — undefined key under a strict struct, missing required key,
wrong kind, at any depth — on documents outside the two leniencies. -/
theorem model_rejects_defects_partial (s : Schema) (t : TV) (h : lenientFree s t = true) (hd : Defect s t) :
    IsErr (decodeSerde false s t) := by
  rw [decodeSerde_eq false s t h]; exact defect_isErr hd

/-- **M6+M7: the model decodes as the specification says**, for every read document and every TOML document
outside the two leniencies: same verdict, same values. -/
theorem model_decodes_as_spec_partial (name : String) (g sp : Schema)
    (hsp : (name, sp) ∈ readDocs) (hg : Gen.readable.lookup name = some g) (t : TV) (h : lenientFree g t = true) :
    decodeSerde false g t = decode sp t := by
  rw [decodeSerde_eq false g t h]; exact gen_decodes_as_spec name g sp hsp hg t

/-- The finding that keeps `FullStatementKinds` from holding, on the real schemas: `types = []` in `<layer>.toml` is
read as `[types]` with all defaults, `types = [true]` as `launch = true`; `os = { linux = {} }` in package.toml as
`os = "linux"` — values of the wrong kind are accepted. -/
theorem serde_leniency_counterexample :
    decodeSerde false (Gen.S.LayerContentMetadata .optionalTable) (.tbl [("types", .arr [.bool true])])
      = .ok (.record [("metadata", .absent), ("types", .record [("build", .bool false), ("cache", .bool false), ("launch", .bool true)])]) ∧
    accepts Spec.Cnb.layerContentMetadata (.tbl [("types", .arr [.bool true])]) = false ∧
    decodeSerde false Gen.S.Platform (.tbl [("os", .tbl [("linux", .tbl [])])]) = .ok (.record [("os", .str "linux")]) ∧
    accepts Spec.Cnb.packagePlatform (.tbl [("os", .tbl [("linux", .tbl [])])]) = false ∧
    ¬ FullStatementKinds := by
  refine ⟨by rfl, by decide, by rfl, by decide, ?_⟩
  intro h
  have := h Gen.S.LayerTypes (.arr [])
  simp [decodeSerde, decode, Gen.S.LayerTypes, decodeSeq, Except.map] at this

/-- A third way the model differs from the kind-strict, verbatim reader (also excluded by `lenientFree`, also reproduced
on the real code): package.toml URI references are re-printed by `uriparse` at parse time — registered scheme
lower-cased, port re-printed as a number, `/` added after an authority with empty path — so the decoded value is not
the document's text, while spellings such as an upper-case host, dot segments or percent-escapes are kept. -/
theorem uri_respelled_at_parse_counterexample :
    decodeSerde false Gen.S.PackageDescriptorDependency (.tbl [("uri", .str "HTTPS://h:0080")]) = .ok (.record [("uri", .str "https://h:80/")]) ∧
    decode Spec.Cnb.packageDependency (.tbl [("uri", .str "HTTPS://h:0080")]) = .ok (.record [("uri", .str "HTTPS://h:0080")]) ∧
    decodeSerde false Gen.S.PackageDescriptorDependency (.tbl [("uri", .str "docker://Docker.IO/a/../b/%7Ex")])
      = .ok (.record [("uri", .str "docker://Docker.IO/a/../b/%7Ex")]) := by
  refine ⟨by rfl, by rfl, by rfl⟩

/-! ## non-vacuity: the hypotheses are met by concrete documents of the real formats -/

/-- an unknown key two levels down in launch.toml (`[[processes]]` element) -/
example : UnknownKeyAt Gen.S.Launch
    (.tbl [("processes", .arr [.tbl [("type", .str "web"), ("command", .arr [.str "x"]), ("typo", .bool true)]])]) :=
  .inField ⟨"processes", .dflt .emptyArr, .ifEmpty, none, .vec Gen.S.Process, 1⟩ _ (by simp) rfl
    (.inElem _ (List.mem_cons_self ..) (.here "typo" (.bool true) (by simp) (by decide)))

example : accepts Gen.S.Launch
    (.tbl [("processes", .arr [.tbl [("type", .str "web"), ("command", .arr [.str "x"]), ("typo", .bool true)]])]) = false := by decide

example : accepts Gen.S.Launch
    (.tbl [("processes", .arr [.tbl [("type", .str "web"), ("command", .arr [.str "x"])]])]) = true := by decide

/-- a composite descriptor is accepted as variant 1, a component descriptor as variant 0, the mix is rejected -/
example : decode (Gen.S.BuildpackDescriptor .optionalTable)
    (.tbl [("api", .str "0.10"), ("buildpack", .tbl [("id", .str "a/b"), ("version", .str "1.2.3")]),
           ("order", .arr [.tbl [("group", .arr [.tbl [("id", .str "c/d"), ("version", .str "0.0.1")]])]])])
    = .ok (.variant 1 (.record [("api", .str "0.10"),
        ("buildpack", .record [("clear-env", .bool false), ("description", .absent), ("homepage", .absent), ("id", .str "a/b"),
          ("keywords", .arr []), ("licenses", .arr []), ("name", .absent), ("sbom-formats", .arr []), ("version", .str "1.2.3")]),
        ("metadata", .absent),
        ("order", .arr [.record [("group", .arr [.record [("id", .str "c/d"), ("optional", .bool false), ("version", .str "0.0.1")]])]])])) := by
  rfl

example : accepts (Gen.S.BuildpackDescriptor .optionalTable)
    (.tbl [("api", .str "0.10"), ("buildpack", .tbl [("id", .str "a/b"), ("version", .str "1.2.3")]),
           ("order", .arr []), ("targets", .arr [])]) = false := by decide

example : readDocs.length = 23 := by decide

end CnbVerif.C08
