import CnbVerif.Lemmas.Ident
import CnbVerif.Lemmas.Version
/-!
# C09 — validated identifiers and versions accept exactly the spec grammar

Property theorems only (helper lemmas live in `Lemmas/{Regex,Ident,Decimal,Version}.lean`).

* Model: `Model/Ident.lean` (the `libcnb_newtype!` types: one regex — regenerated into `Gen/Regexes.lean` from the source by
  fancy_regex's own parser — used by `FromStr`, `Deserialize` and the literal macro; derivative matcher) and
  `Model/Version.lean` (`BuildpackVersion` / `BuildpackApi` `TryFrom<String>` and `Display`, as the code is after the repair
  of D3: components must be plain ASCII digits before `u64::from_str` sees them).
* Spec: `Spec/Grammar.lean` (the languages, from the CNB spec and the property text; where the spec is silent is listed there).

All statements quantify over **all** strings (`List Char`, no length bound) and all numbers.
-/
namespace CnbVerif.C09
open CnbVerif Spec

/-! ## M0 — the matcher of the model is the regex semantics -/

/-- **M0.** For every regular expression and every string the derivative matcher used by the model decides the textbook
semantics `Matches` (so `accepts` really is "the whole input matches `pos` and not `neg`"). -/
theorem matcher_is_regex_semantics (r : Re) (s : List Char) : matchB r s = true ↔ Matches r s :=
  matchB_iff r s

/-! ## M1 — the four identifier types accept exactly the spec languages -/

/-- **M1 (layer name).** The regex found in `libcnb-data/src/layer.rs` accepts exactly: non-empty, no line feed, not one
of `build`, `launch`, `store`. -/
theorem layer_name_exact (s : List Char) : accepts Gen.layerNameRe s = isLayerName s := by
  unfold Gen.layerNameRe isLayerName
  apply accepts_shape
  · intro c
    have := char_toNat_lt c
    apply Bool.eq_iff_iff.2
    simp [inRanges, layerNameChar, char_eq_iff]
    omega
  · intro s
    simp [matches_alt_iff, matches_lit_iff, layerNameReserved]

/-- **M1 (process type).** The regex found in `libcnb-data/src/launch.rs` accepts exactly the non-empty strings of ASCII
letters, digits, `.`, `_`, `-`. -/
theorem process_type_exact (s : List Char) : accepts Gen.processTypeRe s = isProcessType s := by
  unfold Gen.processTypeRe isProcessType
  apply accepts_shape_plain
  intro c
  apply Bool.eq_iff_iff.2
  simp [inRanges, processTypeChar, isLetter, isNumber, char_eq_iff]
  omega

/-- **M1 (buildpack id).** The regex found in `libcnb-data/src/buildpack/id.rs` accepts exactly the non-empty strings of
ASCII letters, digits, `.`, `/`, `-` other than `app`, `config`, `sbom`. -/
theorem buildpack_id_exact (s : List Char) : accepts Gen.buildpackIdRe s = isBuildpackId s := by
  unfold Gen.buildpackIdRe isBuildpackId
  apply accepts_shape
  · intro c
    apply Bool.eq_iff_iff.2
    simp [inRanges, buildpackIdChar, isLetter, isNumber, char_eq_iff]
    omega
  · intro s
    simp [matches_alt_iff, matches_lit_iff, buildpackIdReserved]

/-- **M1 (exec.d output key).** The regex found in `libcnb-data/src/exec_d.rs` accepts exactly the non-empty strings of
ASCII letters, digits, `_`, `-`. -/
theorem execd_key_exact (s : List Char) : accepts Gen.execdKeyRe s = isExecdKey s := by
  unfold Gen.execdKeyRe isExecdKey
  apply accepts_shape_plain
  intro c
  apply Bool.eq_iff_iff.2
  simp [inRanges, execdKeyChar, isLetter, isNumber, char_eq_iff]
  omega

/-! ## M2 — an accepted value renders and serialises as the identical string -/

/-- **M2.** Whatever the regex: a value accepted by parsing / deserialisation / the literal macro displays and serialises
as exactly the input string, and parsing that rendering gives the same value again. -/
theorem accepted_value_renders_identically (a : Anchored) (s v : List Char) (h : parseNewtype a s = some v) :
    displayNewtype v = s ∧ serializeNewtype v = s ∧ parseNewtype a (displayNewtype v) = some v := by
  unfold parseNewtype at h
  split at h
  · rename_i hacc
    simp at h; subst h
    simp [displayNewtype, serializeNewtype, parseNewtype, hacc]
  · cases h

/-! ## M3 — buildpack versions -/

/-- **M3a.** `BuildpackVersion::try_from` (repaired) returns `(a, b, c)` exactly when the input is the text `a.b.c` of three
canonical decimal numerals of numbers below 2^64 — no sign, no whitespace, no redundant leading zero, nothing else. -/
theorem version_exact (s : List Char) (a b c : Nat) : parseVersion s = some (a, b, c) ↔ IsVersionOf s a b c :=
  parseVersion_iff s a b c

/-- **M3a'.** The model's parser and the executable oracle of the spec are the same function. -/
theorem version_oracle_exact (s : List Char) : parseVersion s = versionValue s :=
  option_ext (fun v => by
    obtain ⟨a, b, c⟩ := v
    rw [parseVersion_iff, versionValue_iff])

/-- **M3b.** Parsing a displayed version gives the version back (every `u64` triple). -/
theorem version_parse_display (a b c : Nat) (ha : a < bound) (hb : b < bound) (hc : c < bound) :
    parseVersion (displayVersion (a, b, c)) = some (a, b, c) :=
  (parseVersion_iff _ a b c).2 ⟨ha, hb, hc, rfl⟩

/-- **M3c.** Displaying a parsed version gives the input back. -/
theorem version_display_parse (s : List Char) (v : Nat × Nat × Nat) (h : parseVersion s = some v) : displayVersion v = s := by
  obtain ⟨a, b, c⟩ := v
  obtain ⟨_, _, _, hs⟩ := (parseVersion_iff s a b c).1 h
  exact hs.symm

/-- **M3d (no sign, no whitespace).** An accepted version consists of ASCII digits and `.` only. -/
theorem version_only_digits_and_dots (s : List Char) (v : Nat × Nat × Nat) (h : parseVersion s = some v) :
    ∀ ch ∈ s, isAsciiDigit ch = true ∨ ch = '.' := by
  obtain ⟨a, b, c⟩ := v
  obtain ⟨_, _, _, hs⟩ := (parseVersion_iff s a b c).1 h
  subst hs
  intro ch hch
  have hd : ∀ n, ∀ x ∈ render n, isAsciiDigit x = true := fun n x hx => List.all_eq_true.1 (render_all_digits n) x hx
  simp [versionText] at hch
  rcases hch with h1 | rfl | h1 | rfl | h1
  · exact Or.inl (hd _ _ h1)
  · exact Or.inr rfl
  · exact Or.inl (hd _ _ h1)
  · exact Or.inr rfl
  · exact Or.inl (hd _ _ h1)

/-! ## M4 — buildpack API versions -/

/-- **M4a.** `BuildpackApi::try_from` (repaired) returns `(a, b)` exactly when the input is `N` (then `b = 0`) or `N.M` with
`N`, `M` non-empty strings of plain ASCII digits denoting `a`, `b` below 2^64. -/
theorem api_exact (s : List Char) (a b : Nat) : parseApi s = some (a, b) ↔ IsApiOf s a b :=
  parseApi_iff s a b

/-- **M4a'.** The model's parser and the executable oracle of the spec are the same function. -/
theorem api_oracle_exact (s : List Char) : parseApi s = apiValue s :=
  option_ext (fun v => by
    obtain ⟨a, b⟩ := v
    rw [parseApi_iff, apiValue_iff])

/-- **M4b.** Parsing a displayed API version gives it back (every `u64` pair). -/
theorem api_parse_display (a b : Nat) (ha : a < bound) (hb : b < bound) : parseApi (displayApi (a, b)) = some (a, b) :=
  (parseApi_iff _ a b).2 (isApiOf_apiText ha hb)

/-- **M4c.** Displaying a parsed API version gives the input back exactly when the input is in the normal form `N.M` of
canonical numerals (`N` alone is displayed as `N.0`, redundant leading zeros are dropped). -/
theorem api_display_parse (s : List Char) (v : Nat × Nat) (h : parseApi s = some v) :
    displayApi v = s ↔ ∃ a b, s = apiText a b := by
  obtain ⟨a, b⟩ := v
  constructor
  · intro hd; exact ⟨a, b, hd.symm⟩
  · rintro ⟨a', b', rfl⟩
    obtain ⟨rfl, rfl⟩ := isApiOf_apiText_inv ((parseApi_iff _ a b).1 h)
    rfl

/-- **M4d.** Displaying is a normal form: a parsed value, displayed and parsed again, is the same value. -/
theorem api_display_is_normal_form (s : List Char) (v : Nat × Nat) (h : parseApi s = some v) :
    parseApi (displayApi v) = some v := by
  obtain ⟨a, b⟩ := v
  have hab : a < bound ∧ b < bound := by
    rcases (parseApi_iff s a b).1 h with ⟨h1, rfl⟩ | ⟨p, q, hp, hq, _⟩
    · exact ⟨h1.2.2.2, by decide⟩
    · exact ⟨hp.2.2.2, hq.2.2.2⟩
  exact api_parse_display a b hab.1 hab.2

/-- **M4e (`N` is `N.0`).** A text without a dot and the same text followed by `.0` parse alike. -/
theorem api_major_only_is_dot_zero (s : List Char) (h : '.' ∉ s) : parseApi (s ++ ['.', '0']) = parseApi s := by
  have h1 : splitOnce '.' (s ++ ['.', '0']) = some (s, ['0']) := splitOnce_some.2 ⟨rfl, h⟩
  have h2 : splitOnce '.' s = none := splitOnce_none.2 h
  simp [parseApi, h1, h2]

/-! ## M5 — decimal numerals -/

/-- **Decimal 1.** Reading the canonical numeral of `n` gives `n`. -/
theorem decimal_parse_render (n : Nat) : digitsValue (render n) = some n := digitsValue_render n

/-- **Decimal 2.** A digit string without a redundant leading zero is the canonical numeral of its value. -/
theorem decimal_render_parse (s : List Char) (n : Nat) (h : digitsValue s = some n)
    (hz : s.head? = some '0' → s = ['0']) : render n = s := render_digitsValue h hz

/-- **Decimal 3.** The repaired component parser accepts exactly non-empty plain digit strings below 2^64 (in particular
no `+`), whereas `u64::from_str` alone also accepts a sign (see the examples below). -/
theorem component_exact (s : List Char) (n : Nat) : parseU64 s = some n ↔ IsPlainNumber s n := parseU64_iff s n

/-! ## non-vacuity -/

example : accepts Gen.layerNameRe ['b', 'u', 'i', 'l', 'd', 's'] = true := by decide
example : accepts Gen.layerNameRe ['b', 'u', 'i', 'l', 'd'] = false := by decide
example : accepts Gen.layerNameRe ['a', '\n'] = false := by decide
example : accepts Gen.layerNameRe ['é', ' ', '/'] = true := by decide
example : accepts Gen.processTypeRe ['w', 'e', 'b', '.', '1', '_', '-'] = true := by decide
example : accepts Gen.processTypeRe ['w', '/'] = false := by decide
example : accepts Gen.buildpackIdRe ['h', 'e', 'r', 'o', 'k', 'u', '/', 'j', 'v', 'm'] = true := by decide
example : accepts Gen.buildpackIdRe ['a', 'p', 'p'] = false := by decide
example : accepts Gen.buildpackIdRe ['a', 'p', 'p', 's'] = true := by decide
example : accepts Gen.execdKeyRe ['P', 'A', 'T', 'H', '_', '1'] = true := by decide
example : accepts Gen.execdKeyRe ['P', '.'] = false := by decide
example : parseNewtype Gen.buildpackIdRe ['a', '/', 'b'] = some ['a', '/', 'b'] := by decide
example : parseVersion ['1', '0', '.', '0', '.', '3'] = some (10, 0, 3) := by decide
example : IsVersionOf ['1', '0', '.', '0', '.', '3'] 10 0 3 := (version_exact _ _ _ _).1 (by decide)
example : parseVersion ['+', '1', '.', '2', '.', '3'] = none := by decide
example : parseVersion ['0', '1', '.', '2', '.', '3'] = none := by decide
example : parseVersion ['1', '.', '2', '.', ' ', '3'] = none := by decide
example : parseVersion ['1', '.', '2'] = none := by decide
example : parseApi ['0', '.', '1', '0'] = some (0, 10) := by decide
example : parseApi ['2'] = some (2, 0) := by decide
example : parseApi ['0', '1', '.', '0', '2'] = some (1, 2) := by decide
example : parseApi ['+', '0', '.', '+', '1', '0'] = none := by decide
example : IsApiOf ['2'] 2 0 := (api_exact _ _ _).1 (by decide)
/-- defect D3: Rust's `u64::from_str` on its own accepts a sign; the guard of the repaired parser removes it -/
example : u64FromStr ['+', '1'] = some 1 ∧ parseU64 ['+', '1'] = none := by decide
/-- 2^64 - 1 is accepted, 2^64 is not -/
example : parseU64 (['1', '8', '4', '4', '6', '7', '4', '4', '0', '7', '3', '7', '0', '9', '5', '5', '1', '6', '1', '5']) = some 18446744073709551615 := by decide
example : parseU64 (['1', '8', '4', '4', '6', '7', '4', '4', '0', '7', '3', '7', '0', '9', '5', '5', '1', '6', '1', '6']) = none := by decide

end CnbVerif.C09
