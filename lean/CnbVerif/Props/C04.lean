import CnbVerif.Lemmas.DeltaExt
/-!
# C04 — applying a layer environment follows the CNB modification rules exactly

Property theorems only (helper lemmas live in `Lemmas/`). The model is `Model/LayerEnv.lean`
(`LayerEnv.insert`, `LayerEnv.apply`, in the code's iteration order, behaviour order from `Gen.Tables`);
the specification is `Spec/EnvRules.lean` + `Spec/EnvSpec.lean` (per-variable CNB rule, last insert wins,
`all` before the queried scope).
-/
namespace CnbVerif.C04
open CnbVerif Spec

/-- **M1.** For every insert sequence, query scope, starting environment and variable, the model of
`LayerEnv::apply` returns the value the CNB rules prescribe. -/
theorem apply_get (ins : List Ins) (qs : Scope) (env : Env) (n : Bytes) :
    ((buildEnv ins).apply qs env).get n = specApply ins qs env n := by
  have hwf := wf_buildEnv ins
  rw [layerEnv_apply_get _ hwf]
  have hp := paths_foldl ins LayerEnv.empty
  have ha : ∀ b, (buildEnv ins).all.find b n = lookIns ins .all b n := fun b => find_buildEnv ins .all b n
  have hb : ∀ b, (buildEnv ins).build.find b n = lookIns ins .build b n := fun b => find_buildEnv ins .build b n
  have hl : ∀ b, (buildEnv ins).launch.find b n = lookIns ins .launch b n := fun b => find_buildEnv ins .launch b n
  unfold specApply
  cases qs with
  | all => simp only [ha]
  | build =>
    have : (buildEnv ins).pathsBuild = [] := hp.1
    have hn : (fun b => Delta.find [] b n) = fun _ => none := rfl
    simp only [ha, hb, this, hn, ruleVar_none]
  | launch =>
    have : (buildEnv ins).pathsLaunch = [] := hp.2
    have hn : (fun b => Delta.find [] b n) = fun _ => none := rfl
    simp only [ha, hl, this, hn, ruleVar_none]
  | process p =>
    have hpq : ∀ b, ((buildEnv ins).scoped (.process p)).find b n = lookIns ins (.process p) b n :=
      fun b => find_buildEnv ins (.process p) b n
    simp only [ha, hpq]

/-- **M2a (frame).** A variable no entry names is returned unchanged, set or unset. -/
theorem variable_without_entries_unchanged (ins : List Ins) (qs : Scope) (env : Env) (n : Bytes)
    (h : ∀ i ∈ ins, i.name ≠ n) : ((buildEnv ins).apply qs env).get n = env.get n := by
  rw [apply_get]
  unfold specApply
  have : ∀ s, (fun b => lookIns ins s b n) = fun _ => none := by
    intro s; funext b; exact lookIns_no_name ins s b n h
  cases qs <;> simp only [this, ruleVar_none]

/-- **M2b (scope isolation).** Entries of scopes other than `all` and the queried scope — including
every process type other than the queried one — have no effect: deleting them changes nothing. -/
theorem other_scopes_have_no_effect (ins : List Ins) (qs : Scope) (env : Env) (n : Bytes) :
    ((buildEnv (ins.filter (fun i => i.scope = .all ∨ i.scope = qs))).apply qs env).get n
      = ((buildEnv ins).apply qs env).get n := by
  rw [apply_get, apply_get]
  unfold specApply
  have h1 : ∀ b, lookIns (ins.filter (fun i => i.scope = .all ∨ i.scope = qs)) .all b n = lookIns ins .all b n := by
    intro b; rw [lookIns_def, lookIns_def]; apply look_filter; intro i hi; simp [hi]
  have h2 : ∀ b, lookIns (ins.filter (fun i => i.scope = .all ∨ i.scope = qs)) qs b n = lookIns ins qs b n := by
    intro b; rw [lookIns_def, lookIns_def]; apply look_filter; intro i hi; simp [hi]
  cases qs <;> simp only [h1, h2]

/-- **M2c.** A process type for which nothing was inserted behaves like scope `all`. -/
theorem unknown_process_is_all (ins : List Ins) (p : Bytes) (env : Env) (n : Bytes)
    (h : ∀ i ∈ ins, i.scope ≠ .process p) :
    ((buildEnv ins).apply (.process p) env).get n = ((buildEnv ins).apply .all env).get n := by
  rw [apply_get, apply_get]
  unfold specApply
  have : (fun b => lookIns ins (.process p) b n) = fun _ => none := by
    funext b; rw [lookIns_def]; apply look_nohit; intro i hi hh; exact h i hi hh.1
  simp only [this, ruleVar_none]

/-- **M3.** The result does not depend on the order in which entries were inserted: two insert sequences
that are permutations of each other (with pairwise distinct (scope, behaviour, name)) give the same value
for every scope, starting environment and variable. (With repeated keys the last insert wins — `apply_get`.) -/
theorem insert_order_irrelevant (ins ins' : List Ins) (hperm : ins.Perm ins')
    (hnd : (ins.map Ins.key).Nodup) (qs : Scope) (env : Env) (n : Bytes) :
    ((buildEnv ins).apply qs env).get n = ((buildEnv ins').apply qs env).get n := by
  rw [apply_get, apply_get]
  unfold specApply
  have : ∀ s, (fun b => lookIns ins s b n) = fun b => lookIns ins' s b n := by
    intro s; funext b; exact look_perm ins ins' hperm hnd s b n
  cases qs <;> simp only [this]

/-- **M3b.** Stronger: the two environments are *equal* — for every scope, including every process type, they hold the
same delta entry for entry (what Rust's `==` on `LayerEnv` compares: `BTreeMap`s in key order, the process `HashMap` by key). -/
theorem insert_order_irrelevant_structural (ins ins' : List Ins) (hperm : ins.Perm ins')
    (hnd : (ins.map Ins.key).Nodup) (s : Scope) : (buildEnv ins).scoped s = (buildEnv ins').scoped s :=
  buildEnv_perm_scoped ins ins' hperm hnd s

/-- **M3c.** Queries do not change the value: a layer environment built by inserting `ins₁`, queried any number of times,
and then extended by `ins₂` is the value built from `ins₁ ++ ins₂` — so it applies, for every scope, environment and
variable, as the CNB rules prescribe for all the entries (`apply` takes `&self`; the model's `apply` returns an `Env` and
has no other effect, so the intermediate queries do not even appear in the statement). -/
theorem queries_between_inserts_irrelevant (ins₁ ins₂ : List Ins) (qs : Scope) (env : Env) (n : Bytes) :
    ins₂.foldl Ins.apply (buildEnv ins₁) = buildEnv (ins₁ ++ ins₂) ∧
      ((ins₂.foldl Ins.apply (buildEnv ins₁)).apply qs env).get n = specApply (ins₁ ++ ins₂) qs env n := by
  have h : ins₂.foldl Ins.apply (buildEnv ins₁) = buildEnv (ins₁ ++ ins₂) := by
    simp [buildEnv, List.foldl_append]
  exact ⟨h, by rw [h]; exact apply_get _ _ _ _⟩

/-- **M4a.** `default` fills only an *unset* variable: an empty-string value is kept. -/
theorem default_keeps_empty_string (s : Scope) (n v : Bytes) (env : Env) (h : env.get n = some []) :
    ((buildEnv [⟨s, .default, n, v⟩]).apply s env).get n = some [] := by
  rw [apply_get]
  cases s <;> simp [specApply, lookIns, ruleVar, rule1, h]

/-- **M4b.** `append`/`prepend` onto an unset or empty value add no delimiter. -/
theorem append_to_empty_has_no_delimiter (n v dl : Bytes) (env : Env)
    (h : env.get n = none ∨ env.get n = some []) :
    ((buildEnv [⟨.all, .delim, n, dl⟩, ⟨.all, .append, n, v⟩]).apply .all env).get n = some v := by
  rw [apply_get]
  rcases h with h | h <;> simp [specApply, lookIns, ruleVar, rule1, h]

/-- **M1b (`apply_to_empty`).** `LayerEnv::apply_to_empty` gives every variable the value the CNB rules prescribe starting from
an environment in which every variable is unset. -/
theorem apply_to_empty_get (ins : List Ins) (qs : Scope) (n : Bytes) :
    ((buildEnv ins).applyToEmpty qs).get n = specApply ins qs [] n := apply_get ins qs [] n

/-- **M5 (`all` before the scope, compositionally).** Applying for a scope other than `all` is applying for `all` first and
then applying the entries of that scope alone to the result — for every insert sequence, scope, starting environment and variable. -/
theorem all_applies_before_scope (ins : List Ins) (qs : Scope) (hqs : qs ≠ .all) (env : Env) (n : Bytes) :
    ((buildEnv ins).apply qs env).get n
      = ((buildEnv (ins.filter (fun i => i.scope = qs))).apply qs ((buildEnv ins).apply .all env)).get n := by
  rw [apply_get, apply_get]
  have h0 := apply_get ins .all env n
  have h1 : (fun b => lookIns (ins.filter (fun i => i.scope = qs)) .all b n) = fun _ => none := by
    funext b; rw [lookIns_def]; apply look_nohit
    intro i hi hh
    have := (List.mem_filter.mp hi).2
    simp only [decide_eq_true_eq] at this
    exact hqs (this.symm.trans hh.1)
  have h2 : ∀ b, lookIns (ins.filter (fun i => i.scope = qs)) qs b n = lookIns ins qs b n := by
    intro b; rw [lookIns_def, lookIns_def]; apply look_filter; intro i hi; simp [hi]
  cases qs with
  | all => exact absurd rfl hqs
  | build => simp only [specApply, h0, h1, h2, ruleVar_none]
  | launch => simp only [specApply, h0, h1, h2, ruleVar_none]
  | process p => simp only [specApply, h0, h1, h2, ruleVar_none]

/-- **M6 (delimiter without an action).** A variable whose only entries are delimiters is returned unchanged, set or unset:
a `.delim` entry alone never creates or changes a variable. -/
theorem delimiter_alone_has_no_effect (ins : List Ins) (qs : Scope) (env : Env) (n : Bytes)
    (h : ∀ i ∈ ins, i.name = n → i.beh = .delim) : ((buildEnv ins).apply qs env).get n = env.get n := by
  rw [apply_get]
  have hl : ∀ s b, b ≠ .delim → lookIns ins s b n = none := by
    intro s b hb; rw [lookIns_def]; apply look_nohit
    intro i hi hh
    exact hb (hh.2.1.symm.trans (h i hi hh.2.2))
  have hr : ∀ s prev, ruleVar (fun b => lookIns ins s b n) prev = prev := by
    intro s prev
    simp only [ruleVar, hl s .append (by decide), hl s .default (by decide), hl s .override (by decide),
      hl s .prepend (by decide)]
  cases qs <;> simp only [specApply, hr]

/-- **M7 (override in the queried scope).** When the queried scope has an `override` entry for a variable and no `prepend`
entry for it, the result is that value whatever the starting environment and the `all` entries say. -/
theorem scope_override_replaces (ins : List Ins) (qs : Scope) (env : Env) (n v : Bytes)
    (ho : lookIns ins qs .override n = some v) (hp : lookIns ins qs .prepend n = none) :
    ((buildEnv ins).apply qs env).get n = some v := by
  rw [apply_get]
  cases qs <;> simp only [specApply, ruleVar, ho, hp, rule1]

/-- Non-vacuity / sanity: every behaviour on one variable, `all` before `build`. -/
example :
    ((buildEnv [⟨.all, .append, [65], [1]⟩, ⟨.all, .delim, [65], [58]⟩, ⟨.build, .prepend, [65], [2]⟩,
        ⟨.build, .default, [66], [3]⟩, ⟨.launch, .override, [65], [9]⟩]).apply .build [([65], [7])]).get [65]
      = some [2, 7, 58, 1] := by decide

example : (([⟨.all, .append, [65], [1]⟩, ⟨.build, .prepend, [65], [2]⟩] : List Ins).map Ins.key).Nodup := by decide

/-- Non-vacuity of M6/M7: a delimiter-only variable with a set value; a scope override over an `all` prepend. -/
example : ((buildEnv [⟨.all, .delim, [65], [58]⟩, ⟨.build, .delim, [65], [59]⟩]).apply .build [([65], [7])]).get [65] = some [7] := by decide
example : lookIns [⟨.all, .prepend, [65], [1]⟩, ⟨.build, .override, [65], [2]⟩] .build .override [65] = some [2]
    ∧ lookIns [⟨.all, .prepend, [65], [1]⟩, ⟨.build, .override, [65], [2]⟩] .build .prepend [65] = none := by decide

end CnbVerif.C04
