import CnbVerif.Lemmas.ArgvPack
import CnbVerif.Lemmas.PackOutput
/-!
# C17 — libcnb-test passes configuration to pack and docker completely, unambiguously

Property theorems only (helper lemmas live in `Lemmas/Pflag`, `Lemmas/ArgvValues`, `Lemmas/ArgvRun`,
`Lemmas/ArgvPack`). The model is `Model/Argv.lean` (the `From<…> for Command` impls of `docker.rs`/`pack.rs` and the
places that fill the command structs from `ContainerConfig`/`BuildConfig`); the specification is the reference
option grammars `Spec/Pflag.lean`, `Spec/DockerGrammar.lean`, `Spec/PackGrammar.lean` (my reading of the docker and
pack CLIs — neither is installed here, hence the claim is partial in that sense).

Two statements do **not** hold in full under those grammars: a bind-mount path containing a CSV metacharacter
(`,` `"` CR LF) is not read back intact from `--mount`, nor a buildpack reference containing one (or the empty
reference) from pack's `--buildpack` string slice. They are proved with that hypothesis (`…_partial`), the full
statements are kept (`…FullStatement`) and refuted by concrete witnesses (finding D6).

The clause "every build configuration results in **one** pack build invocation" is about the scenario model
(`Model/TestRunner.lean`: which commands a chain of `build`/`rebuild` calls issues) with the results of the external
commands as an input (`Model/PackOutput.lean`: exit status, stdout, stderr per invocation): theorems
`one_pack_build_per_build_call`, `invocations_independent_of_tool_output`, `pack_output_handed_over`,
`hand_over_one_per_invocation`, `lossy_identity_on_ascii`.
-/
namespace CnbVerif.C17
open CnbVerif CnbVerif.Argv CnbVerif.ArgvLemmas CnbVerif.Spec.Pflag

/-- what docker must understand from `start_container(cfg)`: exactly the configured entrypoint, environment
(as the map the configuration holds), ports, bind mounts, image and command — and nothing else (`other = []`) -/
def expectedRun (image name platform : Word) (cfg : ContainerConfig) : Spec.Docker.Run :=
  { name := some name, detach := true, rm := false, platform := some platform, entrypoint := cfg.entrypoint,
    env := (btOfList bytesLt cfg.env).map (fun kv => (kv.1, some kv.2)),
    publish := (bsOfList cfg.exposedPorts).map (fun p => ⟨w!"127.0.0.1", [], p, w!"tcp"⟩),
    mounts := (btOfList pathLt cfg.bindMounts).map (fun m => ⟨w!"bind", some m.1, m.2, false, []⟩),
    other := [], image := image,
    command := match cfg.command with | some c => c | none => [] }

/-- well-formedness of a container configuration: env keys without `=`, ports are `u16` -/
def ContainerCfgOk (cfg : ContainerConfig) : Prop :=
  (∀ kv ∈ cfg.env, 61 ∉ kv.1) ∧ (∀ p ∈ cfg.exposedPorts, p ≤ 65535)

/-- the hypothesis that excludes finding D6 for bind mounts -/
def MountsCsvSafe (cfg : ContainerConfig) : Prop := ∀ m ∈ cfg.bindMounts, CsvSafe m.1 ∧ CsvSafe m.2

/-- the full-strength statement for `docker run` (false under the reference grammar: see the counterexample) -/
def DockerRunFullStatement : Prop :=
  ∀ (image name platform : Word) (cfg : ContainerConfig), image.head? ≠ some 45 → ContainerCfgOk cfg →
    Spec.Docker.parseDockerRun (dockerRunArgv (startContainerCommand image name platform cfg))
      = some (expectedRun image name platform cfg)

/-- **M1.** For every container configuration — arbitrary byte strings (leading dashes, spaces, `=`, Unicode, empty)
as entrypoint, env values, command words, mount paths without CSV metacharacters; env keys without `=` — the
`docker run` argv built by `start_container`, parsed by docker's reference grammar, yields exactly the configured
entrypoint, environment, exposed ports, bind mounts, image and command, and no other option. -/
theorem docker_run_roundtrip_partial (image name platform : Word) (cfg : ContainerConfig)
    (himg : image.head? ≠ some 45) (hok : ContainerCfgOk cfg) (hm : MountsCsvSafe cfg) :
    Spec.Docker.parseDockerRun (dockerRunArgv (startContainerCommand image name platform cfg))
      = some (expectedRun image name platform cfg) := by
  have h := parseDockerRun_argv (startContainerCommand image name platform cfg) himg
    (by
      intro kv hkv
      obtain ⟨⟨a, ha, e⟩, _⟩ := btOfList_mem bytesLt cfg.env kv hkv
      rw [e]; exact hok.1 a ha)
    (by intro p hp; exact hok.2 p (bsOfList_mem _ p hp))
    (by
      intro m hmm
      obtain ⟨⟨a, ha, e1⟩, ⟨b, hb, e2⟩⟩ := btOfList_mem pathLt cfg.bindMounts m hmm
      rw [e1, e2]; exact ⟨(hm a ha).1, (hm b hb).2⟩)
  rw [h]
  rfl

/-- **M1, the D6 witness.** A bind mount whose source is `/src,readonly` is read back as a *read-only* mount of
`/src`: the full statement is false under the reference grammar. -/
theorem docker_run_mount_comma_counterexample : ¬ DockerRunFullStatement := by
  intro h
  have := h w!"img" w!"ctr" w!"linux/amd64"
    { entrypoint := none, command := none, env := [], exposedPorts := [], bindMounts := [(w!"/src,readonly", w!"/dst")] }
    (by decide) (by simp [ContainerCfgOk])
  revert this
  decide

/-- **M1 for `run_shell_command`.** The shell command — any byte string — arrives as the single command word after
the image, with entrypoint `launcher`, `--rm`, not detached. No hypothesis on the command. -/
theorem run_shell_roundtrip (image name platform command : Word) (himg : image.head? ≠ some 45) :
    Spec.Docker.parseDockerRun (dockerRunArgv (runShellCommand image name platform command))
      = some { name := some name, detach := false, rm := true, platform := some platform,
               entrypoint := some w!"launcher", env := [], publish := [], mounts := [], other := [],
               image := image, command := [command] } := by
  have h := parseDockerRun_argv (runShellCommand image name platform command) himg
    (by simp [runShellCommand]) (by simp [runShellCommand]) (by simp [runShellCommand])
  rw [h]
  rfl

/-- **M1 for `shell_exec`.** `docker exec <container> launcher <command>`: the command is one positional word. -/
theorem shell_exec_roundtrip (container command : Word) (hc : container.head? ≠ some 45) :
    Spec.Docker.parseDockerExec (shellExecArgv container command)
      = some ⟨container, [w!"launcher", command], []⟩ :=
  parseDockerExec_argv container command hc

/-- what pack must understand from `build(cfg)` -/
def expectedBuild (image : Word) (cfg : BuildConfig) (appPath : Word) : Spec.Pack.Build :=
  { image := image, builder := some cfg.builder, path := some appPath, buildpacks := cfg.buildpacks,
    env := (btOfList bytesLt cfg.env).map (fun kv => (kv.1, some kv.2)),
    caches := [⟨w!"build", w!"volume", image ++ w!".build-cache"⟩, ⟨w!"launch", w!"volume", image ++ w!".launch-cache"⟩],
    pullPolicy := some w!"if-not-present", trustBuilder := true, trustExtraBuildpacks := true, other := [] }

/-- the generated image name is harmless: no leading `-`, no metacharacter of the `--cache` record -/
def ImageNameOk (image : Word) : Prop := image.head? ≠ some 45 ∧ NameSafe image

/-- the hypothesis that excludes finding D6 for buildpack references -/
def BuildpacksCsvSafe (cfg : BuildConfig) : Prop := ∀ b ∈ cfg.buildpacks, b ≠ [] ∧ CsvSafe b

/-- the full-strength statement for `pack build` (false under the reference grammar) -/
def PackBuildFullStatement : Prop :=
  ∀ (image : Word) (cfg : BuildConfig) (appPath : Word), ImageNameOk image → (∀ kv ∈ cfg.env, 61 ∉ kv.1) →
    Spec.Pack.parsePackBuild (packBuildArgv (packBuildCommand (resourcesFor image) cfg appPath))
      = some (expectedBuild image cfg appPath)

/-- **M2.** For every build configuration — arbitrary builder name, app path, env values; buildpack references
non-empty and without CSV metacharacters; env keys without `=` — the `pack build` argv, parsed by pack's reference
grammar, carries the image, the builder, the app path, **all buildpack references in the configured order**, every
environment pair, both cache volumes, and no other option. -/
theorem pack_build_roundtrip_partial (image : Word) (cfg : BuildConfig) (appPath : Word)
    (himg : ImageNameOk image) (henv : ∀ kv ∈ cfg.env, 61 ∉ kv.1) (hbp : BuildpacksCsvSafe cfg) :
    Spec.Pack.parsePackBuild (packBuildArgv (packBuildCommand (resourcesFor image) cfg appPath))
      = some (expectedBuild image cfg appPath) := by
  have hsafe : ∀ sfx : Word, NameSafe sfx → NameSafe (image ++ sfx) := by
    intro sfx hs
    obtain ⟨a, b, c, d⟩ := himg.2
    obtain ⟨a', b', c', d'⟩ := hs
    simp [NameSafe, a, b, c, d, a', b', c', d']
  have h := parsePackBuild_argv (packBuildCommand (resourcesFor image) cfg appPath) himg.1
    (by
      intro kv hkv
      obtain ⟨⟨a, ha, e⟩, _⟩ := btOfList_mem bytesLt cfg.env kv hkv
      rw [e]; exact henv a ha)
    hbp (hsafe _ (by decide)) (hsafe _ (by decide))
  rw [h]
  rfl

/-- **M2, the D6 witness.** The buildpack reference `x,y` is read back as the two references `x` and `y`. -/
theorem pack_build_buildpack_comma_counterexample : ¬ PackBuildFullStatement := by
  intro h
  have := h w!"img" { appDir := w!"app", builder := w!"b", buildpacks := [w!"x,y"], env := [] } w!"/m/app"
    ⟨by decide, by decide⟩ (by simp)
  revert this
  decide

/-- **Exactly once (environment, mounts).** With pairwise distinct keys — which a `HashMap` guarantees — the map handed
to the command line is a permutation of the configured entries: none lost, none duplicated, none merged. Holds for
any key order (`bytesLt` for env keys, `pathLt` for mount sources). -/
theorem configured_entries_exactly_once {κ ν : Type} (lt : κ → κ → Bool) (entries : List (κ × ν))
    (hdistinct : entries.Pairwise (fun a b => Apart lt a.1 b.1)) : (btOfList lt entries).Perm entries :=
  btOfList_perm lt entries hdistinct

/-- **Exactly once (ports).** Distinct ports: the published set is a permutation of the configured ports. -/
theorem configured_ports_exactly_once (ports : List Nat) (hdistinct : ports.Nodup) : (bsOfList ports).Perm ports :=
  bsOfList_perm ports hdistinct

/-- **M3 (`docker run`).** Tokenizer level, with **no hypothesis on any user-supplied string** (commas, quotes,
leading dashes included): the option names docker recognises are exactly the fixed names the code wrote, each
user-supplied string is inside the *value* of its own flag, and the command words are positional words after the
image. No user-supplied string is ever interpreted as an option. -/
theorem value_positions_docker_run (image name platform : Word) (cfg : ContainerConfig) (himg : image.head? ≠ some 45) :
    ∃ rest, dockerRunArgv (startContainerCommand image name platform cfg) = w!"run" :: rest ∧
      parseArgs Spec.Docker.runFlags false rest = some
        ⟨[(w!"name", name), (w!"detach", w!"true"), (w!"platform", platform)]
          ++ (match cfg.entrypoint with | some e => [(w!"entrypoint", e)] | none => [])
          ++ (btOfList bytesLt cfg.env).map (fun kv => (w!"env", kv.1 ++ [61] ++ kv.2))
          ++ (bsOfList cfg.exposedPorts).map (fun p => (w!"publish", w!"127.0.0.1::" ++ natToDec p))
          ++ (btOfList pathLt cfg.bindMounts).map
              (fun m => (w!"mount", w!"type=bind,source=" ++ m.1 ++ w!",target=" ++ m.2)),
         image :: (match cfg.command with | some c => c | none => [])⟩ := by
  obtain ⟨rest, e, hp⟩ := parseArgs_dockerRun (startContainerCommand image name platform cfg) himg
  refine ⟨rest, e, ?_⟩
  rw [hp]
  cases hE : cfg.entrypoint <;> cases hC : cfg.command <;> simp [runOpts, startContainerCommand, cmdOf, wTrue, hE, hC]

/-- the value of the `--mount` option for one configured `(source, target)` pair: both texts verbatim -/
def mountValue (m : Word × Word) : Word := w!"type=bind,source=" ++ m.1 ++ w!",target=" ++ m.2

private theorem valuesOf_append (a b : List (Word × Word)) (n : Word) : valuesOf (a ++ b) n = valuesOf a n ++ valuesOf b n := by
  simp [valuesOf, List.filter_append]

private theorem valuesOf_map_other {α : Type} (k n : Word) (f : α → Word) (l : List α) (h : (k == n) = false) :
    valuesOf (l.map (fun x => (k, f x))) n = [] := by
  induction l with
  | nil => rfl
  | cons x r ih => simpa [valuesOf, h] using ih

private theorem valuesOf_map_same {α : Type} (n : Word) (f : α → Word) (l : List α) :
    valuesOf (l.map (fun x => (n, f x))) n = l.map f := by
  induction l with
  | nil => rfl
  | cons x r ih => simpa [valuesOf] using ih

/-- **Bind mounts: exactly the configured pairs, texts verbatim, whatever they name.** For every container configuration
whose bind-mount sources are pairwise different paths (different as `PathBuf`s, i.e. component-wise — two calls with the
*same* path overwrite, which is what the configuration's `HashMap<PathBuf, PathBuf>` holds) the values of the `--mount`
options docker reads from `start_container`'s command line are a permutation of `type=bind,source=<source>,target=<target>`
over the configured `(source, target)` pairs: one option per configured pair, none missing, none merged, the source text as
it was configured. There is no file system in the statement: a source is an opaque text, so two *different* texts that
name one location on the host (a symlink and its target, `dir/../x` and `x`) stay two mounts, and a text is never
replaced by another spelling of the location it names. No hypothesis on the characters of sources or targets. -/
theorem bind_mounts_exactly_configured (image name platform : Word) (cfg : ContainerConfig) (himg : image.head? ≠ some 45)
    (hd : cfg.bindMounts.Pairwise (fun a b => Apart pathLt a.1 b.1)) :
    ∃ rest raw, dockerRunArgv (startContainerCommand image name platform cfg) = w!"run" :: rest
      ∧ parseArgs Spec.Docker.runFlags false rest = some raw
      ∧ (valuesOf raw.opts w!"mount").Perm (cfg.bindMounts.map mountValue) := by
  obtain ⟨rest, e, hp⟩ := value_positions_docker_run image name platform cfg himg
  refine ⟨rest, _, e, hp, ?_⟩
  have hperm := (configured_entries_exactly_once pathLt cfg.bindMounts hd).map mountValue
  have hE : valuesOf (match cfg.entrypoint with | some e => [(w!"entrypoint", e)] | none => []) w!"mount" = [] := by
    cases cfg.entrypoint <;> rfl
  have h3 : valuesOf [(w!"name", name), (w!"detach", w!"true"), (w!"platform", platform)] w!"mount" = [] := by rfl
  simp only [valuesOf_append, hE, h3, valuesOf_map_other _ _ _ _ (by decide : (w!"env" == w!"mount") = false),
    valuesOf_map_other _ _ _ _ (by decide : (w!"publish" == w!"mount") = false), List.nil_append]
  rw [valuesOf_map_same]
  exact hperm

/-- **M3 (`pack build`).** The same for pack, with no hypothesis on builder, path, buildpack references or env. -/
theorem value_positions_pack_build (image : Word) (cfg : BuildConfig) (appPath : Word) (himg : image.head? ≠ some 45) :
    ∃ rest, packBuildArgv (packBuildCommand (resourcesFor image) cfg appPath) = w!"build" :: rest ∧
      parseArgs Spec.Pack.buildFlags true rest = some
        ⟨[(w!"builder", cfg.builder),
          (w!"cache", w!"type=build;format=volume;name=" ++ (image ++ w!".build-cache")),
          (w!"cache", w!"type=launch;format=volume;name=" ++ (image ++ w!".launch-cache")),
          (w!"path", appPath), (w!"pull-policy", w!"if-not-present")]
          ++ cfg.buildpacks.map (fun b => (w!"buildpack", b))
          ++ (btOfList bytesLt cfg.env).map (fun kv => (w!"env", kv.1 ++ [61] ++ kv.2))
          ++ [(w!"trust-builder", w!"true"), (w!"trust-extra-buildpacks", w!"true")],
         [image]⟩ := by
  obtain ⟨rest, e, hp⟩ := parseArgs_packBuild (packBuildCommand (resourcesFor image) cfg appPath) himg
  refine ⟨rest, e, ?_⟩
  rw [hp]
  simp [buildOpts, packBuildCommand, resourcesFor, wTrue]

/-- **Cleanup and inspection commands** name exactly the intended object and carry `--force` as an option:
`docker rm <c> --force`, `docker rmi <i> --force`, `docker volume remove <v1> <v2> --force`, `docker logs <c>
[--follow]`, `docker port <c> <p>`, `pack sbom download <i> --output-dir <d>` (the directory is any byte string). -/
theorem small_commands_roundtrip (c d : Word) (p : Nat) (follow : Bool) (hc : c.head? ≠ some 45) (hp : p ≤ 65535) :
    Spec.Docker.parseDockerRm (dockerRmArgv c) = some ⟨[c], true, []⟩
    ∧ Spec.Docker.parseDockerRmi (dockerRmiArgv c) = some ⟨[c], true, []⟩
    ∧ Spec.Docker.parseDockerVolumeRm (dockerVolumeRemoveArgv [c ++ w!".build-cache", c ++ w!".launch-cache"])
        = some ⟨[c ++ w!".build-cache", c ++ w!".launch-cache"], true, []⟩
    ∧ Spec.Docker.parseDockerLogs (dockerLogsArgv c follow) = some ⟨c, follow, []⟩
    ∧ Spec.Docker.parseDockerPort (dockerPortArgv c p) = some ⟨c, p, w!"tcp"⟩
    ∧ Spec.Pack.parsePackSbomDownload (packSbomDownloadArgv c d) = some ⟨c, some d, []⟩ := by
  have hsfx : ∀ sfx : Word, sfx.head? ≠ some 45 → (c ++ sfx).head? ≠ some 45 := by
    intro sfx hs
    cases c with
    | nil => simpa using hs
    | cons x xs => simpa using hc
  exact ⟨parseDockerRm_argv c hc, parseDockerRmi_argv c hc,
    parseDockerVolumeRm_argv _ (by simp) (by intro n hn; simp at hn; rcases hn with h | h <;> subst h <;> exact hsfx _ (by decide)),
    parseDockerLogs_argv c follow hc, parseDockerPort_argv c p hc hp, parsePackSbomDownload_argv c d hc⟩

/-- **Generated names are harmless.** Every name `util::random_docker_identifier` can produce (`libcnbtest_` followed by
lowercase letters) satisfies the hypotheses the theorems above put on image and container names. -/
theorem generated_names_ok (sfx : Word) (h : ∀ b ∈ sfx, 97 ≤ b ∧ b ≤ 122) : ImageNameOk (w!"libcnbtest_" ++ sfx) := by
  have hn : ∀ c : Nat, c < 97 → c ∉ sfx := fun c hc m => by have := h c m; omega
  refine ⟨by simp, ?_⟩
  simp [NameSafe, hn]

/-! ### one invocation per build call, whatever the tools return -/

open CnbVerif.TestRunner CnbVerif.PackOutput in
/-- **One `pack build` per `build`/`rebuild` call (count and argv).** For every scenario (chain of build calls with arbitrary
closures) and **every oracle** — i.e. whatever exit status any `pack` or `docker` invocation returns, in particular whatever the
`pack build`s themselves return: the `pack build` commands of the run are, in order, exactly one for each of the first `k` build
calls of the chain, each the command of that call's own configuration (`packBuildCommand`: builder, buildpacks in order, env,
image and cache names of the run; path = the fixture, or a temporary directory when a preprocessor is configured); `k` is the
whole chain when the run ends normally. No build call is answered by two invocations, none by another call's. -/
theorem one_pack_build_per_build_call (o : Oracle) (sc : Scenario) :
    ∃ k, k ≤ sc.length ∧ Paired (BuildOf (resourcesFor (nameWord 0))) (sc.take k) (pbs (run o sc).2.log) ∧
      ((run o sc).1 = .ok → k = sc.length) := by
  obtain ⟨k, hk, added, hlog, hall, hok⟩ := evalBuilds_pbs o (resourcesFor (nameWord 0)) sc initSt
  refine ⟨k, hk, ?_, hok⟩
  have : pbs (run o sc).2.log = added := by
    simp only [run]; rw [hlog]; simp [initSt]
  rw [this]; exact hall

open CnbVerif.TestRunner CnbVerif.PackOutput in
/-- **The invocations do not depend on what the tools print.** Two worlds (scripts of tool results: exit status, stdout,
stderr per invocation) that agree on which invocations end with status zero produce the same run: the same commands with the
same argv in the same order, the same outcome, the same temporary directories. The texts and the particular non-zero
status are not looked at by anything that decides what is run. -/
theorem invocations_independent_of_tool_output (s1 s2 : Script) (fallback : Oracle) (sc : Scenario)
    (h : ∀ p n, (s1.find p n).map statusOf = (s2.find p n).map statusOf) :
    run (scriptOracle s1 fallback) sc = run (scriptOracle s2 fallback) sc := by
  have : scriptOracle s1 fallback = scriptOracle s2 fallback := by
    funext i c n
    have := h c.prog n
    simp only [scriptOracle]
    cases h1 : s1.find c.prog n <;> cases h2 : s2.find c.prog n <;> simp [h1, h2] at this ⊢
    exact this
  rw [this]

open CnbVerif.PackOutput in
/-- **The pack output handed to the test is that of the one invocation.** For every expectation and every result of the
invocation (any status, any bytes on either stream): the build either gives the test a `TestContext` — exactly when the status
is the expected kind — whose `pack_stdout` / `pack_stderr` are the invocation's stdout / stderr (as text: `from_utf8_lossy`), or
panics — exactly when it is not — with a message that quotes both streams of that invocation. -/
theorem pack_output_handed_over (expectSuccess : Bool) (t : ToolOutput) :
    match handOver expectSuccess (runCommand w!"pack" t) with
    | .context so se => expectSuccess = decide (t.exit = 0) ∧ so = fromUtf8Lossy t.stdout ∧ se = fromUtf8Lossy t.stderr
    | .panic msg => expectSuccess ≠ decide (t.exit = 0) ∧ fromUtf8Lossy t.stdout <:+: msg ∧ fromUtf8Lossy t.stderr <:+: msg
    | .unknown => False := by
  have hrun : runCommand w!"pack" t = if t.exit = 0 then .ok ⟨fromUtf8Lossy t.stdout, fromUtf8Lossy t.stderr⟩
      else .error (.nonZero w!"pack" t.exit ⟨fromUtf8Lossy t.stdout, fromUtf8Lossy t.stderr⟩) := rfl
  rw [hrun]
  by_cases hz : t.exit = 0
  · rw [if_pos hz]
    cases expectSuccess
    · show false ≠ decide (t.exit = 0) ∧ _ ∧ _
      exact ⟨by simp [hz], infix_prepend _ (display_quotes ⟨_, _⟩).1, infix_prepend _ (display_quotes ⟨_, _⟩).2⟩
    · show true = decide (t.exit = 0) ∧ _ ∧ _
      exact ⟨by simp [hz], rfl, rfl⟩
  · rw [if_neg hz]
    cases expectSuccess
    · show false = decide (t.exit = 0) ∧ _ ∧ _
      exact ⟨by simp [hz], rfl, rfl⟩
    · show true ≠ decide (t.exit = 0) ∧ _ ∧ _
      exact ⟨by simp [hz], infix_prepend _ (error_display_quotes _ _ ⟨_, _⟩).1, infix_prepend _ (error_display_quotes _ _ ⟨_, _⟩).2⟩

open CnbVerif.TestRunner CnbVerif.PackOutput in
/-- **One hand-over per invocation.** What the scenario-level model reports as handed to the test (`handOvers`) pairs the build
calls with the `pack build` entries of the log one to one. -/
theorem hand_over_one_per_invocation (s : Script) (sc : Scenario) (log : List Entry) :
    (handOvers s sc log).length = min sc.length (pbs log).length := by
  have hlen : ∀ (l : List Entry) (n : Nat), (packBuildsIn l n).length = (pbs l).length := by
    intro l
    induction l with
    | nil => intro n; rfl
    | cons e r ih =>
      intro n
      have ih' := ih
      simp only [pbs] at ih'
      cases hc : e.cmd <;> simp [packBuildsIn, pbs, isPB, hc, ih', List.filter_cons]
  simp [handOvers, hlen]

open CnbVerif.PackOutput in
/-- **Text is handed over unchanged.** On ASCII output (`pack`'s and `docker`'s own messages) the lossy decoding is the
identity, so the test sees the bytes the invocation printed. -/
theorem lossy_identity_on_ascii (s : Bytes) (h : ∀ b ∈ s, b < 128) : fromUtf8Lossy s = s := by
  have key : ∀ (f : Nat) (l : List Nat), l.length ≤ f → (∀ b ∈ l, b < 128) → lossyFuel f l = l := by
    intro f
    induction f with
    | zero => intro l hl _; cases l with
      | nil => rfl
      | cons a r => simp at hl
    | succ f ih =>
      intro l hl hb
      cases l with
      | nil => rfl
      | cons a r =>
        have ha : a < 128 := hb a (by simp)
        have hs : chunkStep a r = (1, true) := by simp [chunkStep, ha]
        simp only [lossyFuel, hs, if_true, List.take_succ_cons, List.take_zero, List.drop_succ_cons, List.drop_zero]
        rw [ih r (by simpa using hl) (fun b hbm => hb b (by simp [hbm]))]
        rfl
  exact key s.length s (Nat.le_refl _) h

/-! ### non-vacuity: the hypotheses are met by non-trivial values -/

/-- a configuration with leading dashes, `=`, spaces, empty strings, Unicode (UTF-8 bytes of `é`) everywhere allowed -/
def sampleCfg : ContainerConfig :=
  { entrypoint := some w!"--ep", command := some [w!"-b=c", w!"--x", w!"", w!"é y"],
    env := [(w!"B", w!"=x y"), (w!"A", w!""), (w!"-e", w!"--env")], exposedPorts := [8080, 0, 80],
    bindMounts := [(w!"/src dir", w!"/dst=1"), (w!"./a//b", w!"/-t")] }

private theorem sampleCfg_ok : ContainerCfgOk sampleCfg ∧ MountsCsvSafe sampleCfg := by
  refine ⟨⟨?_, ?_⟩, ?_⟩ <;> simp [sampleCfg, MountsCsvSafe, CsvSafe]

example : sampleCfg.env.Pairwise (fun a b => Apart bytesLt a.1 b.1) ∧ sampleCfg.exposedPorts.Nodup
    ∧ sampleCfg.bindMounts.Pairwise (fun a b => Apart pathLt a.1 b.1) := by
  refine ⟨?_, ?_, ?_⟩ <;> simp [sampleCfg, Apart] <;> decide

example : Spec.Docker.parseDockerRun (dockerRunArgv (startContainerCommand w!"img" w!"ctr" w!"linux/amd64" sampleCfg))
    = some (expectedRun w!"img" w!"ctr" w!"linux/amd64" sampleCfg) :=
  docker_run_roundtrip_partial _ _ _ sampleCfg (by decide) sampleCfg_ok.1 sampleCfg_ok.2

/-- the seeded-change shape: a symlink and the directory it points at, mounted at two targets — different texts, hence apart as
paths; both reach docker, each with its own text (and `/data/releases/v2/` would be the *same* path as `/data/releases/v2`) -/
example : [(w!"/data/current", w!"/srv/current"), (w!"/data/releases/v2", w!"/srv/pinned")].Pairwise (fun a b => Apart pathLt a.1 b.1) := by
  simp [Apart]; decide

example : (startContainerCommand w!"img" w!"ctr" w!"linux/amd64"
      { entrypoint := none, command := none, env := [], exposedPorts := [],
        bindMounts := [(w!"/data/releases/v2", w!"/srv/pinned"), (w!"/data/current", w!"/srv/current")] }).bindMounts
    = [(w!"/data/current", w!"/srv/current"), (w!"/data/releases/v2", w!"/srv/pinned")] := by decide

example : ¬ Apart pathLt w!"/data/releases/v2/" w!"/data//releases/./v2" := by simp [Apart]; decide

def sampleBuild : BuildConfig :=
  { appDir := w!"fixtures/app", builder := w!"--builder=x", buildpacks := [w!"heroku/a b", w!"--evil", w!"-b=c"],
    env := [(w!"K", w!"v=1"), (w!"A", w!"--env")] }

example : ImageNameOk w!"libcnbtest_abcdefghijkl" ∧ BuildpacksCsvSafe sampleBuild ∧ (∀ kv ∈ sampleBuild.env, 61 ∉ kv.1) := by
  refine ⟨⟨by decide, by decide⟩, ?_, ?_⟩ <;> simp [sampleBuild, BuildpacksCsvSafe, CsvSafe]

example : (Spec.Pack.parsePackBuild (packBuildArgv (packBuildCommand (resourcesFor w!"img") sampleBuild w!"/m/fixtures/app"))).map
    (·.buildpacks) = some [w!"heroku/a b", w!"--evil", w!"-b=c"] := by decide

/-- a failing `pack build` whose stderr is a registry's rate-limit message, expected to fail: the test gets that text -/
example : PackOutput.handOver false (PackOutput.runCommand w!"pack" ⟨1, w!"pack output\n", w!"toomanyrequests: rate limit\n"⟩)
    = .context w!"pack output\n" w!"toomanyrequests: rate limit\n" := by decide

/-- ill-formed UTF-8 is replaced chunk by chunk: `E2 82` (truncated), `FF`, then `A` -/
example : PackOutput.fromUtf8Lossy [226, 130, 255, 65] = [239, 191, 189, 239, 191, 189, 65] := by decide

/-- a chain of two builds whose first `pack build` fails as expected (scripted, with output), a closure that runs a shell
command in between: two `pack build` invocations, one per call -/
def sampleChain : TestRunner.Scenario :=
  [⟨⟨sampleBuild, true, false, false, w!"x86_64-unknown-linux-musl", .ok⟩, [.runShell w!"true"]⟩,
   ⟨⟨sampleBuild, true, true, true, w!"x86_64-unknown-linux-musl", .ok⟩, []⟩]

def sampleScript : PackOutput.Script :=
  [(.pack, 0, ⟨1, w!"", w!"connection reset by peer"⟩), (.pack, 1, ⟨0, w!"ok", w!""⟩)]

example : ((TestRunner.run (PackOutput.scriptOracle sampleScript (fun _ _ _ => none)) sampleChain).1 = .ok)
    ∧ (PackOutput.pbs (TestRunner.run (PackOutput.scriptOracle sampleScript (fun _ _ _ => none)) sampleChain).2.log).length = 2 := by
  decide

end CnbVerif.C17
