import CnbVerif.Lemmas.DepGraphIds
/-!
# C13 — buildpacks are packaged in dependency order, each after all its dependencies

Property theorems only. Model: `Model/DepGraph.lean` (`createGraph` = `create_dependency_graph`,
`getDependencies` = `get_dependencies`: post-order DFS, successors in edge-insertion order, one visited state shared
by all roots, fuel = node count + 1). Specification: `Spec/Topo.lean` (`Reachable`, `DepsFirst`, `IsBuildOrder`,
`Acyclic`; the executable judge `checkOrder`). Graph nodes are positions in the node list; `g.succ u` are the targets
of `u`'s edges; `RootsAt g roots ridx` says `ridx` are the first nodes carrying the root ids.
-/
namespace CnbVerif.C13
open CnbVerif.DepGraph CnbVerif.Spec.Topo

/-- **M1–M3 in one.** For every node list whose dependencies all resolve, every selection of roots and every
acyclic dependency relation, the order computed by `get_dependencies` is a build order of the selected nodes:
exactly the selection and its transitive dependencies, each once, every node after all of its dependencies. -/
theorem build_order (nodes : List Node) (g : Graph) (roots : List String) (out : List Nat)
    (hg : createGraph nodes = .ok g) (hac : Acyclic g.succ) (ho : getDependencies g roots = .ok out) :
    ∃ ridx, RootsAt g roots ridx ∧ IsBuildOrder g.succ ridx out := by
  obtain ⟨rank, hrank⟩ := hac
  unfold getDependencies at ho
  split at ho
  · cases ho
  · rename_i st hst
    simp only [Except.ok.injEq] at ho
    obtain ⟨ridx, hr, rfl⟩ := getDepsLoop_ok hst
    subst ho
    exact ⟨ridx, hr, (traversal_spec hg rank hrank hr).1⟩

/-- **The property in buildpack ids.** For every set of buildpacks with pairwise distinct ids whose declared
dependencies (`depsOf nodes`) all name a buildpack of the set and are acyclic, and every selection of roots that
`get_dependencies` accepts, the computed order — read as buildpack ids — contains exactly the selected ids and
everything they transitively depend on, each once, every buildpack after all of its dependencies. -/
theorem build_order_ids (nodes : List Node) (g : Graph) (roots : List String) (out : List Nat)
    (hnd : (nodes.map (·.id)).Nodup) (hg : createGraph nodes = .ok g) (hac : Acyclic (depsOf nodes))
    (ho : getDependencies g roots = .ok out) :
    IsBuildOrder (depsOf nodes) roots (out.map (idAt g)) := by
  obtain ⟨ridx, hr, h⟩ := build_order nodes g roots out hg (acyclic_of_ids hg hnd hac) ho
  exact buildOrder_ids hg hnd hr h

/-- **M1 `deps_first`.** In the computed order every node occurs after all of its dependencies: wherever the order
is split at a node `u`, every dependency of `u` lies in the part before it. -/
theorem deps_first (nodes : List Node) (g : Graph) (roots : List String) (out : List Nat)
    (hg : createGraph nodes = .ok g) (hac : Acyclic g.succ) (ho : getDependencies g roots = .ok out) :
    ∀ pre u post, out = pre ++ u :: post → ∀ w ∈ g.succ u, w ∈ pre := by
  obtain ⟨_, _, h⟩ := build_order nodes g roots out hg hac ho
  exact h.depsFirst

/-- **M2 `nodup`.** The computed order contains each node at most once (also when roots repeat or overlap). -/
theorem nodup (nodes : List Node) (g : Graph) (roots : List String) (out : List Nat)
    (hg : createGraph nodes = .ok g) (hac : Acyclic g.succ) (ho : getDependencies g roots = .ok out) :
    out.Nodup := by
  obtain ⟨_, _, h⟩ := build_order nodes g roots out hg hac ho
  exact h.nodup

/-- **M3 `exact`.** The computed order contains exactly the selected nodes and everything they transitively depend
on — nothing is missing and nothing else is built. -/
theorem exact (nodes : List Node) (g : Graph) (roots : List String) (out : List Nat)
    (hg : createGraph nodes = .ok g) (hac : Acyclic g.succ) (ho : getDependencies g roots = .ok out) :
    ∃ ridx, RootsAt g roots ridx ∧ ∀ v, v ∈ out ↔ Reachable g.succ ridx v := by
  obtain ⟨ridx, hr, h⟩ := build_order nodes g roots out hg hac ho
  exact ⟨ridx, hr, h.exact⟩

/-- **M4 `fuel_enough`.** The fuel (node count + 1) is never the reason the traversal stops: the final state of the
loop over the roots is not marked starved. -/
theorem fuel_enough (nodes : List Node) (g : Graph) (roots : List String) (st : St)
    (hg : createGraph nodes = .ok g) (hac : Acyclic g.succ) (ho : getDepsLoop g roots St.empty = .ok st) :
    st.starved = false := by
  obtain ⟨rank, hrank⟩ := hac
  obtain ⟨ridx, hr, rfl⟩ := getDepsLoop_ok ho
  exact (traversal_spec hg rank hrank hr).2

/-- **Totality on known roots.** `get_dependencies` fails exactly when a root is not in the graph, and the error
names such a root. -/
theorem unknown_root_is_the_only_error (g : Graph) (roots : List String) :
    ((∃ out, getDependencies g roots = .ok out) ↔ ∀ r ∈ roots, r ∈ g.ids) ∧
      ∀ e, getDependencies g roots = .error e → e ∈ roots ∧ e ∉ g.ids := by
  refine ⟨⟨?_, ?_⟩, ?_⟩
  · rintro ⟨out, ho⟩ r hr
    unfold getDependencies at ho
    split at ho
    · cases ho
    · rename_i st hst
      obtain ⟨ridx, hra, _⟩ := getDepsLoop_ok hst
      have : ∀ {roots ridx}, RootsAt g roots ridx → ∀ r ∈ roots, r ∈ g.ids := by
        intro roots ridx h
        induction h with
        | nil => intro r hr; simp at hr
        | cons hd _ ih =>
          intro r hr
          rcases List.mem_cons.1 hr with rfl | hr
          · exact Classical.byContradiction (fun hn => by
              rw [(findIdx_none_iff _ _).2 hn] at hd; cases hd)
          · exact ih r hr
      exact this hra r hr
  · intro h
    obtain ⟨st, hst⟩ := getDepsLoop_ok_of_known St.empty h
    exact ⟨st.out, by simp [getDependencies, hst]⟩
  · intro e he
    unfold getDependencies at he
    split at he
    · rename_i e' hst
      simp only [Except.error.injEq] at he
      subst he
      exact getDepsLoop_error hst
    · cases he

/-- **M5a `missing_dependency_is_error`.** Graph construction fails exactly when some node declares a dependency on
an id no node carries; the error names such a dependency. It is never dropped silently. -/
theorem missing_dependency_is_error (nodes : List Node) :
    ((∃ e, createGraph nodes = .error e) ↔ ∃ nd ∈ nodes, ∃ d ∈ nd.deps, d ∉ nodes.map (·.id)) ∧
      ∀ e, createGraph nodes = .error e → ∃ nd ∈ nodes, e ∈ nd.deps ∧ e ∉ nodes.map (·.id) := by
  have herr : ∀ e, createGraph nodes = .error e → ∃ nd ∈ nodes, e ∈ nd.deps ∧ e ∉ nodes.map (·.id) := by
    intro e h
    unfold createGraph at h
    simp only at h
    split at h
    · rename_i e' he
      simp only [Except.error.injEq] at h
      subst h
      exact resolveAll_error he
    · cases h
  refine ⟨⟨?_, ?_⟩, herr⟩
  · rintro ⟨e, h⟩
    obtain ⟨nd, h1, h2, h3⟩ := herr e h
    exact ⟨nd, h1, e, h2, h3⟩
  · rintro ⟨nd, h1, d, h2, h3⟩
    cases hc : createGraph nodes with
    | error e => exact ⟨e, rfl⟩
    | ok g =>
      exfalso
      obtain ⟨_, hadj⟩ := createGraph_ok hc
      obtain ⟨row, _, hres⟩ := hadj.exists_right h1
      obtain ⟨i, _, hi⟩ := Forall₂.exists_right hres h2
      rw [(findIdx_none_iff _ d).2 h3] at hi
      cases hi

/-- **M5b `createGraph` never drops (or invents) an edge.** In a created graph the node weights are the given nodes
in the given order and node `k`'s out-edges are, in order and multiplicity, exactly its declared dependencies, each
resolved to the first node carrying that id. -/
theorem createGraph_keeps_every_edge (nodes : List Node) (g : Graph) (hg : createGraph nodes = .ok g) :
    g.ids = nodes.map (·.id) ∧
      Forall₂ (fun (nd : Node) (row : List Nat) => Forall₂ (fun d i => findIdx g.ids d = some i) nd.deps row)
        nodes g.adj := by
  obtain ⟨hids, hadj⟩ := createGraph_ok hg
  rw [hids]
  exact ⟨rfl, hadj⟩

/-- **M5c (readable corollary).** A declared dependency of the node at position `k` is an edge of `k` to a node
carrying that id, and every edge of `k` comes from such a declaration. -/
theorem edges_are_the_declared_dependencies (nodes : List Node) (g : Graph) (hg : createGraph nodes = .ok g)
    (k : Nat) (nd : Node) (hk : nodes[k]? = some nd) :
    (∀ d ∈ nd.deps, ∃ i ∈ g.succ k, g.ids[i]? = some d) ∧ (∀ i ∈ g.succ k, ∃ d ∈ nd.deps, g.ids[i]? = some d) := by
  obtain ⟨hids, hadj⟩ := createGraph_keeps_every_edge nodes g hg
  obtain ⟨row, hrow, hres⟩ := hadj.getElem? hk
  have hs : g.succ k = row := by
    unfold Graph.succ
    simp [List.getD_eq_getElem?_getD, hrow]
  rw [hs]
  constructor
  · intro d hd
    obtain ⟨i, hi, hf⟩ := Forall₂.exists_right hres hd
    exact ⟨i, hi, (findIdx_some hf).2.1⟩
  · intro i hi
    obtain ⟨d, hd, hf⟩ := Forall₂.exists_left hres hi
    exact ⟨d, hd, (findIdx_some hf).2.1⟩

/-- **The judge agrees.** The executable judge used on the implementation's observations accepts exactly the build
orders, so in particular it accepts the model's output. -/
theorem judge_accepts_model (nodes : List Node) (g : Graph) (roots : List String) (out : List Nat)
    (hg : createGraph nodes = .ok g) (hac : Acyclic g.succ) (ho : getDependencies g roots = .ok out) :
    ∃ ridx, RootsAt g roots ridx ∧ checkOrder g.succ ridx out = true := by
  obtain ⟨ridx, hr, h⟩ := build_order nodes g roots out hg hac ho
  exact ⟨ridx, hr, (checkOrder_iff _ _ _).2 h⟩

/-- The judge is sound and complete for the specification, on every graph. -/
theorem judge_iff_spec (deps : Nat → List Nat) (roots out : List Nat) :
    checkOrder deps roots out = true ↔ IsBuildOrder deps roots out := checkOrder_iff deps roots out

/-! ### the order `cargo libcnb package` packages in (`execute`, `Model/DepGraph.lean` `packagingOrder`) -/

/-- **The property on what `execute` does.** For every workspace whose buildpacks carry pairwise distinct ids and
acyclic declared dependencies and every invocation directory: when `execute` gets as far as packaging, the sequence of
buildpacks it hands to `package_buildpack` is non-empty and is a build order of its selection (`rootNodes`: the
buildpack in the invocation directory, else every buildpack when invoked from the workspace root) — exactly the
selected buildpacks and everything they transitively depend on, each once, every buildpack after all of its
dependencies. -/
theorem packaging_order (bps : List Located) (inv : String) (out : List String)
    (hnd : ((bps.map (·.node)).map (·.id)).Nodup) (hac : Acyclic (depsOf (bps.map (·.node))))
    (ho : packagingOrder bps inv = .ok out) :
    IsBuildOrder (depsOf (bps.map (·.node))) (rootNodes bps inv) out ∧ out ≠ [] := by
  unfold packagingOrder at ho
  split at ho
  · cases ho
  · rename_i g hg
    split at ho
    · cases ho
    · rename_i idx hidx
      split at ho
      · cases ho
      · rename_i hne
        simp only [Except.ok.injEq] at ho
        subst ho
        refine ⟨build_order_ids _ g _ idx hnd hg hac hidx, ?_⟩
        intro h
        apply hne
        cases idx with
        | nil => rfl
        | cons _ _ => simp at h

/-- **`execute` fails rather than dropping a dependency.** `execute` stops with the missing-dependency error exactly
when some buildpack of the workspace declares a dependency on an id no buildpack of the workspace carries (whatever
the selection), the error names such a dependency, and nothing is packaged. -/
theorem packaging_missing_dependency_is_error (bps : List Located) (inv : String) :
    ((∃ d, packagingOrder bps inv = .error (.missingDependency d)) ↔
        ∃ nd ∈ bps.map (·.node), ∃ d ∈ nd.deps, d ∉ (bps.map (·.node)).map (·.id)) ∧
      ∀ d, packagingOrder bps inv = .error (.missingDependency d) →
        ∃ nd ∈ bps.map (·.node), d ∈ nd.deps ∧ d ∉ (bps.map (·.node)).map (·.id) := by
  have hm := missing_dependency_is_error (bps.map (·.node))
  have key : ∀ d, packagingOrder bps inv = .error (.missingDependency d) ↔ createGraph (bps.map (·.node)) = .error d := by
    intro d
    unfold packagingOrder
    cases hc : createGraph (bps.map (·.node)) with
    | error e => simp
    | ok g =>
      simp only
      cases getDependencies g (rootNodes bps inv) with
      | error r => simp
      | ok out => by_cases h : out.isEmpty <;> simp [h]
  refine ⟨⟨?_, ?_⟩, ?_⟩
  · rintro ⟨d, h⟩
    exact hm.1.1 ⟨d, (key d).1 h⟩
  · intro h
    obtain ⟨d, hd⟩ := hm.1.2 h
    exact ⟨d, (key d).2 hd⟩
  · intro d h
    exact hm.2 d ((key d).1 h)

/-- The roots `execute` selects are nodes of its own graph, so `get_dependencies` never reports an unknown root there. -/
theorem packaging_roots_known (bps : List Located) (inv : String) (r : String) :
    packagingOrder bps inv ≠ .error (.unknownRoot r) := by
  intro h
  unfold packagingOrder at h
  split at h
  · cases h
  · rename_i g hg
    split at h
    · rename_i r' hr
      obtain ⟨hmem, hnot⟩ := (unknown_root_is_the_only_error g (rootNodes bps inv)).2 r' hr
      apply hnot
      rw [(createGraph_ok hg).1]
      unfold rootNodes at hmem
      split at hmem
      · rename_i b hb
        simp only [List.mem_singleton] at hmem
        subst hmem
        exact List.mem_map.2 ⟨b.node, List.mem_map.2 ⟨b, List.mem_of_find?_eq_some hb, rfl⟩, rfl⟩
      · split at hmem
        · simpa [List.map_map] using hmem
        · simp at hmem
    · split at h <;> cases h

/-! ### the node set: every buildpack of the workspace is a node, however its directory is reached -/

/-- **The node set does not depend on how a buildpack directory is reached.** Turning every buildpack directory that
is a symbolic link (any number of hops) into a real directory leaves the node list handed to
`create_dependency_graph` unchanged — same nodes, same order. -/
theorem discovery_independent_of_links (ps : List Placed) :
    discover ps = discover (ps.map (fun p => match p.reach with | .link _ => ⟨p.node, .dir⟩ | _ => p)) := by
  induction ps with
  | nil => rfl
  | cons p ps ih =>
    obtain ⟨nd, r⟩ := p
    unfold discover at ih ⊢
    cases r <;> simp [Reach.visited] at ih ⊢ <;> exact ih

/-- **No buildpack of the workspace is dropped.** Every placed buildpack whose directory entry is a directory or a
link to one (i.e. not hidden below an intermediate linked directory) is a node. -/
theorem placed_buildpack_is_node (ps : List Placed) (p : Placed) (hp : p ∈ ps) (hv : p.reach ≠ .viaLinkedDir) :
    p.node ∈ discover ps := by
  unfold discover
  refine List.mem_map.2 ⟨p, List.mem_filter.2 ⟨hp, ?_⟩, rfl⟩
  cases h : p.reach <;> simp_all [Reach.visited]

/-- **`MissingDependency` only for a genuinely dangling reference.** When graph construction over the discovered
nodes fails with `MissingDependency d`, some buildpack of the workspace declares `d` and no buildpack of the
workspace — real directory or link — carries the id `d`. -/
theorem missing_dependency_only_when_dangling (ps : List Placed) (d : String)
    (h : createGraph (discover ps) = .error d) :
    (∃ p ∈ ps, p.reach ≠ .viaLinkedDir ∧ d ∈ p.node.deps) ∧
      ∀ p ∈ ps, p.reach ≠ .viaLinkedDir → p.node.id ≠ d := by
  obtain ⟨nd, hnd, hdep, hnot⟩ := (missing_dependency_is_error (discover ps)).2 d h
  refine ⟨?_, ?_⟩
  · unfold discover at hnd
    obtain ⟨p, hp, rfl⟩ := List.mem_map.1 hnd
    obtain ⟨hp1, hp2⟩ := List.mem_filter.1 hp
    refine ⟨p, hp1, ?_, hdep⟩
    intro hr
    rw [hr] at hp2
    cases hp2
  · intro p hp hv hid
    exact hnot (List.mem_map.2 ⟨p.node, placed_buildpack_is_node ps p hp hv, hid⟩)

/-! ### non-vacuity -/

/-- a diamond with a tail: `3 → 1, 2`, `1 → 0`, `2 → 0`, `4 → 3`; ids `a … e` -/
def sample : List Node := [⟨"a", []⟩, ⟨"b", ["a"]⟩, ⟨"c", ["a"]⟩, ⟨"d", ["b", "c"]⟩, ⟨"e", ["d", "a"]⟩]

def sampleGraph : Graph := ⟨["a", "b", "c", "d", "e"], [[], [0], [0], [1, 2], [3, 0]]⟩

example : createGraph sample = .ok sampleGraph := rfl

/-- the hypotheses of the theorems hold for a concrete non-trivial graph: it is created, and it is acyclic -/
example : Acyclic sampleGraph.succ := by
  refine ⟨fun v => v, ?_⟩
  intro u w hw
  show w < u
  have : u < 5 ∨ 5 ≤ u := by omega
  rcases this with h | h
  · have : u = 0 ∨ u = 1 ∨ u = 2 ∨ u = 3 ∨ u = 4 := by omega
    rcases this with rfl | rfl | rfl | rfl | rfl <;> simp [sampleGraph, Graph.succ] at hw <;> omega
  · have : sampleGraph.succ u = [] := by
      unfold Graph.succ sampleGraph
      rw [List.getD_eq_getElem?_getD, List.getElem?_eq_none (by simpa using h)]; rfl
    rw [this] at hw; simp at hw

/-- roots that overlap and come in "wrong" order: the shared visited state keeps each node once -/
example : getDependencies sampleGraph ["c", "e", "b"] = .ok [0, 2, 1, 3, 4] := rfl

/-- the id-level hypotheses hold for the sample: distinct ids, acyclic declared dependencies -/
example : (sample.map (·.id)).Nodup := by decide

example : Acyclic (depsOf sample) := by
  refine ⟨fun x => if x = "a" then 0 else if x = "b" then 1 else if x = "c" then 1 else if x = "d" then 2
    else if x = "e" then 3 else 0, ?_⟩
  intro u w hw
  by_cases h1 : u = "a"
  · subst h1; simp [depsOf, sample] at hw
  by_cases h2 : u = "b"
  · subst h2; simp [depsOf, sample] at hw; subst hw; decide
  by_cases h3 : u = "c"
  · subst h3; simp [depsOf, sample] at hw; subst hw; decide
  by_cases h4 : u = "d"
  · subst h4; simp [depsOf, sample] at hw; rcases hw with rfl | rfl <;> decide
  by_cases h5 : u = "e"
  · subst h5; simp [depsOf, sample] at hw; rcases hw with rfl | rfl <;> decide
  · have : depsOf sample u = [] := by
      simp [depsOf, sample, List.find?, Ne.symm h1, Ne.symm h2, Ne.symm h3, Ne.symm h4, Ne.symm h5]
    rw [this] at hw; simp at hw

example : createGraph [⟨"a", ["b", "zz"]⟩, ⟨"b", []⟩] = .error "zz" := rfl

example : getDependencies sampleGraph ["a", "nope"] = .error "nope" := rfl

/-- `execute` on a workspace where a libcnb.rs buildpack (`bps/agent`) depends on a composite (`meta/base`) that the
directory walk found later: invoked from the buildpack's directory and from the root, the dependency comes first -/
def sampleWs : List Located := [⟨⟨"agent", ["base"]⟩, "bps/agent"⟩, ⟨⟨"base", ["leaf"]⟩, "meta/base"⟩, ⟨⟨"leaf", []⟩, "bps/leaf"⟩, ⟨⟨"solo", []⟩, "solo"⟩]

example : packagingOrder sampleWs "bps/agent" = .ok ["leaf", "base", "agent"] := rfl
example : packagingOrder sampleWs "." = .ok ["leaf", "base", "agent", "solo"] := rfl
example : packagingOrder sampleWs "bps" = .error .noBuildpacksFound := rfl
example : packagingOrder [⟨⟨"a", ["ghost"]⟩, "a"⟩, ⟨⟨"b", []⟩, "b"⟩] "b" = .error (.missingDependency "ghost") := rfl

/-- the seed's demo workspace: `demo/jvm` is a link to a directory outside the workspace -/
def sampleLinked : List Placed := [⟨⟨"demo/maven", []⟩, .dir⟩, ⟨⟨"demo/jvm", []⟩, .link 0⟩, ⟨⟨"demo/java", ["demo/jvm", "demo/maven"]⟩, .dir⟩, ⟨⟨"far", []⟩, .viaLinkedDir⟩]

example : (discover sampleLinked).map (·.id) = ["demo/maven", "demo/jvm", "demo/java"] := rfl
example : (createGraph (discover sampleLinked)).toOption.map (·.adj) = some [[], [], [1, 0]] := rfl
example : createGraph (discover [⟨⟨"here", ["far"]⟩, .dir⟩, ⟨⟨"far", []⟩, .viaLinkedDir⟩]) = .error "far" := rfl

end CnbVerif.C13
