import CnbVerif.Base.Proto
/-!
Word literals for argv models and option grammars (C16, C17). An argv word is a byte string (`Bytes = List Nat`);
`w!"--env"` elaborates to the explicit list of its UTF-8 bytes, so the kernel reduces comparisons of literals by
plain evaluation. Core only.
-/
namespace CnbVerif

/-- one argv word -/
abbrev Word := Bytes

open Lean in
/-- `w!"run"` = `[114, 117, 110]` -/
macro:max "w!" s:str : term => do
  let bytes := s.getString.toUTF8.toList.map (fun b => Syntax.mkNumLit (toString b.toNat))
  `(([$(bytes.toArray),*] : List Nat))

/-- the two external programs libcnb-test runs -/
inductive Prog | docker | pack
deriving DecidableEq, Repr

/-- one external command: program and the argv after the program name -/
structure Cmd where
  prog : Prog
  args : List Word
deriving DecidableEq, Repr

end CnbVerif
