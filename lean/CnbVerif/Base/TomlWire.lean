import CnbVerif.Base.Proto
import CnbVerif.Base.Schema
/-!
Wire form of TOML value trees and decoded values on the line protocol (space-separated prefix tokens):

    T<n> (K<hex key> value)*n | A<n> value*n | S<hex utf-8> | I<int> | B0 | B1 | F<hex ieee bits> | D<hex text>

decoded values additionally: `N` (absent), `X value` (free-form, a TV), `R<n> (K<hex> value)*n` (record), `V<i> value`.
Renderers sort table / record entries by key (code-point order) so that hash/iteration order never shows.
-/
namespace CnbVerif.Codec

def strHex (s : String) : String := hexEncode (strBytes s)

def hexStr (h : String) : Option String :=
  match hexDecode h with
  | none => none
  | some bs => String.fromUTF8? (ByteArray.mk (bs.map (fun n => n.toUInt8)).toArray)

def sortKV {α} (l : List (String × α)) : List (String × α) := sortBy (fun a b => a.1 < b.1) l

mutual
def TV.render : TV → String
  | .str s => "S" ++ strHex s
  | .int i => "I" ++ toString i
  | .bool b => if b then "B1" else "B0"
  | .flt b => "F" ++ b
  | .dt r => "D" ++ strHex r
  | .arr xs => "A" ++ toString xs.length ++ TV.renderList xs
  | .tbl kvs => "T" ++ toString kvs.length ++ String.join ((sortKV (TV.renderKVs kvs)).map (fun kv => " K" ++ strHex kv.1 ++ " " ++ kv.2))
def TV.renderList : List TV → String
  | [] => ""
  | x :: xs => " " ++ TV.render x ++ TV.renderList xs
def TV.renderKVs : List (String × TV) → List (String × String)
  | [] => []
  | (k, v) :: r => (k, TV.render v) :: TV.renderKVs r
end

mutual
def Val.render : Val → String
  | .str s => "S" ++ strHex s
  | .int i => "I" ++ toString i
  | .bool b => if b then "B1" else "B0"
  | .absent => "N"
  | .free t => "X " ++ t.render
  | .arr xs => "A" ++ toString xs.length ++ Val.renderList xs
  | .record kvs => "R" ++ toString kvs.length ++ String.join ((sortKV (Val.renderKVs kvs)).map (fun kv => " K" ++ strHex kv.1 ++ " " ++ kv.2))
  | .variant i v => "V" ++ toString i ++ " " ++ Val.render v
def Val.renderList : List Val → String
  | [] => ""
  | x :: xs => " " ++ Val.render x ++ Val.renderList xs
def Val.renderKVs : List (String × Val) → List (String × String)
  | [] => []
  | (k, v) :: r => (k, Val.render v) :: Val.renderKVs r
end

def parseInt (s : String) : Option Int :=
  match s.toList with
  | '-' :: ds => if isDigitStr ds then some (-(digitsVal ds : Int)) else none
  | ds => if isDigitStr ds then some (digitsVal ds : Int) else none

def parseNatTok (s : String) : Option Nat := if isDigitStr s.toList then some (digitsVal s.toList) else none

mutual
/-- one value from the token stream (`fuel` bounds the recursion: the number of tokens suffices) -/
def parseTV : Nat → List String → Option (TV × List String)
  | 0, _ => none
  | fuel + 1, tok :: rest =>
    let body := (tok.drop 1).toString
    match tok.toList.head? with
    | some 'S' => (hexStr body).map (fun s => (TV.str s, rest))
    | some 'I' => (parseInt body).map (fun i => (TV.int i, rest))
    | some 'B' => if body = "1" then some (.bool true, rest) else if body = "0" then some (.bool false, rest) else none
    | some 'F' => if body.length = 16 ∧ (hexDecode body).isSome then some (.flt body, rest) else none
    | some 'D' => (hexStr body).map (fun s => (TV.dt s, rest))
    | some 'A' => match parseNatTok body with
      | some n => (parseTVs fuel n rest).map (fun p => (TV.arr p.1, p.2))
      | none => none
    | some 'T' => match parseNatTok body with
      | some n => (parseKVs fuel n rest).map (fun p => (TV.tbl p.1, p.2))
      | none => none
    | _ => none
  | _ + 1, [] => none
def parseTVs : Nat → Nat → List String → Option (List TV × List String)
  | 0, _, _ => none
  | _ + 1, 0, toks => some ([], toks)
  | fuel + 1, n + 1, toks =>
    match parseTV fuel toks with
    | some (v, rest) => (parseTVs fuel n rest).map (fun p => (v :: p.1, p.2))
    | none => none
def parseKVs : Nat → Nat → List String → Option (List (String × TV) × List String)
  | 0, _, _ => none
  | _ + 1, 0, toks => some ([], toks)
  | fuel + 1, n + 1, ktok :: toks =>
    if ktok.toList.head? = some 'K' then
      match hexStr (ktok.drop 1).toString, parseTV fuel toks with
      | some k, some (v, rest) => (parseKVs fuel n rest).map (fun p => ((k, v) :: p.1, p.2))
      | _, _ => none
    else none
  | _ + 1, _ + 1, [] => none
end

/-- a whole field: exactly one value, no trailing tokens -/
def parseTree (s : String) : Option TV :=
  let toks := s.splitOn " "
  match parseTV (2 * toks.length + 2) toks with
  | some (v, []) => some v
  | _ => none

end CnbVerif.Codec
