/-!
Decimal numerals and splitting on a separator character, on `List Char`. Core Lean only.
`render n` is *the* canonical decimal numeral of `n` (no sign, no leading zero except for `0` itself).
-/
namespace CnbVerif

def digitChar (d : Nat) : Char := Char.ofNat (48 + d)

/-- value of an ASCII digit `0`–`9` -/
def charDigit? (c : Char) : Option Nat :=
  if 48 ≤ c.toNat ∧ c.toNat ≤ 57 then some (c.toNat - 48) else none

def isAsciiDigit (c : Char) : Bool := decide (48 ≤ c.toNat) && decide (c.toNat ≤ 57)

/-- canonical decimal numeral -/
def render (n : Nat) : List Char :=
  if _h : n < 10 then [digitChar n] else render (n / 10) ++ [digitChar (n % 10)]
termination_by n
decreasing_by omega

/-- value of a digit string read left to right, starting from `acc`; `none` when a non-digit occurs -/
def digitsValueAux : List Char → Nat → Option Nat
  | [], acc => some acc
  | c :: cs, acc =>
    match charDigit? c with
    | some d => digitsValueAux cs (acc * 10 + d)
    | none => none

/-- value of a non-empty string of ASCII digits (arbitrary precision); `none` for anything else -/
def digitsValue (s : List Char) : Option Nat := if s = [] then none else digitsValueAux s 0

/-- Rust `str::split(sep)`: the pieces between occurrences of `sep`; the empty string gives one empty piece. -/
def splitChar (sep : Char) : List Char → List (List Char)
  | [] => [[]]
  | c :: cs =>
    if c = sep then [] :: splitChar sep cs
    else match splitChar sep cs with
      | [] => [[c]]
      | h :: t => (c :: h) :: t

/-- pieces joined by `sep` -/
def joinChar (sep : Char) : List (List Char) → List Char
  | [] => []
  | [a] => a
  | a :: b :: rest => a ++ sep :: joinChar sep (b :: rest)

/-- Rust `str::split_once(sep)`: the parts before and after the first `sep` -/
def splitOnce (sep : Char) : List Char → Option (List Char × List Char)
  | [] => none
  | c :: cs =>
    if c = sep then some ([], cs)
    else match splitOnce sep cs with
      | some (a, b) => some (c :: a, b)
      | none => none

end CnbVerif
