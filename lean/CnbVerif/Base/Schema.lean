/-!
# TOML value trees, serde-style schemas and the generic schema codec (C07, C08; core Lean only)

* `TV`      — a TOML document as a value tree (floats / datetimes are opaque tokens, never compared numerically).
* `Val`     — a decoded (typed) value: what `toml::from_str::<T>` yields, as data.
* `Schema`  — what a `#[derive(Serialize, Deserialize)]` type says declaratively: keys after renaming, required /
              `default` / `Option`, `skip_serializing_if`, `deny_unknown_fields`, `untagged` variant order, validated
              strings, free-form positions. `Gen/Schemas.lean` holds the schemas regenerated from /repo,
              `Spec/CnbSchemas.lean` the ones transcribed from the CNB specification.
* `decode`  — serde-derive reading semantics of a schema; `encode` — its writing semantics.

Struct fields are kept **sorted by key** (normal form; declaration order is not observable), `untagged` variants in
declaration order (observable).
-/
namespace CnbVerif.Codec

/-- A TOML value. `flt` carries the IEEE bits in hex, `dt` a canonical rendering; both are opaque. -/
inductive TV where
  | str (s : String)
  | int (i : Int)
  | bool (b : Bool)
  | flt (bits : String)
  | dt (repr : String)
  | arr (xs : List TV)
  | tbl (kvs : List (String × TV))
deriving Repr, Inhabited

/-- A decoded value. `absent` is `None`; `free` is a free-form TOML value kept verbatim (`toml::Table`, metadata);
`record` lists a struct's fields under their TOML keys; `variant i v` is the `i`-th variant of an untagged enum. -/
inductive Val where
  | str (s : String)
  | int (i : Int)
  | bool (b : Bool)
  | absent
  | free (t : TV)
  | arr (xs : List Val)
  | record (fs : List (String × Val))
  | variant (i : Nat) (v : Val)
deriving Repr, Inhabited

/-- Validated string kinds (newtypes, `try_from = "String"`, `deserialize_with`, unit-variant enums). -/
inductive StrV where
  | plain | path | uri | buildpackId | processType | execdKey | version | api
  | oneOf (variants : List String)
deriving Repr, DecidableEq, Inhabited

/-- Default values a `#[serde(default)]` field can take (first-order on purpose: decidable equality). -/
inductive Dflt where
  | emptyArr | emptyTbl
  /-- the `None`-like value of an option-like type (`WorkingDirectory::App`) -/
  | absent
  | bool (b : Bool)
  | str (s : String)
  | recStr (fs : List (String × String))
deriving Repr, DecidableEq, Inhabited

def Dflt.val : Dflt → Val
  | .emptyArr => .arr []
  | .emptyTbl => .free (.tbl [])
  | .absent => .absent
  | .bool b => .bool b
  | .str s => .str s
  | .recStr fs => .record (fs.map (fun kv => (kv.1, Val.str kv.2)))

/-- What happens when the key is missing: error, `None`, or the default. -/
inductive Pres where
  | required | optional | dflt (d : Dflt)
deriving Repr, DecidableEq, Inhabited

/-- the field may hold the `None`-like value -/
def Pres.allowsAbsent (p : Pres) : Bool := p == .optional || p == .dflt .absent

/-- `skip_serializing_if` predicates that occur: never, `Vec::is_empty`/`HashSet::is_empty`/`Table::is_empty`,
`std::ops::Not::not`, "is the `None`-like value" (`Option::is_none`, `WorkingDirectory::is_app`). -/
inductive Skip where
  | never | ifEmpty | ifFalse | ifAbsent
deriving Repr, DecidableEq, Inhabited

/-- One struct field. `noneEnc` is what a custom serialiser writes for the `None`-like value when it is not
skipped (`WorkingDirectory::App` ↦ `"."`); `none` = the TOML serialiser drops `None` fields. -/
structure FieldOf (σ : Type) where
  key : String
  pres : Pres
  skip : Skip
  noneEnc : Option String
  schema : σ
  /-- declaration index (observable only when serde reads the struct from an array, positionally) -/
  pos : Nat
deriving Repr, Inhabited

inductive Schema where
  | str (v : StrV)
  | int
  | bool
  /-- any TOML value, kept verbatim -/
  | any
  /-- free-form table (`toml::Table`), kept verbatim -/
  | table
  | vec (s : Schema)
  /-- `HashSet` of validated strings: an array; duplicates and order are not part of the value -/
  | set (v : StrV)
  /-- `HashMap<validated key, T>`: a table with arbitrary valid keys -/
  | map (k : StrV) (s : Schema)
  | struct (deny : Bool) (fs : List (FieldOf Schema))
  | untagged (vs : List Schema)
deriving Repr, Inhabited

abbrev Field := FieldOf Schema

/-- A generic type parameter in field position (`BM`, `M`): how the field behaves once instantiated. -/
structure Param where
  pres : Pres
  schema : Schema

/-- `GenericMetadata = Option<toml::Table>`: optional free-form table. -/
def Param.optionalTable : Param := ⟨.optional, .table⟩

inductive Err where
  | wrongKind | unknownKey | missing | invalid | noVariant
deriving Repr, DecidableEq, Inhabited

/-! ## validated strings -/

def isAlnum (c : Char) : Bool := c.isAlphanum
def isDigitStr (s : List Char) : Bool := !s.isEmpty && s.all Char.isDigit

def digitsVal (s : List Char) : Nat := s.foldl (fun n c => n * 10 + (c.toNat - 48)) 0

/-- a `u64` in decimal as `u64::from_str` reads it (sign forms are C09's subject and are not modelled here) -/
def isU64 (s : List Char) : Bool := isDigitStr s && digitsVal s < 18446744073709551616

def splitOnChar (c : Char) : List Char → List (List Char)
  | [] => [[]]
  | x :: xs =>
    match splitOnChar c xs with
    | [] => [[x]]
    | h :: t => if x = c then [] :: h :: t else (x :: h) :: t

/-! ### URI references as `uriparse` reads and prints them

`URIReference::try_from(text)` followed by `to_string()` (what libcnb-data's package.toml codec does) is **not** the
identity on every valid reference: a registered scheme is lower-cased, a port is re-printed as a number (leading zeros
and an empty port disappear), and an authority followed by an empty path gains a `/`. `uriRespell` is that round trip
(`none`: the text is rejected). IPv6 literals are kept as written here (the real printer re-canonicalises them). -/

def isUnreserved (c : Char) : Bool := c.isAlphanum || c = '-' || c = '.' || c = '_' || c = '~'
def isSubDelim (c : Char) : Bool := "!$&'()*+,;=".toList.contains c
def isHexChar (c : Char) : Bool := c.isDigit || ('a' ≤ c && c ≤ 'f') || ('A' ≤ c && c ≤ 'F')

def pctOK : List Char → Bool
  | [] => true
  | '%' :: a :: b :: r => isHexChar a && isHexChar b && pctOK r
  | '%' :: _ => false
  | _ :: r => pctOK r

def uriChars (extra : List Char) (cs : List Char) : Bool :=
  pctOK cs && cs.all (fun c => isUnreserved c || isSubDelim c || c = '%' || extra.contains c)

/-- the part before the first of the stop characters, and the rest starting at that character -/
def splitAtAny (stops : List Char) : List Char → List Char × List Char
  | [] => ([], [])
  | c :: r => if stops.contains c then ([], c :: r) else let p := splitAtAny stops r; (c :: p.1, p.2)

def validScheme : List Char → Bool
  | [] => false
  | c :: r => c.isAlpha && r.all (fun x => x.isAlphanum || x = '+' || x = '-' || x = '.')

/-- schemes of uriparse's registry that the corpus uses (the registry itself is not modelled) -/
def registeredSchemes : List String := ["http", "https", "ftp", "file", "urn", "mailto"]

def lowerChars (cs : List Char) : List Char := cs.map Char.toLower

def respellScheme (cs : List Char) : List Char :=
  if registeredSchemes.contains (String.ofList (lowerChars cs)) then lowerChars cs else cs

/-- `host[:port]` → respelled, or `none` -/
def respellHostPort (hp : List Char) : Option (List Char) :=
  let split : List Char × List Char :=
    match hp with
    | '[' :: _ => let p := splitAtAny [']'] hp; (p.1 ++ p.2.take 1, p.2.drop 1)
    | _ => splitAtAny [':'] hp
  let host := split.1
  let hostOK := match host with
    | '[' :: _ => host.all (fun c => isHexChar c || c = ':' || c = '[' || c = ']' || c = '.')
    | _ => uriChars [] host
  if !hostOK then none else
  match split.2 with
  | [] => some host
  | ':' :: ds =>
    if ds.isEmpty then some host
    else if ds.all Char.isDigit && digitsVal ds < 65536 then some (host ++ ':' :: (toString (digitsVal ds)).toList)
    else none
  | _ => none

def respellAuthority (auth : List Char) : Option (List Char) :=
  let p := splitAtAny ['@'] auth
  match p.2 with
  | '@' :: hp => if uriChars [':'] p.1 then (respellHostPort hp).map (fun h => p.1 ++ '@' :: h) else none
  | _ => respellHostPort auth

def uriRespellChars (s : List Char) : Option (List Char) :=
  -- scheme
  let pre := splitAtAny [':', '/', '?', '#'] s
  let sb : Option (List Char × List Char) :=
    match pre.2 with
    | ':' :: body => if validScheme pre.1 then some (respellScheme pre.1 ++ [':'], body) else none
    | _ => some ([], s)
  match sb with
  | none => none
  | some (scheme, body) =>
    -- query and fragment
    let hq := splitAtAny ['?', '#'] body
    let qfOK : Bool :=
      match hq.2 with
      | '?' :: r => let qf := splitAtAny ['#'] r; uriChars [':', '@', '/', '?'] qf.1 && uriChars [':', '@', '/', '?'] (qf.2.drop 1)
      | '#' :: r => uriChars [':', '@', '/', '?'] r
      | _ => true
    if !qfOK then none else
    match hq.1 with
    | '/' :: '/' :: r =>
      let ap := splitAtAny ['/'] r
      if !uriChars [':', '@', '/'] ap.2 then none else
      (respellAuthority ap.1).map (fun a => scheme ++ '/' :: '/' :: a ++ (if ap.2.isEmpty then ['/'] else ap.2) ++ hq.2)
    | path => if uriChars [':', '@', '/'] path then some (scheme ++ path ++ hq.2) else none

def uriRespell (s : String) : Option String := (uriRespellChars s.toList).map String.ofList

def StrV.valid : StrV → String → Bool
  | .plain, _ => true
  | .path, _ => true
  | .uri, s => (uriRespell s).isSome
  | .buildpackId, s =>
      let cs := s.toList
      !cs.isEmpty && cs.all (fun c => isAlnum c || c = '.' || c = '/' || c = '-') && s ≠ "app" && s ≠ "config" && s ≠ "sbom"
  | .processType, s =>
      let cs := s.toList
      !cs.isEmpty && cs.all (fun c => isAlnum c || c = '.' || c = '_' || c = '-')
  | .execdKey, s =>
      let cs := s.toList
      !cs.isEmpty && cs.all (fun c => isAlnum c || c = '_' || c = '-')
  | .version, s =>
      match splitOnChar '.' s.toList with
      | [a, b, c] => [a, b, c].all (fun p => isU64 p && !(p.length > 1 && p.head? = some '0'))
      | _ => false
  | .api, s =>
      match splitOnChar '.' s.toList with
      | [a] => isU64 a
      | a :: rest => isU64 a && isU64 (List.intercalate ['.'] rest)
      | [] => false
  | .oneOf vs, s => vs.contains s

/-- the decoded form of a validated string (`BuildpackApi` is a pair of numbers: `"2"` and `"02.0"` are `2.0`) -/
def StrV.norm : StrV → String → String
  | .api, s =>
      match splitOnChar '.' s.toList with
      | [a] => toString (digitsVal a) ++ ".0"
      | a :: rest => toString (digitsVal a) ++ "." ++ toString (digitsVal (List.intercalate ['.'] rest))
      | [] => s
  | _, s => s

/-- the decoded form as the code really produces it: a URI reference is re-printed by `uriparse` -/
def StrV.serdeNorm : StrV → String → String
  | .uri, s => (uriRespell s).getD s
  | v, s => v.norm s

/-! ## reading -/

def hasKey (fs : List (FieldOf Schema)) (k : String) : Bool := fs.any (fun f => f.key == k)

def insertStr (x : String) : List String → List String
  | [] => [x]
  | y :: ys => if x < y then x :: y :: ys else if x = y then y :: ys else y :: insertStr x ys

/-- sorted, duplicate-free -/
def canonSet (l : List String) : List String := l.foldr insertStr []

def decodeStrs (v : StrV) : List TV → Except Err (List String)
  | [] => .ok []
  | .str s :: r => if v.valid s then (decodeStrs v r).map (v.norm s :: ·) else .error .invalid
  | _ :: _ => .error .wrongKind

/-- `Vec<T>`: every element, first error wins -/
def mapE (f : TV → Except Err Val) : List TV → Except Err (List Val)
  | [] => .ok []
  | x :: xs =>
    match f x with
    | .error e => .error e
    | .ok v => (mapE f xs).map (v :: ·)

/-- `HashMap<K, T>`: every key must be a valid `K`, every value a `T` -/
def mapKV (valid : String → Bool) (f : TV → Except Err Val) : List (String × TV) → Except Err (List (String × Val))
  | [] => .ok []
  | (key, x) :: kvs =>
    if valid key then
      match f x with
      | .error e => .error e
      | .ok v => (mapKV valid f kvs).map ((key, v) :: ·)
    else .error .invalid

mutual
/-- serde-derive reading semantics of a schema -/
def decode : Schema → TV → Except Err Val
  | .str v, .str s => if v.valid s then .ok (.str (v.norm s)) else .error .invalid
  | .int, .int i => .ok (.int i)
  | .bool, .bool b => .ok (.bool b)
  | .any, t => .ok (.free t)
  | .table, .tbl kvs => .ok (.free (.tbl kvs))
  | .vec s, .arr xs => (mapE (decode s) xs).map Val.arr
  | .set v, .arr xs => (decodeStrs v xs).map (fun l => Val.arr ((canonSet l).map Val.str))
  | .map k s, .tbl kvs => (mapKV k.valid (decode s) kvs).map Val.record
  | .struct deny fs, .tbl kvs =>
      if deny && !(kvs.all (fun kv => hasKey fs kv.1)) then .error .unknownKey
      else (decodeFields fs kvs).map Val.record
  | .untagged vs, t => decodeFirst vs 0 t
  | _, _ => .error .wrongKind

def decodeFields : List (FieldOf Schema) → List (String × TV) → Except Err (List (String × Val))
  | [], _ => .ok []
  | ⟨key, pres, _, _, s, _⟩ :: fs, kvs =>
    match kvs.lookup key with
    | some t =>
      match decode s t with
      | .error e => .error e
      | .ok v => (decodeFields fs kvs).map ((key, v) :: ·)
    | none =>
      match pres with
      | .required => .error .missing
      | .optional => (decodeFields fs kvs).map ((key, Val.absent) :: ·)
      | .dflt d => (decodeFields fs kvs).map ((key, d.val) :: ·)

/-- untagged: the first variant that reads the value wins -/
def decodeFirst : List Schema → Nat → TV → Except Err Val
  | [], _, _ => .error .noVariant
  | s :: vs, i, t =>
    match decode s t with
    | .ok v => .ok (.variant i v)
    | .error _ => decodeFirst vs (i + 1) t
end

def accepts (s : Schema) (t : TV) : Bool := match decode s t with | .ok _ => true | .error _ => false

/-! ## reading as serde's derive really does it

Two leniencies of the serde data model on top of `decode`: a struct is also read from an **array**, positionally in
declaration order (elements beyond the last field are ignored; a missing trailing element is an error unless the field
has `#[serde(default)]`), and a unit-variant enum is also read from a **single-key table** `{ variant = {} }` or `{ variant = [] }`. -/

/-- `buf`: the value is being read out of serde's `Content` buffer (inside an `untagged` enum), where the table form
of an enum is not accepted -/
def enumOfTable (buf : Bool) (vs : List String) : List (String × TV) → Option String
  | [(k, .tbl [])] => if !buf && vs.contains k then some k else none
  | [(k, .arr [])] => if !buf && vs.contains k then some k else none
  | _ => none

def decodeStrsSerde (buf : Bool) (v : StrV) : List TV → Except Err (List String)
  | [] => .ok []
  | .str s :: r => if v.valid s then (decodeStrsSerde buf v r).map (v.norm s :: ·) else .error .invalid
  | .tbl kvs :: r =>
    (match v with
     | .oneOf vs => (match enumOfTable buf vs kvs with
        | some k => (decodeStrsSerde buf v r).map (k :: ·)
        | none => .error .wrongKind)
     | _ => .error .wrongKind)
  | _ :: _ => .error .wrongKind

mutual
/-- `buf = true` inside an `untagged` enum (serde buffers the value and re-reads it: an array longer than the struct is
then an error, the table form of an enum is not accepted) -/
def decodeSerde (buf : Bool) : Schema → TV → Except Err Val
  | .str v, .str s => if v.valid s then .ok (.str (v.serdeNorm s)) else .error .invalid
  | .str (.oneOf vs), .tbl kvs => (match enumOfTable buf vs kvs with | some k => .ok (.str k) | none => .error .wrongKind)
  | .int, .int i => .ok (.int i)
  | .bool, .bool b => .ok (.bool b)
  | .any, t => .ok (.free t)
  | .table, .tbl kvs => .ok (.free (.tbl kvs))
  | .vec s, .arr xs => (mapE (decodeSerde buf s) xs).map Val.arr
  | .set v, .arr xs => (decodeStrsSerde buf v xs).map (fun l => Val.arr ((canonSet l).map Val.str))
  | .map k s, .tbl kvs => (mapKV k.valid (decodeSerde buf s) kvs).map Val.record
  | .struct deny fs, .tbl kvs =>
      if deny && !(kvs.all (fun kv => hasKey fs kv.1)) then .error .unknownKey
      else (decodeFieldsSerde buf fs kvs).map Val.record
  | .struct _ fs, .arr xs =>
      if buf && xs.length > fs.length then .error .wrongKind else (decodeSeq buf fs xs).map Val.record
  | .untagged vs, t => decodeFirstSerde vs 0 t
  | _, _ => .error .wrongKind

def decodeFieldsSerde (buf : Bool) : List (FieldOf Schema) → List (String × TV) → Except Err (List (String × Val))
  | [], _ => .ok []
  | ⟨key, pres, _, _, s, _⟩ :: fs, kvs =>
    match kvs.lookup key with
    | some t =>
      match decodeSerde buf s t with
      | .error e => .error e
      | .ok v => (decodeFieldsSerde buf fs kvs).map ((key, v) :: ·)
    | none =>
      match pres with
      | .required => .error .missing
      | .optional => (decodeFieldsSerde buf fs kvs).map ((key, Val.absent) :: ·)
      | .dflt d => (decodeFieldsSerde buf fs kvs).map ((key, d.val) :: ·)

/-- the struct read from an array: field `f` takes element number `f.pos` -/
def decodeSeq (buf : Bool) : List (FieldOf Schema) → List TV → Except Err (List (String × Val))
  | [], _ => .ok []
  | ⟨key, pres, _, _, s, pos⟩ :: fs, xs =>
    match xs[pos]? with
    | some t =>
      match decodeSerde buf s t with
      | .error e => .error e
      | .ok v => (decodeSeq buf fs xs).map ((key, v) :: ·)
    | none =>
      match pres with
      | .dflt d => (decodeSeq buf fs xs).map ((key, d.val) :: ·)
      | _ => .error .missing

/-- the variants read from the buffer -/
def decodeFirstSerde : List Schema → Nat → TV → Except Err Val
  | [], _, _ => .error .noVariant
  | s :: vs, i, t =>
    match decodeSerde true s t with
    | .ok v => .ok (.variant i v)
    | .error _ => decodeFirstSerde vs (i + 1) t
end

def noTblElem : List TV → Bool
  | [] => true
  | .tbl _ :: _ => false
  | _ :: r => noTblElem r

mutual
/-- along the schema-directed walk of the document there is no array where a struct (table) is expected and no
table where an enum (string) is expected, and every URI reference is spelled the way `uriparse` prints it: the
document touches neither serde's two leniencies nor the URI respelling -/
def lenientFree : Schema → TV → Bool
  | .str (.oneOf _), .tbl _ => false
  | .str .uri, .str s => uriRespell s == some s || uriRespell s == none
  | .vec s, .arr xs => xs.all (lenientFree s)
  | .set (.oneOf _), .arr xs => noTblElem xs
  | .map _ s, .tbl kvs => kvs.all (fun kv => lenientFree s kv.2)
  | .struct _ fs, .tbl kvs => lenientFreeFields fs kvs
  | .struct _ _, .arr _ => false
  | .untagged vs, t => lenientFreeAll vs t
  | _, _ => true
def lenientFreeFields : List (FieldOf Schema) → List (String × TV) → Bool
  | [], _ => true
  | ⟨key, _, _, _, s, _⟩ :: fs, kvs =>
    (match kvs.lookup key with
     | some t => lenientFree s t
     | none => true) && lenientFreeFields fs kvs
def lenientFreeAll : List Schema → TV → Bool
  | [], _ => true
  | s :: vs, t => lenientFree s t && lenientFreeAll vs t
end

/-! ## writing -/

def Skip.holds : Skip → Val → Bool
  | .never, _ => false
  | .ifEmpty, .arr [] => true
  | .ifEmpty, .free (.tbl []) => true
  | .ifEmpty, .record [] => true
  | .ifFalse, .bool false => true
  | .ifAbsent, .absent => true
  | _, _ => false

def mapO (f : Val → Option TV) : List Val → Option (List TV)
  | [] => some []
  | v :: vs =>
    match f v, mapO f vs with
    | some t, some ts => some (t :: ts)
    | _, _ => none

def mapKVO (f : Val → Option TV) : List (String × Val) → Option (List (String × TV))
  | [] => some []
  | (k, v) :: kvs =>
    match f v, mapKVO f kvs with
    | some t, some ts => some ((k, t) :: ts)
    | _, _ => none

def encodeStr : Val → Option TV
  | .str s => some (.str s)
  | _ => none

mutual
/-- serde-derive writing semantics of a schema (`none`: the value does not have the schema's type) -/
def encode : Schema → Val → Option TV
  | .str _, .str s => some (.str s)
  | .int, .int i => some (.int i)
  | .bool, .bool b => some (.bool b)
  | .any, .free t => some t
  | .table, .free (.tbl kvs) => some (.tbl kvs)
  | .vec s, .arr vs => (mapO (encode s) vs).map TV.arr
  | .set _, .arr vs => (mapO encodeStr vs).map TV.arr
  | .map _ s, .record kvs => (mapKVO (encode s) kvs).map TV.tbl
  | .struct _ fs, .record vals => (encodeFields fs vals).map TV.tbl
  | _, _ => none

/-- one field after the other (the record lists the struct's fields in schema order); a field whose
`skip_serializing_if` predicate holds, and a `None`, is left out -/
def encodeFields : List (FieldOf Schema) → List (String × Val) → Option (List (String × TV))
  | [], [] => some []
  | ⟨key, _, skip, noneEnc, s, _⟩ :: fs, (k, v) :: vals =>
    if k ≠ key then none else
    match encodeFields fs vals with
    | none => none
    | some rest =>
      if skip.holds v then some rest
      else match v with
        | .absent => (match noneEnc with
          | some e => some ((key, .str e) :: rest)
          | none => some rest)
        | v => (match encode s v with
          | some t => some ((key, t) :: rest)
          | none => none)
  | _, _ => none
end

/-! ## static checks on schemas (evaluated by `decide` on the generated constants) -/

mutual
/-- every struct node (outside free-form positions, which have none) denies unknown fields -/
def strict : Schema → Bool
  | .vec s => strict s
  | .map _ s => strict s
  | .struct deny fs => deny && strictFields fs
  | .untagged vs => strictAll vs
  | _ => true
def strictFields : List (FieldOf Schema) → Bool
  | [] => true
  | ⟨_, _, _, _, s, _⟩ :: fs => strict s && strictFields fs
def strictAll : List Schema → Bool
  | [] => true
  | s :: vs => strict s && strictAll vs
end

mutual
/-- the two schemas read documents identically: same kinds, keys, requiredness, defaults, strictness, variant order
(write-only attributes `skip`, `noneEnc` are not compared) -/
def readEq : Schema → Schema → Bool
  | .str a, .str b => a == b
  | .int, .int => true
  | .bool, .bool => true
  | .any, .any => true
  | .table, .table => true
  | .vec a, .vec b => readEq a b
  | .set a, .set b => a == b
  | .map k a, .map k' b => k == k' && readEq a b
  | .struct d fs, .struct d' fs' => d == d' && readEqFields fs fs'
  | .untagged vs, .untagged vs' => readEqAll vs vs'
  | _, _ => false
def readEqFields : List (FieldOf Schema) → List (FieldOf Schema) → Bool
  | [], [] => true
  | ⟨k, p, _, _, s, _⟩ :: fs, ⟨k', p', _, _, s', _⟩ :: gs => k == k' && p == p' && readEq s s' && readEqFields fs gs
  | _, _ => false
def readEqAll : List Schema → List Schema → Bool
  | [], [] => true
  | a :: as, b :: bs => readEq a b && readEqAll as bs
  | _, _ => false
end

def fieldKeys (fs : List (FieldOf Schema)) : List String := fs.map (·.key)

def nodupB : List String → Bool
  | [] => true
  | x :: xs => !xs.contains x && nodupB xs

mutual
/-- the value is one a Rust value of the schema's type renders to (strings valid, records in schema order) -/
def hasType : Schema → Val → Bool
  | .str k, .str s => k.valid s
  | .int, .int _ => true
  | .bool, .bool _ => true
  | .any, .free _ => true
  | .table, .free (.tbl _) => true
  | .vec s, .arr vs => vs.all (hasType s)
  | .map k s, .record kvs => kvs.all (fun kv => k.valid kv.1 && hasType s kv.2)
  | .struct _ fs, .record vals => hasTypeFields fs vals
  | _, _ => false
def hasTypeFields : List (FieldOf Schema) → List (String × Val) → Bool
  | [], [] => true
  | ⟨key, pres, _, _, s, _⟩ :: fs, (k, v) :: vals =>
    k == key && (match v with
      | .absent => pres.allowsAbsent
      | v => hasType s v) && hasTypeFields fs vals
  | _, _ => false
end

def Schema.isVec : Schema → Bool | .vec _ => true | _ => false

/-- what a reader with presence `pr` needs from a writer field (`pw`, `skip`, `noneEnc`, schema `s`) so that
leaving the key out is read back as the value that was left out -/
def fieldOK (pw : Pres) (sk : Skip) (ne : Option String) (s : Schema) (pr : Pres) : Bool :=
  (!pw.allowsAbsent || (pr.allowsAbsent && (sk == .ifAbsent || ne == none))) &&
  (match sk with
   | .never => true
   | .ifEmpty => (s.isVec && pr == .dflt .emptyArr) || (s matches .table && pr == .dflt .emptyTbl)
   | .ifFalse => s matches .bool && pr == .dflt (.bool false)
   | .ifAbsent => pw.allowsAbsent)

mutual
/-- whatever is written under `w` is read back under `r` as the value written (checked by `decide`) -/
def wrOK : Schema → Schema → Bool
  | .str a, .str b => a == b && a != .api
  | .int, .int => true
  | .bool, .bool => true
  | .any, .any => true
  | .table, .table => true
  | .vec a, .vec b => wrOK a b
  | .map k a, .map k' b => k == k' && wrOK a b
  | .struct _ fs, .struct _ gs => nodupB (fs.map (·.key)) && wrOKFields fs gs
  | _, _ => false
def wrOKFields : List (FieldOf Schema) → List (FieldOf Schema) → Bool
  | [], [] => true
  | ⟨k, pw, sk, ne, s, _⟩ :: fs, ⟨k', pr, _, _, s', _⟩ :: gs =>
    k == k' && fieldOK pw sk ne s pr && wrOK s s' && wrOKFields fs gs
  | _, _ => false
end

def keysStrictlySorted : List String → Bool
  | a :: b :: r => a < b && keysStrictlySorted (b :: r)
  | _ => true

end CnbVerif.Codec
