/-!
Character-list strings (`Str`) and splitting on one character. Core only; shared by models and specs that reason
about paths and URIs (C14).
-/
namespace CnbVerif.Chars

/-- text as a list of characters (proof-friendly; the drivers convert with `String.toList` / `String.ofList`) -/
abbrev Str := List Char

/-- split on every occurrence of `sep`; never returns the empty list (`"" ↦ [""]`, `"a/" ↦ ["a", ""]`) -/
def splitOnChar (sep : Char) : Str → List Str
  | [] => [[]]
  | c :: cs =>
    if c = sep then [] :: splitOnChar sep cs
    else match splitOnChar sep cs with
      | h :: t => (c :: h) :: t
      | [] => [[c]]

/-- join with `sep` between the pieces -/
def joinChar (sep : Char) : List Str → Str
  | [] => []
  | [a] => a
  | a :: b :: rest => a ++ sep :: joinChar sep (b :: rest)

end CnbVerif.Chars
