/-!
Model driver loop shared by the per-property executables (`MainCxx.lean`). One request per line, tab separated:
`<property> \t <input fields…> \t <implementation observation>`.
Answer: `<model observation> \t <spec verdict on the implementation's observation>`.
-/
namespace CnbVerif

def dispatchWith (name : String) (handle : List String → String → String × String) (line : String) : String :=
  match line.splitOn "\t" with
  | prop :: rest =>
    match rest.reverse with
    | obs :: revFields =>
      let (m, v) := if prop = name then handle revFields.reverse obs else ("bad-op", "bad-op")
      m ++ "\t" ++ v
    | [] => "bad-op\tbad-op"
  | [] => "bad-op\tbad-op"

partial def driverLoop (name : String) (handle : List String → String → String × String)
    (h : IO.FS.Stream) (out : IO.FS.Stream) : IO Unit := do
  let line ← h.getLine
  if line.isEmpty then return ()
  let l := if line.endsWith "\n" then (line.dropEnd 1).toString else line
  out.putStrLn (dispatchWith name handle l)
  driverLoop name handle h out

def runDriver (name : String) (handle : List String → String → String × String) : IO Unit := do
  let out ← IO.getStdout
  driverLoop name handle (← IO.getStdin) out
  out.flush

end CnbVerif
