import CnbVerif.Base.Schema
/-!
Plain data of the documents libcnb writes (C07), and their rendering as decoded values (`Val`, records in key order —
the order of the schemas). Shared by the builder model (`Model/Builders.lean`) and the specification of what a call
sequence is meant to produce (`Spec/Written.lean`). Core only.
-/
namespace CnbVerif.Cnb
open CnbVerif.Codec

abbrev Table := List (String × TV)

/-- launch.toml process -/
structure Proc where
  type : String
  command : List String
  args : List String
  dflt : Bool
  /-- `none`: the app directory -/
  wd : Option String
deriving Repr, Inhabited

structure Launch where
  labels : List (String × String)
  processes : List Proc
  slices : List (List String)
deriving Repr, Inhabited

structure Req where
  name : String
  mdata : Table
deriving Repr, Inhabited

/-- one alternative of a build plan: what it provides and requires -/
structure Group where
  provides : List String
  requires : List Req
deriving Repr, Inhabited

structure Plan where
  first : Group
  ors : List Group
deriving Repr, Inhabited

structure LayerTypes where
  launch : Bool
  build : Bool
  cache : Bool
deriving Repr, Inhabited

structure LayerMeta where
  types : Option LayerTypes
  mdata : Option Table
deriving Repr, Inhabited

structure Package where
  buildpack : String
  dependencies : List String
  os : String
deriving Repr, Inhabited

def strs (l : List String) : Val := .arr (l.map Val.str)

def Proc.toVal (p : Proc) : Val := .record [
  ("args", strs p.args), ("command", strs p.command), ("default", .bool p.dflt), ("type", .str p.type),
  ("working-dir", match p.wd with | some d => .str d | none => .absent)]

def labelVal (l : String × String) : Val := .record [("key", .str l.1), ("value", .str l.2)]
def sliceVal (s : List String) : Val := .record [("paths", strs s)]

def Launch.toVal (l : Launch) : Val := .record [
  ("labels", .arr (l.labels.map labelVal)), ("processes", .arr (l.processes.map Proc.toVal)), ("slices", .arr (l.slices.map sliceVal))]

def provideVal (n : String) : Val := .record [("name", .str n)]
def Req.toVal (r : Req) : Val := .record [("metadata", .free (.tbl r.mdata)), ("name", .str r.name)]
def Group.toVal (g : Group) : Val := .record [("provides", .arr (g.provides.map provideVal)), ("requires", .arr (g.requires.map Req.toVal))]
def Plan.toVal (p : Plan) : Val := .record [
  ("or", .arr (p.ors.map Group.toVal)), ("provides", .arr (p.first.provides.map provideVal)), ("requires", .arr (p.first.requires.map Req.toVal))]

def LayerTypes.toVal (t : LayerTypes) : Val := .record [("build", .bool t.build), ("cache", .bool t.cache), ("launch", .bool t.launch)]
def LayerMeta.toVal (m : LayerMeta) : Val := .record [
  ("metadata", match m.mdata with | some t => .free (.tbl t) | none => .absent),
  ("types", match m.types with | some t => t.toVal | none => .absent)]

def storeVal (t : Table) : Val := .record [("metadata", .free (.tbl t))]

/-- exec.d output: variable name ↦ value -/
def execdVal (kvs : List (String × String)) : Val := .record (kvs.map (fun kv => (kv.1, Val.str kv.2)))

def Package.toVal (p : Package) : Val := .record [
  ("buildpack", .record [("uri", .str p.buildpack)]),
  ("dependencies", .arr (p.dependencies.map (fun u => Val.record [("uri", .str u)]))),
  ("platform", .record [("os", .str p.os)])]

end CnbVerif.Cnb
