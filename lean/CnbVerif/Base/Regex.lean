/-!
Regular-expression syntax tree shared by the generated regexes (`Gen/Regexes.lean`, written by the translator from
fancy_regex's own parse tree) and the matcher model (`Model/Ident.lean`). Core Lean only.

Character classes are **sorted, merged, inclusive code-point ranges** (the translator's normal form), so
the POSIX-class spelling and the explicit-range spelling of one class are the same term.
-/
namespace CnbVerif

/-- inclusive ranges of Unicode code points -/
abbrev Ranges := List (Nat × Nat)

/-- membership of a code point in a list of inclusive ranges -/
def inRanges (r : Ranges) (n : Nat) : Bool := r.any (fun p => decide (p.1 ≤ n) && decide (n ≤ p.2))

inductive Re where
  | empty                    -- matches nothing
  | eps                      -- matches the empty string
  | cls (r : Ranges)         -- one character whose code point lies in `r`
  | seq (a b : Re)
  | alt (a b : Re)
  | star (a : Re)
  | plus (a : Re)
deriving Repr, DecidableEq, Inhabited

/-- a literal string: one singleton class per character -/
def Re.lit : List Char → Re
  | [] => .eps
  | c :: cs => .seq (.cls [(c.toNat, c.toNat)]) (Re.lit cs)

/-- `^(?!neg$)pos$` (no look-ahead when `neg = none`): the whole input matches `pos` and does not match `neg`. -/
structure Anchored where
  neg : Option Re
  pos : Re
deriving Repr, DecidableEq, Inhabited

end CnbVerif
