/-! Enumerations shared by the generated tables (`Gen/`) and the hand-written models. Core only. -/
namespace CnbVerif

/-- `libcnb::layer_env::ModificationBehavior` -/
inductive Beh | append | default | delim | override | prepend
deriving DecidableEq, Repr, Inhabited

def Beh.all : List Beh := [.append, .default, .delim, .override, .prepend]

def Beh.tag : Beh → String
  | .append => "a" | .default => "d" | .delim => "m" | .override => "o" | .prepend => "p"

def Beh.ofTag : String → Option Beh
  | "a" => some .append | "d" => some .default | "m" => some .delim
  | "o" => some .override | "p" => some .prepend | _ => none

/-- the two scopes that may carry implicit layer paths -/
inductive PScope | build | launch
deriving DecidableEq, Repr

/-- sub-directories of a layer that give rise to implicit layer paths -/
inductive LSub | bin | lib | incl | pkgconfig
deriving DecidableEq, Repr

end CnbVerif
