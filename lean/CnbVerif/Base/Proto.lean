/-!
Line-protocol helpers shared by every model file: hex codec for byte strings, token splitting.
Core Lean only (no imports), so the driver links as a `lean_exe`.
-/
namespace CnbVerif

/-- A byte string. Values are `< 256` whenever they come out of `hexDecode`. -/
abbrev Bytes := List Nat

def hexDigit (n : Nat) : Char :=
  if n < 10 then Char.ofNat (48 + n) else Char.ofNat (87 + n)

def hexVal (c : Char) : Option Nat :=
  let n := c.toNat
  if 48 ≤ n ∧ n ≤ 57 then some (n - 48)
  else if 97 ≤ n ∧ n ≤ 102 then some (n - 87)
  else if 65 ≤ n ∧ n ≤ 70 then some (n - 55)
  else none

def hexEncodeChars : Bytes → List Char
  | [] => []
  | b :: bs => hexDigit (b / 16) :: hexDigit (b % 16) :: hexEncodeChars bs

def hexEncode (b : Bytes) : String := String.ofList (hexEncodeChars b)

def hexDecodeChars : List Char → Option Bytes
  | [] => some []
  | [_] => none
  | a :: b :: rest =>
    match hexVal a, hexVal b, hexDecodeChars rest with
    | some x, some y, some r => some ((x * 16 + y) :: r)
    | _, _, _ => none

def hexDecode (s : String) : Option Bytes := hexDecodeChars s.toList

/-- Lexicographic order on byte strings (Rust's `OsString`/`Vec<u8>` order on unix). -/
def bytesLt : Bytes → Bytes → Bool
  | [], [] => false
  | [], _ :: _ => true
  | _ :: _, [] => false
  | a :: as, b :: bs => if a < b then true else if b < a then false else bytesLt as bs

def strBytes (s : String) : Bytes := s.toUTF8.toList.map (·.toNat)

/-- split on a separator, the empty string giving the empty list (`-` is also the empty list) -/
def splitList (s : String) (sep : String) : List String :=
  if s = "" ∨ s = "-" then [] else s.splitOn sep

def joinWith (sep : String) (l : List String) : String :=
  if l.isEmpty then "-" else String.intercalate sep l

def allSome {α} : List (Option α) → Option (List α)
  | [] => some []
  | none :: _ => none
  | some a :: r => (allSome r).map (a :: ·)

/-- insertion sort by a strict order, used only for canonical output -/
def insertBy {α} (lt : α → α → Bool) (x : α) : List α → List α
  | [] => [x]
  | y :: ys => if lt x y then x :: y :: ys else y :: insertBy lt x ys

def sortBy {α} (lt : α → α → Bool) (l : List α) : List α := l.foldr (insertBy lt) []

end CnbVerif
