import CnbVerif.Base.Proto
import CnbVerif.Base.Types
/-!
The CNB environment-modification rules, written from the spec (buildpack.md, "Environment Variable
Modification Rules") per variable, without reference to how libcnb iterates:

* `append`: previous value, then the delimiter if the previous value is non-empty, then the value;
* `default`: the value only if the variable is unset;
* `override`: the value;
* `prepend`: the value, then (delimiter, previous) if the previous value is non-empty;
* within one env directory the lifecycle applies the files in lexical order of the file names'
  suffixes for one variable: append, default, (delim is not an action), override, prepend.
-/
namespace CnbVerif.Spec

/-- What one env file `NAME.<b>` with content `v` does to the variable's previous value. -/
def rule1 (delim : Bytes) (b : Beh) (v : Bytes) (prev : Option Bytes) : Option Bytes :=
  match b with
  | .append => match prev with
    | none => some v
    | some p => if p.isEmpty then some v else some (p ++ delim ++ v)
  | .default => match prev with
    | none => some v
    | some p => some p
  | .override => some v
  | .prepend => match prev with
    | none => some v
    | some p => if p.isEmpty then some v else some (v ++ delim ++ p)
  | .delim => prev

/-- `look b` is the content of `NAME.<b>` in one env directory, if the file exists. The files of one
variable act in the order append, default, override, prepend; `NAME.delim` only supplies the delimiter. -/
def ruleVar (look : Beh → Option Bytes) (prev : Option Bytes) : Option Bytes :=
  let delim := (look .delim).getD []
  let ap (b : Beh) (p : Option Bytes) : Option Bytes :=
    match look b with
    | some v => rule1 delim b v p
    | none => p
  ap .prepend (ap .override (ap .default (ap .append prev)))

end CnbVerif.Spec
