import CnbVerif.Base.Decimal
/-!
# Spec: the languages of identifiers and versions (property C09)

Written from the property text and the CNB buildpack specification, not from the code:

* **layer name** — "the buildpack MAY name layers arbitrarily, except `build`, `launch`, `store`" (they would collide with
  `<layers>/build.toml`, `launch.toml`, `store.toml`). The spec gives no character rule. *Where the spec is silent:* the
  empty name and a name containing a line feed are excluded here (they cannot name `<layers>/<name>.toml` sensibly and the
  implementation's `.` does not match `\n`); every other character — including `/`, NUL, a lone `.`/`..` — is allowed by
  this language exactly as by the implementation. This is stated, not hidden: C09 does not claim such names are usable paths.
* **process type** — "MUST only contain numbers, letters, and the characters `.`, `_`, and `-`" (non-empty).
* **buildpack id** — "MUST only contain numbers, letters, and the characters `.`, `/`, and `-`; MUST NOT be `config` or `app`"
  (and `sbom`, reserved since `<layers>/sbom/`), non-empty.
* **exec.d output key** — numbers, letters, `_` and `-` (non-empty).
  *Silent:* "letters"/"numbers" are read as ASCII `A–Z a–z` / `0–9` (a non-ASCII letter such as `é` is outside the language).
* **buildpack version** — "`<X>.<Y>.<Z>` where X, Y, Z are non-negative integers and MUST NOT contain leading zeros"; the
  property adds: no sign, no whitespace. Read as: the three canonical decimal numerals of numbers `< 2^64` joined by `.`
  (*silent:* the spec gives no upper bound; the implementation stores `u64`, so larger numbers are outside the language).
* **buildpack API** — "`<major>.<minor>` or `<major>`, where `<major>` is equivalent to `<major>.0`", "of plain digits":
  non-empty strings of ASCII digits with value `< 2^64`. *Silent:* redundant leading zeros are not forbidden for the API
  (`01.2` denotes `1.2`), only for versions.

Every language is an executable predicate on `List Char` so that it can judge an observation of the implementation.
Only `Base/Decimal` (numerals, splitting) is shared with the model.
-/
namespace CnbVerif.Spec

/-- ASCII letter `A–Z` / `a–z` -/
def isLetter (c : Char) : Bool :=
  (decide (65 ≤ c.toNat) && decide (c.toNat ≤ 90)) || (decide (97 ≤ c.toNat) && decide (c.toNat ≤ 122))

/-- ASCII digit `0–9` -/
def isNumber (c : Char) : Bool := decide (48 ≤ c.toNat) && decide (c.toNat ≤ 57)

def layerNameReserved : List (List Char) :=
  [['b', 'u', 'i', 'l', 'd'], ['l', 'a', 'u', 'n', 'c', 'h'], ['s', 't', 'o', 'r', 'e']]

def buildpackIdReserved : List (List Char) :=
  [['a', 'p', 'p'], ['c', 'o', 'n', 'f', 'i', 'g'], ['s', 'b', 'o', 'm']]

def layerNameChar (c : Char) : Bool := c != '\n'
def processTypeChar (c : Char) : Bool := isLetter c || isNumber c || c == '.' || c == '_' || c == '-'
def buildpackIdChar (c : Char) : Bool := isLetter c || isNumber c || c == '.' || c == '/' || c == '-'
def execdKeyChar (c : Char) : Bool := isLetter c || isNumber c || c == '_' || c == '-'

def isLayerName (s : List Char) : Bool := s != [] && s.all layerNameChar && !layerNameReserved.contains s
def isProcessType (s : List Char) : Bool := s != [] && s.all processTypeChar
def isBuildpackId (s : List Char) : Bool := s != [] && s.all buildpackIdChar && !buildpackIdReserved.contains s
def isExecdKey (s : List Char) : Bool := s != [] && s.all execdKeyChar

/-- 2^64: numbers must fit the `u64` fields of the data types -/
def bound : Nat := 2 ^ 64

/-- the text of version `a.b.c`: canonical numerals joined by `.` -/
def versionText (a b c : Nat) : List Char := render a ++ '.' :: (render b ++ '.' :: render c)

/-- the text of API version `a.b` in its normal form `N.M` -/
def apiText (a b : Nat) : List Char := render a ++ '.' :: render b

/-- **The language of buildpack versions** (declarative). -/
def IsVersionOf (s : List Char) (a b c : Nat) : Prop :=
  a < bound ∧ b < bound ∧ c < bound ∧ s = versionText a b c

/-- a non-empty string of plain ASCII digits denoting `n < 2^64` (leading zeros allowed) -/
def IsPlainNumber (p : List Char) (n : Nat) : Prop :=
  p ≠ [] ∧ (∀ ch ∈ p, isNumber ch = true) ∧ digitsValue p = some n ∧ n < bound

/-- **The language of buildpack API versions** (declarative): `N` (meaning `N.0`) or `N.M`. -/
def IsApiOf (s : List Char) (a b : Nat) : Prop :=
  (IsPlainNumber s a ∧ b = 0) ∨ (∃ p q, IsPlainNumber p a ∧ IsPlainNumber q b ∧ s = p ++ '.' :: q)

/-! ### executable oracles -/

/-- `p` is the canonical numeral of a number `< 2^64`: it is the rendering of its own value -/
def canonicalNumber? (p : List Char) : Option Nat :=
  match digitsValue p with
  | some n => if n < bound ∧ render n = p then some n else none
  | none => none

/-- non-empty plain digits with value `< 2^64` -/
def plainNumber? (p : List Char) : Option Nat :=
  match digitsValue p with
  | some n => if n < bound then some n else none
  | none => none

/-- the version denoted by `s`, if `s` is in the language -/
def versionValue (s : List Char) : Option (Nat × Nat × Nat) :=
  match splitChar '.' s with
  | [p, q, r] =>
    match canonicalNumber? p, canonicalNumber? q, canonicalNumber? r with
    | some a, some b, some c => some (a, b, c)
    | _, _, _ => none
  | _ => none

/-- the API version denoted by `s`, if `s` is in the language -/
def apiValue (s : List Char) : Option (Nat × Nat) :=
  match splitChar '.' s with
  | [p] => (plainNumber? p).map (fun a => (a, 0))
  | [p, q] =>
    match plainNumber? p, plainNumber? q with
    | some a, some b => some (a, b)
    | _, _ => none
  | _ => none

end CnbVerif.Spec
