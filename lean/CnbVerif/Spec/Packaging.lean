import CnbVerif.Model.Packager
import CnbVerif.Spec.Topo
import CnbVerif.Spec.PathDenote
/-!
Specification of C15, written from the property text (and the documented layout of a packaged buildpack), not from the
code. Only the plain data types of `Model/Packager.lean` are shared (`Workspace`, `Buildpack`, `Kind`, `Config`, `Profile`,
`Node`, `Content`, `Path`, `FS`); none of its functions is used.

"packaging from the workspace root or from one buildpack's directory writes, for exactly the selected buildpacks and their
dependencies, a directory holding a byte-identical buildpack.toml, the compiled main binary as bin/build, bin/detect as a
link to it, every additional binary under .libcnb-cargo/additional-bin/<target name>, and a package.toml (normalised for
composites), and prints exactly the selected buildpacks' output directories on stdout. Whatever an earlier or interrupted
run left in those output directories, the result is the same as packaging into an empty directory."

Readings fixed here:
* *selected*: invoked from a buildpack's directory — that buildpack; otherwise, invoked from the workspace root — every
  libcnb.rs and composite buildpack of the workspace. From any other directory the property says nothing. The selection
  is a matter of the workspace and the invocation directory only: `selected` takes no `Config`, so no `--package-dir`
  (be it the workspace root, an ancestor of buildpack directories, a buildpack's own directory …) can change it.
* *dependencies*: the buildpacks named by `libcnb:<id>` references in a composite's `package.toml`, transitively
  (`Spec.Topo.Reachable`).
* *output directory* of a buildpack: `<package dir>/<target triple>/<debug|release>/<id with '/' replaced by '_'>`; the
  package directory is `--package-dir` resolved from the invocation directory, by default `<workspace root>/packaged`.
* *main binary*: the only bin target, or, among several, the one named like the package; otherwise there is none and
  packaging must fail (`mainOf`).
* *normalised*: as in C14 — a `libcnb:<id>` reference becomes (an absolute path denoting) the output directory of `id`, a
  relative path becomes an absolute, dot-free path denoting the same directory, anything else is copied.
* *the same as packaging into an empty directory*: below an output directory nothing but the listed entries exists.
* *exactly*: nothing else below the package directory changes — in particular not the buildpack sources, when the
  package directory is or holds (part of) the source tree.

Two layers: `Prop`s over a tree seen as a partial map (used by the theorems), and an executable judge of an observed run
(used by the driver on the implementation's observations).
-/
namespace CnbVerif.Spec.Packaging
open CnbVerif.Chars CnbVerif.Packager CnbVerif.Spec.PathDenote
open CnbVerif.PkgDescriptor (Descriptor)

/-! ### main binary -/

/-- the main binary target of a package with the given bin targets, if determined -/
def mainOf (pkgName : String) (bins : List String) : Option String :=
  if bins.length = 1 then bins.head?
  else if 2 ≤ bins.length ∧ pkgName ∈ bins then some pkgName
  else none

/-- the other bin targets -/
def additionalOf (main : String) (bins : List String) : List String := bins.filter (fun b => !(b == main))

/-! ### layout of a packaged directory, over a tree seen as a partial map from relative paths -/

def relBuildpackToml : Path := ["buildpack.toml"]
def relPackageToml : Path := ["package.toml"]
def relBin : Path := ["bin"]
def relBuild : Path := ["bin", "build"]
def relDetect : Path := ["bin", "detect"]
def relAdditional (n : String) : Path := [".libcnb-cargo", "additional-bin", n]

/-- `target`, read from the directory `bin/`, names `bin/build` (lexically: `build`, `./build`, `../bin/build` …) -/
def linksToBuild (target : String) : Bool :=
  denoteFrom ["bin".toList] target.toList == ["bin".toList, "build".toList] && !isAbsolute target.toList

/-- a complete packaged libcnb.rs buildpack, and nothing else -/
structure PackagedLibcnb (at_ : Path → Option Node) (descriptor pkgName main : String) (adds : List String)
    (profile : Profile) : Prop where
  descriptor : at_ relBuildpackToml = some (.file (.raw descriptor))
  bin : at_ relBin = some .dir
  build : at_ relBuild = some (.file (.artifact pkgName main profile))
  detect : ∃ t, at_ relDetect = some (.link t) ∧ linksToBuild t = true
  additional : ∀ n ∈ adds, at_ (relAdditional n) = some (.file (.artifact pkgName n profile))
  package : ∃ d, at_ relPackageToml = some (.file (.pkg d))
  nothingElse : ∀ rel n, at_ rel = some n →
    rel = [] ∨ rel = relBuildpackToml ∨ rel = relBin ∨ rel = relBuild ∨ rel = relDetect ∨ rel = relPackageToml ∨
      (adds ≠ [] ∧ n = .dir ∧ (rel = [".libcnb-cargo"] ∨ rel = [".libcnb-cargo", "additional-bin"])) ∨
      ∃ a ∈ adds, rel = relAdditional a

/-- a complete packaged composite buildpack holding the descriptor `out`, and nothing else -/
structure PackagedComposite (at_ : Path → Option Node) (descriptor : String) (out : Descriptor) : Prop where
  descriptor : at_ relBuildpackToml = some (.file (.raw descriptor))
  package : at_ relPackageToml = some (.file (.pkg out))
  nothingElse : ∀ rel n, at_ rel = some n → rel = [] ∨ rel = relBuildpackToml ∨ rel = relPackageToml

/-! ### naming -/

def profileName : Profile → String
  | .dev => "debug"
  | .release => "release"

def outDirName (id : String) : String := String.ofList (id.toList.map (fun c => if c = '/' then '_' else c))

/-- the output directory of `id`, relative to the package directory -/
def outRel (cfg : Config) (id : String) : Path := [cfg.target, profileName cfg.profile, outDirName id]

/-- the directory the package directory is -/
def packageDirDen (ws : Workspace) (inv : Str) (cfg : Config) : Dir :=
  match cfg.packageDir with
  | none => denote ws.root ++ ["packaged".toList]
  | some p => denoteFrom (denote inv) p

def outDen (ws : Workspace) (inv : Str) (cfg : Config) (id : String) : Dir :=
  packageDirDen ws inv cfg ++ (outRel cfg id).map String.toList

/-! ### selection and dependencies -/

def isPackable (bp : Buildpack) : Bool :=
  match bp.kind with
  | .foreign => false
  | _ => true

def packables (ws : Workspace) : List Buildpack := ws.dirs.filter isPackable

def dirDen (ws : Workspace) (bp : Buildpack) : Dir := denoteFrom (denote ws.root) bp.dir

/-- the selected buildpack ids; `none`: the property does not speak about this invocation directory -/
def selected (ws : Workspace) (inv : Str) : Option (List String) :=
  match (packables ws).filter (fun bp => dirDen ws bp == denote inv) with
  | [bp] => some [bp.id]
  | [] => if denote inv == denote ws.root then some ((packables ws).map (·.id)) else none
  | _ => none

/-- the `libcnb:` references of a composite, as texts -/
def libcnbRefs (bp : Buildpack) : List Str :=
  match bp.kind with
  | .composite pkg => pkg.deps.filterMap (fun dep => match kindOf dep with | .libcnb id => some id | _ => none)
  | _ => []

/-- the ids a buildpack depends on -/
def depIds (ws : Workspace) (id : String) : List String :=
  match (packables ws).find? (fun bp => bp.id == id) with
  | some bp => (libcnbRefs bp).map String.ofList
  | none => []

/-- a reference that names no libcnb.rs or composite buildpack of the workspace, or is no id at all -/
def danglingRefs (ws : Workspace) : List Str :=
  (packables ws).flatMap (fun bp => (libcnbRefs bp).filter (fun r =>
    !idOk r || !((packables ws).any (fun b => b.id == String.ofList r))))

/-- selected ∪ transitive dependencies -/
def closure (ws : Workspace) (roots : List String) : List String :=
  Topo.closureSat (depIds ws) roots (packables ws).length

/-- the buildpacks of the closure whose main binary is not determined -/
def undetermined (ws : Workspace) (ids : List String) : List String :=
  ids.filter (fun id => match (packables ws).find? (fun bp => bp.id == id) with
    | some bp => (match bp.kind with | .libcnb pkgName bins => (mainOf pkgName bins).isNone | _ => false)
    | none => false)

/-! ### the executable judge of an observed run -/

/-- what was observed: exit status class, stdout lines, the tree below the package directory before and after (without
the workspace sources, which are compared on their own: `srcChanged` names a source entry that is no longer what it was
before the run) -/
structure Observed where
  ok : Bool
  stdout : List Str
  pre : FS
  post : FS
  srcChanged : Option String

def entry (t : FS) (p : Path) : Option Node :=
  match t.find? (fun e => e.1 == p) with
  | some e => some e.2
  | none => none

def showPath (p : Path) : String := String.intercalate "/" p

/-- the first required entry that is missing or different -/
def firstWrong (t : FS) (dest : Path) (req : List (Path × (Node → Bool) × String)) : Option String :=
  match req.find? (fun r => match entry t (dest ++ r.1) with | some n => !(r.2.1 n) | none => true) with
  | some r => some (showPath (dest ++ r.1) ++ " " ++ r.2.2 ++
      (match entry t (dest ++ r.1) with | some _ => " (found something else)" | none => " (missing)"))
  | none => none

def isDirNode : Node → Bool
  | .dir => true
  | _ => false

/-- one dependency of a normalised composite descriptor against the original one -/
def judgeDep (ws : Workspace) (inv : Str) (cfg : Config) (parentDen : Dir) (dep out : Str) : Option String :=
  match kindOf dep with
  | .libcnb id =>
    if isAbsolute out && denote out == outDen ws inv cfg (String.ofList id) then none
    else some ("libcnb:" ++ String.ofList id ++ " became " ++ String.ofList out ++ ", not its output directory")
  | .other => if out = dep then none else some (String.ofList dep ++ " was not copied verbatim: " ++ String.ofList out)
  | .relative =>
    if !isAbsolute out then some (String.ofList dep ++ " became the non-absolute " ++ String.ofList out)
    else if !dotFree out then some (String.ofList dep ++ " became " ++ String.ofList out ++ " which is not dot-free")
    else if denote out != denoteFrom parentDen dep then
      some (String.ofList dep ++ " became " ++ String.ofList out ++ " which denotes another directory")
    else none

def judgeDeps (ws : Workspace) (inv : Str) (cfg : Config) (parentDen : Dir) : List Str → List Str → Option String
  | [], [] => none
  | d :: ds, o :: os =>
    match judgeDep ws inv cfg parentDen d o with
    | some w => some w
    | none => judgeDeps ws inv cfg parentDen ds os
  | _, _ => some "number of dependencies changed"

/-- is the output directory of `bp` in tree `t` complete and free of anything else? -/
def judgeDir (ws : Workspace) (inv : Str) (cfg : Config) (t : FS) (bp : Buildpack) : Option String :=
  let dest := outRel cfg bp.id
  let under := t.filter (fun e => dest.isPrefixOf e.1)
  match bp.kind with
  | .foreign => some ("a foreign buildpack was selected: " ++ bp.id)
  | .libcnb pkgName bins =>
    match mainOf pkgName bins with
    | none => some ("no main binary is determined for " ++ bp.id ++ " but packaging succeeded")
    | some main =>
      let adds := additionalOf main bins
      let req : List (Path × (Node → Bool) × String) :=
        [([], isDirNode, "is not a directory"),
         (relBuildpackToml, (fun n => n == .file (.raw bp.descriptor)), "is not the byte-identical buildpack.toml"),
         (relBin, isDirNode, "is not a directory"),
         (relBuild, (fun n => n == .file (.artifact pkgName main cfg.profile)), "is not the compiled main binary " ++ main),
         (relDetect, (fun n => match n with | .link tg => linksToBuild tg | _ => false), "is not a link to bin/build"),
         (relPackageToml, (fun n => match n with
            | .file (.pkg d) => d.deps.isEmpty && !isAbsolute d.buildpack && denoteFrom [] d.buildpack == ([] : Dir)
            | _ => false), "is not a package.toml for the directory itself")] ++
        adds.map (fun a => (relAdditional a, (fun n => n == .file (.artifact pkgName a cfg.profile)),
          "is not the compiled additional binary " ++ a))
      match firstWrong t dest req with
      | some w => some w
      | none =>
        let allowed : List Path := [[], relBuildpackToml, relBin, relBuild, relDetect, relPackageToml] ++ adds.map relAdditional
        let optionalDirs : List Path := if adds.isEmpty then [] else [[".libcnb-cargo"], [".libcnb-cargo", "additional-bin"]]
        match under.find? (fun e =>
            let rel := e.1.drop dest.length
            !(allowed.contains rel || (optionalDirs.contains rel && isDirNode e.2))) with
        | some e => some (showPath e.1 ++ " does not belong into a freshly packaged directory")
        | none => none
  | .composite pkg =>
    let req : List (Path × (Node → Bool) × String) :=
      [([], isDirNode, "is not a directory"),
       (relBuildpackToml, (fun n => n == .file (.raw bp.descriptor)), "is not the byte-identical buildpack.toml"),
       (relPackageToml, (fun n => match n with | .file (.pkg _) => true | _ => false), "is not a package.toml")]
    match firstWrong t dest req with
    | some w => some w
    | none =>
      match under.find? (fun e => !([[], relBuildpackToml, relPackageToml].contains (e.1.drop dest.length))) with
      | some e => some (showPath e.1 ++ " does not belong into a freshly packaged directory")
      | none =>
        match entry t (dest ++ relPackageToml) with
        | some (.file (.pkg out)) =>
          if out.buildpack != pkg.buildpack then some "the buildpack uri of package.toml changed"
          else if out.platform != pkg.platform then some "the platform of package.toml changed"
          else (judgeDeps ws inv cfg (dirDen ws bp) pkg.deps out.deps).map (fun w => showPath (dest ++ relPackageToml) ++ ": " ++ w)
        | _ => some "package.toml vanished"

def countOf (l : List Dir) (x : Dir) : Nat := (l.filter (fun y => y == x)).length

/-- the verdict on an observed run: `none` = the run satisfies the property -/
def judge (ws : Workspace) (inv : Str) (cfg : Config) (o : Observed) : Option String :=
  match selected ws inv with
  | none => if o.stdout.isEmpty then none else some "nothing is selected from this directory, yet something was printed"
  | some roots =>
    let cl := closure ws roots
    -- a workspace without any libcnb.rs / composite buildpack (outside the quantifier: 1-5 libcnb.rs buildpacks): nothing is
    -- selected, so nothing may be printed; the property does not say how such a run ends
    if roots.isEmpty then
      (if o.stdout.isEmpty then none else some "the workspace holds no buildpack to select, yet something was printed")
    else if !(danglingRefs ws).isEmpty then
      if o.ok then some ("a libcnb: reference names no buildpack of the workspace (" ++
        String.ofList ((danglingRefs ws).headD []) ++ ") but packaging succeeded")
      else if o.stdout.isEmpty then none else some "a failed run printed output directories"
    else
      match undetermined ws cl with
      | u :: _ =>
        if o.ok then some ("no main binary is determined for " ++ u ++ " but packaging succeeded")
        else if o.stdout.isEmpty then none else some "a failed run printed output directories"
      | [] =>
        if !o.ok then some "packaging failed although every selected buildpack and dependency can be packaged"
        else if o.srcChanged.isSome then
          some ("the workspace source " ++ o.srcChanged.getD "" ++ " is outside the output directories, yet it changed")
        else
          let bps := cl.filterMap (fun id => (packables ws).find? (fun bp => bp.id == id))
          match bps.findSome? (judgeDir ws inv cfg o.post) with
          | some w => some w
          | none =>
            -- exactly: nothing else below the package directory changed
            let dests := cl.map (outRel cfg)
            let outside := fun (p : Path) => !(dests.any (fun d => d.isPrefixOf p)) && !(dests.any (fun d => p.isPrefixOf d))
            match (o.pre ++ o.post).find? (fun e => outside e.1 && entry o.pre e.1 != entry o.post e.1) with
            | some e => some (showPath e.1 ++ " is outside the output directories of the selected buildpacks and their dependencies, yet it changed")
            | none =>
              -- stdout: exactly the selected buildpacks' output directories
              let want := roots.map (outDen ws inv cfg)
              if o.stdout.any (fun l => !isAbsolute l) then some "stdout holds a line that is not an absolute path"
              else
                let got := o.stdout.map denote
                match want.find? (fun d => countOf got d != countOf want d) with
                | some d => some ("stdout does not hold the output directory /" ++
                    String.intercalate "/" (d.map String.ofList) ++ " exactly once")
                | none =>
                  if got.any (fun d => !want.contains d) then some "stdout holds a line that is not a selected buildpack's output directory"
                  else none

end CnbVerif.Spec.Packaging
