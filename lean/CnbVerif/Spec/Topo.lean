/-!
Specification of C13, written from the property text, not from the code: what it means for a list to be a
build order of a selection of buildpacks.

"the computed build order contains exactly the selected buildpacks and everything they transitively depend on,
contains each once, and places every buildpack after all of its dependencies".

Nothing here traverses a graph depth-first. `Reachable` is the transitive dependency closure as an inductive
predicate; `checkOrder` is an executable judge of an *observed* order; `closureSat` is the closure computed the
obvious way (saturate `n` rounds) and is used by the driver as a second, independent reading of "exactly".
Generic in the node type (indices in the theorems, buildpack ids in the driver).
-/
namespace CnbVerif.Spec.Topo

variable {α : Type} [DecidableEq α]

/-- selected, or a (transitive) dependency of something selected -/
inductive Reachable (deps : α → List α) (roots : List α) : α → Prop
  | root {r} : r ∈ roots → Reachable deps roots r
  | step {u w} : Reachable deps roots u → w ∈ deps u → Reachable deps roots w

/-- the dependency relation has no cycle: some rank strictly decreases along every dependency -/
def Acyclic (deps : α → List α) : Prop := ∃ rank : α → Nat, ∀ u w, w ∈ deps u → rank w < rank u

/-- every element occurs after all of its dependencies -/
def DepsFirst (deps : α → List α) (out : List α) : Prop :=
  ∀ pre u post, out = pre ++ u :: post → ∀ w ∈ deps u, w ∈ pre

/-- the property: exactly the closure, each once, dependencies first -/
structure IsBuildOrder (deps : α → List α) (roots : List α) (out : List α) : Prop where
  exact : ∀ v, v ∈ out ↔ Reachable deps roots v
  nodup : out.Nodup
  depsFirst : DepsFirst deps out

/-- `scan pre rest`: every element of `rest` has its dependencies before it (in `pre` or earlier in `rest`),
does not occur before, and is wanted: selected, or a dependency of something later. -/
def scan (deps : α → List α) (roots : List α) : List α → List α → Bool
  | _, [] => true
  | pre, u :: post =>
    (deps u).all (fun w => pre.contains w) && !pre.contains u &&
      (roots.contains u || post.any (fun x => (deps x).contains u)) &&
      scan deps roots (pre ++ [u]) post

/-- executable judge of an observed order -/
def checkOrder (deps : α → List α) (roots : List α) (out : List α) : Bool :=
  roots.all (fun r => out.contains r) && scan deps roots [] out

/-- one round of "add the dependencies of everything collected so far" -/
def satStep (deps : α → List α) (s : List α) : List α :=
  s.foldl (fun acc u => (deps u).foldl (fun a w => if a.contains w then a else a ++ [w]) acc) s

/-- the closure by saturation: `n` rounds starting from the roots (`n` ≥ number of nodes is enough) -/
def closureSat (deps : α → List α) (roots : List α) : Nat → List α
  | 0 => roots.foldl (fun a w => if a.contains w then a else a ++ [w]) []
  | n + 1 => satStep deps (closureSat deps roots n)

/-- same elements, as sets -/
def sameSet (a b : List α) : Bool := a.all (fun x => b.contains x) && b.all (fun x => a.contains x)

/-- first reason why `out` is not a build order, for the verdict line (`none` = it is one) -/
def whyNot (deps : α → List α) (roots : List α) (n : Nat) (out : List α) (show_ : α → String) : Option String :=
  let rec dup : List α → Option α
    | [] => none
    | x :: xs => if xs.contains x then some x else dup xs
  let rec early : List α → List α → Option (α × α)
    | _, [] => none
    | pre, u :: post =>
      match (deps u).find? (fun w => !pre.contains w) with
      | some w => some (u, w)
      | none => early (pre ++ [u]) post
  match dup out with
  | some x => some ("duplicate " ++ show_ x)
  | none =>
    match early [] out with
    | some (u, w) => some (show_ u ++ " is not after its dependency " ++ show_ w)
    | none =>
      let cl := closureSat deps roots n
      match cl.find? (fun x => !out.contains x) with
      | some x => some ("missing " ++ show_ x)
      | none =>
        match out.find? (fun x => !cl.contains x) with
        | some x => some ("unwanted " ++ show_ x)
        | none => if checkOrder deps roots out then none else some "checkOrder rejects"

/-- "a dependency on an unknown buildpack is an error" presupposes that the buildpacks the graph knows are the
buildpacks of the workspace. `placed`: the buildpacks that exist in the workspace — a directory entry below the
workspace root that resolves to a directory holding `buildpack.toml`, whether the entry is a directory or a
symbolic link to one (pairwise distinct ids, each buildpack once); `found`: the nodes of the graph. First reason why
the node set is not the workspace's (`none` = it is): a buildpack silently dropped, an invented node, a node twice. -/
def nodeSetWhyNot (placed found : List α) (show_ : α → String) : Option String :=
  match placed.find? (fun x => !found.contains x) with
  | some x => some ("buildpack " ++ show_ x ++ " of the workspace is not a node of the graph")
  | none =>
    match found.find? (fun x => !placed.contains x) with
    | some x => some ("node " ++ show_ x ++ " is not a buildpack of the workspace")
    | none => if found.length = placed.length then none else some "a buildpack is a node more than once"

end CnbVerif.Spec.Topo
