import CnbVerif.Model.Inventory
/-!
# Specification side of C18, written from the property text (only the plain data types of `Model/Inventory.lean` are used)

"Resolving an inventory for an OS, architecture and requirement returns an artifact that matches all three and whose
version no other matching artifact exceeds, and returns nothing only when no artifact matches — for totally and for
partially ordered versions. … a checksum string is accepted exactly when it is `<algorithm>:<hex>` with the algorithm and
digest length of the expected digest."
-/
namespace CnbVerif.Spec.Inventory
open CnbVerif CnbVerif.Inventory

/-- an artifact matches a query: OS, architecture and requirement (version and metadata) -/
def Matches {V M : Type} (os : Os) (arch : Arch) (req : Req V M) (a : Artifact V M) : Prop :=
  a.os = os ∧ a.arch = arch ∧ req.version a.version = true ∧ req.metadata a.metadata = true

instance {V M : Type} (os : Os) (arch : Arch) (req : Req V M) (a : Artifact V M) : Decidable (Matches os arch req a) := by
  unfold Matches; infer_instance

/-- The property for one resolution result, for a strict order `lt` on versions (total or partial):
* an artifact is returned only if it is one of the inventory's, matches, and no matching artifact's version exceeds its;
* nothing is returned only when no artifact matches. -/
def Acceptable {V M : Type} (lt : V → V → Bool) (inv : List (Artifact V M)) (os : Os) (arch : Arch) (req : Req V M) :
    Option (Artifact V M) → Prop
  | none => ∀ w ∈ inv, ¬ Matches os arch req w
  | some a => a ∈ inv ∧ Matches os arch req a ∧ ∀ w ∈ inv, Matches os arch req w → lt a.version w.version = false

instance {V M : Type} [DecidableEq V] [DecidableEq M] (lt : V → V → Bool) (inv : List (Artifact V M)) (os : Os) (arch : Arch)
    (req : Req V M) (r : Option (Artifact V M)) : Decidable (Acceptable lt inv os arch req r) := by
  cases r <;> (unfold Acceptable; infer_instance)

/-- the strict order of an `Ord` comparison -/
def ltOfCmp {V : Type} (cmp : V → V → Ordering) (a b : V) : Bool := cmp a b == .lt

/-- the strict order of a `PartialOrd` comparison -/
def ltOfPCmp {V : Type} (pcmp : V → V → Option Ordering) (a b : V) : Bool := pcmp a b == some .lt

/-- What is needed of an `Ord` implementation (all are consequences of Rust's documented `Ord` contract): `<` is
irreflexive and transitive, and an element equal to a smaller one is smaller. Totality is in the type of `cmp`. -/
structure TotalLaws {V : Type} (cmp : V → V → Ordering) : Prop where
  lt_irrefl : ∀ a, cmp a a ≠ .lt
  lt_trans : ∀ a b c, cmp a b = .lt → cmp b c = .lt → cmp a c = .lt
  eq_lt_trans : ∀ a b c, cmp a b = .eq → cmp b c = .lt → cmp a c = .lt

/-- What is needed of a `PartialOrd` implementation (consequences of Rust's documented `PartialOrd` contract):
`<` is irreflexive and transitive, `a < b ↔ b > a` (duality), and `a == b`, `a < c` give `b < c`.
Nothing is required of incomparable pairs (`partial_cmp = None`). -/
structure PartialLaws {V : Type} (pcmp : V → V → Option Ordering) : Prop where
  lt_irrefl : ∀ a, pcmp a a ≠ some .lt
  lt_of_gt : ∀ a b, pcmp a b = some .gt → pcmp b a = some .lt
  gt_of_lt : ∀ a b, pcmp a b = some .lt → pcmp b a = some .gt
  lt_trans : ∀ a b c, pcmp a b = some .lt → pcmp b c = some .lt → pcmp a c = some .lt
  eq_lt : ∀ a b c, pcmp a b = some .eq → pcmp a c = some .lt → pcmp b c = some .lt

/-! ## checksum strings -/

/-- ASCII hex digit of either case: `0-9`, `a-f`, `A-F` -/
def isHexDigit (c : Char) : Bool :=
  let n := c.toNat
  (48 ≤ n && n ≤ 57) || (97 ≤ n && n ≤ 102) || (65 ≤ n && n ≤ 70)

/-- `<algorithm>:<hex>` with the algorithm and digest length of the expected digest: the algorithm name holds no colon
and is the digest's, the rest is an even number of hex digits denoting as many bytes as the digest has. -/
def ChecksumGrammar (d : Digest) (s : List Char) : Prop :=
  ∃ name hex, s = name ++ ':' :: hex ∧ ':' ∉ name ∧ d.nameCompatible name = true ∧
    (∀ c ∈ hex, isHexDigit c = true) ∧ ∃ n, hex.length = 2 * n ∧ d.lengthCompatible n = true

/-- all ways of cutting a string in two -/
def splits : List Char → List (List Char × List Char)
  | [] => [([], [])]
  | c :: rest => ([], c :: rest) :: (splits rest).map (fun p => (c :: p.1, p.2))

def acceptsAt (d : Digest) (p : List Char × List Char) : Bool :=
  match p.2 with
  | ':' :: hex => !p.1.contains ':' && d.nameCompatible p.1 && hex.all isHexDigit && hex.length % 2 == 0 &&
      d.lengthCompatible (hex.length / 2)
  | _ => false

/-- the grammar as a decision procedure (used by the driver to judge the implementation): try every cut -/
def accepts (d : Digest) (s : List Char) : Bool := (splits s).any (acceptsAt d)

/-- the value of a hex digit / of a string of hex digit pairs, independent of the model's decoder -/
def digitValue (c : Char) : Nat :=
  let n := c.toNat
  if n ≤ 57 then n - 48 else if 97 ≤ n then n - 87 else n - 55

def hexValue : List Char → Bytes
  | a :: b :: rest => (digitValue a * 16 + digitValue b) :: hexValue rest
  | _ => []

end CnbVerif.Spec.Inventory
