import CnbVerif.Base.Proto
/-!
# Specification side of C19, written from the property text

"… the marker-splitting mapped writer emits the mapping of each marker-terminated segment and of the non-empty
remainder regardless of how the input was split across write calls. The tee writer gives both targets the full input.
Running a command with stream capture delivers every byte the child wrote to stdout and to stderr, in order per stream,
both to the supplied writers and to the returned output."

Everything here is a function of the **whole input** (the concatenation of all writes / the child's script); nothing refers
to chunks, buffers or pipes.
-/
namespace CnbVerif.Spec.Streaming
open CnbVerif

/-- Split a byte string at the marker: the marker-terminated segments (each *including* its marker) and the remainder
after the last marker. -/
def segments (m : Nat) : Bytes → List Bytes × Bytes
  | [] => ([], [])
  | b :: rest =>
    if b = m then ([b] :: (segments m rest).1, (segments m rest).2)
    else match segments m rest with
      | ([], rem) => ([], b :: rem)
      | (s :: ss, rem) => ((b :: s) :: ss, rem)

/-- What the inner writer must have received once the mapped writer is gone: `f` of every marker-terminated segment,
in order, then `f` of the remainder if (and only if) the remainder is non-empty. -/
def mappedOutput (m : Nat) (f : Bytes → Bytes) (input : Bytes) : Bytes :=
  let sr := segments m input
  (sr.1.map f).flatten ++ (match sr.2 with | [] => [] | r => f r)

/-- What each target of a tee must have received: the full input. -/
def teeOutput (input : Bytes) : Bytes := input

/-- The input of a writer that was given a sequence of calls, `some bytes` = a `write` of these bytes, `none` = a `flush()`:
the concatenation of everything written. A flush is not a write — "regardless of how the input was split across write
calls" speaks about the input alone, so whether and where the caller flushes between the writes is, like the split, not
allowed to show in what is emitted: the required output is `mappedOutput` / `teeOutput` of `writtenBytes`. -/
def writtenBytes : List (Option Bytes) → Bytes
  | [] => []
  | some bytes :: rest => bytes ++ writtenBytes rest
  | none :: rest => writtenBytes rest

/-- A child program: the sequence of its writes, `false` = stdout, `true` = stderr. -/
abbrev Script := List (Bool × Bytes)

/-- Every byte the child wrote to one stream, in order. -/
def streamBytes (stream : Bool) : Script → Bytes
  | [] => []
  | (s, bytes) :: rest => if s = stream then bytes ++ streamBytes stream rest else streamBytes stream rest

end CnbVerif.Spec.Streaming
