import CnbVerif.Base.Proto
/-!
# Specification side of C19, written from the property text

"… the marker-splitting mapped writer emits the mapping of each marker-terminated segment and of the non-empty
remainder regardless of how the input was split across write calls. The tee writer gives both targets the full input.
Running a command with stream capture delivers every byte the child wrote to stdout and to stderr, in order per stream,
both to the supplied writers and to the returned output, and returns once both streams close, whatever the volume and
interleaving of the two streams."

Everything here is a function of the **whole input** (the concatenation of all writes / the child's script); nothing refers
to chunks, buffers or pipes.
-/
namespace CnbVerif.Spec.Streaming
open CnbVerif

/-- Split a byte string at the marker: the marker-terminated segments (each *including* its marker) and the remainder
after the last marker. -/
def segments (m : Nat) : Bytes → List Bytes × Bytes
  | [] => ([], [])
  | b :: rest =>
    if b = m then ([b] :: (segments m rest).1, (segments m rest).2)
    else match segments m rest with
      | ([], rem) => ([], b :: rem)
      | (s :: ss, rem) => ((b :: s) :: ss, rem)

/-- What the inner writer must have received once the mapped writer is gone: `f` of every marker-terminated segment,
in order, then `f` of the remainder if (and only if) the remainder is non-empty. -/
def mappedOutput (m : Nat) (f : Bytes → Bytes) (input : Bytes) : Bytes :=
  let sr := segments m input
  (sr.1.map f).flatten ++ (match sr.2 with | [] => [] | r => f r)

/-- What each target of a tee must have received: the full input. -/
def teeOutput (input : Bytes) : Bytes := input

/-- The input of a writer that was given a sequence of calls, `some bytes` = a `write` of these bytes, `none` = a `flush()`:
the concatenation of everything written. A flush is not a write — "regardless of how the input was split across write
calls" speaks about the input alone, so whether and where the caller flushes between the writes is, like the split, not
allowed to show in what is emitted: the required output is `mappedOutput` / `teeOutput` of `writtenBytes`. -/
def writtenBytes : List (Option Bytes) → Bytes
  | [] => []
  | some bytes :: rest => bytes ++ writtenBytes rest
  | none :: rest => writtenBytes rest

/-- A child program: the sequence of its writes, `false` = stdout, `true` = stderr. -/
abbrev Script := List (Bool × Bytes)

/-- Every byte the child wrote to one stream, in order. -/
def streamBytes (stream : Bool) : Script → Bytes
  | [] => []
  | (s, bytes) :: rest => if s = stream then bytes ++ streamBytes stream rest else streamBytes stream rest

/-! ## "… and returns once both streams close"

The call that hands the child back (`spawn_and_write_streams`) returns when both streams are closed — not when the process ends.
A child is described by what it does and when: each action comes after a pause (ms). -/

inductive Act
  | write (stream : Bool) (bytes : Bytes)
  /-- the child closes its end of one stream (`false` = stdout, `true` = stderr) and lives on -/
  | close (stream : Bool)
  | closeBoth
  /-- nothing visible: the process is just alive -/
  | idle
deriving Repr

/-- a child's life: (pause in ms before the action, action); after the last action it exits -/
abbrev Life := List (Nat × Act)

/-- every byte the child wrote to one stream, in order -/
def lifeBytes (stream : Bool) : Life → Bytes
  | [] => []
  | (_, .write s bytes) :: rest => if s = stream then bytes ++ lifeBytes stream rest else lifeBytes stream rest
  | _ :: rest => lifeBytes stream rest

/-- For how many ms the process certainly stays alive after it has closed both streams itself: the pauses after the action that
closed the second of them (`oClosed` / `eClosed`: already closed before this point). `0` when it never closes both: then the
streams close with its exit. -/
def outlives (oClosed eClosed : Bool) : Life → Nat
  | [] => 0
  | (_, act) :: rest =>
    let o := oClosed || (match act with | .close false => true | .closeBoth => true | _ => false)
    let e := eClosed || (match act with | .close true => true | .closeBoth => true | _ => false)
    if o && e then (rest.map (·.1)).foldl (· + ·) 0 else outlives o e rest

/-- what the oracle allows the parent for its own work between the EOF of the second stream and the return (thread wake-up, join) -/
def returnAllowanceMs : Nat := 1000

/-- **returns once both streams close**, for the call that hands the running child back: if the child stays alive for at least
`returnAllowanceMs` after closing both streams, it is still running when the call returns. (`none`: nothing to judge.) -/
def mustBeRunningAtReturn (life : Life) : Option Bool :=
  if outlives false false life ≥ returnAllowanceMs then some true else none

end CnbVerif.Spec.Streaming
