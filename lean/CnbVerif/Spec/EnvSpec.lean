import CnbVerif.Spec.EnvRules
import CnbVerif.Model.LayerEnv
/-!
Specification of a layer environment built by a sequence of `insert` calls, stated per variable and
without reference to the model's data structures: the last insert for a (scope, behaviour, name) wins;
the entries of scope `all` act first, then the entries of the queried scope.
(`Scope` and `Env` are the plain data types of the model file; nothing else is used from it.)
-/
namespace CnbVerif.Spec

structure Ins where
  scope : Scope
  beh : Beh
  name : Bytes
  val : Bytes
deriving DecidableEq, Repr

/-- content of the file `NAME.<b>` in the env directory of scope `s` after the inserts: last one wins -/
def lookIns (ins : List Ins) (s : Scope) (b : Beh) (n : Bytes) : Option Bytes :=
  ins.foldl (fun acc i => if i.scope = s ∧ i.beh = b ∧ i.name = n then some i.val else acc) none

/-- value of variable `n` after applying the environment for query scope `qs` to `env` -/
def specApply (ins : List Ins) (qs : Scope) (env : Env) (n : Bytes) : Option Bytes :=
  let afterAll := ruleVar (fun b => lookIns ins .all b n) (env.get n)
  match qs with
  | .all => afterAll
  | s => ruleVar (fun b => lookIns ins s b n) afterAll

end CnbVerif.Spec
