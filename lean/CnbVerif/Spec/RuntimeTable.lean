import CnbVerif.Model.RuntimeTypes
/-!
# Specification of C05 — the decision table, written from the property text

> Run as 'detect', the buildpack executable exits 0 and writes the build plan only when detection passed with a plan,
> exits 100 without writing a plan when detection failed, and on any error calls the buildpack's error handler once
> and exits with a status that is neither 0 nor 100. Run as 'build', it exits 0 after writing launch.toml, store.toml
> and build/launch SBOM files exactly for the parts of the result that were provided, and otherwise calls the error
> handler once and exits non-zero; a buildpack.toml whose API version is not the supported one, a wrong executable name,
> wrong argument count or missing mandatory environment never reaches detect/build code and never exits 0.

Only the plain data types of `Model/RuntimeTypes.lean` are used; nothing here refers to the model's functions, to the
order in which the code reads its inputs, or to the generated constants. The numbers (0, 100, API 0.10, two / three
arguments, the mandatory variables) are the property's and the Buildpack API's.

The environment is part of the invocation *with its values* (`Vars`: each variable unset, or set to some text, or set to
bytes that are not Unicode). "Missing mandatory environment" is judged per variable (`provided`), independent of what any
other variable holds: there is no operating system, architecture or distribution for which a mandatory variable stops being
mandatory.
-/
namespace CnbVerif.Runtime.Spec
open CnbVerif.Runtime

variable {P L S D : Type}

/-- the Buildpack API version libcnb supports (README, CHANGELOG: "Buildpack API 0.10") -/
def supportedApi : Nat × Nat := (0, 10)

def apiSupported : Desc → Bool
  | .api ma mi _ => decide ((ma, mi) = supportedApi)
  | _ => false

/-- `detect <platform> <plan>`, `build <layers> <platform> <plan>` (buildpack.md) -/
def argsRight : Exe → Nat → Bool
  | .detect, n => n = 2
  | .build, n => n = 3
  | .other, _ => false

/-- A variable is *provided* when it is set to text: any text at all — the empty string, `windows`, anything. An unset
variable is missing; so is one whose bytes are not Unicode, which cannot be handed to the buildpack as the `String` the
context promises. Whether a variable is provided is a matter of that variable alone: no value of any other variable
can stand in for it or waive it. -/
def provided : Option EnvVal → Bool
  | some (.text _) => true
  | _ => false

/-- the target description: os, arch, distro name, distro version. The architecture variant is optional
(buildpack.md; libcnb documents os, arch, distro name and version as always present) -/
def targetPresent (v : Vars) : Bool := provided v.os && provided v.arch && provided v.dname && provided v.dver

/-- mandatory environment: the buildpack directory and the target description -/
def mandatoryPresent (v : Vars) : Bool := provided v.bpDir && targetPresent v

/-- all gates open: supported API, executable named after a phase, right argument count, mandatory environment -/
def gateOpen (i : Invocation P L S D) : Bool :=
  apiSupported i.desc && argsRight i.exe i.nargs && mandatoryPresent i.vars

/-- the phase is determined — supported API (which presupposes the buildpack directory, where buildpack.toml lives), the
executable named after a phase, the right arguments —, so that whatever is wrong from here on is *an error of that phase*
("on any error calls the buildpack's error handler once"). A missing target variable behind this point is both: a closed
gate (detect/build code is never reached, exit is not 0) and an error of the phase (handler once, exit not 0 / 100). -/
def phaseEntered (i : Invocation P L S D) : Bool :=
  apiSupported i.desc && argsRight i.exe i.nargs && provided i.vars.bpDir

def descValid : Desc → Bool
  | .api _ _ ok => ok
  | _ => false

/-- something both phases need cannot be provided: working directory, a valid descriptor, a readable platform dir -/
def contextError (i : Invocation P L S D) : Bool :=
  !i.cwdOk || !descValid i.desc || i.plat == .bad

/-- the output at this path cannot be written: opening it fails (a directory is there) or the write itself fails (no space
left). Either way "writing the output" did not happen, which is the property's *otherwise* branch. -/
def blocked : Pre → Bool
  | .dir => true
  | .writeFails => true
  | _ => false

/-- a write-time fault sits at this path -/
def writeFails : Pre → Bool
  | .writeFails => true
  | _ => false

def storeBlocked : StorePre → Bool
  | .dir => true
  | .writeFails => true
  | _ => false

/-- the detect phase has an error: context assembly, the buildpack itself, or the plan cannot be written -/
def detectError (i : Invocation P L S D) : Bool :=
  contextError i ||
  (match i.dbeh with
   | .err => true
   | .passPlan _ => blocked i.planPre
   | _ => false)

def storeUnreadable : StorePre → Bool
  | .malformed => true
  | .dir => true
  | _ => false

/-- some provided part of a build result cannot be written -/
def writeBlocked (i : Invocation P L S D) (r : BuildOk L S D) : Bool :=
  (r.launch.isSome && blocked i.launchPre) ||
  (r.store.isSome && storeBlocked i.storePre) ||
  r.bsboms.any (fun x => blocked (i.bPre x.1)) ||
  r.lsboms.any (fun x => blocked (i.lPre x.1))

/-- the build phase has an error: context assembly (incl. buildpack plan and previous store), the buildpack itself
(its own error or a layer error), or a provided part cannot be written -/
def buildError (i : Invocation P L S D) : Bool :=
  contextError i || i.planIn != .ok || storeUnreadable i.storePre ||
  (match i.bbeh with
   | .err => true
   | .layerErr => true
   | .ok r => writeBlocked i r)

/-- *Write fault*: the phase has an output to write (detection passed with a plan; the build result provides launch / store /
an SBOM of some format) and writing that output fails at write time. The property: "exits 0 **after writing** …; otherwise
calls the error handler once and exits with a status that is neither 0 nor 100 / non-zero" — an output whose write failed was
not written, so this is the otherwise branch, whatever the size of the output and wherever in the sequence of outputs it
comes. -/
def writeFault (i : Invocation P L S D) : Bool :=
  match i.exe with
  | .detect => (match i.dbeh with
    | .passPlan _ => writeFails i.planPre
    | _ => false)
  | .build => (match i.bbeh with
    | .ok r =>
      (r.launch.isSome && writeFails i.launchPre) || (r.store.isSome && i.storePre == .writeFails) ||
      r.bsboms.any (fun x => writeFails (i.bPre x.1)) || r.lsboms.any (fun x => writeFails (i.lPre x.1))
    | _ => false)
  | .other => false

/-- the SBOM the result provides for format `f`: the last one of that format (each one is written to the format's file) -/
def providedSbom (f : Fmt) (l : List (Fmt × D)) : Option D :=
  ((l.filter (fun x => x.1 == f)).getLast?).map (·.2)

/-- "written exactly for the parts that were provided": provided ⇒ written with that payload, not provided ⇒ untouched -/
def expected {α : Type} : Option α → FileOut α
  | some a => .written a
  | none => .untouched

def exactly {α : Type} [DecidableEq α] (provided : Option α) (out : FileOut α) : Bool :=
  decide (out = expected provided)

/-- The decision table as named checks; `true` = satisfied by the outcome `o` of invocation `i`. -/
def checks [DecidableEq P] [DecidableEq L] [DecidableEq S] [DecidableEq D]
    (i : Invocation P L S D) (o : Outcome P L S D) : List (String × Bool) :=
  ([ ("on_error called more than once", decide (o.onError ≤ 1)),
    ("on_error called although the exit status is 0 or 100", !(decide (o.exit = 0 ∨ o.exit = 100)) || o.onError == 0),
    ("build plan written although detection did not pass with a plan",
      (match o.plan, i.exe, i.dbeh with
       | .untouched, _, _ => true
       | .written p, .detect, .passPlan q => gateOpen i && decide (p = q)
       | _, _, _ => false)) ] : List (String × Bool)) ++
  (if !gateOpen i then
    [ ("detect code ran behind a closed gate", !o.detectRan),
      ("build code ran behind a closed gate", !o.buildRan),
      ("exit 0 behind a closed gate", decide (o.exit ≠ 0)),
      ("launch.toml touched behind a closed gate", o.launch == .untouched),
      ("store.toml touched behind a closed gate", o.store == .untouched),
      ("build SBOM file touched behind a closed gate", Fmt.all.all (fun f => o.bsbom f == .untouched)),
      ("launch SBOM file touched behind a closed gate", Fmt.all.all (fun f => o.lsbom f == .untouched)) ] ++
    (if phaseEntered i then   -- the only thing missing is a mandatory target variable: an error of the phase
      [ ("mandatory variable missing: on_error not called exactly once", o.onError == 1),
        ("mandatory variable missing: exit status 0 or 100", decide (o.exit ≠ 0 ∧ o.exit ≠ 100)) ]
     else [])
   else (if writeFault i then   -- judged from exit status and handler count alone
      [ ("write of a provided output failed: on_error not called exactly once", o.onError == 1),
        ("write of a provided output failed: exit status 0 or 100", decide (o.exit ≠ 0 ∧ o.exit ≠ 100)) ]
     else []) ++
    match i.exe with
    | .other => []   -- unreachable: a wrong executable name closes the gate
    | .detect =>
      [ ("build code ran in the detect phase", !o.buildRan) ] ++
      (if detectError i then
        [ ("detect error: on_error not called exactly once", o.onError == 1),
          ("detect error: exit status 0 or 100", decide (o.exit ≠ 0 ∧ o.exit ≠ 100)) ]
       else match i.dbeh with
        | .pass =>
          [ ("detect pass: detect did not run", o.detectRan), ("detect pass: exit status not 0", decide (o.exit = 0)),
            ("detect pass without plan: plan file touched", o.plan == .untouched) ]
        | .passPlan p =>
          [ ("detect pass+plan: detect did not run", o.detectRan), ("detect pass+plan: exit status not 0", decide (o.exit = 0)),
            ("detect pass+plan: plan not written", o.plan == .written p) ]
        | .fail =>
          [ ("detect fail: detect did not run", o.detectRan), ("detect fail: exit status not 100", decide (o.exit = 100)),
            ("detect fail: plan file touched", o.plan == .untouched) ]
        | .err => [])   -- unreachable: covered by detectError
    | .build =>
      [ ("detect code ran in the build phase", !o.detectRan) ] ++
      (if buildError i then
        [ ("build error: on_error not called exactly once", o.onError == 1),
          ("build error: exit status 0", decide (o.exit ≠ 0)) ]
       else match i.bbeh with
        | .ok r =>
          [ ("build ok: build did not run", o.buildRan), ("build ok: exit status not 0", decide (o.exit = 0)),
            ("build ok: launch.toml not exactly as provided", exactly r.launch o.launch),
            ("build ok: store.toml not exactly as provided", exactly r.store o.store),
            ("build ok: build SBOM files not exactly as provided",
              Fmt.all.all (fun f => exactly (providedSbom f r.bsboms) (o.bsbom f))),
            ("build ok: launch SBOM files not exactly as provided",
              Fmt.all.all (fun f => exactly (providedSbom f r.lsboms) (o.lsbom f))) ]
        | _ => []))   -- unreachable: covered by buildError

/-- the outcome meets the decision table -/
def Meets [DecidableEq P] [DecidableEq L] [DecidableEq S] [DecidableEq D]
    (i : Invocation P L S D) (o : Outcome P L S D) : Prop :=
  ∀ c ∈ checks i o, c.2 = true

/-- verdict for the driver: the first violated line of the table -/
def verdict [DecidableEq P] [DecidableEq L] [DecidableEq S] [DecidableEq D]
    (i : Invocation P L S D) (o : Outcome P L S D) : String :=
  match (checks i o).find? (fun c => !c.2) with
  | none => "ok"
  | some c => "fail:" ++ c.1

end CnbVerif.Runtime.Spec
