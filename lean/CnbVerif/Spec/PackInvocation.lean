import CnbVerif.Base.Proto
/-!
Specification side of the C17 clause "every build configuration results in **one** pack build invocation", written from
the property text: the test gets the result of `build` / `rebuild` from that one invocation.

* count: the `pack build` invocations recorded by the stand-in are exactly one per `build` / `rebuild` call the scenario
  makes (`Driver/C17.lean` counts them; the calls made are read off the scenario and the scripted exit statuses alone);
* hand-over: the pack output the test is given (`TestContext.pack_stdout` / `pack_stderr`, or the panic message when the
  result is not the expected one) is the output of that invocation **as text**. An external process prints bytes, the test
  gets a string: the well-formed UTF-8 content must be the same, in order, and whatever is not well-formed may show up
  only as U+FFFD. This file defines that comparison (Unicode 15, Table 3-7 "Well-Formed UTF-8 Byte Sequences").

Nothing of the model is used. Core Lean only.
-/
namespace CnbVerif.Spec.PackInv
open CnbVerif

def between (lo hi b : Nat) : Bool := lo ≤ b && b ≤ hi

/-- length of the well-formed UTF-8 sequence at the head of `s`, if there is one (Table 3-7, row by row) -/
def wellFormedAt (s : List Nat) : Option Nat :=
  match s with
  | a :: r =>
    if a ≤ 127 then some 1
    else match r with
      | b :: r =>
        if between 194 223 a && between 128 191 b then some 2
        else match r with
          | c :: r =>
            if (a == 224 && between 160 191 b && between 128 191 c)
              || (between 225 236 a && between 128 191 b && between 128 191 c)
              || (a == 237 && between 128 159 b && between 128 191 c)
              || (between 238 239 a && between 128 191 b && between 128 191 c) then some 3
            else match r with
              | d :: _ =>
                if (a == 240 && between 144 191 b && between 128 191 c && between 128 191 d)
                  || (between 241 243 a && between 128 191 b && between 128 191 c && between 128 191 d)
                  || (a == 244 && between 128 143 b && between 128 191 c && between 128 191 d) then some 4
                else none
              | [] => none
          | [] => none
      | [] => none
  | [] => none

/-- the well-formed content of a byte string: the well-formed sequences in order, every other byte dropped -/
def wellFormedPart : Nat → List Nat → List Nat
  | 0, _ => []
  | _, [] => []
  | f + 1, a :: r =>
    match wellFormedAt (a :: r) with
    | some n => (a :: r).take n ++ wellFormedPart f ((a :: r).drop n)
    | none => wellFormedPart f r

/-- a text without its U+FFFD characters (`EF BF BD`) -/
def withoutReplacement : List Nat → List Nat
  | 239 :: 191 :: 189 :: r => withoutReplacement r
  | a :: r => a :: withoutReplacement r
  | [] => []

/-- what must be preserved of printed bytes when they are handed over as a string -/
def content (bytes : List Nat) : List Nat := withoutReplacement (wellFormedPart bytes.length bytes)

/-- `text` is `bytes` as a string -/
def sameText (bytes text : List Nat) : Bool := content bytes == withoutReplacement text

def startsWith : List Nat → List Nat → Bool
  | _, [] => true
  | [], _ :: _ => false
  | a :: r, b :: p => a == b && startsWith r p

def hasInfix : List Nat → List Nat → Bool
  | [], p => p.isEmpty
  | a :: r, p => startsWith (a :: r) p || hasInfix r p

/-- `msg` quotes `bytes` as text -/
def quotedIn (bytes msg : List Nat) : Bool := hasInfix (withoutReplacement msg) (content bytes)

end CnbVerif.Spec.PackInv
