import CnbVerif.Spec.EnvSpec
/-!
The CNB on-disk layout of a layer's environment, written from the spec (buildpack.md, "Provided by the
Buildpacks" / "Environment Variable Modification Rules"): one file per (scope, behaviour, variable)

    <layer>/env/NAME.<suffix>  <layer>/env.build/NAME.<suffix>  <layer>/env.launch/NAME.<suffix>
    <layer>/env.launch/<process>/NAME.<suffix>

holding the raw value bytes; suffix ∈ {append, default, delim, override, prepend}; a file without suffix is
`override`; files with any other suffix are ignored.
-/
namespace CnbVerif.Spec

def suffixName : Beh → Bytes
  | .append => [97, 112, 112, 101, 110, 100]
  | .default => [100, 101, 102, 97, 117, 108, 116]
  | .delim => [100, 101, 108, 105, 109]
  | .override => [111, 118, 101, 114, 114, 105, 100, 101]
  | .prepend => [112, 114, 101, 112, 101, 110, 100]

def scopeDir : Scope → List Bytes
  | .all => [[101, 110, 118]]
  | .build => [[101, 110, 118, 46, 98, 117, 105, 108, 100]]
  | .launch => [[101, 110, 118, 46, 108, 97, 117, 110, 99, 104]]
  | .process p => [[101, 110, 118, 46, 108, 97, 117, 110, 99, 104], p]

/-- the entries that count: for each (scope, behaviour, name) the last insert -/
def effective (ins : List Ins) : List Ins :=
  ins.foldl (fun acc i => acc.filter (fun j => ¬ (j.scope = i.scope ∧ j.beh = i.beh ∧ j.name = i.name)) ++ [i]) []

/-- the files (path components, content) the spec prescribes for the environment -/
def specFiles (ins : List Ins) : List (List Bytes × Bytes) :=
  (effective ins).map (fun i => (scopeDir i.scope ++ [i.name ++ [46] ++ suffixName i.beh], i.val))

/-- spec reading of one file name inside an env directory: `(behaviour, variable)` or ignored -/
def readName (file : Bytes) : Option (Beh × Bytes) :=
  -- position of the last dot that is not the first character
  let rec go (rev : Bytes) (ext : Bytes) : Option (Bytes × Bytes) :=
    match rev with
    | [] => none
    | c :: r => if c = 46 then (if r = [] then none else some (r.reverse, ext)) else go r (c :: ext)
  match go file.reverse [] with
  | none => some (.override, file)
  | some (stem, ext) =>
    match Beh.all.find? (fun b => suffixName b = ext) with
    | some b => some (b, stem)
    | none => none

end CnbVerif.Spec
