import CnbVerif.Spec.EnvRules
/-!
CNB "Layer Paths" (buildpack.md): for each layer the lifecycle prepends

| directory            | variable          | build | launch |
|----------------------|-------------------|-------|--------|
| `<layer>/bin`        | `PATH`            |  x    |  x     |
| `<layer>/lib`        | `LD_LIBRARY_PATH` |  x    |  x     |
| `<layer>/lib`        | `LIBRARY_PATH`    |  x    |        |
| `<layer>/include`    | `CPATH`           |  x    |        |
| `<layer>/pkgconfig`  | `PKG_CONFIG_PATH` |  x    |        |

joined with the OS path-list separator (`:`), when the directory exists.
-/
namespace CnbVerif.Spec

def layerPathTable : List (Bytes × PScope × LSub) := [
  ([80, 65, 84, 72], .build, .bin), ([80, 65, 84, 72], .launch, .bin),
  ([76, 68, 95, 76, 73, 66, 82, 65, 82, 89, 95, 80, 65, 84, 72], .build, .lib),
  ([76, 68, 95, 76, 73, 66, 82, 65, 82, 89, 95, 80, 65, 84, 72], .launch, .lib),
  ([76, 73, 66, 82, 65, 82, 89, 95, 80, 65, 84, 72], .build, .lib),
  ([67, 80, 65, 84, 72], .build, .incl),
  ([80, 75, 71, 95, 67, 79, 78, 70, 73, 71, 95, 80, 65, 84, 72], .build, .pkgconfig)]

def subName : LSub → Bytes
  | .bin => [98, 105, 110] | .lib => [108, 105, 98]
  | .incl => [105, 110, 99, 108, 117, 100, 101] | .pkgconfig => [112, 107, 103, 99, 111, 110, 102, 105, 103]

/-- the sub-directory whose path variable `var` receives in scope `sc`, if any -/
def implicitSub (var : Bytes) (sc : PScope) : Option LSub :=
  (layerPathTable.find? (fun r => r.1 = var ∧ r.2.1 = sc)).map (·.2.2)

/-- prepend `path` to a previous value with `:` (no separator when the previous value is unset or empty) -/
def prependPath (path : Bytes) (prev : Option Bytes) : Option Bytes :=
  match prev with
  | none => some path
  | some p => if p.isEmpty then some path else some (path ++ [58] ++ p)

/-- value of `var` in scope `sc` after the implicit layer paths, given its value after the explicit entries;
`isDir sub` says whether `<layer>/<sub>` is a directory (following symlinks) -/
def implicitRule (layerPath : Bytes) (isDir : LSub → Bool) (var : Bytes) (sc : PScope) (explicit : Option Bytes) :
    Option Bytes :=
  match implicitSub var sc with
  | some sub => if isDir sub then prependPath (layerPath ++ [47] ++ subName sub) explicit else explicit
  | none => explicit

end CnbVerif.Spec
