import CnbVerif.Base.Chars
/-!
Specification side of C14, written from the property text and POSIX path resolution, not from the code.

* what directory a path denotes: `walk` from a start directory over the pieces between slashes — an empty piece and
  `.` stay, `..` goes to the parent (the root is its own parent), a name descends. Lexical: symbolic links are not
  followed (the normaliser runs before the directories exist).
* what kind of reference a dependency URI is (RFC 3986 scheme syntax; `libcnb:` references; absolute paths).
-/
namespace CnbVerif.Spec.PathDenote
open CnbVerif.Chars

/-- a directory, as the names leading to it from the root -/
abbrev Dir := List Str

def step (d : Dir) (piece : Str) : Dir :=
  if piece = [] ∨ piece = ['.'] then d
  else if piece = ['.', '.'] then d.dropLast
  else d ++ [piece]

def walk (start : Dir) (pieces : List Str) : Dir := pieces.foldl step start

/-- the directory an absolute path denotes -/
def denote (p : Str) : Dir := walk [] (splitOnChar '/' p)

/-- the directory a path denotes when resolved from directory `d` (an absolute path ignores `d`) -/
def denoteFrom (d : Dir) (p : Str) : Dir :=
  if p.head? = some '/' then denote p else walk d (splitOnChar '/' p)

def isAbsolute (p : Str) : Bool := p.head? = some '/'

/-- no `.` or `..` piece and no redundant separator (no empty piece besides the one before the leading slash) -/
def dotFree (p : Str) : Bool :=
  match splitOnChar '/' p with
  | [] => true
  | first :: rest =>
    first != ['.'] && first != ['.', '.'] &&
      (rest.all (fun c => c != ['.'] && c != ['.', '.'] && !c.isEmpty) || p = ['/'])

/-- RFC 3986: `scheme = ALPHA *( ALPHA / DIGIT / "+" / "-" / "." )`, followed by `:`; returns the scheme -/
def schemeOf (s : Str) : Option Str :=
  match s with
  | [] => none
  | c :: _ =>
    if !c.isAlpha then none
    else
      let name := s.takeWhile (fun c => c.isAlphanum || c = '+' || c = '-' || c = '.')
      if (s.drop name.length).head? = some ':' then some name else none

inductive Kind
  | libcnb (id : Str)   -- `libcnb:<id>`
  | relative            -- no scheme, does not start with `/`
  | other               -- any other scheme (docker, http(s), urn, …) or an absolute path
deriving DecidableEq, Repr

def kindOf (s : Str) : Kind :=
  match schemeOf s with
  | some sch => if sch = "libcnb".toList then .libcnb (s.drop 7) else .other
  | none => if isAbsolute s then .other else .relative

/-! ### spelling classes of URIs with a scheme (for stating which URIs are *not* copied verbatim, and for naming the
difference in a verdict) -/

/-- the text after `scheme:` -/
def afterScheme (s : Str) : Option Str := (schemeOf s).map (fun sch => s.drop (sch.length + 1))

def authorityChar (c : Char) : Bool := c != '/' && c != '?' && c != '#'

/-- `//authority` followed by an empty path (end of text, `?` or `#`) -/
def emptyPathAfterAuthority (rest : Str) : Bool :=
  match rest with
  | '/' :: '/' :: body => (body.drop (body.takeWhile authorityChar).length).head? != some '/'
  | _ => false

/-- `scheme://authority` followed by an empty path -/
def authorityEmptyPath (s : Str) : Bool :=
  match afterScheme s with
  | some rest => emptyPathAfterAuthority rest
  | none => false

def startsWithAuthority (rest : Str) : Bool :=
  match rest with
  | '/' :: '/' :: _ => true
  | _ => false

/-- the reference has a scheme and an authority part (`scheme://…`) -/
def hasAuthority (s : Str) : Bool :=
  match afterScheme s with
  | some rest => startsWithAuthority rest
  | none => false

/-- the scheme is spelled with an upper-case letter -/
def schemeHasUpper (s : Str) : Bool :=
  match schemeOf s with
  | some sch => sch.any Char.isUpper
  | none => false

/-- `s` with its scheme in lower case -/
def withLowerScheme (s : Str) : Str :=
  match schemeOf s with
  | some sch => sch.map Char.toLower ++ s.drop sch.length
  | none => s

/-- `s` with a `/` put after an authority that is followed by an empty path -/
def withSlashAfterAuthority (s : Str) : Str :=
  match schemeOf s with
  | some sch =>
    (match s.drop (sch.length + 1) with
    | '/' :: '/' :: body =>
      let auth := body.takeWhile authorityChar
      let tail := body.drop auth.length
      if tail.head? = some '/' then s else s.take (sch.length + 1) ++ '/' :: '/' :: (auth ++ '/' :: tail)
    | _ => s)
  | none => s

/-- buildpack ids: letters, digits, `.`, `/`, `-`; not `app`, `config`, `sbom` (CNB buildpack spec) -/
def idOk (s : Str) : Bool :=
  s != [] && s.all (fun c => c.isAlphanum || c = '.' || c = '/' || c = '-') &&
    !(["app".toList, "config".toList, "sbom".toList].contains s)

end CnbVerif.Spec.PathDenote
