import CnbVerif.Model.LayerTrait
import CnbVerif.Spec.LayerSpec
import CnbVerif.Spec.EnvLayout
import CnbVerif.Spec.LayerPaths
/-!
C02 specification, written from the property text. Only *data types* of the model files are used (`Layer`, `Store`,
`Dir`/`Node`, `LayerEnv`/`Entry` as plain records, `LDef`/`LResult`/`TCall`/`TObs`) together with their accessors
(`Dir.get`, `Env.get`, structural equality `Node.beq`); none of the model's functions.

* The pre-state of the layer is classified as in C01 (`Spec.classify`: absent / decodable / undecodable as the layer's
  metadata type / not a content-metadata document).
* `expectedT` is the decision table: which callbacks must run, in which order, shown what, and what must be on disk
  afterwards (`Outcome`).
* A call that fails because `existing_layer_strategy` or `update` fails (`Outcome.declined`) leaves the layer as it
  was — except that a metadata replacement the migration callback asked for earlier in the same call has been
  carried out (metadata on disk = the replacement, stored types, directory, SBOMs as before): the migration
  callback's request does not depend on the answers of the callbacks consulted after it.
* `handleOk` compares an observed step (callback log, returned layer data seen through `apply` probes, layer after
  the call) with the table: after create/update the layer is exactly the returned `LayerResult` (types, metadata,
  env directories = the CNB layout of the returned env, exec.d set, SBOM set, the callback's files; created layers
  hold nothing else), after keep it is the pre-state with the types refreshed, and in both cases the returned layer
  data applies exactly like the environment found on disk afterwards (incl. implicit layer paths).
Directory listings carry no order: directories are compared as sets of entries.
-/
namespace CnbVerif.Spec

/-! ### decision table -/

/-- what must be on disk after the call -/
inductive Outcome
  /-- the result of `create` (`fresh = true`: into an empty directory) or `update` (`fresh = false`: over the layer) -/
  | persist (r : LResult) (fresh : Bool)
  /-- the layer as it was, carrying metadata `m`, types refreshed -/
  | keep (m : Option MetaTbl)
  | error (k : ErrKind)
  /-- a callback consulted about an existing layer fails (`existing_layer_strategy`, or `update` after the strategy
  asked for it): the buildpack error is reported and the layer is as it was, carrying metadata `m` — its own
  metadata, or the replacement the migration callback asked for (that request is not conditional on what later
  callbacks answer: "migrated exactly as the migration callback asks") -/
  | declined (m : Option MetaTbl)

/-- a missing layer (or one to be recreated): `create` runs once, on an empty directory -/
def createT (L : LDef) (log : List TCall) : List TCall × Outcome :=
  match L.create with
  | .fail => (log ++ [.create true], .error .buildpack)
  | .ok r => (log ++ [.create true], .persist r true)

/-- an existing layer whose metadata `m` decodes: the strategy callback runs once and decides -/
def afterValidT (L : LDef) (m : Option MetaTbl) (log : List TCall) : List TCall × Outcome :=
  let log := log ++ [.strategy (seenAs L.mt m)]
  match L.strategy with
  | .keep => (log, .keep m)
  | .fail => (log, .declined m)
  | .recreate => createT L log
  | .update =>
    match L.update with
    | .fail => (log ++ [.update (seenAs L.mt m)], .declined m)
    | .ok r => (log ++ [.update (seenAs L.mt m)], .persist r false)

/-- expected callback log and outcome. `none` = outside the property's quantifier (a replacement metadata that does
not decode as the layer's metadata type). -/
def expectedT (c : LClass) (L : LDef) : Option (List TCall × Outcome) :=
  match c with
  | .absent => some (createT L [])
  | .valid m => some (afterValidT L m [])
  | .broken => some ([], .error .genericMeta)
  | .invalid m =>
    match L.migrate with
    | .fail => some ([.migrate m], .error .buildpack)
    | .recreate => some (createT L [.migrate m])
    | .replace m' => if canDecode L.mt (some m') then some (afterValidT L (some m') [.migrate m]) else none

/-! ### directories as sets of entries -/

def entryIn (eq : Node → Node → Bool) (kv : Bytes × Node) (es : Dir) : Bool :=
  es.any (fun kv' => kv'.1 == kv.1 && eq kv'.2 kv.2)

def sameEntriesBy (eq : Node → Node → Bool) (a b : Dir) : Bool :=
  a.all (fun kv => entryIn eq kv b) && b.all (fun kv => entryIn eq kv a)

/-- equal up to the order of the entries of a directory -/
def sameNode1 : Node → Node → Bool
  | .dir a, .dir b => sameEntriesBy Node.beq a b
  | x, y => Node.beq x y

/-- equal up to the order of directory entries, two levels deep (`env.launch/<process>/NAME.suffix`) -/
def sameNode2 : Node → Node → Bool
  | .dir a, .dir b => sameEntriesBy sameNode1 a b
  | x, y => Node.beq x y

def sameOpt : Option Node → Option Node → Bool
  | none, none => true
  | some x, some y => sameNode2 x y
  | _, _ => false

def sameSboms (a b : List (Nat × Bytes)) : Bool := a.all (fun x => b.contains x) && b.all (fun x => a.contains x)

/-! ### the CNB layout of a returned environment -/

def sEnv : Bytes := [101, 110, 118]
def sEnvBuild : Bytes := [101, 110, 118, 46, 98, 117, 105, 108, 100]
def sEnvLaunch : Bytes := [101, 110, 118, 46, 108, 97, 117, 110, 99, 104]
def sExecd : Bytes := [101, 120, 101, 99, 46, 100]

/-- `NAME.<suffix>` holding the raw value -/
def envFile (e : Entry) : Bytes × Node := (e.name ++ [46] ++ suffixName e.beh, .file e.val)

/-- an env directory: one file per entry; no directory at all for no entries -/
def envDirNode (d : List Entry) : Option Node := if d.isEmpty then none else some (.dir (d.map envFile))

/-- `env.launch`: the launch entries' files plus one directory per process type that has entries -/
def launchDirNode (le : LayerEnv) : Option Node :=
  let procs : Dir := (le.process.filter (fun pd => !pd.2.isEmpty)).map (fun pd => (pd.1, Node.dir (pd.2.map envFile)))
  let es := procs ++ le.launch.map envFile
  if es.isEmpty then none else some (.dir es)

def execdNode (ps : List (Bytes × Bytes)) : Option Node :=
  if ps.isEmpty then none else some (.dir (ps.map (fun p => (p.1, Node.file p.2))))

/-- the exec.d programs when every source file exists -/
def progsOf : List (Bytes × Option Bytes) → Option (List (Bytes × Bytes))
  | [] => some []
  | (k, some b) :: r => (progsOf r).map ((k, b) :: ·)
  | (_, none) :: _ => none

/-- what the callback left at `k`: its last write there -/
def lastWrite (fs : List (Bytes × Node)) (k : Bytes) : Option Node :=
  fs.foldl (fun acc f => if f.1 = k then some f.2 else acc) none

/-- the layer directory after `create`/`update` is: env directories = layout of the returned env, `exec.d` = the
returned programs, the callback's files, and — for `update` — whatever else the layer held before; nothing more -/
def persistDirOk (base post : Dir) (r : LResult) (progs : List (Bytes × Bytes)) : Bool :=
  let le := r.env.getD {}
  let keys := post.map (·.1) ++ base.map (·.1) ++ r.files.map (·.1) ++ [sEnv, sEnvBuild, sEnvLaunch, sExecd]
  keys.all (fun k =>
    if k = sEnv then sameOpt (post.get k) (envDirNode le.all)
    else if k = sEnvBuild then sameOpt (post.get k) (envDirNode le.build)
    else if k = sEnvLaunch then sameOpt (post.get k) (launchDirNode le)
    else if k = sExecd then sameOpt (post.get k) (execdNode progs)
    else match lastWrite r.files k with
      | some x => sameOpt (post.get k) (some x)
      | none => sameOpt (post.get k) (base.get k))

/-- after `keep` every entry of the layer directory is as before -/
def keepDirOk (pre post : Dir) : Bool :=
  (post.map (·.1) ++ pre.map (·.1)).all (fun k => sameOpt (post.get k) (pre.get k))

/-! ### reading a layer directory as an environment (CNB spec: env files, suffix rules, layer paths) -/

def filesOf (es : Dir) : List (Bytes × Bytes) :=
  es.filterMap (fun kv => match kv.2 with | .file b => some (kv.1, b) | _ => none)

/-- content of the file that designates behaviour `b` of variable `n` in one env directory -/
def dirLook (es : Dir) (b : Beh) (n : Bytes) : Option Bytes :=
  ((filesOf es).find? (fun kv => readName kv.1 == some (b, n))).map (·.2)

def subDir (d : Dir) (k : Bytes) : Dir :=
  match d.get k with
  | some (.dir es) => es
  | _ => []

/-- the entries of the env directory of a scope -/
def scopeEntries (d : Dir) : Scope → Dir
  | .all => subDir d sEnv
  | .build => subDir d sEnvBuild
  | .launch => subDir d sEnvLaunch
  | .process p => subDir (subDir d sEnvLaunch) p

def isDirNode : Option Node → Bool
  | some (.dir _) => true
  | some (.link .toDir) => true
  | _ => false

/-- value of variable `n` after applying the environment found in layer directory `d` (located at `lp`) for
scope `s` to `env`: the `env/` files first, then the scope's own files, then — build and launch only — the
implicit layer paths of the sub-directories that exist -/
def specVar (lp : Bytes) (d : Dir) (s : Scope) (env : Env) (n : Bytes) : Option Bytes :=
  let afterAll := ruleVar (fun b => dirLook (scopeEntries d .all) b n) (env.get n)
  let isDir : LSub → Bool := fun sub => isDirNode (d.get (subName sub))
  match s with
  | .all => afterAll
  | .build => implicitRule lp isDir n .build (ruleVar (fun b => dirLook (scopeEntries d .build) b n) afterAll)
  | .launch => implicitRule lp isDir n .launch (ruleVar (fun b => dirLook (scopeEntries d .launch) b n) afterAll)
  | .process p => ruleVar (fun b => dirLook (scopeEntries d (.process p)) b n) afterAll

def varsIn (es : Dir) : List Bytes := (filesOf es).filterMap (fun kv => (readName kv.1).map (·.2))

/-- every variable some env file of the layer mentions -/
def varsOf (d : Dir) : List Bytes :=
  varsIn (subDir d sEnv) ++ varsIn (subDir d sEnvBuild) ++ varsIn (subDir d sEnvLaunch) ++
    (subDir d sEnvLaunch).flatMap (fun kv => match kv.2 with | .dir es => varsIn es | _ => [])

/-- the returned layer data applies exactly like the environment on disk: for every probe (scope, starting
environment, result) and every variable in play the result has the value `specVar` prescribes -/
def readBackOk (lp : Bytes) (d : Dir) (applied : List (Scope × Env × Env)) : Bool :=
  applied.all (fun p =>
    (varsOf d ++ p.2.1.map (·.1) ++ p.2.2.map (·.1) ++ layerPathTable.map (·.1)).all (fun n =>
      p.2.2.get n == specVar lp d p.1 p.2.1 n))

/-! ### one `handle_layer` call -/

def isErr (obs : TObs) (k : ErrKind) : Bool :=
  match obs with
  | .err k' => k' == k
  | _ => false

/-- the types stored in the layer's metadata file (none: no file, or a document without a types table) -/
def storedTypes (l : Layer) : Option LTypes :=
  match l.toml with
  | some (.doc t _) => t
  | _ => none

/-- the metadata file is a document with exactly these types and this metadata -/
def docIs (l : Layer) (t : Option LTypes) (m : Option MetaTbl) : Bool :=
  match l.toml with
  | some (.doc t' m') => t' == t && m' == m
  | _ => false

/-- The clauses of C02 for one call on layer `pre` (located at `lp`), ending in `post`, with returned data `obs`
and callback log `log`. `strictMeta = false` weakens exactly one clause: after keep the stored metadata is
compared as the layer's metadata type sees it (used only to recognise the known deviation
"keep drops metadata keys unknown to the metadata type"). -/
def handleOk (lp : Bytes) (pre post : Layer) (L : LDef) (obs : TObs) (log : List TCall) (strictMeta : Bool := true) : Bool :=
  match expectedT (classify pre L.mt) L with
  | none => true
  | some (elog, oc) =>
    log == elog &&
    match oc with
    | .error k => isErr obs k
    | .declined m =>
      isErr obs .buildpack &&
        match post.dir, pre.dir with
        | some d, some d0 => docIs post (storedTypes pre) m && sameSboms post.sboms pre.sboms && keepDirOk d0 d
        | _, _ => false
    | .persist r fresh =>
      match progsOf r.execd with
      | none => isErr obs .missingExecd
      | some progs =>
        match obs, post.dir with
        | .data m applied, some d =>
          m == seenAs L.mt r.mdata && tomlIs post L.types r.mdata && sameSboms post.sboms r.sboms &&
            persistDirOk (if fresh then [] else pre.dir.getD []) d r progs && readBackOk lp d applied
        | _, _ => false
    | .keep m =>
      match obs, post.dir, pre.dir with
      | .data m' applied, some d, some d0 =>
        m' == seenAs L.mt m && tomlIs post L.types (if strictMeta then m else seenAs L.mt m) &&
          sameSboms post.sboms pre.sboms && keepDirOk d0 d && readBackOk lp d applied
      | _, _, _ => false

/-- the decidable condition that excludes exactly the known deviation: the call does not keep a layer whose stored
metadata has keys the layer's metadata type does not know (keep re-writes the metadata as decoded, dropping them) -/
def keepDropsNothing (pre : Layer) (L : LDef) : Bool :=
  L.strategy != .keep ||
    match classify pre L.mt with
    | .valid m => seenAs L.mt m == m
    | _ => true

/-- the layer's location, with the layers directory written `$L` (the harness canonicalises the temp path) -/
def layerPathOf (n : Bytes) : Bytes := [36, 76, 47] ++ n

/-- C02 for one step of a history. `names` is the universe of layer names the frame clause is checked over. -/
def tStepOk (names : List Bytes) (pre : Store) (op : TOp) (obs : TObs) (log : List TCall) (post : Store)
    (strictMeta : Bool := true) : Bool :=
  match op with
  | .restore => true
  | .breakToml n => othersUntouched names pre post n
  | .handle n L =>
    handleOk (layerPathOf n) (sget pre n) (sget post n) L obs log strictMeta && othersUntouched names pre post n

end CnbVerif.Spec
