import CnbVerif.Base.CnbData
import CnbVerif.Spec.CnbSchemas
/-!
C07, specification side: what a sequence of builder calls is **meant** to construct (from the property text and the
builders' documentation, not from their code), and the judgement of a written document: an independent TOML reader
applying the CNB field names and defaults (`decode` under `Spec.Cnb.*`) must recover exactly that value.
Call sequences are plain data (constructor tags as numbers / options) so that nothing of the model is used.
-/
namespace CnbVerif.Spec.Written
open CnbVerif.Cnb CnbVerif.Codec

/-! ## build plan: the call sequence split at every `or()`; first group at top level, the others in order under `or` -/

/-- a call of `BuildPlanBuilder`: `provides(name)`, `requires(require)`, `or()` -/
inductive Call where
  | provides (name : String)
  | requires (r : Req)
  | or

/-- the groups of a call sequence: `n` calls of `or()` separate `n + 1` groups, empty ones included -/
def groups : List Call → List (List Call)
  | [] => [[]]
  | .or :: rest => [] :: groups rest
  | c :: rest =>
    match groups rest with
    | g :: gs => (c :: g) :: gs
    | [] => [[c]]

def groupOf (calls : List Call) : Group :=
  ⟨calls.filterMap (fun c => match c with | .provides n => some n | _ => none),
   calls.filterMap (fun c => match c with | .requires r => some r | _ => none)⟩

def intendedPlan (calls : List Call) : Plan :=
  match (groups calls).map groupOf with
  | g :: gs => ⟨g, gs⟩
  | [] => ⟨⟨[], []⟩, []⟩

/-! ## launch.toml: processes, labels and slices each in call order; a process has the type and command it was
created with, all arguments in call order, the last `default(..)` (else false), the last `working_directory(..)`
(else the app directory) -/

/-- the last element, or `d` for the empty list -/
def lastOr {α} (d : α) : List α → α
  | [] => d
  | x :: xs => lastOr x xs

inductive PCall where
  | arg (a : String)
  | args (as : List String)
  | dflt (b : Bool)
  | wd (d : Option String)

def intendedProc (type : String) (command : List String) (calls : List PCall) : Proc :=
  { type := type, command := command,
    args := (calls.map (fun c => match c with | .arg a => [a] | .args as => as | _ => [])).flatten,
    dflt := lastOr false (calls.filterMap (fun c => match c with | .dflt b => some b | _ => none)),
    wd := lastOr none (calls.filterMap (fun c => match c with | .wd d => some d | _ => none)) }

inductive LCall where
  | process (type : String) (command : List String) (calls : List PCall)
  | label (key value : String)
  | slice (paths : List String)

def intendedLaunch (calls : List LCall) : Launch :=
  { labels := calls.filterMap (fun c => match c with | .label k v => some (k, v) | _ => none),
    processes := calls.filterMap (fun c => match c with | .process t cmd pc => some (intendedProc t cmd pc) | _ => none),
    slices := calls.filterMap (fun c => match c with | .slice ps => some ps | _ => none) }

/-! ## exec.d output: the last value given for every key -/

def lastValue (pairs : List (String × String)) (k : String) : Option String :=
  ((pairs.filter (fun kv => kv.1 == k)).getLast?).map (·.2)

/-- the recovered pairs are right when they hold, for exactly the keys given, the last value given -/
def execdOK (pairs : List (String × String)) (got : List (String × Val)) : Bool :=
  pairs.all (fun kv => match got.lookup kv.1, lastValue pairs kv.1 with
    | some (.str v), some w => v == w
    | _, _ => false) &&
  got.all (fun g => pairs.any (fun kv => kv.1 == g.1)) &&
  nodupB (got.map (·.1))

end CnbVerif.Spec.Written
