import CnbVerif.Base.CnbData
import CnbVerif.Base.Proto
import CnbVerif.Spec.CnbSchemas
/-!
C07, specification side: what a sequence of builder calls is **meant** to construct (from the property text and the
builders' documentation, not from their code), and the judgement of a written document: an independent TOML reader
applying the CNB field names and defaults (`decode` under `Spec.Cnb.*`) must recover exactly that value.
Call sequences are plain data (constructor tags as numbers / options) so that nothing of the model is used.
-/
namespace CnbVerif.Spec.Written
open CnbVerif.Cnb CnbVerif.Codec

/-! ## build plan: the call sequence split at every `or()`; first group at top level, the others in order under `or` -/

/-- a call of `BuildPlanBuilder`: `provides(name)`, `requires(require)`, `or()` -/
inductive Call where
  | provides (name : String)
  | requires (r : Req)
  | or

/-- the groups of a call sequence: `n` calls of `or()` separate `n + 1` groups, empty ones included -/
def groups : List Call → List (List Call)
  | [] => [[]]
  | .or :: rest => [] :: groups rest
  | c :: rest =>
    match groups rest with
    | g :: gs => (c :: g) :: gs
    | [] => [[c]]

def groupOf (calls : List Call) : Group :=
  ⟨calls.filterMap (fun c => match c with | .provides n => some n | _ => none),
   calls.filterMap (fun c => match c with | .requires r => some r | _ => none)⟩

def intendedPlan (calls : List Call) : Plan :=
  match (groups calls).map groupOf with
  | g :: gs => ⟨g, gs⟩
  | [] => ⟨⟨[], []⟩, []⟩

/-! ## launch.toml: processes, labels and slices each in call order; a process has the type and command it was
created with, all arguments in call order, the last `default(..)` (else false), the last `working_directory(..)`
(else the app directory) -/

/-- the last element, or `d` for the empty list -/
def lastOr {α} (d : α) : List α → α
  | [] => d
  | x :: xs => lastOr x xs

inductive PCall where
  | arg (a : String)
  | args (as : List String)
  | dflt (b : Bool)
  | wd (d : Option String)

def intendedProc (type : String) (command : List String) (calls : List PCall) : Proc :=
  { type := type, command := command,
    args := (calls.map (fun c => match c with | .arg a => [a] | .args as => as | _ => [])).flatten,
    dflt := lastOr false (calls.filterMap (fun c => match c with | .dflt b => some b | _ => none)),
    wd := lastOr none (calls.filterMap (fun c => match c with | .wd d => some d | _ => none)) }

inductive LCall where
  | process (type : String) (command : List String) (calls : List PCall)
  | label (key value : String)
  | slice (paths : List String)

def intendedLaunch (calls : List LCall) : Launch :=
  { labels := calls.filterMap (fun c => match c with | .label k v => some (k, v) | _ => none),
    processes := calls.filterMap (fun c => match c with | .process t cmd pc => some (intendedProc t cmd pc) | _ => none),
    slices := calls.filterMap (fun c => match c with | .slice ps => some ps | _ => none) }

/-- a require constructed with `Require::new(name)` and any number of `metadata(table)` calls carries the table given
last (none: the empty table) -/
def intendedRequire (name : String) (tables : List Table) : Req := ⟨name, lastOr [] tables⟩

/-! ## `build()` anywhere in a call sequence (non-consuming builders: `ProcessBuilder`, `LaunchBuilder`)

The builders are documented as non-consuming: `build()` hands out the value configured **so far** and the builder can be
configured further and built again. So a call sequence may hold any number of `build()` calls, and each of them is meant
to return the value of *all* calls made before it — whether or not a `build()` lies between them. -/

/-- one entry of a call sequence: a configuring call, or `build()` -/
inductive Step (α : Type) where
  | call (c : α)
  | build

/-- for every `build()` of the sequence, in order: the configuring calls made before it (`before`: those made before
the sequence starts) -/
def callsBefore {α : Type} (before : List α) : List (Step α) → List (List α)
  | [] => []
  | .call c :: rest => callsBefore (before ++ [c]) rest
  | .build :: rest => before :: callsBefore before rest

/-- what the `build()` calls of a sequence are meant to return, in order -/
def intendedBuilds {α β : Type} (intended : List α → β) (steps : List (Step α)) : List β :=
  (callsBefore [] steps).map intended

/-- the calls of `LaunchBuilder`: the singular ones, the plural ones ("adds multiple …": the singular call for each
element in order), and a `ProcessBuilder` (`session`) whose calls may hold `build()`s, every built process — those and
the one built at the end — being added with `process(..)` -/
inductive LCallX where
  | session (type : String) (command : List String) (steps : List (Step PCall))
  | processes (ps : List (String × List String × List PCall))
  | label (key value : String)
  | labels (kvs : List (String × String))
  | slice (paths : List String)
  | slices (pss : List (List String))

/-- the same construction said with singular calls only -/
def LCallX.singular : LCallX → List LCall
  | .session t c steps => (callsBefore [] (steps ++ [.build])).map (fun calls => LCall.process t c calls)
  | .processes ps => ps.map (fun p => LCall.process p.1 p.2.1 p.2.2)
  | .label k v => [.label k v]
  | .labels kvs => kvs.map (fun kv => LCall.label kv.1 kv.2)
  | .slice ps => [.slice ps]
  | .slices pss => pss.map (fun ps => LCall.slice ps)

def intendedLaunchX (calls : List LCallX) : Launch := intendedLaunch (calls.flatMap LCallX.singular)

/-- the documents of one `LaunchBuilder`: one per `build()` of the sequence, and the one built at the end -/
def intendedLaunchDocs (steps : List (Step LCallX)) : List Launch := intendedBuilds intendedLaunchX (steps ++ [.build])

/-! ## layers constructed through the layer APIs

A buildpack constructs a layer under a name: with `cached_layer` / `uncached_layer` it states `launch` and `build` (`cache` is what the
call says) and may then write a metadata table; with the trait API it states all three types and returns the metadata. The CNB spec
gives the layer `name` the file `<layers>/<name>.toml`; an independent reader of THAT file must recover the layer types and the
metadata table constructed for that name, whatever other layers were constructed in the same directory. -/

inductive LayerOp where
  /-- `cached_layer(name, {launch, build})`, an existing layer kept; then `write_metadata(table)` if given -/
  | cachedKept (name : Bytes) (launch build : Bool) (written : Option Table)
  /-- `uncached_layer(name, {launch, build})` (never restored: always a new layer); then `write_metadata(table)` if given -/
  | uncached (name : Bytes) (launch build : Bool) (written : Option Table)
  /-- `handle_layer(name, layer)`: `layer.types()`, and the metadata its `create` / `update` returns -/
  | handled (name : Bytes) (types : LayerTypes) (returned : Option Table)

def LayerOp.name : LayerOp → Bytes
  | .cachedKept n _ _ _ => n
  | .uncached n _ _ _ => n
  | .handled n _ _ => n

/-- what one construction makes of its layer, given what the layer was before (`none`: it did not exist): the types are the stated
ones; the metadata is the table written / returned — a kept cached layer nobody writes metadata for keeps the metadata it had -/
def LayerOp.apply (before : Option LayerMeta) : LayerOp → LayerMeta
  | .cachedKept _ l b w => ⟨some ⟨l, b, true⟩, match w with | some t => some t | none => before.bind (·.mdata)⟩
  | .uncached _ l b w => ⟨some ⟨l, b, false⟩, w⟩
  | .handled _ ty r => ⟨some ty, r⟩

/-- the layer `name` as a sequence of constructions leaves it: only those naming it count, in order -/
def intendedLayer (name : Bytes) (before : Option LayerMeta) : List LayerOp → Option LayerMeta
  | [] => before
  | op :: rest => if op.name = name then intendedLayer name (some (op.apply before)) rest else intendedLayer name before rest

/-- the layer names of a sequence, each once, in order of first use -/
def layerNames : List LayerOp → List Bytes
  | [] => []
  | op :: rest => op.name :: (layerNames rest).filter (fun m => m ≠ op.name)

/-- the file name the CNB spec gives a layer's content metadata inside the layers directory: `<name>.toml` (the bytes of `.toml`
are 2e 74 6f 6d 6c) -/
def specLayerFile (name : Bytes) : Bytes := name ++ [0x2e, 0x74, 0x6f, 0x6d, 0x6c]

/-! ## exec.d output: the last value given for every key -/

def lastValue (pairs : List (String × String)) (k : String) : Option String :=
  ((pairs.filter (fun kv => kv.1 == k)).getLast?).map (·.2)

/-- the recovered pairs are right when they hold, for exactly the keys given, the last value given -/
def execdOK (pairs : List (String × String)) (got : List (String × Val)) : Bool :=
  pairs.all (fun kv => match got.lookup kv.1, lastValue pairs kv.1 with
    | some (.str v), some w => v == w
    | _, _ => false) &&
  got.all (fun g => pairs.any (fun kv => kv.1 == g.1)) &&
  nodupB (got.map (·.1))

end CnbVerif.Spec.Written
