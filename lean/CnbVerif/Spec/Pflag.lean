import CnbVerif.Base.Proto
import CnbVerif.Base.Words
/-!
Reference model of the option tokenizer shared by the docker and pack CLIs (both are cobra/pflag programs),
written from pflag's `FlagSet.parseArgs` / `parseLongArg` / `parseSingleShortArg`:

* a word that is empty, is `-`, or does not start with `-` is positional; with interspersed parsing off
  (`docker run`, `docker exec`) it ends option parsing and everything after it is positional too;
* `--` ends option parsing; the rest is positional;
* `--name=value`, `--name value` (the next word is consumed **whatever it looks like**), `--name` for boolean flags;
  `--`+(`-`|`=`)… is a syntax error; an unknown name is an error; a missing value is an error;
* `-abc` is a cluster of shorthands; `-x=value`, `-xvalue`, `-x value`; boolean shorthands continue the cluster.

The result keeps options in order of occurrence as (canonical long name, raw value). Core only.
-/
namespace CnbVerif.Spec.Pflag

inductive Kind | bool | val
deriving DecidableEq, Repr

structure Flag where
  long : Word
  short : Option Nat
  kind : Kind
deriving Repr

structure Raw where
  opts : List (Word × Word)
  pos : List Word
deriving DecidableEq, Repr

def findLong (tbl : List Flag) (n : Word) : Option Flag := tbl.find? (fun f => f.long == n)

def findShort (tbl : List Flag) (c : Nat) : Option Flag := tbl.find? (fun f => f.short == some c)

/-- split at the first occurrence of `c` -/
def cutAt (c : Nat) : Word → Option (Word × Word)
  | [] => none
  | x :: xs =>
    if x = c then some ([], xs)
    else match cutAt c xs with
      | some (a, b) => some (x :: a, b)
      | none => none

/-- what one argv word means to the tokenizer, before looking at the words after it -/
inductive WordClass
  | positional
  | terminator
  | error
  /-- the word is self-contained and sets these options -/
  | complete (opts : List (Word × Word))
  /-- sets `opts`, and its last flag `name` takes the **next** word as its value -/
  | needsArg (opts : List (Word × Word)) (name : Word)
deriving DecidableEq, Repr

def wTrue : Word := w!"true"

/-- a cluster of shorthand letters (the part after the single `-`) -/
def shorts (tbl : List Flag) : List Nat → WordClass
  | [] => .complete []
  | c :: rest =>
    match findShort tbl c with
    | none => .error
    | some f =>
      match rest with
      | 61 :: v@(_ :: _) => .complete [(f.long, v)]
      | _ =>
        match f.kind with
        | .bool =>
          match shorts tbl rest with
          | .complete o => .complete ((f.long, wTrue) :: o)
          | .needsArg o n => .needsArg ((f.long, wTrue) :: o) n
          | _ => .error
        | .val =>
          match rest with
          | [] => .needsArg [] f.long
          | _ :: _ => .complete [(f.long, rest)]

def classify (tbl : List Flag) : Word → WordClass
  | 45 :: 45 :: [] => .terminator
  | 45 :: 45 :: name =>
    if name.head? = some 45 ∨ name.head? = some 61 then .error
    else match cutAt 61 name with
      | some (n, v) =>
        (match findLong tbl n with
        | some f => .complete [(f.long, v)]
        | none => .error)
      | none =>
        (match findLong tbl name with
        | some f => (match f.kind with
          | .bool => .complete [(f.long, wTrue)]
          | .val => .needsArg [] f.long)
        | none => .error)
  | 45 :: c :: cs => shorts tbl (c :: cs)
  | _ => .positional

def Raw.addOpts (o : List (Word × Word)) (r : Raw) : Raw := { r with opts := o ++ r.opts }
def Raw.addPos (p : Word) (r : Raw) : Raw := { r with pos := p :: r.pos }

/-- pflag's `parseArgs` -/
def parseArgs (tbl : List Flag) (interspersed : Bool) : List Word → Option Raw
  | [] => some ⟨[], []⟩
  | s :: rest =>
    match classify tbl s with
    | .positional =>
      if interspersed then (parseArgs tbl interspersed rest).map (Raw.addPos s) else some ⟨[], s :: rest⟩
    | .terminator => some ⟨[], rest⟩
    | .error => none
    | .complete o => (parseArgs tbl interspersed rest).map (Raw.addOpts o)
    | .needsArg o n =>
      match rest with
      | [] => none
      | v :: rest' => (parseArgs tbl interspersed rest').map (Raw.addOpts (o ++ [(n, v)]))

/-- all values given for a flag, in order -/
def valuesOf (opts : List (Word × Word)) (name : Word) : List Word :=
  (opts.filter (fun o => o.1 == name)).map (·.2)

/-- the value in force for a single-valued flag: the last one given -/
def lastOf (opts : List (Word × Word)) (name : Word) : Option Word := (valuesOf opts name).getLast?

/-- `strconv.ParseBool` -/
def parseBool (v : Word) : Option Bool :=
  if v = w!"true" ∨ v = w!"1" ∨ v = w!"t" ∨ v = w!"T" ∨ v = w!"TRUE" ∨ v = w!"True" then some true
  else if v = w!"false" ∨ v = w!"0" ∨ v = w!"f" ∨ v = w!"F" ∨ v = w!"FALSE" ∨ v = w!"False" then some false
  else none

/-- a boolean flag: absent = false; every occurrence must carry a parsable value; the last wins -/
def boolOf (opts : List (Word × Word)) (name : Word) : Option Bool :=
  match allSome ((valuesOf opts name).map parseBool) with
  | none => none
  | some l => some (l.getLast?.getD false)

/-- options whose name is not in `known` -/
def othersOf (opts : List (Word × Word)) (known : List Word) : List (Word × Word) :=
  opts.filter (fun o => !(known.contains o.1))

/-- split at every occurrence of `c` -/
def splitOn (c : Nat) : Word → List Word
  | [] => [[]]
  | x :: xs =>
    if x = c then [] :: splitOn c xs
    else match splitOn c xs with
      | [] => [[x]]
      | h :: t => (x :: h) :: t

/-- One record of Go's `encoding/csv` with separator `sep`, as used by pflag's `StringSlice`, docker's `--mount`
and pack's `--cache`: fields are separated by `sep`; `"` opens a quoted field only at the start of a field and is an
error elsewhere; the record ends at the first line break. The reference refuses (`none`) every value containing
`"`, CR or LF instead of modelling quoting: no such value is transported verbatim by the real reader either
(error, unquoting, or truncation). -/
def csvRecord (sep : Nat) (v : Word) : Option (List Word) :=
  if v.any (fun b => b == 34 || b == 10 || b == 13) then none else some (splitOn sep v)

/-- ASCII lower-casing (`strings.ToLower` on option keys) -/
def lower (w : Word) : Word := w.map (fun b => if 65 ≤ b ∧ b ≤ 90 then b + 32 else b)

def isDigit (b : Nat) : Bool := 48 ≤ b && b ≤ 57

def decAux : Word → Nat → Option Nat
  | [], acc => some acc
  | b :: r, acc => if isDigit b then decAux r (acc * 10 + (b - 48)) else none

/-- `strconv.ParseUint(s, 10, _)` without a sign -/
def decToNat (w : Word) : Option Nat := if w = [] then none else decAux w 0

end CnbVerif.Spec.Pflag
