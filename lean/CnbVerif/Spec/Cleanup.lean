import CnbVerif.Spec.DockerGrammar
import CnbVerif.Spec.PackGrammar
/-!
C16 as conditions on a **command log** (the sequence of `docker`/`pack` invocations a test scenario issued), written
from the property text and judged through docker's reference option grammar — not from libcnb-test's code and not
using the model's evaluation:

* **M1** every container started detached (`docker run … --detach … --name N …`) is later force-removed
  (`docker rm … N … --force`); **M1x** (the same clause read as strictly as the one for the image): the first later
  `docker rm` naming N is forced, and after it no command names N again — removed exactly once, after its last use;
* **M2** the build's image and both of its cache volumes are force-removed exactly once, by `docker rmi <img> --force`
  and `docker volume remove <img>.build-cache <img>.launch-cache --force`, and no later command mentions the image;
* **M3** nothing foreign is removed: every container removed was named by an earlier `docker run` of this log, every
  image / volume removed carries a name the run generated (`own`);
* **M4** (not on the log) no temporary directory is left.
Core only.
-/
namespace CnbVerif.Spec.Cleanup
open CnbVerif.Spec.Pflag

/-- the words after `docker <sub>` -/
def dockerSub (c : Cmd) (sub : Word) : Option (List Word) :=
  match c.prog, c.args with
  | .docker, s :: r => if s = sub then some r else none
  | _, _ => none

/-- `(name, detached)` if the command is a `docker run` docker can make sense of -/
def runName (c : Cmd) : Option (Word × Bool) :=
  match dockerSub c w!"run" with
  | some rest =>
    (match parseArgs Spec.Docker.runFlags false rest with
    | some raw =>
      (match lastOf raw.opts w!"name", boolOf raw.opts w!"detach" with
      | some n, some d => some (n, d)
      | _, _ => none)
    | none => none)
  | none => none

/-- the name of the container the command starts detached, if it does -/
def startsDetached (c : Cmd) : Option Word :=
  match runName c with
  | some (n, true) => some n
  | _ => none

/-- names a `docker rm` is asked to remove, and whether it is forced -/
def containerRemoval (c : Cmd) : Option Spec.Docker.Remove :=
  match c.prog with
  | .docker => Spec.Docker.parseDockerRm c.args
  | .pack => none

def imageRemoval (c : Cmd) : Option Spec.Docker.Remove :=
  match c.prog with
  | .docker => Spec.Docker.parseDockerRmi c.args
  | .pack => none

def volumeRemoval (c : Cmd) : Option Spec.Docker.Remove :=
  match c.prog with
  | .docker => Spec.Docker.parseDockerVolumeRm c.args
  | .pack => none

def forceRemovesContainer (n : Word) (c : Cmd) : Bool :=
  match containerRemoval c with
  | some r => r.force && r.names.contains n
  | none => false

/-- **M1** -/
def m1 : List Cmd → Bool
  | [] => true
  | c :: rest =>
    (match startsDetached c with
     | some n => rest.any (forceRemovesContainer n)
     | none => true) && m1 rest

/-- the command is a docker command with `n` as one of its words (docker takes container names as separate arguments) -/
def namesContainer (n : Word) (c : Cmd) : Bool :=
  match c.prog with
  | .docker => c.args.contains n
  | .pack => false

/-- the first `docker rm` that names `n` is forced, and nothing after it names `n` -/
def removedOnceAfterLastUse (n : Word) : List Cmd → Bool
  | [] => false
  | c :: rest =>
    match containerRemoval c with
    | some r => if r.names.contains n then r.force && rest.all (fun d => !namesContainer n d) else removedOnceAfterLastUse n rest
    | none => removedOnceAfterLastUse n rest

/-- **M1x** -/
def m1x : List Cmd → Bool
  | [] => true
  | c :: rest =>
    (match startsDetached c with
     | some n => removedOnceAfterLastUse n rest
     | none => true) && m1x rest

def isInfix (pat : Word) : Word → Bool
  | [] => pat.isEmpty
  | x :: xs => pat.isPrefixOf (x :: xs) || isInfix pat xs

/-- some argument contains the image name -/
def mentions (img : Word) (c : Cmd) : Bool := c.args.any (isInfix img)

def volumesOf (img : Word) : List Word := [img ++ w!".build-cache", img ++ w!".launch-cache"]

/-- the command removes an image or a volume at all -/
def removesImageOrVolume (c : Cmd) : Bool := (imageRemoval c).isSome || (volumeRemoval c).isSome

def isForcedRmi (img : Word) (c : Cmd) : Bool :=
  match imageRemoval c with
  | some r => r.force && r.names == [img]
  | none => false

def isForcedVolRm (img : Word) (c : Cmd) : Bool :=
  match volumeRemoval c with
  | some r => r.force && r.names == volumesOf img
  | none => false

/-- **M2**: up to the first image/volume removal nothing is removed; then exactly `rmi img`, `volume remove` of both
volumes; after that no command removes images or volumes or mentions the image -/
def m2 (img : Word) : List Cmd → Bool
  | [] => false
  | c :: rest =>
    if removesImageOrVolume c then
      match rest with
      | c2 :: post =>
        isForcedRmi img c && isForcedVolRm img c2 && post.all (fun d => !removesImageOrVolume d && !mentions img d)
      | [] => false
    else m2 img rest

/-- **M3**, given the containers named by `docker run` so far; `own` recognises the names the run generated
(docker identifiers and the two volume names derived from them) -/
def m3 (own : Word → Bool) : List Word → List Cmd → Bool
  | _, [] => true
  | started, c :: rest =>
    (match containerRemoval c with
     | some r => r.names.all (fun n => started.contains n && own n)
     | none => true)
    && (match imageRemoval c with
     | some r => r.names.all own
     | none => true)
    && (match volumeRemoval c with
     | some r => r.names.all own
     | none => true)
    && m3 own (match runName c with | some (n, _) => n :: started | none => started) rest

end CnbVerif.Spec.Cleanup
