/-!
C12, specification side, written from the property text (nothing of the model is used):

  "If any single file-system operation issued while handling a layer request, writing layer
   metadata/environment/SBOMs/exec.d programs, or writing the phase outputs fails with an I/O error, the call returns
   an error (and the phase exits non-zero); it never reports success while the directory differs from what a
   successful call produces."   Quantifier: every position of the call sequence × errno ∈ {EIO, EACCES, ENOSPC};
   not-found on deliberate best-effort deletes is excluded.

`FailureIsReported` is the statement for any system whose runs can be given a fault; `verdict` is the same statement
as a judgement of one observed run of the real code.
-/
namespace CnbVerif.Spec.Fault

/-- A system is run with or without a fault `f : F` and answers (did the call report success?, final directory).
The property: whenever a run with a non-excluded fault reports success, its final directory is the one of the
fault-free run. -/
def FailureIsReported {F D : Type} (run : Option F → Bool × D) (excluded : F → Prop) : Prop :=
  ∀ f : F, ¬ excluded f → (run (some f)).1 = true → (run (some f)).2 = (run none).2

/-- The first half on its own: a fault that actually hits one of the operation's calls makes the call fail. -/
def FailureReturnsError {F D : Type} (run : Option F → Bool × D) (reached excluded : F → Prop) : Prop :=
  ∀ f : F, reached f → ¬ excluded f → (run (some f)).1 = false

/-- what is observed of one run of the real code with the k-th call failed -/
inductive Seen
  | err        -- the call returned `Err` / the phase exited non-zero
  | okSame     -- success, and the directory snapshot equals the fault-free one
  | okDiff     -- success with a different directory
deriving DecidableEq, Repr

def Seen.ofString (s : String) : Option Seen :=
  if s = "err" then some .err else if s = "ok:same" then some .okSame else if s = "ok:diff" then some .okDiff else none

/-- errnos of the property's quantifier -/
def quantifiedErrnos : List String := ["EIO", "EACCES", "ENOSPC"]

/-- libc calls that delete (as classified by the shim): the only place where not-found may be deliberately ignored -/
def deleteClasses : List String := ["unlink", "rmdir", "unlinkat", "rmdirat", "chmod", "opendir", "openat-dir"]

/-- "not-found on deliberate best-effort deletes is excluded" -/
def excluded (errno cls : String) : Bool := errno == "ENOENT" && deleteClasses.contains cls

/-- the property for one observed run -/
def reported : Seen → Bool
  | .err => true
  | .okSame => true
  | .okDiff => false

def verdict (errno cls : String) (seen : Seen) : String :=
  if reported seen then "ok"
  else if excluded errno cls then "ok"
  else "fail:success reported although a " ++ cls ++ " call failed with " ++ errno ++ " and the directory differs from the fault-free one"

end CnbVerif.Spec.Fault
