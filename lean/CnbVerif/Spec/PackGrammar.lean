import CnbVerif.Spec.Pflag
/-!
Reference model of the pack CLI's argument grammar for `pack build <image> [flags]` and `pack sbom download`
(cobra/pflag, interspersed options): `--buildpack` is a *string slice* (each occurrence is read as one CSV record and
its fields are appended), `--env` a *string array* (each occurrence verbatim, split at the first `=`), `--cache` a
`;`-separated record `type=build|launch;format=…;name=…`. pack is not installed here: this is a reference model.
Core only.
-/
namespace CnbVerif.Spec.Pack
open CnbVerif.Spec.Pflag

def b (long : Word) (short : Option Nat := none) : Flag := ⟨long, short, .bool⟩
def v (long : Word) (short : Option Nat := none) : Flag := ⟨long, short, .val⟩

/-- `pack build --help` plus pack's persistent flags -/
def buildFlags : List Flag := [
  v w!"builder" (some 66), v w!"buildpack" (some 98), v w!"buildpack-registry" (some 114), v w!"cache",
  v w!"cache-image", b w!"clear-cache", v w!"creation-time", v w!"default-process" (some 68),
  v w!"descriptor" (some 100), v w!"docker-host", v w!"env" (some 101), v w!"env-file", v w!"extension",
  v w!"gid", b w!"help" (some 104), b w!"interactive", v w!"lifecycle-image", v w!"network", v w!"path" (some 112),
  v w!"platform", v w!"post-buildpack", v w!"pre-buildpack", v w!"previous-image", b w!"publish",
  v w!"pull-policy", v w!"report-output-dir", v w!"run-image", v w!"sbom-output-dir", b w!"sparse",
  v w!"tag" (some 116), b w!"trust-builder", b w!"trust-extra-buildpacks", v w!"uid", v w!"volume", v w!"workspace",
  b w!"no-color", b w!"quiet" (some 113), b w!"timestamps", b w!"verbose" (some 118)]

/-- `pack sbom download --help` -/
def sbomFlags : List Flag := [
  v w!"output-dir" (some 111), b w!"remote", b w!"help" (some 104), b w!"no-color", b w!"quiet" (some 113),
  b w!"timestamps", b w!"verbose" (some 118)]

/-- pflag `StringSlice.Set`: the empty string adds nothing, otherwise one CSV record -/
def stringSlice (val : Word) : Option (List Word) := if val = [] then some [] else csvRecord 44 val

def concatAll : List (List Word) → List Word
  | [] => []
  | a :: r => a ++ concatAll r

/-- `--env` value, `strings.SplitN(v, "=", 2)`; a bare `KEY` imports the variable from pack's own environment -/
def splitEnv (w : Word) : Word × Option Word :=
  match cutAt 61 w with
  | some (k, val) => (k, some val)
  | none => (w, none)

structure Cache where
  typ : Word
  format : Word
  name : Word
deriving DecidableEq, Repr

/-- `--cache` value: `;`-separated CSV record of `key=value` with keys `type`, `format`, `name`/`source` -/
def parseCache (w : Word) : Option Cache :=
  match csvRecord 59 w with
  | none => none
  | some fields =>
    match allSome (fields.map (cutAt 61)) with
    | none => none
    | some kvs =>
      let kvs := kvs.map (fun kv => (lower kv.1, kv.2))
      if !(kvs.all (fun kv => kv.1 = w!"type" ∨ kv.1 = w!"format" ∨ kv.1 = w!"name" ∨ kv.1 = w!"source")) then none
      else
        match lastOf kvs w!"type" with
        | none => none
        | some t =>
          let t := lower t
          let fmt := lower ((lastOf kvs w!"format").getD w!"volume")
          let name := ((kvs.filter (fun kv => kv.1 = w!"name" ∨ kv.1 = w!"source")).map (·.2)).getLast?.getD []
          if !(t = w!"build" ∨ t = w!"launch") then none
          else if !(fmt = w!"volume" ∨ fmt = w!"image" ∨ fmt = w!"bind") then none
          else some ⟨t, fmt, name⟩

/-- what `pack build …` asks for; every option outside this property's view lands in `other` -/
structure Build where
  image : Word
  builder : Option Word
  path : Option Word
  buildpacks : List Word
  env : List (Word × Option Word)
  caches : List Cache
  pullPolicy : Option Word
  trustBuilder : Bool
  trustExtraBuildpacks : Bool
  other : List (Word × Word)
deriving DecidableEq, Repr

def buildKnown : List Word :=
  [w!"builder", w!"path", w!"buildpack", w!"env", w!"cache", w!"pull-policy", w!"trust-builder", w!"trust-extra-buildpacks"]

def interpretBuild (raw : Raw) : Option Build :=
  match raw.pos with
  | [image] =>
    match allSome ((valuesOf raw.opts w!"buildpack").map stringSlice),
          allSome ((valuesOf raw.opts w!"cache").map parseCache),
          boolOf raw.opts w!"trust-builder", boolOf raw.opts w!"trust-extra-buildpacks" with
    | some bps, some caches, some tb, some te =>
      some { image := image, builder := lastOf raw.opts w!"builder", path := lastOf raw.opts w!"path",
             buildpacks := concatAll bps, env := (valuesOf raw.opts w!"env").map splitEnv, caches := caches,
             pullPolicy := lastOf raw.opts w!"pull-policy", trustBuilder := tb, trustExtraBuildpacks := te,
             other := othersOf raw.opts buildKnown }
    | _, _, _, _ => none
  | _ => none

/-- the words after `pack` for `pack build` -/
def parsePackBuild : List Word → Option Build
  | sub :: args =>
    if sub = w!"build" then
      match parseArgs buildFlags true args with
      | some raw => interpretBuild raw
      | none => none
    else none
  | [] => none

structure SbomDownload where
  image : Word
  outputDir : Option Word
  other : List (Word × Word)
deriving DecidableEq, Repr

def parsePackSbomDownload : List Word → Option SbomDownload
  | s1 :: s2 :: args =>
    if s1 = w!"sbom" ∧ s2 = w!"download" then
      match parseArgs sbomFlags true args with
      | some ⟨opts, [image]⟩ => some ⟨image, lastOf opts w!"output-dir", othersOf opts [w!"output-dir"]⟩
      | _ => none
    else none
  | _ => none

end CnbVerif.Spec.Pack
