import CnbVerif.Model.LayerStore
/-!
C01 specification, written from the property text. Only the *data types* of `Model/LayerStore.lean` are used
(`Layer`, `Store`, `Op`, `Out`, callback decisions); none of its functions.

A request for a layer first classifies what is there:
* no layer directory ⇒ the layer does not exist (a metadata file alone is not a layer);
* a directory whose metadata file is missing counts as a layer with empty metadata;
* the metadata either decodes as the definition's metadata type (`valid`), or does not (`invalid`), or the
  file is not a content-metadata document at all (`broken`).
-/
namespace CnbVerif.Spec

inductive LClass
  | absent
  | valid (m : Option MetaTbl)
  | invalid (m : Option MetaTbl)
  | broken
deriving DecidableEq, Repr

/-- a definition with metadata type `versioned` (`struct { v: i64 }`) needs a table with `v` -/
def canDecode : MetaT → Option MetaTbl → Bool
  | .generic, _ => true
  | .versioned, some t => t.v.isSome
  | .versioned, none => false

def classify (l : Layer) (mt : MetaT) : LClass :=
  match l.dir with
  | none => .absent
  | some _ =>
    match l.toml with
    | none => if canDecode mt none then .valid none else .invalid none
    | some (.doc _ m) => if canDecode mt m then .valid m else .invalid m
    | some .broken => .broken

/-- the restored-layer callback sees the stored metadata decoded as the definition's type (`versioned`: only `v`) -/
def seenAs : MetaT → Option MetaTbl → Option MetaTbl
  | .generic, m => m
  | .versioned, some t => some ⟨t.v, none⟩
  | .versioned, none => none

/-- what a validation callback's decision on a decodable layer must lead to -/
def afterValid (mt : MetaT) (m : Option MetaTbl) (cr : CbRes) (log : List CbCall) : Out × List CbCall × Option MetaTbl :=
  match cr with
  | .keep c => (.restored c, log ++ [.res (seenAs mt m)], m)
  | .delete c => (.emptyRes c, log ++ [.res (seenAs mt m)], none)
  | .fail => (.err .buildpack, log ++ [.res (seenAs mt m)], none)

/-- decision table: reported state, callback log, and (for a restored layer) the metadata it must carry.
`none` = the history leaves the property's quantifier (a replacement metadata that itself does not decode). -/
def expected (c : LClass) (mt : MetaT) (ci : CbInv) (cr : CbRes) : Option (Out × List CbCall × Option MetaTbl) :=
  match c with
  | .absent => some (.emptyNew, [], none)
  | .valid m => some (afterValid mt m cr [])
  | .broken => some (.err .genericMeta, [], none)
  | .invalid m =>
    match ci with
    | .delete c => some (.emptyInv c, [.inv m], none)
    | .fail => some (.err .buildpack, [.inv m], none)
    | .replace m' _ => if canDecode mt (some m') then some (afterValid mt (some m') cr [.inv m]) else none

def isEmptyOut : Out → Bool
  | .emptyNew => true | .emptyInv _ => true | .emptyRes _ => true | _ => false

def isRestoredOut : Out → Bool
  | .restored _ => true | _ => false

def tomlIs (l : Layer) (t : LTypes) (m : Option MetaTbl) : Bool :=
  match l.toml with
  | some (.doc (some t') m') => t' == t && m' == m
  | _ => false

/-- the clauses of C01 for one request on layer `pre`, ending in `post` with reported state `out` and callback log `log` -/
def requestOk (pre post : Layer) (t : LTypes) (mt : MetaT) (ci : CbInv) (cr : CbRes) (out : Out) (log : List CbCall)
    (checkLog : Bool := true) : Bool :=
  match expected (classify pre mt) mt ci cr with
  | none => true
  | some (eo, elog, emeta) =>
    out == eo && (!checkLog || log == elog) &&
    -- restored: everything the previous build left is still there, types refreshed
    (!isRestoredOut out || (Dir.optBeq post.dir pre.dir && post.dir.isSome && post.sboms == pre.sboms && tomlIs post t emeta)) &&
    -- empty: nothing left over
    (!isEmptyOut out || (Dir.optBeq post.dir (some []) && post.sboms == [] && tomlIs post t none))

def layerEq (a b : Layer) : Bool := Dir.optBeq a.dir b.dir && a.toml == b.toml && a.sboms == b.sboms

def sget (s : Store) (n : Bytes) : Layer := (List.lookup n s).getD {}

/-- every layer other than `n` is exactly as before (over the given universe of names) -/
def othersUntouched (names : List Bytes) (pre post : Store) (n : Bytes) : Bool :=
  names.all (fun k => k == n || layerEq (sget post k) (sget pre k))

/-- the replace-semantics writers of a `LayerRef`, when they report success: `write_metadata` replaces exactly the
metadata (types, directory and SBOMs untouched); `write_sboms` replaces exactly the layer's SBOM set. An operation
without a layer reference does nothing. (Env, exec.d and plain files: C03 / the frame clause; failures: C12.) -/
def writeOk (pre post : Layer) (op : Op) (out : Out) : Bool :=
  match op, out with
  | _, .noref => layerEq post pre
  | .wmeta _ m, .ok =>
    Dir.optBeq post.dir pre.dir && post.sboms == pre.sboms &&
      (match pre.toml, post.toml with
        | some (.doc t _), some (.doc t' m') => t' == t && m' == some m
        | _, _ => false)
  -- a metadata write that is rejected because the value cannot be encoded leaves the layer exactly as it was: in
  -- particular the file keeps declaring the requested flags and the metadata it held
  | .wmetaBad _, .ok => false
  | .wmetaBad _, _ => layerEq post pre
  | .wsbom _ sb, .ok => Dir.optBeq post.dir pre.dir && post.dir.isSome && post.toml == pre.toml && post.sboms == sb
  | _, _ => true

/-- C01 for one step of a history: requests obey the decision table and the restored/empty clauses; every
operation leaves the other layers alone. `names` is the universe of layer names of the history. -/
def stepOk (names : List Bytes) (pre : Store) (op : Op) (out : Out) (log : List CbCall) (post : Store) : Bool :=
  match op with
  | .cached n b la mt ci cr =>
    requestOk (sget pre n) (sget post n) ⟨la, b, true⟩ mt ci cr out log && othersUntouched names pre post n
  | .uncached n b la =>
    requestOk (sget pre n) (sget post n) ⟨la, b, false⟩ .generic (.delete 0) (.delete 0) out log false &&
      othersUntouched names pre post n
  | .restore => true
  | op =>
    match op.name with
    | some n => othersUntouched names pre post n && writeOk (sget pre n) (sget post n) op out
    | none => true

end CnbVerif.Spec
