import CnbVerif.Base.Schema
/-!
# The CNB data formats as the specification describes them (hand-transcribed; **not** generated from the code)

Sources: Cloud Native Buildpacks specification, `buildpack.md` (Buildpack API 0.10: buildpack.toml, Build Plan,
Buildpack Plan, launch.toml, Layer Content Metadata, store.toml, exec.d output) and `distribution.md` / pack's
`package.toml`. For every table: key, kind, required / optional with its default. Fields sorted by key.

Reading taken where the text gives no MUST: a key is **required** exactly when the entry has no meaning without it
(ids, versions, names, label key/value, slice paths, process type/command, group lists, uris); every other key is
optional with the default the spec shows (`false`, empty list, empty table, absent). In particular `[metadata]` is
optional in store.toml as it is in `<layer>.toml`, and `[[targets.distros]]` entries name both `name` and `version`.
A composite buildpack (one with `[[order]]`) has no `[[targets]]`/`[[stacks]]`, a component buildpack has no
`[[order]]` (property C08; the spec text of API 0.10 does not forbid the mix, pack does).

Write-side attributes (`skip`, `noneEnc`) and declaration positions carry no meaning here and are fixed to `.never` / `none` / 0.
-/
namespace CnbVerif.Spec.Cnb
open CnbVerif.Codec

private def req (k : String) (s : Schema) : Field := ⟨k, .required, .never, none, s, 0⟩
private def opt (k : String) (s : Schema) : Field := ⟨k, .optional, .never, none, s, 0⟩
private def dfl (k : String) (d : Dflt) (s : Schema) : Field := ⟨k, .dflt d, .never, none, s, 0⟩
private def str : Schema := .str .plain

/-! ## buildpack.toml -/

/-- `[[buildpack.licenses]]`: `type` (SPDX identifier) and/or `uri` -/
def license : Schema := .struct true [opt "type" str, opt "uri" str]

/-- the SBOM media types a buildpack may declare -/
def sbomFormats : StrV := .oneOf ["application/vnd.cyclonedx+json", "application/spdx+json", "application/vnd.syft+json"]

/-- `[buildpack]` -/
def buildpackInfo : Schema := .struct true [
  dfl "clear-env" (.bool false) .bool,
  opt "description" str,
  opt "homepage" str,
  req "id" (.str .buildpackId),
  dfl "keywords" .emptyArr (.vec str),
  dfl "licenses" .emptyArr (.vec license),
  opt "name" str,
  dfl "sbom-formats" .emptyArr (.set sbomFormats),
  req "version" (.str .version)]

/-- `[[stacks]]` (deprecated, still part of the format) -/
def stack : Schema := .struct true [req "id" str, dfl "mixins" .emptyArr (.vec str)]

/-- `[[targets.distros]]` -/
def distro : Schema := .struct true [req "name" str, req "version" str]

/-- `[[targets]]`: every key optional (an empty target matches everything) -/
def target : Schema := .struct true [
  opt "arch" str,
  dfl "distros" .emptyArr (.vec distro),
  opt "os" str,
  opt "variant" str]

/-- `[[order.group]]` -/
def group : Schema := .struct true [
  req "id" (.str .buildpackId),
  dfl "optional" (.bool false) .bool,
  req "version" (.str .version)]

/-- `[[order]]` -/
def order : Schema := .struct true [req "group" (.vec group)]

/-- a component buildpack descriptor: no `order` -/
def componentDescriptor : Schema := .struct true [
  req "api" (.str .api),
  req "buildpack" buildpackInfo,
  opt "metadata" .table,
  dfl "stacks" .emptyArr (.vec stack),
  dfl "targets" .emptyArr (.vec target)]

/-- a composite buildpack descriptor: `order`, and neither `targets` nor `stacks` -/
def compositeDescriptor : Schema := .struct true [
  req "api" (.str .api),
  req "buildpack" buildpackInfo,
  opt "metadata" .table,
  req "order" (.vec order)]

/-- buildpack.toml: component (variant 0) or composite (variant 1) -/
def buildpackToml : Schema := .untagged [componentDescriptor, compositeDescriptor]

/-! ## Buildpack Plan (input of `build`) -/

def planEntry : Schema := .struct true [dfl "metadata" .emptyTbl .table, req "name" str]
def buildpackPlan : Schema := .struct true [dfl "entries" .emptyArr (.vec planEntry)]

/-! ## launch.toml -/

def label : Schema := .struct true [req "key" str, req "value" str]

/-- `[[processes]]`: `type`, `command` (array since API 0.9) required; `args = []`, `default = false`,
`working-dir` absent (= the app directory) by default -/
def process : Schema := .struct true [
  dfl "args" .emptyArr (.vec str),
  req "command" (.vec str),
  dfl "default" (.bool false) .bool,
  req "type" (.str .processType),
  dfl "working-dir" .absent (.str .path)]

def slice : Schema := .struct true [req "paths" (.vec str)]

def launchToml : Schema := .struct true [
  dfl "labels" .emptyArr (.vec label),
  dfl "processes" .emptyArr (.vec process),
  dfl "slices" .emptyArr (.vec slice)]

/-! ## Build Plan (output of `detect`) -/

def provide : Schema := .struct true [req "name" str]
def require : Schema := .struct true [dfl "metadata" .emptyTbl .table, req "name" str]
def orGroup : Schema := .struct true [dfl "provides" .emptyArr (.vec provide), dfl "requires" .emptyArr (.vec require)]
def buildPlan : Schema := .struct true [
  dfl "or" .emptyArr (.vec orGroup),
  dfl "provides" .emptyArr (.vec provide),
  dfl "requires" .emptyArr (.vec require)]

/-! ## Layer Content Metadata (`<layers>/<layer>.toml`) -/

def layerTypes : Schema := .struct true [
  dfl "build" (.bool false) .bool,
  dfl "cache" (.bool false) .bool,
  dfl "launch" (.bool false) .bool]

def layerContentMetadata : Schema := .struct true [opt "metadata" .table, opt "types" layerTypes]

/-! ## store.toml -/

def storeToml : Schema := .struct true [dfl "metadata" .emptyTbl .table]

/-! ## exec.d output: a flat table of environment variable names to string values -/

def execdOutput : Schema := .map .execdKey str

/-! ## package.toml -/

def packageBuildpack : Schema := .struct true [req "uri" (.str .uri)]
def packageDependency : Schema := .struct true [req "uri" (.str .uri)]
def packagePlatform : Schema := .struct true [req "os" (.str (.oneOf ["linux", "windows"]))]
def packageToml : Schema := .struct true [
  req "buildpack" packageBuildpack,
  dfl "dependencies" .emptyArr (.vec packageDependency),
  dfl "platform" (.recStr [("os", "linux")]) packagePlatform]

/-- the documents of the specification by the name of the libcnb type that reads / writes them -/
def docs : List (String × Schema) := [
  ("License", license), ("Buildpack", buildpackInfo), ("Stack", stack), ("Distro", distro), ("BuildpackTarget", target),
  ("Group", group), ("Order", order),
  ("ComponentBuildpackDescriptor", componentDescriptor), ("CompositeBuildpackDescriptor", compositeDescriptor),
  ("BuildpackDescriptor", buildpackToml),
  ("Entry", planEntry), ("BuildpackPlan", buildpackPlan),
  ("Label", label), ("Process", process), ("Slice", slice), ("Launch", launchToml),
  ("Provide", provide), ("Require", require), ("Or", orGroup), ("BuildPlan", buildPlan),
  ("LayerTypes", layerTypes), ("LayerContentMetadata", layerContentMetadata),
  ("Store", storeToml),
  ("ExecDProgramOutput", execdOutput),
  ("PackageDescriptorBuildpackReference", packageBuildpack), ("PackageDescriptorDependency", packageDependency),
  ("Platform", packagePlatform), ("PackageDescriptor", packageToml)]

def doc (name : String) : Option Schema := docs.lookup name

end CnbVerif.Spec.Cnb
