import CnbVerif.Model.RmTree
/-!
C11 specification, written from the property text: *when a layer is deleted or recreated, every file, directory and
permission outside `<layers>/<name>`, `<layers>/<name>.toml` and that layer's SBOM files is left exactly as it was, and
all of the layer's own entries are gone.*

Only the plain data of `Model/RmTree.lean` is used (`Node`, `FS`, the accessor `fget`, byte strings); none of its
system calls or operations. A file system state is what a whole-root snapshot records: for every path its kind and,
per kind, mode + content / mode / link target; a regular file that has several names (hard links) is recorded under
each of them with its inode, mode and content. Two nodes are the same iff all of that is equal (`Node`'s equality) —
so "exactly as it was" for a file outside the layer means its mode and its content are what they were, whether or not
its inode also has a name inside the layer. (The link *count* of such a file is not part of its node: it goes down,
rightly, when the layer's names go.)

*A recreate is two halves with the buildpack's code in between.* The layer is deleted, then created anew; the creating
half calls the buildpack (`Layer::create`), which may fail. The property's "all of the layer's own entries are gone" is
about the deleting half and cannot wait for the creating half to succeed: once the old layer has been deleted, **no
entry of the old layer survives** — nothing below the layer directory, not the old `<name>.toml`, none of the old SBOM
files — whether or not a new layer is then completed (`OldGone`). What the failed creating half leaves is not the
property's subject: an empty directory or nothing at `<layers>/<name>`; a metadata or SBOM file only if it is *not*
the one that was there before. A call that ends *before* anything is deleted — the deciding callback returned an error —
must not have deleted or altered anything of the layer (`Intact`; a metadata file appearing where there was none is
the reader's normalisation, not a deletion).
-/
namespace CnbVerif.Spec.Frame
open CnbVerif CnbVerif.RmTree

/-- the layers directory below the root of the snapshot -/
def layers : Name := [108, 97, 121, 101, 114, 115] -- "layers"

/-- CNB buildpack spec, "Layers": `<layers>/<layer>.sbom.<ext>` with `<ext>` one of these -/
def sbomExts : List Bytes :=
  [[99, 100, 120, 46, 106, 115, 111, 110],        -- "cdx.json"
   [115, 112, 100, 120, 46, 106, 115, 111, 110],  -- "spdx.json"
   [115, 121, 102, 116, 46, 106, 115, 111, 110]]  -- "syft.json"

def layerDir (n : Name) : Path := [layers, n]
def layerToml (n : Name) : Path := [layers, n ++ [46, 116, 111, 109, 108]] -- "<n>.toml"
def layerSboms (n : Name) : List Path := sbomExts.map (fun e => [layers, n ++ [46, 115, 98, 111, 109, 46] ++ e])

/-- `a` is a prefix of `b` -/
def prefixOf : Path → Path → Bool
  | [], _ => true
  | _ :: _, [] => false
  | a :: as, b :: bs => if a = b then prefixOf as bs else false

/-- the layer's own paths: the layer directory, everything below it, its metadata file, its SBOM files -/
def own (n : Name) (p : Path) : Bool :=
  prefixOf (layerDir n) p || decide (p = layerToml n) || (layerSboms n).contains p

/-- `Outside n p`: `p` is none of the layer's own paths -/
def outside (n : Name) (p : Path) : Bool := !own n p

/-- `SameNode`: same kind, same mode, same content, same link target, same inode for a file with several names — or
absent in both -/
def sameNode (a b : Option Node) : Bool := decide (a = b)

/-- **Frame.** Everything outside the layer is exactly as it was. -/
def Frame (n : Name) (before after : FS) : Prop :=
  ∀ p, outside n p = true → fget after p = fget before p

/-- **Gone.** None of the layer's own paths exists any more. -/
def Gone (n : Name) (after : FS) : Prop :=
  ∀ p, own n p = true → fget after p = none

/-- strictly below the layer directory -/
def below (n : Name) (p : Path) : Bool := prefixOf (layerDir n) p && decide (p ≠ layerDir n)

/-- **Recreated.** All of the layer's former entries are gone and a fresh empty layer stands in their place: a real
directory with nothing below it, a metadata file that is the freshly written document `toml`, no SBOM file. -/
def Recreated (n : Name) (toml : Bytes) (after : FS) : Prop :=
  (∃ m, fget after (layerDir n) = some (.dir m)) ∧
  (∀ p, below n p = true → fget after p = none) ∧
  (∃ m, fget after (layerToml n) = some (.file m toml)) ∧
  (∀ p ∈ layerSboms n, fget after p = none)

/-- The freshly written `<name>.toml`, as the one-byte token the snapshots record for the target layer's metadata file:
the requested types and no metadata for the struct API (`U` launch+build, `C` launch+build+cache), the types and the
create result's metadata for the trait API (`R`). -/
def freshDoc : Api → Bytes
  | .uncached => [85]
  | .cached => [67]
  | .handle => [82]

/-- the layer's own paths beside its directory: the metadata file and the SBOM files -/
def sideFiles (n : Name) : List Path := layerToml n :: layerSboms n

/-- **OldGone.** After the deleting half of a recreate, whatever became of the creating half: nothing exists below the
layer directory; at `<layers>/<name>` there is nothing or a real directory (never the old link or file); and no side
file of the old layer survives — where `<name>.toml` or an SBOM file stood before, that same file (mode, content) does
not stand any more. -/
def OldGone (n : Name) (before after : FS) : Prop :=
  (∀ p, below n p = true → fget after p = none) ∧
  (fget after (layerDir n) = none ∨ ∃ m, fget after (layerDir n) = some (.dir m)) ∧
  (∀ p ∈ sideFiles n, ∀ v, fget before p = some v → fget after p ≠ some v)

/-- **Intact.** Nothing of the layer was deleted or altered: every own path has the node it had, except that a
metadata file may have appeared where there was none. -/
def Intact (n : Name) (before after : FS) : Prop :=
  ∀ p, own n p = true → fget after p = fget before p ∨ (p = layerToml n ∧ fget before p = none)

/-- how a delete-and-recreate request ended, as far as the specification distinguishes -/
inductive Outcome
  /-- an existing layer was deleted and the new one completed -/
  | recreated
  /-- an existing layer was deleted, then the buildpack's creating callback failed -/
  | failedCreate
  /-- the buildpack's deciding callback failed: nothing had been deleted -/
  | failedDecide
  /-- anything else: there was no layer to delete, or a file-system error ended the call wherever it did -/
  | other
deriving DecidableEq, Repr

/-! ### The same statements as executable checks on two snapshots (what the oracle runs) -/

def paths (a b : FS) : List Path := a.map Prod.fst ++ b.map Prod.fst

/-- the first path outside the layer whose node differs between the two snapshots -/
def frameBreach (n : Name) (before after : FS) : Option Path :=
  (paths before after).find? (fun p => outside n p && !sameNode (fget after p) (fget before p))

def frameB (n : Name) (before after : FS) : Bool := (frameBreach n before after).isNone

def goneB (n : Name) (after : FS) : Bool :=
  (after.map Prod.fst).all (fun p => !own n p || (fget after p).isNone)

def recreatedB (n : Name) (toml : Bytes) (after : FS) : Bool :=
  (match fget after (layerDir n) with | some (.dir _) => true | _ => false) &&
  (after.map Prod.fst).all (fun p => !below n p || (fget after p).isNone) &&
  (match fget after (layerToml n) with | some (.file _ c) => decide (c = toml) | _ => false) &&
  (layerSboms n).all (fun p => (fget after p).isNone)

/-- Verdict on one observed delete-and-recreate request: the frame always (also when the call failed), the fresh
layer when the call succeeded. -/
def judgeRequest (n : Name) (toml : Bytes) (ok : Bool) (before after : FS) : Bool :=
  frameB n before after && (!ok || recreatedB n toml after)

def oldGoneB (n : Name) (before after : FS) : Bool :=
  (after.map Prod.fst).all (fun p => !below n p || (fget after p).isNone) &&
  (match fget after (layerDir n) with | none => true | some (.dir _) => true | _ => false) &&
  (sideFiles n).all (fun p => (fget before p).isNone || !sameNode (fget after p) (fget before p))

def intactB (n : Name) (before after : FS) : Bool :=
  (paths before after).all (fun p => !own n p || sameNode (fget after p) (fget before p) ||
    (decide (p = layerToml n) && (fget before p).isNone))

/-- Verdict on one observed delete-and-recreate request, by how it ended: the frame always; the fresh layer when it
succeeded; no old entry when the creating half failed; nothing of the layer touched when the deciding callback failed. -/
def judgeOutcome (n : Name) (toml : Bytes) (o : Outcome) (before after : FS) : Bool :=
  frameB n before after &&
  (match o with
   | .recreated => recreatedB n toml after
   | .failedCreate => oldGoneB n before after
   | .failedDecide => intactB n before after
   | .other => true)

/-- Verdict on one observed plain deletion. -/
def judgeDelete (n : Name) (ok : Bool) (before after : FS) : Bool :=
  frameB n before after && (!ok || goneB n after)

end CnbVerif.Spec.Frame
