import CnbVerif.Model.RmTree
/-!
C11 specification, written from the property text: *when a layer is deleted or recreated, every file, directory and
permission outside `<layers>/<name>`, `<layers>/<name>.toml` and that layer's SBOM files is left exactly as it was, and
all of the layer's own entries are gone.*

Only the plain data of `Model/RmTree.lean` is used (`Node`, `FS`, the accessor `fget`, byte strings); none of its
system calls or operations. A file system state is what a whole-root snapshot records: for every path its kind and,
per kind, mode + content / mode / link target; a regular file that has several names (hard links) is recorded under
each of them with its inode, mode and content. Two nodes are the same iff all of that is equal (`Node`'s equality) —
so "exactly as it was" for a file outside the layer means its mode and its content are what they were, whether or not
its inode also has a name inside the layer. (The link *count* of such a file is not part of its node: it goes down,
rightly, when the layer's names go.)
-/
namespace CnbVerif.Spec.Frame
open CnbVerif CnbVerif.RmTree

/-- the layers directory below the root of the snapshot -/
def layers : Name := [108, 97, 121, 101, 114, 115] -- "layers"

/-- CNB buildpack spec, "Layers": `<layers>/<layer>.sbom.<ext>` with `<ext>` one of these -/
def sbomExts : List Bytes :=
  [[99, 100, 120, 46, 106, 115, 111, 110],        -- "cdx.json"
   [115, 112, 100, 120, 46, 106, 115, 111, 110],  -- "spdx.json"
   [115, 121, 102, 116, 46, 106, 115, 111, 110]]  -- "syft.json"

def layerDir (n : Name) : Path := [layers, n]
def layerToml (n : Name) : Path := [layers, n ++ [46, 116, 111, 109, 108]] -- "<n>.toml"
def layerSboms (n : Name) : List Path := sbomExts.map (fun e => [layers, n ++ [46, 115, 98, 111, 109, 46] ++ e])

/-- `a` is a prefix of `b` -/
def prefixOf : Path → Path → Bool
  | [], _ => true
  | _ :: _, [] => false
  | a :: as, b :: bs => if a = b then prefixOf as bs else false

/-- the layer's own paths: the layer directory, everything below it, its metadata file, its SBOM files -/
def own (n : Name) (p : Path) : Bool :=
  prefixOf (layerDir n) p || decide (p = layerToml n) || (layerSboms n).contains p

/-- `Outside n p`: `p` is none of the layer's own paths -/
def outside (n : Name) (p : Path) : Bool := !own n p

/-- `SameNode`: same kind, same mode, same content, same link target, same inode for a file with several names — or
absent in both -/
def sameNode (a b : Option Node) : Bool := decide (a = b)

/-- **Frame.** Everything outside the layer is exactly as it was. -/
def Frame (n : Name) (before after : FS) : Prop :=
  ∀ p, outside n p = true → fget after p = fget before p

/-- **Gone.** None of the layer's own paths exists any more. -/
def Gone (n : Name) (after : FS) : Prop :=
  ∀ p, own n p = true → fget after p = none

/-- strictly below the layer directory -/
def below (n : Name) (p : Path) : Bool := prefixOf (layerDir n) p && decide (p ≠ layerDir n)

/-- **Recreated.** All of the layer's former entries are gone and a fresh empty layer stands in their place: a real
directory with nothing below it, a metadata file that is the freshly written document `toml`, no SBOM file. -/
def Recreated (n : Name) (toml : Bytes) (after : FS) : Prop :=
  (∃ m, fget after (layerDir n) = some (.dir m)) ∧
  (∀ p, below n p = true → fget after p = none) ∧
  (∃ m, fget after (layerToml n) = some (.file m toml)) ∧
  (∀ p ∈ layerSboms n, fget after p = none)

/-- The freshly written `<name>.toml`, as the one-byte token the snapshots record for the target layer's metadata file:
the requested types and no metadata for the struct API (`U` launch+build, `C` launch+build+cache), the types and the
create result's metadata for the trait API (`R`). -/
def freshDoc : Api → Bytes
  | .uncached => [85]
  | .cached => [67]
  | .handle => [82]

/-! ### The same statements as executable checks on two snapshots (what the oracle runs) -/

def paths (a b : FS) : List Path := a.map Prod.fst ++ b.map Prod.fst

/-- the first path outside the layer whose node differs between the two snapshots -/
def frameBreach (n : Name) (before after : FS) : Option Path :=
  (paths before after).find? (fun p => outside n p && !sameNode (fget after p) (fget before p))

def frameB (n : Name) (before after : FS) : Bool := (frameBreach n before after).isNone

def goneB (n : Name) (after : FS) : Bool :=
  (after.map Prod.fst).all (fun p => !own n p || (fget after p).isNone)

def recreatedB (n : Name) (toml : Bytes) (after : FS) : Bool :=
  (match fget after (layerDir n) with | some (.dir _) => true | _ => false) &&
  (after.map Prod.fst).all (fun p => !below n p || (fget after p).isNone) &&
  (match fget after (layerToml n) with | some (.file _ c) => decide (c = toml) | _ => false) &&
  (layerSboms n).all (fun p => (fget after p).isNone)

/-- Verdict on one observed delete-and-recreate request: the frame always (also when the call failed), the fresh
layer when the call succeeded. -/
def judgeRequest (n : Name) (toml : Bytes) (ok : Bool) (before after : FS) : Bool :=
  frameB n before after && (!ok || recreatedB n toml after)

/-- Verdict on one observed plain deletion. -/
def judgeDelete (n : Name) (ok : Bool) (before after : FS) : Bool :=
  frameB n before after && (!ok || goneB n after)

end CnbVerif.Spec.Frame
