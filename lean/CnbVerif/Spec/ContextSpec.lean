import CnbVerif.Model.Platform
/-!
# Specification of C06 — the context reflects what the platform supplied

> The context handed to detect and build contains exactly the inputs the lifecycle provided: the app, buildpack and
> layers directories, target OS/arch/variant/distro from the CNB_TARGET_* variables, every regular file (also via
> symlink) in <platform>/env as a variable with the file's exact name and content, the buildpack plan entries with their
> metadata, the parsed buildpack descriptor with its metadata, and the previous store if present. Directories inside
> <platform>/env and a missing env directory or store.toml are tolerated; a value that cannot be represented is a
> reported error, never silently dropped or altered.

**The directories.** "Contains exactly the inputs the lifecycle provided: the app, buildpack and layers directories": a
directory the lifecycle provides *as a path text* — the `<layers>` argument, the value of `CNB_BUILDPACK_DIR` — is an input like
any other and is in the context *as provided*: the same bytes, not resolved (links), not made absolute, not normalised (`.`,
`..`, doubled or trailing slashes). Two texts that lead to the same directory are two different inputs ("never silently …
altered"; a buildpack that writes the path into a layer's environment or compares it with what the platform mounted must see the
platform's spelling). The app directory is provided differently: the lifecycle makes it the working directory and hands over no
text; what the process is given is the working directory itself, so `app_dir` must be the working directory's name as
`getcwd` reports it (`Inputs.cwd`) — the property text gives no ground to ask for the spelling the lifecycle used to enter it,
which the process cannot see. The `<platform>` and `<plan>` arguments are not context fields; their spelling must simply not
matter for what is read through them (the platform environment, the plan) — that is the remaining clauses, unchanged.

Written from this text; only the plain data types of `Model/Platform.lean` are shared (`EntryKind`, `PlatDir`, `VarVal`,
`TargetVars`, `Target`, `Inputs`, `Ctx`), none of its functions. `valid` is "can be represented" (a Rust `String`).
-/
namespace CnbVerif.Platform.Spec
open CnbVerif.Platform

/-- the variables the platform supplied: every regular file, also via symlink, with its exact name and content;
directories, links to directories and dangling links supply nothing -/
def supplied (l : List (Bytes × EntryKind)) : List (Bytes × Bytes) :=
  l.filterMap (fun e => match e.2 with
    | .file c => some (e.1, c)
    | .linkFile c => some (e.1, c)
    | _ => none)

/-- `none`: `<platform>/env` exists but is not a directory (nothing tolerable about that); a missing one supplies nothing -/
def suppliedBy : PlatDir → Option (List (Bytes × Bytes))
  | .noEnv => some []
  | .notDir => none
  | .entries l => some (supplied l)

def varOk (valid : Bytes → Bool) : VarVal → Bool
  | .unset => false
  | .val b => valid b

/-- optional variable: unset is fine, a set value must be representable -/
def optVarOk (valid : Bytes → Bool) : VarVal → Bool
  | .unset => true
  | .val b => valid b

/-- `<platform>/env` cannot be listed, or a supplied content cannot be represented -/
def platBad (valid : Bytes → Bool) (p : PlatDir) : Bool :=
  match suppliedBy p with
  | none => true
  | some vars => vars.any (fun kv => !valid kv.2)

/-- the only acceptable outcome is a reported error: the env directory cannot be listed, a supplied value cannot be
represented, or a mandatory target variable (os, arch, distro name, distro version) is missing / not representable, or the
optional one (arch variant) is set to something not representable -/
def mustError {X : Type} (valid : Bytes → Bool) (i : Inputs X) : Bool :=
  platBad valid i.plat ||
  !varOk valid i.vars.os || !varOk valid i.vars.arch || !optVarOk valid i.vars.variant ||
  !varOk valid i.vars.dname || !varOk valid i.vars.dver

def varBytes : VarVal → Bytes
  | .unset => []
  | .val b => b

def optVar : VarVal → Option Bytes
  | .unset => none
  | .val b => some b

/-- same set of (name, content) pairs, and no name twice -/
def sameVars (a b : List (Bytes × Bytes)) : Bool :=
  a.all (fun x => b.contains x) && b.all (fun x => a.contains x) && decide ((a.map (·.1)).Nodup)

/-- field-by-field: the context holds exactly what was supplied. The three directories are compared as texts, byte for byte
(`i.bpDir`, `i.layersDir`: as written by the platform; `i.cwd`: as reported by `getcwd`). -/
def faithful {X : Type} [DecidableEq X] (i : Inputs X) (c : Ctx X) : List (String × Bool) :=
  [ ("app_dir", c.appDir == i.cwd),
    ("buildpack_dir", c.bpDir == i.bpDir),
    ("layers_dir", c.layersDir == i.layersDir),
    ("target.os", c.target.os == varBytes i.vars.os),
    ("target.arch", c.target.arch == varBytes i.vars.arch),
    ("target.arch_variant", c.target.variant == optVar i.vars.variant),
    ("target.distro_name", c.target.dname == varBytes i.vars.dname),
    ("target.distro_version", c.target.dver == varBytes i.vars.dver),
    ("platform env", match suppliedBy i.plat with | some v => sameVars c.env v | none => false),
    ("buildpack_plan", decide (c.plan = i.plan)),
    ("store", decide (c.store = i.store)),
    ("buildpack_descriptor", decide (c.desc = i.desc)) ]

/-- what a run showed: an error reported through `on_error`, a context, or anything else -/
inductive Seen (X : Type)
  | error
  | context (c : Ctx X)
  | other (what : String)

/-- which input is not representable, for the verdict text -/
def whyError {X : Type} (valid : Bytes → Bool) (i : Inputs X) : String :=
  if platBad valid i.plat then
    "a file in <platform>/env cannot be represented (or env cannot be listed)"
  else if !varOk valid i.vars.os then "CNB_TARGET_OS is missing or not valid UTF-8"
  else if !varOk valid i.vars.arch then "CNB_TARGET_ARCH is missing or not valid UTF-8"
  else if !varOk valid i.vars.dname then "CNB_TARGET_DISTRO_NAME is missing or not valid UTF-8"
  else if !varOk valid i.vars.dver then "CNB_TARGET_DISTRO_VERSION is missing or not valid UTF-8"
  else "CNB_TARGET_ARCH_VARIANT is not valid UTF-8"

def verdict {X : Type} [DecidableEq X] (valid : Bytes → Bool) (i : Inputs X) (s : Seen X) : String :=
  match s with
  | .other w => "fail:neither a context nor a reported error: " ++ w
  | .error => if mustError valid i then "ok" else "fail:error reported although every input is representable"
  | .context c =>
    if mustError valid i then "fail:" ++ whyError valid i ++ " but no error was reported (value silently dropped or altered)"
    else match (faithful i c).find? (fun x => !x.2) with
      | none => "ok"
      | some x => "fail:context field " ++ x.1 ++ " differs from what was supplied"

/-! ## The documents as raw file-system state

"… the buildpack plan entries with their metadata, the parsed buildpack descriptor with its metadata, and the previous store if
present. … a missing … store.toml [is] tolerated; a value that cannot be represented is a reported error, never silently dropped
or altered." A document that is *there* but cannot be turned into its value — its bytes are not a `String`, they are not TOML of
the document's shape, the thing at the path cannot be read as a file at all — is such a value: the only acceptable outcome is a
reported error. Nothing at the path is tolerated for `store.toml` alone (then there is no previous store); a phase cannot run
without its descriptor or, in build, its plan. Detect reads neither plan nor store. (`Doc`, `Docs` are plain data shared with the
model; `Doc.readError` is not used.) -/

/-- the document cannot be turned into its value -/
def docBad (tolerateMissing : Bool) : Doc → Bool
  | .asGiven => false
  | .missing => !tolerateMissing
  | .unreadable => true
  | .undecodable _ => true

/-- the first document of the phase that cannot be turned into its value -/
def badDoc (build : Bool) (d : Docs) : Option String :=
  if docBad false d.desc then some "buildpack.toml"
  else if build && docBad false d.plan then some "the buildpack plan"
  else if build && docBad true d.store then some "store.toml"
  else none

/-- what the platform supplied once the raw states are taken into account: a `store.toml` that is not there is no previous store -/
def effective {X : Type} (build : Bool) (i : Inputs X) : Inputs X :=
  if build && i.docs.store == .missing then { i with store := none } else i

def verdictDocs {X : Type} [DecidableEq X] (valid : Bytes → Bool) (build : Bool) (i : Inputs X) (s : Seen X) : String :=
  match badDoc build i.docs with
  | some which =>
    (match s with
     | .error => "ok"
     | .context _ => "fail:" ++ which ++ " is present but cannot be read or represented (not valid UTF-8, not decodable, not a file) and no error was reported (document silently dropped)"
     | .other w => "fail:neither a context nor a reported error: " ++ w)
  | none => verdict valid (effective build i) s

end CnbVerif.Platform.Spec
