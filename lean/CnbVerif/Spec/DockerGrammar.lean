import CnbVerif.Spec.Pflag
/-!
Reference model of the docker CLI's argument grammar for the sub-commands libcnb-test uses, written from the docker
CLI's documented behaviour (`docker run [OPTIONS] IMAGE [COMMAND] [ARG...]`, options stop at the image;
`--env K=V` split at the first `=`; `--publish [ip:][hostPort]:containerPort[/proto]`; `--mount` one CSV record of
`key=value` fields) — **not** from libcnb-test. docker is not installed in this sandbox: this is a reference model.
Core only.
-/
namespace CnbVerif.Spec.Docker
open CnbVerif.Spec.Pflag

def b (long : Word) (short : Option Nat := none) : Flag := ⟨long, short, .bool⟩
def v (long : Word) (short : Option Nat := none) : Flag := ⟨long, short, .val⟩

/-- `docker run --help` (the options of `docker container run`): name, shorthand, boolean or value-taking -/
def runFlags : List Flag := [
  v w!"add-host", v w!"annotation", v w!"attach" (some 97), v w!"blkio-weight", v w!"blkio-weight-device",
  v w!"cap-add", v w!"cap-drop", v w!"cgroup-parent", v w!"cgroupns", v w!"cidfile", v w!"cpu-period",
  v w!"cpu-quota", v w!"cpu-rt-period", v w!"cpu-rt-runtime", v w!"cpu-shares" (some 99), v w!"cpus",
  v w!"cpuset-cpus", v w!"cpuset-mems", b w!"detach" (some 100), v w!"detach-keys", v w!"device",
  v w!"device-cgroup-rule", v w!"device-read-bps", v w!"device-read-iops", v w!"device-write-bps",
  v w!"device-write-iops", b w!"disable-content-trust", v w!"dns", v w!"dns-option", v w!"dns-search",
  v w!"domainname", v w!"entrypoint", v w!"env" (some 101), v w!"env-file", v w!"expose", v w!"gpus",
  v w!"group-add", v w!"health-cmd", v w!"health-interval", v w!"health-retries", v w!"health-start-interval",
  v w!"health-start-period", v w!"health-timeout", b w!"help", v w!"hostname" (some 104), b w!"init",
  b w!"interactive" (some 105), v w!"ip", v w!"ip6", v w!"ipc", v w!"isolation", v w!"kernel-memory",
  v w!"label" (some 108), v w!"label-file", v w!"link", v w!"link-local-ip", v w!"log-driver", v w!"log-opt",
  v w!"mac-address", v w!"memory" (some 109), v w!"memory-reservation", v w!"memory-swap", v w!"memory-swappiness",
  v w!"mount", v w!"name", v w!"network", v w!"net", v w!"network-alias", b w!"no-healthcheck",
  b w!"oom-kill-disable", v w!"oom-score-adj", v w!"pid", v w!"pids-limit", v w!"platform", b w!"privileged",
  v w!"publish" (some 112), b w!"publish-all" (some 80), v w!"pull", b w!"quiet" (some 113), b w!"read-only",
  v w!"restart", b w!"rm", v w!"runtime", v w!"security-opt", v w!"shm-size", b w!"sig-proxy", v w!"stop-signal",
  v w!"stop-timeout", v w!"storage-opt", v w!"sysctl", v w!"tmpfs", b w!"tty" (some 116), v w!"ulimit",
  v w!"user" (some 117), v w!"userns", v w!"uts", v w!"volume" (some 118), v w!"volume-driver", v w!"volumes-from",
  v w!"workdir" (some 119)]

/-- `docker exec [OPTIONS] CONTAINER COMMAND [ARG...]` -/
def execFlags : List Flag := [
  b w!"detach" (some 100), v w!"detach-keys", v w!"env" (some 101), v w!"env-file", b w!"interactive" (some 105),
  b w!"privileged", b w!"tty" (some 116), v w!"user" (some 117), v w!"workdir" (some 119), b w!"help"]

/-- `docker logs [OPTIONS] CONTAINER` -/
def logsFlags : List Flag := [
  b w!"details", b w!"follow" (some 102), v w!"since", v w!"tail" (some 110), b w!"timestamps" (some 116),
  v w!"until", b w!"help"]

/-- `docker rm [OPTIONS] CONTAINER [CONTAINER...]` -/
def rmFlags : List Flag := [b w!"force" (some 102), b w!"link" (some 108), b w!"volumes" (some 118), b w!"help"]

/-- `docker rmi [OPTIONS] IMAGE [IMAGE...]` -/
def rmiFlags : List Flag := [b w!"force" (some 102), b w!"no-prune", b w!"help"]

/-- `docker volume rm|remove [OPTIONS] VOLUME [VOLUME...]` -/
def volumeRmFlags : List Flag := [b w!"force" (some 102), b w!"help"]

/-- `docker port CONTAINER [PRIVATE_PORT[/PROTO]]` -/
def portFlags : List Flag := [b w!"help"]

/-- `--env` value: `KEY=VALUE` split at the first `=`; a bare `KEY` imports the variable from the client's env -/
def splitEnv (w : Word) : Word × Option Word :=
  match cutAt 61 w with
  | some (k, val) => (k, some val)
  | none => (w, none)

structure PortSpec where
  ip : Word
  hostPort : Word
  containerPort : Nat
  proto : Word
deriving DecidableEq, Repr

def isIpChar (c : Nat) : Bool := isDigit c || c == 46 || c == 58 || c == 91 || c == 93 || (97 ≤ c && c ≤ 102) || (65 ≤ c && c ≤ 70)

def joinColon : List Word → Word
  | [] => []
  | [a] => a
  | a :: r => a ++ [58] ++ joinColon r

/-- `--publish` value (`nat.ParsePortSpec`): split at `:`; the last part is `containerPort[/proto]`, the one before
it the host port (may be empty = ephemeral), everything before that the host ip. Port ranges are not modelled. -/
def parsePublish (w : Word) : Option PortSpec :=
  let parts := splitOn 58 w
  let n := parts.length
  match parts.getLast? with
  | none => none
  | some last =>
    let (cport, proto) :=
      match cutAt 47 last with
      | some (p, pr) => (p, lower pr)
      | none => (last, w!"tcp")
    let host := if n ≥ 2 then parts.getD (n - 2) [] else []
    let ip := if n ≥ 3 then joinColon (parts.take (n - 2)) else []
    match decToNat cport with
    | none => none
    | some p =>
      if p > 65535 then none
      else if !(proto = w!"tcp" ∨ proto = w!"udp" ∨ proto = w!"sctp") then none
      else if !(host = [] ∨ (decToNat host).isSome) then none
      else if !(ip.all isIpChar) then none
      else some ⟨ip, host, p, proto⟩

structure Mount where
  typ : Word
  source : Option Word
  target : Word
  readonly : Bool
  extra : List (Word × Word)
deriving DecidableEq, Repr

/-- keys of `--mount` that may stand alone as booleans -/
def mountBoolKeys : List Word := [w!"readonly", w!"ro", w!"volume-nocopy", w!"bind-nonrecursive"]

/-- other `--mount` keys that are accepted and carried along -/
def mountOtherKeys : List Word := [
  w!"bind-propagation", w!"bind-recursive", w!"bind-nonrecursive", w!"consistency", w!"volume-nocopy",
  w!"volume-subpath", w!"volume-label", w!"volume-driver", w!"volume-opt", w!"tmpfs-size", w!"tmpfs-mode",
  w!"image-subpath"]

structure MountAcc where
  typ : Option Word := none
  source : Option Word := none
  target : Option Word := none
  readonly : Bool := false
  extra : List (Word × Word) := []

def mountField (acc : MountAcc) (field : Word) : Option MountAcc :=
  let (key, val) : Word × Option Word :=
    match cutAt 61 field with
    | some (k, x) => (lower k, some x)
    | none => (lower field, none)
  match val with
  | none =>
    if key = w!"readonly" ∨ key = w!"ro" then some { acc with readonly := true }
    else if mountBoolKeys.contains key then some { acc with extra := acc.extra ++ [(key, wTrue)] }
    else none
  | some x =>
    if key = w!"type" then some { acc with typ := some (lower x) }
    else if key = w!"source" ∨ key = w!"src" then some { acc with source := some x }
    else if key = w!"target" ∨ key = w!"dst" ∨ key = w!"destination" then some { acc with target := some x }
    else if key = w!"readonly" ∨ key = w!"ro" then (parseBool x).map (fun bv => { acc with readonly := bv })
    else if mountOtherKeys.contains key then some { acc with extra := acc.extra ++ [(key, x)] }
    else none

def mountFields : MountAcc → List Word → Option MountAcc
  | acc, [] => some acc
  | acc, f :: r => match mountField acc f with
    | some a => mountFields a r
    | none => none

/-- `--mount` value: one CSV record of `key=value` fields; `type` defaults to `volume`; a `target` field is
required (whether the paths are acceptable to the daemon is not a matter of the grammar) -/
def parseMount (w : Word) : Option Mount :=
  match csvRecord 44 w with
  | none => none
  | some fields =>
    match mountFields {} fields with
    | none => none
    | some acc =>
      let typ := acc.typ.getD w!"volume"
      if !(typ = w!"bind" ∨ typ = w!"volume" ∨ typ = w!"tmpfs" ∨ typ = w!"npipe" ∨ typ = w!"cluster" ∨ typ = w!"image") then none
      else match acc.target with
        | none => none
        | some t => some ⟨typ, acc.source, t, acc.readonly, acc.extra⟩

/-- what `docker run …` asks for, as far as this property is concerned; every other option lands in `other` -/
structure Run where
  name : Option Word
  detach : Bool
  rm : Bool
  platform : Option Word
  entrypoint : Option Word
  env : List (Word × Option Word)
  publish : List PortSpec
  mounts : List Mount
  other : List (Word × Word)
  image : Word
  command : List Word
deriving DecidableEq, Repr

def runKnown : List Word :=
  [w!"name", w!"detach", w!"rm", w!"platform", w!"entrypoint", w!"env", w!"publish", w!"mount"]

def interpretRun (raw : Raw) : Option Run :=
  match raw.pos with
  | [] => none
  | image :: command =>
    match boolOf raw.opts w!"detach", boolOf raw.opts w!"rm",
          allSome ((valuesOf raw.opts w!"publish").map parsePublish),
          allSome ((valuesOf raw.opts w!"mount").map parseMount) with
    | some d, some r, some ps, some ms =>
      some { name := lastOf raw.opts w!"name", detach := d, rm := r, platform := lastOf raw.opts w!"platform",
             entrypoint := lastOf raw.opts w!"entrypoint", env := (valuesOf raw.opts w!"env").map splitEnv,
             publish := ps, mounts := ms, other := othersOf raw.opts runKnown, image := image, command := command }
    | _, _, _, _ => none

/-- the words after `docker` for `docker run` -/
def parseDockerRun : List Word → Option Run
  | sub :: args =>
    if sub = w!"run" then
      match parseArgs runFlags false args with
      | some raw => interpretRun raw
      | none => none
    else none
  | [] => none

structure Exec where
  container : Word
  command : List Word
  other : List (Word × Word)
deriving DecidableEq, Repr

def parseDockerExec : List Word → Option Exec
  | sub :: args =>
    if sub = w!"exec" then
      match parseArgs execFlags false args with
      | some ⟨opts, c :: cmd@(_ :: _)⟩ => some ⟨c, cmd, opts⟩
      | _ => none
    else none
  | [] => none

structure Logs where
  container : Word
  follow : Bool
  other : List (Word × Word)
deriving DecidableEq, Repr

def parseDockerLogs : List Word → Option Logs
  | sub :: args =>
    if sub = w!"logs" then
      match parseArgs logsFlags true args with
      | some ⟨opts, [c]⟩ =>
        (match boolOf opts w!"follow" with
        | some f => some ⟨c, f, othersOf opts [w!"follow"]⟩
        | none => none)
      | _ => none
    else none
  | [] => none

structure Port where
  container : Word
  port : Nat
  proto : Word
deriving DecidableEq, Repr

def parseDockerPort : List Word → Option Port
  | sub :: args =>
    if sub = w!"port" then
      match parseArgs portFlags true args with
      | some ⟨[], [c, p]⟩ =>
        let (num, proto) := match cutAt 47 p with
          | some (x, pr) => (x, lower pr)
          | none => (p, w!"tcp")
        (match decToNat num with
        | some n => if n ≤ 65535 then some ⟨c, n, proto⟩ else none
        | none => none)
      | _ => none
    else none
  | [] => none

/-- `rm`, `rmi`, `volume rm`: the names to remove and whether `--force` is in effect -/
structure Remove where
  names : List Word
  force : Bool
  other : List (Word × Word)
deriving DecidableEq, Repr

def parseRemove (tbl : List Flag) (args : List Word) : Option Remove :=
  match parseArgs tbl true args with
  | some ⟨opts, names@(_ :: _)⟩ =>
    (match boolOf opts w!"force" with
    | some f => some ⟨names, f, othersOf opts [w!"force"]⟩
    | none => none)
  | _ => none

def parseDockerRm : List Word → Option Remove
  | sub :: args => if sub = w!"rm" then parseRemove rmFlags args else none
  | [] => none

def parseDockerRmi : List Word → Option Remove
  | sub :: args => if sub = w!"rmi" then parseRemove rmiFlags args else none
  | [] => none

def parseDockerVolumeRm : List Word → Option Remove
  | s1 :: s2 :: args =>
    if s1 = w!"volume" ∧ (s2 = w!"remove" ∨ s2 = w!"rm") then parseRemove volumeRmFlags args else none
  | _ => none

end CnbVerif.Spec.Docker
