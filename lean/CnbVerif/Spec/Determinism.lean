import CnbVerif.Model.LayerStore
/-!
Spec side of C20 ("identical inputs give byte-identical layer and phase outputs").

Only the plain data types `Bytes`, `Node`, `Dir`, `Layer` are shared with the model. Two things are defined here, from the
property text and not from the code:

* what it means for two directory values to be **the same directory**: a directory on disk is a map from names to
  nodes, at every level; a `Dir` value is an association list (first occurrence of a name is the entry), so the order of
  the list and shadowed duplicates are representation only. `canon` is the canonical representative: every level
  strictly sorted by name, first occurrence kept. `SameDir a b := canon a = canon b`. The snapshot lines the harness
  compares are the rendering of exactly this canonical form (`snapshotLines`), one line per entry in sorted order.
* the oracle on an observation of the paired runs: the only acceptable observation is `equal`.
-/
namespace CnbVerif.Spec.Det
open CnbVerif

/-- insert `(k, x)` in front of a list sorted by name; an entry with the same name further back is shadowed: dropped -/
def insertSorted (k : Bytes) (x : Node) : Dir → Dir
  | [] => [(k, x)]
  | (k', x') :: r =>
    if bytesLt k k' then (k, x) :: (k', x') :: r
    else if k = k' then (k, x) :: r
    else (k', x') :: insertSorted k x r

/-- one level: sorted by name, the first occurrence of a name wins (as in `List.lookup`) -/
def sortDir : Dir → Dir
  | [] => []
  | (k, x) :: r => insertSorted k x (sortDir r)

mutual
/-- canonical form at every level -/
def canonNode : Node → Node
  | .file b => .file b
  | .link k => .link k
  | .dir es => .dir (sortDir (canonEntries es))
def canonEntries : List (Bytes × Node) → List (Bytes × Node)
  | [] => []
  | (k, x) :: r => (k, canonNode x) :: canonEntries r
end

def canon (d : Dir) : Dir := sortDir (canonEntries d)

/-- the two values denote the same directory tree -/
def SameDir (a b : Dir) : Prop := canon a = canon b

def SameOptDir (a b : Option Dir) : Prop := a.map canon = b.map canon

/-- the same layer: same layer directory (as a directory), same `<layer>.toml` document, same SBOM files -/
def SameLayer (a b : Layer) : Prop := SameOptDir a.dir b.dir ∧ a.toml = b.toml ∧ a.sboms = b.sboms

/-- strictly increasing names: the canonical order, no duplicates -/
def StrictSorted (d : Dir) : Prop := d.Pairwise (fun a b => bytesLt a.1 b.1 = true)

mutual
/-- snapshot lines of a canonical directory, depth first in name order: `D path` / `F path hex` / `L path` -/
def renderNode (path : String) : Node → List String
  | .file b => ["F " ++ path ++ " " ++ hexEncode b]
  | .link _ => ["L " ++ path]
  | .dir es => ("D " ++ path) :: renderEntries path es
def renderEntries (pre : String) : List (Bytes × Node) → List String
  | [] => []
  | (k, x) :: r => renderNode (if pre.isEmpty then hexEncode k else pre ++ "/" ++ hexEncode k) x ++ renderEntries pre r
end

/-- what the harness prints for a directory: the rendering of its canonical form -/
def snapshotLines (d : Dir) : List String := renderEntries "" (canon d)

/-- the oracle of the paired runs: the property demands byte equality, nothing else is acceptable -/
def verdict (obs : String) : String :=
  if obs = "equal" then "ok"
  else if obs.startsWith "differ:" then "fail:outputs of two runs on identical inputs " ++ obs
  -- the runs could not be carried out (spawn failure, child crashed): no statement about the property; the
  -- correspondence reports it as a disagreement with the model's `equal`
  else if obs.startsWith "infra:" then "ok"
  else "fail:not a comparison result"

end CnbVerif.Spec.Det
