import CnbVerif.Model.LayerStore
/-!
Spec side of C20 ("identical inputs give byte-identical layer and phase outputs").

Only the plain data types `Bytes`, `Node`, `Dir`, `Layer` are shared with the model. Two things are defined here, from the
property text and not from the code:

* what it means for two directory values to be **the same directory**: a directory on disk is a map from names to
  nodes, at every level; a `Dir` value is an association list (first occurrence of a name is the entry), so the order of
  the list and shadowed duplicates are representation only. `canon` is the canonical representative: every level
  strictly sorted by name, first occurrence kept. `SameDir a b := canon a = canon b`. The snapshot lines the harness
  compares are the rendering of exactly this canonical form (`snapshotLines`), one line per entry in sorted order.
* the oracle on an observation of the paired runs: the only acceptable observation is `equal`.
* for the scenarios that write the exec.d programs of a restored layer again (harness kind `execd`) the observation
  also carries what every run left in `exec.d`; the oracle (`execdVerdict`) demands equality of the runs and, when the
  write succeeded, that the identical content is the documented one ("replaces all existing exec.d programs"): exactly
  the wanted names, each a regular file of its own (no second name for its storage) holding its own source's bytes.
* for the scenarios that register several SBOMs of one format (harness kind `sbom`) the observation carries the SBOM
  files every run left; the oracle (`sbomVerdict`) demands equality of the runs and that the file of every registered
  (target, format) holds the bytes of the SBOM registered last for it (`lastRegistered`), with no other SBOM file.
-/
namespace CnbVerif.Spec.Det
open CnbVerif

/-- insert `(k, x)` in front of a list sorted by name; an entry with the same name further back is shadowed: dropped -/
def insertSorted (k : Bytes) (x : Node) : Dir → Dir
  | [] => [(k, x)]
  | (k', x') :: r =>
    if bytesLt k k' then (k, x) :: (k', x') :: r
    else if k = k' then (k, x) :: r
    else (k', x') :: insertSorted k x r

/-- one level: sorted by name, the first occurrence of a name wins (as in `List.lookup`) -/
def sortDir : Dir → Dir
  | [] => []
  | (k, x) :: r => insertSorted k x (sortDir r)

mutual
/-- canonical form at every level -/
def canonNode : Node → Node
  | .file b => .file b
  | .link k => .link k
  | .dir es => .dir (sortDir (canonEntries es))
def canonEntries : List (Bytes × Node) → List (Bytes × Node)
  | [] => []
  | (k, x) :: r => (k, canonNode x) :: canonEntries r
end

def canon (d : Dir) : Dir := sortDir (canonEntries d)

/-- the two values denote the same directory tree -/
def SameDir (a b : Dir) : Prop := canon a = canon b

def SameOptDir (a b : Option Dir) : Prop := a.map canon = b.map canon

/-- the same layer: same layer directory (as a directory), same `<layer>.toml` document, same SBOM files -/
def SameLayer (a b : Layer) : Prop := SameOptDir a.dir b.dir ∧ a.toml = b.toml ∧ a.sboms = b.sboms

/-- strictly increasing names: the canonical order, no duplicates -/
def StrictSorted (d : Dir) : Prop := d.Pairwise (fun a b => bytesLt a.1 b.1 = true)

mutual
/-- snapshot lines of a canonical directory, depth first in name order: `D path` / `F path hex` / `L path` -/
def renderNode (path : String) : Node → List String
  | .file b => ["F " ++ path ++ " " ++ hexEncode b]
  | .link _ => ["L " ++ path]
  | .dir es => ("D " ++ path) :: renderEntries path es
def renderEntries (pre : String) : List (Bytes × Node) → List String
  | [] => []
  | (k, x) :: r => renderNode (if pre.isEmpty then hexEncode k else pre ++ "/" ++ hexEncode k) x ++ renderEntries pre r
end

/-- what the harness prints for a directory: the rendering of its canonical form -/
def snapshotLines (d : Dir) : List String := renderEntries "" (canon d)

/-- the oracle of the paired runs: the property demands byte equality, nothing else is acceptable -/
def verdict (obs : String) : String :=
  if obs = "equal" then "ok"
  else if obs.startsWith "differ:" then "fail:outputs of two runs on identical inputs " ++ obs
  -- the runs could not be carried out (spawn failure, child crashed): no statement about the property; the
  -- correspondence reports it as a disagreement with the model's `equal`
  else if obs.startsWith "infra:" then "ok"
  else "fail:not a comparison result"

/-! ### a restored layer's `exec.d` written again (harness kind `execd`) -/

/-- one entry of the harness's listing of `exec.d`: `<name hex>:<kind>:<…>`; a regular file is
`<name hex>:F:<hex of its bytes>:<number of names its storage has>` -/
def parseListingEntry (s : String) : Option (Bytes × List String) :=
  match s.splitOn ":" with
  | n :: rest => (hexDecode n).map (fun n => (n, rest))
  | [] => none

/-- the listing shows `n` as a regular file holding exactly `b` whose storage has no other name -/
def holdsOwnBytes (listing : List (Bytes × List String)) (n b : Bytes) : Bool :=
  listing.any (fun e => e.1 == n && e.2 == ["F", hexEncode b, "1"])

def contentFailure : String :=
  "fail:exec.d is the same in every run but is not exactly the wanted programs, each an independent regular file holding its own source's bytes"

/-- the oracle of the `execd` scenarios. `wanted` = the programs handed to the write (distinct names, sources present).
Observation: `differ:…` (two runs differ: the property is violated), `infra:…`, or `equal|<result>|<listing>`. -/
def execdVerdict (wanted : List (Bytes × Bytes)) (obs : String) : String :=
  if obs.startsWith "differ:" then "fail:outputs of two runs on identical inputs " ++ obs
  else if obs.startsWith "infra:" then "ok"
  else
    match obs.splitOn "|" with
    | ["equal", res, listing] =>
      if res.startsWith "err:" then "ok"       -- refused identically in every run: nothing is promised about exec.d
      else if res != "ok" then "fail:not a comparison result"
      else if wanted.isEmpty then (if listing == "absent" then "ok" else contentFailure)
      else
        match allSome ((listing.splitOn ",").map parseListingEntry) with
        | some es =>
          if es.length == wanted.length && wanted.all (fun w => holdsOwnBytes es w.1 w.2) then "ok" else contentFailure
        | none => contentFailure
    | _ => "fail:not a comparison result"

/-! ### SBOM files when several SBOMs of one format are registered (harness kind `sbom`)

A build result (or a layer) may be handed several SBOMs of one format; there is one file per (target, format). The
property demands the same bytes in every run. Which bytes: the SBOMs are registered in a sequence (calls of
`build_sbom` / `launch_sbom` / `LayerResultBuilder::sbom`, the slice of `write_sboms`) and the documented contract is
"writes the given SBOMs, existing ones are overwritten" — so the file of a format holds the document registered
**last** for it, a format nothing was registered for has no file (the scenario starts without SBOM files or replaces
the layer's), and nothing else is there. -/

/-- the bytes registered last under key `k` in the registration sequence -/
def lastRegistered {κ : Type} [DecidableEq κ] (k : κ) : List (κ × Bytes) → Option Bytes
  | [] => none
  | (m, b) :: rest =>
    match lastRegistered k rest with
    | some later => some later
    | none => if m = k then some b else none

/-- one entry of the harness's listing of the SBOM files: `<file name hex>=<hex of the bytes>` -/
def parseSbomEntry (s : String) : Option (Bytes × Bytes) :=
  match s.splitOn "=" with
  | [n, b] => match hexDecode n, hexDecode b with
    | some n, some b => some (n, b)
    | _, _ => none
  | _ => none

def sbomContentFailure : String :=
  "fail:the SBOM files are the same in every run but are not, for every registered (target, format), the bytes of the SBOM registered last for it (and nothing else)"

/-- the oracle of the `sbom` scenarios. `regs` = the registered SBOMs in registration order as (file name, bytes).
Observation: `differ:…` (two runs differ: the property is violated), `infra:…`, or `equal|<result>|<listing>`. -/
def sbomVerdict (regs : List (Bytes × Bytes)) (obs : String) : String :=
  if obs.startsWith "differ:" then "fail:outputs of two runs on identical inputs " ++ obs
  else if obs.startsWith "infra:" then "ok"
  else
    match obs.splitOn "|" with
    | ["equal", res, listing] =>
      if res.startsWith "err:" then "ok"       -- refused identically in every run: nothing is promised about the files
      else if res != "ok" then "fail:not a comparison result"
      else
        match allSome ((splitList listing ",").map parseSbomEntry) with
        | some files =>
          if files.all (fun e => lastRegistered e.1 regs == some e.2) && regs.all (fun r => files.any (fun e => e.1 == r.1))
          then "ok" else sbomContentFailure
        | none => sbomContentFailure
    | _ => "fail:not a comparison result"

end CnbVerif.Spec.Det
