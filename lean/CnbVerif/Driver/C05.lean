import CnbVerif.Base.Proto
import CnbVerif.Model.Runtime
import CnbVerif.Spec.RuntimeTable
/-! Driver glue for C05: parse an abstract invocation, run the model, judge the implementation's observation by the
decision table. Payloads: plan / launch / store are the variant of the test buildpack's payload (`Nat`: 0 normal, 1 empty /
minimal document, 2 other shape, `10 + n` the normal document padded to exactly `n` bytes — the harness recognises which one
a file holds); SBOM data is `k` (normal data of the item at position `k`), `1000` (no bytes at all), `2000 + k` (binary data of
item `k`) or `1000000 + 1000 * n + k` (exactly `n` bytes of padded data of item `k`).

Pre-existing state `w` of an output path = it can be opened for writing but every write of at least one byte fails (the
harness links it to `/dev/full`; for store.toml, which is read first, the test buildpack's build code does). A payload of zero
bytes (the empty plan, the empty launch document, an SBOM without bytes) makes no write at all, so `w` is no fault for it:
such a combination is refused (`bad-op`), the harness does not generate it. -/
namespace CnbVerif.DriverC05
open CnbVerif CnbVerif.Runtime

abbrev Inv := Invocation Nat Nat Nat Nat
abbrev Out := Outcome Nat Nat Nat Nat
abbrev Res := BuildOk Nat Nat Nat

def parseExe : String → Option Exe
  | "detect" => some .detect | "build" => some .build | "other" => some .other
  | s => if s.startsWith "other:" ∧ s ≠ "other:detect" ∧ s ≠ "other:build" then some .other else none

def parseDesc (s : String) : Option Desc :=
  match s.splitOn ":" with
  | ["api", v, r] =>
    match v.splitOn ".", r with
    | [a, b], "ok" => (fun x y => Desc.api x y true) <$> a.toNat? <*> b.toNat?
    | [a, b], "bad" => (fun x y => Desc.api x y false) <$> a.toNat? <*> b.toNat?
    | _, _ => none
  | ["malformed"] => some .malformedApi
  | ["missingapi"] => some .missingApi
  | ["nofile"] => some .noFile
  | ["unreadable"] => some .unreadable
  | ["nottoml"] => some .notToml
  | _ => none

/-- bytes of a variable's value as the harness sets them → what the process sees: text when they are valid UTF-8, raw bytes
otherwise. A value cannot contain NUL (it could not be put into an environment). -/
def bytesToVal (b : Bytes) : Option EnvVal :=
  if b.any (fun x => x = 0 ∨ x > 255) then none
  else match String.fromUTF8? (ByteArray.mk (b.map Nat.toUInt8).toArray) with
    | some s => some (.text s)
    | none => some (.raw b)

/-- `-` = unset, `=<hex>` = set to these bytes (`=` alone: set to the empty string) -/
def parseVal (tok : String) : Option (Option EnvVal) :=
  if tok = "-" then some none
  else if tok.startsWith "=" then (hexDecode (tok.drop 1).toString).bind (fun b => (bytesToVal b).map some)
  else none

/-- CNB_BUILDPACK_DIR: `-` = unset, `@<kind>` = set to the directory that holds buildpack.toml, written in one of several
ways (see harness/src/bin/c05.rs); the path itself is a temporary one, so the text is symbolic. `@nonutf8`: the directory's
name is not valid UTF-8. -/
def bpKinds : List String := ["plain", "space", "uni", "trail", "dotdot", "sym", "rel", "empty"]

def parseBpDir (tok : String) : Option (Option EnvVal) :=
  if tok = "-" then some none
  else if tok = "@nonutf8" then some (some (.raw [255]))
  else if tok.startsWith "@" ∧ bpKinds.contains (tok.drop 1).toString then some (some (.text ("$BP" ++ tok)))
  else none

def varNames : List String :=
  ["CNB_BUILDPACK_DIR", "CNB_TARGET_OS", "CNB_TARGET_ARCH", "CNB_TARGET_ARCH_VARIANT", "CNB_TARGET_DISTRO_NAME", "CNB_TARGET_DISTRO_VERSION"]

/-- `+NAME=<hex>`: another `CNB_*` variable, one the runtime does not read (no dimension of the model) -/
def extraOk (tok : String) : Bool :=
  match (tok.drop 1).toString.splitOn "=" with
  | [name, hex] =>
    tok.startsWith "+" && name.startsWith "CNB_" && !varNames.contains name &&
      name.toList.all (fun c => c.isUpper || c.isDigit || c = '_') &&
      (match hexDecode hex with | some b => (bytesToVal b).isSome | none => false)
  | _ => false

/-- the environment: six comma-separated tokens (buildpack dir, os, arch, arch variant, distro name, distro version), then
any number of extra variables -/
def parseVars (s : String) : Option Vars :=
  match s.splitOn "," with
  | bp :: os :: arch :: variant :: dname :: dver :: extras =>
    if !extras.all extraOk then none else
    match parseBpDir bp, parseVal os, parseVal arch, parseVal variant, parseVal dname, parseVal dver with
    | some a, some b, some c, some d, some e, some f => some ⟨a, b, c, d, e, f⟩
    | _, _, _, _, _, _ => none
  | _ => none

/-- a buildpack directory given relative to the working directory needs a working directory -/
def bpDirCtxOk (vars ctx : String) : Bool :=
  !(ctx.startsWith "gone" ∧ (vars.startsWith "@rel," ∨ vars.startsWith "@empty,"))

def parsePre : Char → Option Pre
  | 'a' => some .absent | 'f' => some .file | 'd' => some .dir | 'w' => some .writeFails | _ => none

def parseStorePre : String → Option StorePre
  | "a" => some .absent | "v" => some .valid | "m" => some .malformed | "d" => some .dir | "w" => some .writeFails | _ => none

def parsePre3 (s : String) : Option (Fmt → Pre) :=
  match s.toList.map parsePre with
  | [some a, some b, some c] => some (fun f => match f with | .cdx => a | .spdx => b | .syft => c)
  | _ => none

def parseFmt : String → Option Fmt
  | "cdx" => some .cdx | "spdx" => some .spdx | "syft" => some .syft | _ => none

def parseDbeh : String → Option (DetectBeh Nat)
  | "pass" => some .pass | "passplan" => some (.passPlan 0) | "passeplan" => some (.passPlan 1) | "passxplan" => some (.passPlan 2)
  | "fail" => some .fail | "err" => some .err | _ => none

/-- SBOM data of item `k`: normal, empty, binary -/
def sbomData (k : Nat) (s : String) : Option Nat :=
  if s = "" then some k else if s = "e" then some 1000 else if s = "x" then some (2000 + k)
  else if s.startsWith "s" then (s.drop 1).toString.toNat?.map (fun n => 1000000 + 1000 * n + k)
  else none

/-- `slaunch<n>` / `sstore<n>`: the document padded to `n` bytes -/
def sizedItem (pfx item : String) : Option Nat :=
  if item.startsWith pfx then (item.drop pfx.length).toString.toNat?.map (fun n => 10 + n) else none

/-- items of `ok:<items>` applied like the calls on `BuildResultBuilder` (`launch` / `store` replace, SBOMs are pushed);
`k` is the position of the item -/
def addItem (r : Res) (k : Nat) (item : String) : Option Res :=
  if item = "launch" then some { r with launch := some 0 }
  else if item = "elaunch" then some { r with launch := some 1 }
  else if item = "xlaunch" then some { r with launch := some 2 }
  else if item = "store" then some { r with store := some 0 }
  else if item = "estore" then some { r with store := some 1 }
  else if item = "xstore" then some { r with store := some 2 }
  else if (sizedItem "slaunch" item).isSome then some { r with launch := sizedItem "slaunch" item }
  else if (sizedItem "sstore" item).isSome then some { r with store := sizedItem "sstore" item }
  else match item.splitOn "." with
    | [h, f] =>
      if h.startsWith "b" then
        match parseFmt f, sbomData k (h.drop 1).toString with
        | some f, some d => some { r with bsboms := r.bsboms ++ [(f, d)] }
        | _, _ => none
      else if h.startsWith "l" then
        match parseFmt f, sbomData k (h.drop 1).toString with
        | some f, some d => some { r with lsboms := r.lsboms ++ [(f, d)] }
        | _, _ => none
      else none
    | _ => none

def parseItems : List String → Nat → Res → Option Res
  | [], _, r => some r
  | it :: rest, k, r => match addItem r k it with
    | some r' => parseItems rest (k + 1) r'
    | none => none

def parseBbeh (s : String) : Option (BuildBeh Nat Nat Nat) :=
  if s = "err" then some .err
  else if s = "layererr" then some .layerErr
  else if s.startsWith "ok:" then
    let items := ((s.drop 3).toString.splitOn ",").filter (· ≠ "")
    (parseItems items 0 ⟨none, none, [], []⟩).map .ok
  else none

/-- executable layout on disk and way of invocation (`<disk>[+<invoke>]`, see harness/src/bin/c05.rs). The model has no
such dimension: `libcnb_runtime` looks at the file name of `argv[0]` only (`Invocation.exe`), so every layout of one name is
the same abstract invocation. A relative invocation needs an existing working directory. -/
def layoutOk (link ctx : String) : Bool :=
  match link.splitOn "+" with
  | [disk] => ["sym", "copy", "symn", "realbuild", "realdetect"].contains disk
  | [disk, inv] =>
    ["sym", "copy", "symn", "realbuild", "realdetect"].contains disk && ["abs", "rel", "dotdot", "path", "arg0"].contains inv &&
      !((inv = "rel" ∨ inv = "dotdot") ∧ ctx.startsWith "gone")
  | _ => false

/-- a payload of zero bytes is to go to a path in state `w` (no write happens: `w` cannot stand for a failing write there) -/
def zeroBytesOntoFault (i : Inv) : Bool :=
  (i.planPre == .writeFails && (match i.dbeh with | .passPlan 1 => true | _ => false)) ||
  (match i.bbeh with
   | .ok r => (i.launchPre == .writeFails && r.launch == some 1) ||
       r.bsboms.any (fun x => x.2 == 1000 && i.bPre x.1 == .writeFails) ||
       r.lsboms.any (fun x => x.2 == 1000 && i.lPre x.1 == .writeFails)
   | _ => false)

def guardZero (i : Inv) : Option Inv := if zeroBytesOntoFault i then none else some i

def parseInv (fields : List String) : Option Inv :=
  match fields with
  | [exe, nargs, desc, vars, ctx, dbeh, bbeh, pre, link] =>
    if !(layoutOk link ctx) || !(bpDirCtxOk vars ctx) then none else
    match parseExe exe, nargs.toNat?, parseDesc desc, parseVars vars, ctx.splitOn "/", parseDbeh dbeh, parseBbeh bbeh, pre.splitOn "/" with
    | some exe, some nargs, some desc, some vars, [cwd, plat, planIn], some dbeh, some bbeh, [pp, lp, sp, bp, lp3] =>
      let cwd? : Option Bool := if cwd = "ok" then some true else if cwd = "gone" then some false else none
      let plat? : Option Plat := if plat = "ok" then some .ok else if plat = "noenv" then some .noEnv else if plat = "bad" then some .bad else none
      let planIn? : Option PlanIn := if planIn = "ok" then some .ok else if planIn = "missing" then some .missing else if planIn = "malformed" then some .malformed else none
      let one (s : String) : Option Pre := match s.toList with | [c] => parsePre c | _ => none
      match cwd?, plat?, planIn?, one pp, one lp, parseStorePre sp, parsePre3 bp, parsePre3 lp3 with
      | some cwd, some plat, some planIn, some pp, some lp, some sp, some bp, some lp3 =>
        guardZero { exe := exe, nargs := nargs, desc := desc, vars := vars, cwdOk := cwd, plat := plat, planIn := planIn,
                    dbeh := dbeh, bbeh := bbeh, planPre := pp, launchPre := lp, storePre := sp, bPre := bp, lPre := lp3 }
      | _, _, _, _, _, _, _, _ => none
    | _, _, _, _, _, _, _, _ => none
  | _ => none

-- ------------------------------------------------------------------ rendering the model's outcome
def preTok : Pre → String
  | .absent => "a" | .file => "o" | .dir => "d" | .writeFails => "w"

/-- `writeFails`: the old store is there until the build code ran, the link to the full device from then on -/
def storePreTok (buildRan : Bool) : StorePre → String
  | .absent => "a" | .valid => "o" | .malformed => "o" | .dir => "d"
  | .writeFails => if buildRan then "w" else "o"

def outTok (pre : String) (w : α → String) : FileOut α → String
  | .untouched => pre
  | .written a => w a
  | .other => "x"

def kindName : ErrKind → String
  | .appDir => "CannotDetermineAppDirectory" | .bpDir => "CannotDetermineBuildpackDirectory"
  | .descriptor => "CannotReadBuildpackDescriptor" | .platform => "CannotCreatePlatformFromPath"
  | .planIn => "CannotReadBuildpackPlan" | .store => "CannotReadStore"
  | .targetOs => "CannotDetermineTargetOs" | .targetArch => "CannotDetermineTargetArch"
  | .distroName => "CannotDetermineTargetDistroName" | .distroVersion => "CannotDetermineTargetDistroVersion"
  | .buildpack => "BuildpackError" | .layer => "LayerError" | .writePlan => "CannotWriteBuildPlan"
  | .writeLaunch => "CannotWriteLaunch" | .writeStore => "CannotWriteStore"
  | .writeBuildSbom => "CannotWriteBuildSbom" | .writeLaunchSbom => "CannotWriteLaunchSbom"

def b01 (b : Bool) : String := if b then "1" else "0"

/-- payload variant of plan / launch / store as the harness names it -/
def varTok (v : Nat) : String := if v = 0 then "n" else if v = 1 then "e" else if v < 10 then "x" else "s" ++ toString (v - 10)

def sbomTok (d : Nat) : String :=
  if d < 1000 then "n" ++ toString d else if d = 1000 then "e"
  else if d < 1000000 then "x" ++ toString (d - 2000)
  else "s" ++ toString ((d - 1000000) / 1000) ++ "k" ++ toString (d % 1000)

def render (i : Inv) (o : Out) : String :=
  let sb (pre : Fmt → Pre) (st : Fmt → FileOut Nat) : String :=
    String.intercalate "," (Fmt.all.map (fun f => outTok (preTok (pre f)) sbomTok (st f)))
  "exit=" ++ toString o.exit ++ ";det=" ++ b01 o.detectRan ++ ";bld=" ++ b01 o.buildRan ++ ";onerr=" ++ toString o.onError ++
  ";kind=" ++ (match o.errKind with | some k => kindName k | none => "-") ++
  ";plan=" ++ outTok (preTok i.planPre) varTok o.plan ++
  ";launch=" ++ outTok (preTok i.launchPre) varTok o.launch ++
  ";store=" ++ outTok (storePreTok o.buildRan i.storePre) varTok o.store ++
  ";b=" ++ sb i.bPre o.bsbom ++ ";l=" ++ sb i.lPre o.lsbom

-- ------------------------------------------------------------------ parsing the implementation's observation
def kv (key : String) (s : String) : Option String :=
  match s.splitOn "=" with
  | [k, v] => if k = key then some v else none
  | _ => none

/-- a raw state token relative to what was there before: the same ⇒ untouched; `n…` ⇒ written; otherwise other -/
def parseOut (pre : String) (tok : String) : FileOut Nat :=
  if tok = pre then .untouched else if tok = "n" then .written 0 else if tok = "e" then .written 1
  else if tok = "x" then .written 2
  else if tok.startsWith "s" then match (tok.drop 1).toString.toNat? with | some n => .written (10 + n) | none => .other
  else .other

def parseOutN (pre : String) (tok : String) : FileOut Nat :=
  if tok = pre then .untouched
  else if tok = "e" then .written 1000
  else if tok.startsWith "n" then match (tok.drop 1).toString.toNat? with | some k => if k < 1000 then .written k else .other | none => .other
  else if tok.startsWith "x" then match (tok.drop 1).toString.toNat? with | some k => if k < 1000 then .written (2000 + k) else .other | none => .other
  else if tok.startsWith "s" then match (tok.drop 1).toString.splitOn "k" with
    | [n, k] => (match n.toNat?, k.toNat? with | some n, some k => if k < 1000 then .written (1000000 + 1000 * n + k) else .other | _, _ => .other)
    | _ => .other
  else .other

def parse3 (pre : Fmt → Pre) (s : String) : Option (Fmt → FileOut Nat) :=
  match s.splitOn "," with
  | [a, b, c] => some (fun f => match f with
      | .cdx => parseOutN (preTok (pre .cdx)) a | .spdx => parseOutN (preTok (pre .spdx)) b | .syft => parseOutN (preTok (pre .syft)) c)
  | _ => none

def parseObs (i : Inv) (obs : String) : Option Out :=
  match obs.splitOn ";" with
  | [e, dt, bl, oe, _kind, pl, la, st, b, l] =>
    match (kv "exit" e).bind String.toInt?, kv "det" dt, kv "bld" bl, (kv "onerr" oe).bind String.toNat?, kv "plan" pl, kv "launch" la, kv "store" st,
          (kv "b" b).bind (parse3 i.bPre), (kv "l" l).bind (parse3 i.lPre) with
    | some e, some dt, some bl, some oe, some pl, some la, some st, some b, some l =>
      if (dt = "0" ∨ dt = "1") ∧ (bl = "0" ∨ bl = "1") then
        some { exit := e, detectRan := dt = "1", buildRan := bl = "1", onError := oe, errKind := none,
               plan := parseOut (preTok i.planPre) pl, launch := parseOut (preTok i.launchPre) la,
               store := parseOut (storePreTok (bl = "1") i.storePre) st, bsbom := b, lsbom := l }
      else none
    | _, _, _, _, _, _, _, _, _ => none
  | _ => none

def handle (fields : List String) (obs : String) : String × String :=
  match parseInv fields with
  | none => ("bad-op", "bad-op")
  | some i =>
    let model := render i (runtime i)
    let verdict := match parseObs i obs with
      | none => "fail:unparsable-observation"
      | some o => Spec.verdict i o
    (model, verdict)

end CnbVerif.DriverC05
