import CnbVerif.Base.Proto
import CnbVerif.Base.Words
import CnbVerif.Model.TestRunner
import CnbVerif.Model.TestRunnerFaults
/-!
Glue shared by the C16 and C17 drivers: decoding a libcnb-test scenario case (formats: `harness/src/lct/mod.rs`),
rendering the model's run as the canonical observation, decoding an observation. No property logic here.
-/
namespace CnbVerif.TestRunnerIO
open CnbVerif CnbVerif.Argv CnbVerif.TestRunner

def lst (s : String) (sep : String) : List String := if s = "-" then [] else s.splitOn sep

def dropPrefix (s : String) (p : Char) : Option String :=
  match s.toList with
  | c :: r => if c = p then some (String.ofList r) else none
  | [] => none

def hexPairs (s : String) : Option (List (Bytes × Bytes)) :=
  allSome ((lst s "/").map (fun kv => match kv.splitOn "=" with
    | [k, v] => (match hexDecode k, hexDecode v with | some k, some v => some (k, v) | _, _ => none)
    | _ => none))

inductive Edit | write (p c : Bytes) | delete (p : Bytes) | append (p c : Bytes) | rename (a b : Bytes) | remove (p : Bytes)

/-- a build configuration of the case: the model's view plus what only the snapshot oracle needs -/
structure BCase where
  cfg : BuildCfg
  edits : Option (List Edit)
  /-- the app dir as a word in observation naming: `/$M/<rel>` resp. `/$A<suffix>` (spec side) -/
  isAbs : Bool
  raw : Bytes

def parseEdit (s : String) : Option Edit :=
  match s.toList with
  | 'w' :: r => (match (String.ofList r).splitOn ":" with
    | [p, c] => (match hexDecode p, hexDecode c with | some p, some c => some (.write p c) | _, _ => none)
    | _ => none)
  | 'd' :: r => (hexDecode (String.ofList r)).map .delete
  | 'x' :: r => (hexDecode (String.ofList r)).map .remove
  | 'a' :: r => (match (String.ofList r).splitOn ":" with
    | [p, c] => (match hexDecode p, hexDecode c with | some p, some c => some (.append p c) | _, _ => none)
    | _ => none)
  | 'r' :: r => (match (String.ofList r).splitOn ":" with
    | [a, b] => (match hexDecode a, hexDecode b with | some a, some b => some (.rename a b) | _, _ => none)
    | _ => none)
  | _ => none

def parseBCfg (s : String) : Option BCase :=
  match s.splitOn ";" with
  | [builder, app, pre, bps, env, expect, triple, packres] =>
    let appP : Option (Bytes × Bool × Bool × Bytes) :=   -- (appDir word, valid, isAbs, raw)
      match app.toList with
      | 'r' :: r => (hexDecode (String.ofList r)).map (fun b => (b, true, false, b))
      | 'a' :: r => (hexDecode (String.ofList r)).map (fun b => ([47, 3001] ++ b, true, true, b))
      | ['m'] => some (w!"missing-dir", false, false, w!"missing-dir")
      | _ => none
    let preP : Option (Option (List Edit)) :=
      if pre = "-" then some none else if pre = "n" then some (some [])
      else (allSome ((pre.splitOn "/").map parseEdit)).map some
    let expectP : Option Bool := if expect = "s" then some true else if expect = "f" then some false else none
    let tripleP : Option Word :=
      if triple = "x" then some w!"x86_64-unknown-linux-musl" else if triple = "a" then some w!"aarch64-unknown-linux-musl"
      else if triple = "o" then some w!"riscv64gc-unknown-linux-gnu" else none
    let resP : Option Res := if packres = "0" then some .ok else if packres = "1" then some .nonzero else none
    match hexDecode builder, appP, preP, allSome ((lst bps "/").map hexDecode), hexPairs env, expectP, tripleP, resP with
    | some builder, some (appDir, valid, isAbs, raw), some pre, some bps, some env, some ex, some tr, some pr =>
      some { cfg := { cfg := { appDir := appDir, builder := builder, buildpacks := bps, env := env },
                      appDirValid := valid, preprocessor := pre.isSome, expectSuccess := ex, triple := tr, packResult := pr },
             edits := pre, isAbs := isAbs, raw := raw }
    | _, _, _, _, _, _, _, _ => none
  | _ => none

def parseCCfg (s : String) : Option ContainerConfig :=
  match s.splitOn ";" with
  | [ep, cmd, env, ports, mounts] =>
    let epP : Option (Option Bytes) := if ep = "-" then some none else ((dropPrefix ep 'e').bind hexDecode).map some
    let cmdP : Option (Option (List Bytes)) :=
      if cmd = "-" then some none
      else match cmd.splitOn "/" with
        | "c" :: ws => (allSome (ws.map (fun w => (dropPrefix w 'w').bind hexDecode))).map some
        | _ => none
    match epP, cmdP, hexPairs env, allSome ((lst ports "/").map String.toNat?), hexPairs mounts with
    | some ep, some cmd, some env, some ports, some mounts =>
      some { entrypoint := ep, command := cmd, env := env, exposedPorts := ports, bindMounts := mounts }
    | _, _, _, _, _ => none
  | _ => none

def hexArg (s : String) : Option Bytes := (dropPrefix s 'h').bind hexDecode

def parseCActs : Nat → List String → Option (List CAct × List String)
  | 0, toks => some ([], toks)
  | n + 1, toks =>
    let one : Option (CAct × List String) :=
      match toks with
      | "LN" :: r => some (.logsNow, r)
      | "LW" :: r => some (.logsWait, r)
      | "X" :: r => some (.panic, r)
      | "P" :: p :: r => p.toNat?.map (fun p => (.port p, r))
      | "E" :: c :: r => (hexArg c).map (fun c => (.exec c, r))
      | _ => none
    match one with
    | none => none
    | some (a, r) => (parseCActs n r).map (fun (as, r') => (a :: as, r'))

/-- `n` acts; a trailing `R,i,m` (fresh config `i`) or `RC,i,m` (the context's config, overlaid with config `i`) is
returned as the continuation of the chain: (from the context?, i, m) -/
def parseActs (ccfgs : List ContainerConfig) : Nat → List String → Option (List Act × Option (Bool × Nat × Nat) × List String)
  | 0, toks => some ([], none, toks)
  | n + 1, toks =>
    match toks with
    | "R" :: i :: m :: r =>
      if n = 0 then (match i.toNat?, m.toNat? with | some i, some m => some ([], some (false, i, m), r) | _, _ => none) else none
    | "RC" :: i :: m :: r =>
      if n = 0 then (match i.toNat?, m.toNat? with | some i, some m => some ([], some (true, i, m), r) | _, _ => none) else none
    | _ =>
      let one : Option (Act × List String) :=
        match toks with
        | "X" :: r => some (.panic, r)
        | "D" :: r => some (.downloadSbom, r)
        | "H" :: c :: r => (hexArg c).map (fun c => (.runShell c, r))
        | "S" :: i :: k :: r =>
          (match i.toNat?, k.toNat? with
          | some i, some k =>
            (match ccfgs[i]?, parseCActs k r with
            | some cfg, some (cas, r') => some (.startContainer cfg cas, r')
            | _, _ => none)
          | _, _ => none)
        | _ => none
      match one with
      | none => none
      | some (a, r) => (parseActs ccfgs n r).map (fun (as, k, r') => (a :: as, k, r'))

/-- The configuration of a rebuild in the scenario language. `R,i`: the fresh configuration `i`. `RC,i`: the configuration
the enclosing build was given (what `TestContext.config` is documented to be), with the env pairs of `i` set after the clone
and the expected/actual pack result of `i`; app dir, preprocessor, builder, buildpacks, target are inherited. -/
def nextCfg (cur ov : BCase) (fromCtx : Bool) : BCase :=
  if fromCtx then
    { cur with cfg := { cur.cfg with cfg := { cur.cfg.cfg with env := cur.cfg.cfg.env ++ ov.cfg.cfg.env },
                                     expectSuccess := ov.cfg.expectSuccess, packResult := ov.cfg.packResult } }
  else ov

def parseChain (bcfgs : List BCase) (ccfgs : List ContainerConfig) : Nat → BCase → Nat → List String → Option (List (BCase × List Act))
  | 0, _, _, _ => none
  | fuel + 1, b, n, toks =>
    match parseActs ccfgs n toks with
    | some (acts, none, []) => some [(b, acts)]
    | some (acts, some (fromCtx, i', m), r) =>
      (match bcfgs[i']? with
      | some ov => (parseChain bcfgs ccfgs fuel (nextCfg b ov fromCtx) m r).map (fun rest => (b, acts) :: rest)
      | none => none)
    | _ => none

def parseTree (bcfgs : List BCase) (ccfgs : List ContainerConfig) (s : String) : Option (List (BCase × List Act)) :=
  match s.splitOn "," with
  | "B" :: i :: n :: r =>
    (match i.toNat?, n.toNat? with
    | some i, some n => (bcfgs[i]?).bind (fun b => parseChain bcfgs ccfgs (r.length + 2) b n r)
    | _, _ => none)
  | _ => none

def parseFixture (s : String) : Option (List (Bytes × Bytes)) :=
  allSome ((lst s ",").map (fun kv => match kv.splitOn "=" with
    | [k, v] => (match hexDecode k, hexDecode v with | some k, some v => some (k, v) | _, _ => none)
    | _ => none))

inductive Inj | none | failAt (k : Nat) | packGone (j : Nat) | dockerGone (j : Nat)
  /-- a fault script (`Model/TestRunnerFaults`): any number of failing commands, selected by kind and position / container -/
  | script (rules : List FRule)

/-- `1`..`255` or `sig` -/
def isFailStatus (st : String) : Bool :=
  st == "sig" || (match st.toNat? with | some n => decide (0 < n ∧ n < 256) | Option.none => false)

def parseFKind (s : String) : Option FKind :=
  if s = "pb" then some .packBuild else if s = "sb" then some .sbom else if s = "rd" then some .runDetached
  else if s = "rr" then some .runAttached else if s = "ln" then some .logsNow else if s = "lf" then some .logsFollow
  else if s = "lg" then some .logs else if s = "ex" then some .exec else if s = "po" then some .port
  else if s = "rm" then some .rm else if s = "ri" then some .rmi else if s = "vr" then some .volRm
  else if s = "nr" then some .notRm else if s = "any" then some .any else Option.none

def posNat (s : String) : Option Nat := s.toNat?.bind (fun k => if k = 0 then Option.none else some k)

def parseFSel (s : String) : Option FSel :=
  match s.toList with
  | ['a'] => some .all
  | 'g' :: r => (posNat (String.ofList r)).map .atIdx
  | 'f' :: r => (posNat (String.ofList r)).map .fromIdx
  | 'c' :: r => (posNat (String.ofList r)).map .ctr
  | _ => Option.none

/-- `<kind>.<selector>[.<exit status>|.sig]` — the model does not look at the status -/
def parseFRule (s : String) : Option FRule :=
  match s.splitOn "." with
  | [k, sel] => (match parseFKind k, parseFSel sel with | some k, some sel => some ⟨k, sel⟩ | _, _ => Option.none)
  | [k, sel, st] =>
    if isFailStatus st then (match parseFKind k, parseFSel sel with | some k, some sel => some ⟨k, sel⟩ | _, _ => Option.none)
    else Option.none
  | _ => Option.none

/-- `z:<k>[:<exit status>|:sig]`: the model does not look at the status — any unsuccessful exit is `nonzero` -/
def parseInjBase (s : String) : Option Inj :=
  if s = "-" then some .none
  else match s.splitOn ":" with
    | ["z", k] => k.toNat?.bind (fun k => if k = 0 then Option.none else some (.failAt k))
    | ["z", k, st] =>
      if st == "sig" || (match st.toNat? with | some n => decide (0 < n ∧ n < 256) | none => false) then
        k.toNat?.bind (fun k => if k = 0 then Option.none else some (.failAt k))
      else Option.none
    | ["nfp", j] => j.toNat?.bind (fun j => if j = 0 then Option.none else some (.packGone j))
    | ["nfd", j] => j.toNat?.bind (fun j => if j = 0 then Option.none else some (.dockerGone j))
    | ["f", rules] => (allSome ((rules.splitOn "+").map parseFRule)).map .script
    | _ => Option.none

/-- One rule of an output script (C16): `<kind>.<selector>.<stream><pattern><shift>.<size>` — which invocations print how many
generated bytes of which pattern on which stream (`harness/src/lct/mod.rs`, `OutRule`). Only checked for well-formedness:
what a command prints is not an input of the model (`Model/TestRunner.Oracle` answers with a `Failure` or nothing), so the
model's command sequence is the same for every output script by construction. -/
def validOutRule (s : String) : Bool :=
  match s.splitOn "." with
  | [k, sel, spec, size] =>
    (parseFKind k).isSome && (parseFSel sel).isSome &&
    (match spec.toList with
     | [st, pat, sh] => ['o', 'e', 'b'].contains st && ['a', '2', '3', '4', 'm', 'i'].contains pat && ['0', '1', '2', '3'].contains sh
     | _ => false) &&
    (match size.toNat? with
     | some n => decide (n ≤ 4194304) && size.length ≤ 7 && (size.length = 1 || !size.startsWith "0") && size.all Char.isDigit
     | Option.none => false)
  | _ => false

/-- `<injection>[@<flavour>]`; the flavour (0..3) selects what the stand-in tools print. Only flavour 3 matters to the
model: `docker port` then prints two lines, which `address_for_port` cannot parse — it panics after the command -/
def parseInjFlavour (s : String) : Option (Inj × Nat) :=
  match s.splitOn "@" with
  | [b] => (parseInjBase b).map (fun i => (i, 0))
  | [b, f] => (match parseInjBase b, f.toNat? with
    | some i, some f => if f ≤ 3 then some (i, f) else Option.none
    | _, _ => Option.none)
  | _ => Option.none

/-- `<injection>[@<flavour>][~<output script>]`: the output script (rules joined by `+`) must be well-formed and is otherwise
ignored — outputs do not reach the model -/
def parseInj (s : String) : Option (Inj × Nat) :=
  match s.splitOn "~" with
  | [x] => parseInjFlavour x
  | [x, o] => if (o.splitOn "+").all validOutRule then parseInjFlavour x else Option.none
  | _ => Option.none

/-- the stand-ins: the k-th *logged* command exits non-zero; or a tool disappears before its j-th invocation -/
def oracleOf : Inj → Oracle
  | .none => fun _ _ _ => Option.none
  | .failAt k => fun i _ _ => if i + 1 = k then some .nonzero else Option.none
  | .packGone j => fun _ c n => if c.prog = .pack ∧ n + 1 ≥ j then some .notFound else Option.none
  | .dockerGone j => fun _ c n => if c.prog = .docker ∧ n + 1 ≥ j then some .notFound else Option.none
  | .script rules => faultOracle rules

/-- with an unparsable `docker port` output every look-up of an exposed port is "the command, then a panic" -/
def unparsablePort : Act → Act
  | .startContainer cfg cas =>
    .startContainer cfg (cas.flatMap (fun ca => match ca with
      | .port p => if cfg.exposedPorts.contains p then [.port p, .panic] else [.port p]
      | x => [x]))
  | a => a

structure Case where
  fixture : List (Bytes × Bytes)
  chain : List (BCase × List Act)
  inj : Inj

def parseCase (fields : List String) : Option Case :=
  match fields with
  | [fx, bc, cc, tree, inj] =>
    match parseFixture fx, allSome ((lst bc "|").map parseBCfg), allSome ((lst cc "|").map parseCCfg), parseInj inj with
    | some fx, some bcfgs, some ccfgs, some (inj, flavour) =>
      (parseTree bcfgs ccfgs tree).map (fun ch =>
        ⟨fx, if flavour = 3 then ch.map (fun (b, acts) => (b, acts.map unparsablePort)) else ch, inj⟩)
    | _, _, _, _ => none
  | _ => none

def Case.scenario (c : Case) : Scenario := c.chain.map (fun (b, acts) => ⟨b.cfg, acts⟩)

/-! ### rendering -/

structure Ren where
  names : List Nat := []
  dirs : List Nat := []

def natDec (n : Nat) : Bytes := (toString n).toUTF8.toList.map (·.toNat)

def indexOf (l : List Nat) (x : Nat) : Option Nat :=
  let rec go : List Nat → Nat → Option Nat
    | [], _ => none
    | y :: r, i => if y = x then some i else go r (i + 1)
  go l 0

def renderWord : Word → Ren → Bytes × Ren
  | [], st => ([], st)
  | [b], st => (if b = 3000 then w!"$M" else if b = 3001 then w!"$A" else [b], st)
  | b :: k :: r, st =>
    if b = 1000 then
      let (piece, st) : Bytes × Ren :=
        match indexOf st.names k with
        | some i => (w!"$N" ++ natDec (i + 1), st)
        | none => (w!"$N" ++ natDec (st.names.length + 1), { st with names := st.names ++ [k] })
      let (rest, st) := renderWord r st
      (piece ++ rest, st)
    else if b = 2000 then
      let (piece, st) : Bytes × Ren :=
        match indexOf st.dirs k with
        | some i => (w!"$D" ++ natDec (i + 1), st)
        | none => (w!"$D" ++ natDec (st.dirs.length + 1), { st with dirs := st.dirs ++ [k] })
      let (rest, st) := renderWord r st
      (piece ++ rest, st)
    else
      let piece : Bytes := if b = 3000 then w!"$M" else if b = 3001 then w!"$A" else [b]
      let (rest, st) := renderWord (k :: r) st
      (piece ++ rest, st)
termination_by w => w.length

def renderWords : List Word → Ren → List String × Ren
  | [], st => ([], st)
  | w :: r, st =>
    let (b, st) := renderWord w st
    let (rest, st) := renderWords r st
    (("h" ++ hexEncode b) :: rest, st)

def renderLog : List Entry → Ren → List String
  | [], _ => []
  | e :: r, st =>
    if e.res = .notFound then renderLog r st
    else
      let (ws, st) := renderWords e.cmd.toCmd.args st
      let p := match e.cmd.prog with | .docker => "d" | .pack => "p"
      String.intercalate "," (p :: ws) :: renderLog r st

def applyEdits (fx : List (Bytes × Bytes)) : List Edit → List (Bytes × Bytes)
  | [] => fx
  | .write p c :: r => applyEdits ((fx.filter (fun kv => kv.1 != p)) ++ [(p, c)]) r
  | .delete p :: r => applyEdits (fx.filter (fun kv => kv.1 != p)) r
  | .remove p :: r => applyEdits (fx.filter (fun kv => kv.1 != p)) r
  | .append p c :: r =>
    let old := match fx.find? (fun kv => kv.1 == p) with | some kv => kv.2 | none => []
    applyEdits ((fx.filter (fun kv => kv.1 != p)) ++ [(p, old ++ c)]) r
  | .rename a b :: r =>
    match fx.find? (fun kv => kv.1 == a) with
    | some kv => applyEdits ((fx.filter (fun kv => kv.1 != a && kv.1 != b)) ++ [(b, kv.2)]) r
    | none => applyEdits fx r

def renderSnap (fx : List (Bytes × Bytes)) : String :=
  if fx.isEmpty then "empty"
  else String.intercalate "+" ((sortBy (fun a b => bytesLt a.1 b.1) fx).map (fun kv => hexEncode kv.1 ++ ":" ++ hexEncode kv.2))

/-- what the `--path` directory of a build must contain when pack looks at it -/
def snapOf (fx : List (Bytes × Bytes)) (b : BCase) : String :=
  match b.edits with
  | none => renderSnap fx
  | some es => renderSnap (applyEdits fx es)

def isPackBuild (e : Entry) : Bool := match e.cmd with | .packBuild _ => true | _ => false

/-- snapshots recorded by the pack stand-in: one per `pack build` that was actually executed -/
def modelSnaps (c : Case) (log : List Entry) : List String :=
  let builds := log.filter isPackBuild
  (builds.zip (c.chain.map (·.1))).filterMap (fun (e, b) => if e.res = .notFound then none else some (snapOf c.fixture b))

def dash (l : List String) (sep : String) : String := if l.isEmpty then "-" else String.intercalate sep l

def renderRun (c : Case) (r : Outcome × St) : String :=
  let exit := match r.1 with | .ok => "ok" | .panicked => "panic" | .aborted => "abort"
  "exit=" ++ exit ++ " log=" ++ dash (renderLog r.2.log {}) ";" ++ " tmp=" ++ toString r.2.guards.length
    ++ " fixture=same snaps=" ++ dash (modelSnaps c r.2.log) "/"

/-! ### decoding an observation -/

structure Obs where
  exit : String
  log : List (Prog × List Bytes)
  tmp : Nat
  fixtureSame : Bool
  snaps : List String

def parseCmd (s : String) : Option (Prog × List Bytes) :=
  match s.splitOn "," with
  | p :: ws =>
    let prog : Option Prog := if p = "d" then some .docker else if p = "p" then some .pack else none
    match prog, allSome (ws.map hexArg) with
    | some prog, some ws => some (prog, ws)
    | _, _ => none
  | [] => none

def parseObs (s : String) : Option Obs :=
  match s.splitOn " " with
  | [e, l, t, f, sn] =>
    match dropPrefixS e "exit=", dropPrefixS l "log=", dropPrefixS t "tmp=", dropPrefixS f "fixture=", dropPrefixS sn "snaps=" with
    | some e, some l, some t, some f, some sn =>
      (match allSome ((lst l ";").map parseCmd), t.toNat? with
      | some log, some tmp => some ⟨e, log, tmp, f = "same", lst sn "/"⟩
      | _, _ => none)
    | _, _, _, _, _ => none
  | _ => none
where
  dropPrefixS (s p : String) : Option String :=
    if s.startsWith p then some ((s.drop p.length).toString) else none

end CnbVerif.TestRunnerIO
