import CnbVerif.Spec.LayerSpec
import CnbVerif.Driver.C03
/-! Driver glue for C01: parse a history, run the model from the empty layers directory, judge the
implementation's per-step observations (reported state, callback log, snapshot) with `Spec.stepOk`. -/
namespace CnbVerif.DriverC01
open CnbVerif Spec DriverC04 DriverC03

def optInt (s : String) : Option (Option Int) := if s = "~" then some none else s.toInt?.map some

def parseMeta (s : String) : Option MetaTbl :=
  match s.splitOn "_" with
  | [v, w] => match optInt v, optInt w with
    | some v, some w => some ⟨v, w⟩
    | _, _ => none
  | _ => none

def bit (c : Char) : Option Bool := if c = '1' then some true else if c = '0' then some false else none

def parseCi (s : String) : Option CbInv :=
  match s.toList with
  | 'f' :: [] => some .fail
  | 'd' :: r => (String.ofList r).toNat?.map CbInv.delete
  | 'r' :: r =>
    match (String.ofList r).splitOn "_" with
    | [v, w, c] => match optInt v, optInt w, c.toNat? with
      | some v, some w, some c => some (.replace ⟨v, w⟩ c)
      | _, _, _ => none
    | _ => none
  | _ => none

def parseCr (s : String) : Option CbRes :=
  match s.toList with
  | 'f' :: [] => some .fail
  | 'k' :: r => (String.ofList r).toNat?.map CbRes.keep
  | 'd' :: r => (String.ofList r).toNat?.map CbRes.delete
  | _ => none

def parseOp (s : String) : Option Op :=
  match s.splitOn "." with
  | ["R"] => some .restore
  | ["B", n] => (hexDecode n).map Op.breakToml
  | ["C", n, bl, mt, ci, cr] =>
    match hexDecode n, bl.toList, parseCi ci, parseCr cr with
    | some n, [b, l], some ci, some cr =>
      match bit b, bit l, (if mt = "G" then some MetaT.generic else if mt = "V" then some MetaT.versioned else none) with
      | some b, some l, some mt => some (.cached n b l mt ci cr)
      | _, _, _ => none
    | _, _, _, _ => none
  | ["U", n, bl] =>
    match hexDecode n, bl.toList with
    | some n, [b, l] => match bit b, bit l with
      | some b, some l => some (.uncached n b l)
      | _, _ => none
    | _, _ => none
  | ["M", n, m] => match hexDecode n, parseMeta m with
    | some n, some m => some (.wmeta n m)
    | _, _ => none
  | ["N", n] => (hexDecode n).map Op.wmetaBad
  | ["E", n, ins] => match hexDecode n, parseInsList ins with
    | some n, some ins => some (.wenv n ins)
    | _, _ => none
  | ["S", n, sb] =>
    match hexDecode n, allSome ((splitList sb "+").map (fun x => match x.splitOn "=" with
        | [i, h] => match i.toNat?, hexDecode h with
          | some i, some h => some (i, h)
          | _, _ => none
        | _ => none)) with
    | some n, some sb => some (.wsbom n sb)
    | _, _ => none
  | ["X", n, ps] =>
    match hexDecode n, allSome ((splitList ps "+").map (fun x => match x.splitOn "=" with
        | [k, h] => match hexDecode k with
          | some k => if h = "~" then some (k, none) else (hexDecode h).map (fun b => (k, some b))
          | none => none
        | _ => none)) with
    | some n, some ps => some (.wexecd n ps)
    | _, _ => none
  | ["F", n, fb] =>
    match hexDecode n, parsePair fb with
    | some n, some (f, b) => some (.wfile n f b)
    | _, _ => none
  | _ => none

def renderMeta : Option MetaTbl → String
  | none => "~"
  | some t => (match t.v with | some v => toString v | none => "~") ++ "_" ++ (match t.w with | some w => toString w | none => "~")

def renderOut : Out → String
  | .restored c => "restored:" ++ toString c
  | .emptyNew => "empty:new"
  | .emptyInv c => "empty:inv:" ++ toString c
  | .emptyRes c => "empty:res:" ++ toString c
  | .err .buildpack => "err:buildpack" | .err .genericMeta => "err:genericMeta" | .err .io => "err:io"
  | .err .missingLayer => "err:missingLayer" | .err .missingExecd => "err:missingExecd"
  | .err .metaFile => "err:metaFile" | .err .diverge => "err:diverge"
  | .ok => "ok" | .noref => "noref"

def parseOut (s : String) : Option Out :=
  match s.splitOn ":" with
  | ["restored", c] => c.toNat?.map Out.restored
  | ["empty", "new"] => some .emptyNew
  | ["empty", "inv", c] => c.toNat?.map Out.emptyInv
  | ["empty", "res", c] => c.toNat?.map Out.emptyRes
  | ["err", "buildpack"] => some (.err .buildpack) | ["err", "genericMeta"] => some (.err .genericMeta)
  | ["err", "io"] => some (.err .io) | ["err", "missingLayer"] => some (.err .missingLayer)
  | ["err", "missingExecd"] => some (.err .missingExecd) | ["err", "metaFile"] => some (.err .metaFile)
  | ["ok"] => some .ok | ["noref"] => some .noref
  | _ => none

def renderCall : CbCall → String
  | .inv m => "I" ++ renderMeta m
  | .res m => "R" ++ renderMeta m

def parseCall (s : String) : Option CbCall :=
  match s.toList with
  | 'I' :: r => if String.ofList r = "~" then some (.inv none) else (parseMeta (String.ofList r)).map (fun m => .inv (some m))
  | 'R' :: r => if String.ofList r = "~" then some (.res none) else (parseMeta (String.ofList r)).map (fun m => .res (some m))
  | _ => none

def renderToml : Option Toml → String
  | none => "~"
  | some .broken => "B"
  | some (.doc t m) =>
    (match t with
      | none => "~"
      | some t => (if t.launch then "1" else "0") ++ (if t.build then "1" else "0") ++ (if t.cache then "1" else "0"))
    ++ "/" ++ renderMeta m

def parseToml (s : String) : Option (Option Toml) :=
  if s = "~" then some none else if s = "B" then some (some .broken) else
  match s.splitOn "/" with
  | [t, m] =>
    let types : Option (Option LTypes) :=
      if t = "~" then some none else match t.toList with
        | [a, b, c] => match bit a, bit b, bit c with
          | some a, some b, some c => some (some ⟨a, b, c⟩)
          | _, _, _ => none
        | _ => none
    let mdata : Option (Option MetaTbl) := if m = "~" then some none else (parseMeta m).map some
    match types, mdata with
    | some t, some m => some (some (.doc t m))
    | _, _ => none
  | _ => none

def renderSboms (sb : List (Nat × Bytes)) : String :=
  joinWith "+" ((sortBy (fun a b => a.1 < b.1) sb).map (fun (i, b) => toString i ++ "=" ++ hexEncode b))

def renderDirOpt : Option Dir → String
  | none => "~"
  | some d => renderSnap d

def renderStore (names : List Bytes) (s : Store) : String :=
  joinWith "&" ((sortBy bytesLt names).filterMap (fun n =>
    let l := s.get n
    if l.dir.isNone && l.toml.isNone && l.sboms.isEmpty then none
    else some (hexEncode n ++ ":" ++ renderDirOpt l.dir ++ ":" ++ renderToml l.toml ++ ":" ++ renderSboms l.sboms)))

/-- rebuild a directory tree from sorted snapshot lines (`D a/b` before its children, files after) -/
partial def insertAt (d : Dir) (path : List Bytes) (leaf : Node) : Dir :=
  match path with
  | [] => d
  | [k] => d ++ [(k, leaf)]
  | k :: rest => d.map (fun (kv : Bytes × Node) =>
      if kv.1 = k then match kv.2 with
        | .dir es => (kv.1, Node.dir (insertAt es rest leaf))
        | y => (kv.1, y)
      else kv)

def parseDirSnap (s : String) : Option (Option Dir) :=
  if s = "~" then some none else
  let lines := splitList s ","
  let step (acc : Option Dir) (line : String) : Option Dir :=
    match acc with
    | none => none
    | some d =>
      match line.splitOn " " with
      | ["D", p] => (allSome ((p.splitOn "/").map hexDecode)).map (fun p => insertAt d p (.dir []))
      | ["F", p, c] => match allSome ((p.splitOn "/").map hexDecode), hexDecode c with
        | some p, some c => some (insertAt d p (.file c))
        | _, _ => none
      | ["F", p] => (allSome ((p.splitOn "/").map hexDecode)).map (fun p => insertAt d p (.file []))
      | ["L", p] => (allSome ((p.splitOn "/").map hexDecode)).map (fun p => insertAt d p (.link .dangling))
      -- a symlink with what it leads to (C02's snapshots): D = a directory, F = a file, x = nothing
      | ["L", p, k] =>
        match allSome ((p.splitOn "/").map hexDecode),
            (if k = "D" then some LinkKind.toDir else if k = "F" then some LinkKind.toFile else if k = "x" then some LinkKind.dangling else none) with
        | some p, some k => some (insertAt d p (.link k))
        | _, _ => none
      | _ => none
  (lines.foldl step (some [])).map some

def parseStore (s : String) : Option Store :=
  allSome ((splitList s "&").map (fun part =>
    match part.splitOn ":" with
    | [n, d, t, sb] =>
      match hexDecode n, parseDirSnap d, parseToml t,
          allSome ((splitList sb "+").map (fun x => match x.splitOn "=" with
            | [i, h] => match i.toNat?, hexDecode h with
              | some i, some h => some (i, h)
              | _, _ => none
            | _ => none)) with
      | some n, some d, some t, some sb => some (n, ({ dir := d, toml := t, sboms := sb } : Layer))
      | _, _, _, _ => none
    | _ => none))

def runModel (names : List Bytes) (ops : List Op) : List String :=
  (ops.foldl (fun (acc : St × List String) op =>
    let r := step acc.1 op
    (r.1, acc.2 ++ [renderOut r.2.1 ++ "|" ++ joinWith "," (r.2.2.map renderCall) ++ "|" ++ renderStore names r.1.store]))
    (({} : St), [])).2

def judge (names : List Bytes) (ops : List Op) (obsSteps : List String) : String :=
  if obsSteps.length ≠ ops.length then "fail:number of observed steps differs from the history" else
  let rec go (i : Nat) (pre : Store) (rest : List (Op × String)) : String :=
    match rest with
    | [] => "ok"
    | (op, o) :: more =>
      match o.splitOn "|" with
      | [outS, logS, snapS] =>
        match parseOut outS, allSome ((splitList logS ",").map parseCall), parseStore snapS with
        | some out, some log, some post =>
          if stepOk names pre op out log post then go (i + 1) post more
          else "fail:step " ++ toString i ++ " (" ++ outS ++ ") violates the layer state machine"
        | _, _, _ => "fail:step " ++ toString i ++ " unparsable observation (unexpected entries in the layers directory?)"
      | _ => "fail:step " ++ toString i ++ " unparsable observation"
  go 0 [] (ops.zip obsSteps)

def handle (fields : List String) (obs : String) : String × String :=
  match fields with
  | [namesS, opsS] =>
    match parseNames namesS, allSome ((splitList opsS ";").map parseOp) with
    | some names, some ops =>
      (String.intercalate ";" (runModel names ops), judge names ops (obs.splitOn ";"))
    | _, _ => ("bad-op", "bad-op")
  | _ => ("bad-op", "bad-op")

end CnbVerif.DriverC01
