import CnbVerif.Model.FsProgOps
import CnbVerif.Spec.FaultReport
/-!
Driver glue for C12. Case fields: `op  state  k  errno`.

* `k = ff` (trace case): the model runs the operation's program without a fault on the prepared state and answers
  `result | set of libc-level calls | prepared state | final state` in the harness's canonical form.
* otherwise (fault case): the observation names the real call that was failed as `class:path:fault-free result` plus
  the number `occ` of earlier std calls with the same key (taken from the real trace, so call order is never compared).
  The model locates the `occ`-th primitive call of its own fault-free run that issues such a libc call, fails it with
  the errno and answers `err`, `ok:same` or `ok:diff` (final state against its fault-free final state, incl. directory modes). The spec judges the observation by the property itself.
-/
namespace CnbVerif.DriverC12
open CnbVerif CnbVerif.FsProg

def hexOfString (s : String) : String := hexEncode (strBytes s)

def typesStr : Option LTypes → String
  | none => "~"
  | some t => (if t.launch then "1" else "0") ++ (if t.build then "1" else "0") ++ (if t.cache then "1" else "0")

def optInt : Option Int → String
  | none => "~"
  | some i => toString i

def metaStr : Option MetaTbl → String
  | none => "~"
  | some m => optInt m.v ++ "_" ++ optInt m.w

def contentToken : Content → String
  | .raw s => "raw:" ++ hexOfString s
  | .ltoml (.doc t m) => "lt:" ++ typesStr t ++ "/" ++ metaStr m
  | .ltoml .broken => "lt:B"
  | .doc n => "doc:" ++ n

/-- canonical snapshot; `modes` adds the directory permission bits (compared only between two model states) -/
def renderFS (fs : FS) (modes : Bool := false) : String :=
  joinWith "," (sortBy (fun a b => decide (a < b)) (fs.map (fun e => match e.2 with
    | .dir m => "D " ++ pathStr e.1 ++ (if modes then " " ++ toString m else "")
    | .file c => "F " ++ pathStr e.1 ++ " " ++ contentToken c)))

def dedupSorted : List String → List String
  | a :: b :: rest => if a = b then dedupSorted (b :: rest) else a :: dedupSorted (b :: rest)
  | l => l

def callKey (c : LibcCall) : String := c.1 ++ ":" ++ c.2.1 ++ ":" ++ c.2.2

def callSet (log : List (Ev FS)) : String :=
  joinWith "," (dedupSorted (sortBy (fun a b => decide (a < b)) (log.flatMap (fun ev => (libcCalls ev.prim ev.pre).map callKey))))

def parseErrno (s : String) : Option Errno :=
  if s = "EIO" then some .eio else if s = "EACCES" then some .eacces else if s = "ENOSPC" then some .enospc
  else if s = "ENOENT" then some .enoent else none

/-- positions of the model's fault-free run whose primitive issues the given libc call, in order -/
def positionsOf (log : List (Ev FS)) (key : String) : List Nat :=
  (List.range log.length).filter (fun j => match log[j]? with
    | some ev => ((libcCalls ev.prim ev.pre).map callKey).contains key
    | none => false)

def predict (prog : Prog) (fs : FS) (ffFinal : String) (j : Nat) (e : Errno) : String :=
  let r := exec fsSem (some (j, e)) prog fs
  if !r.out.isOk then "err" else if renderFS r.st true = ffFinal then "ok:same" else "ok:diff"

/-! ### further prepared states and operations

The same program constructors of `Model/FsProg.lean` with other parameters (mirrored by `prepare` / `run` of
`harness/src/bin/c12op.rs`): layers whose loops run several times (several files per env directory, two process
directories, several exec.d programs, all three SBOM formats / only the middle one), many entries, empty contents. -/

def pad2 (i : Nat) : String := (if i < 10 then "0" else "") ++ toString i

def richBody : FS :=
  [dir (L ["x", "env"]), file (L ["x", "env", "FOO.append"]) "a", file (L ["x", "env", "FOO.delim"]) ":",
   file (L ["x", "env", "ZED.override"]) "z",
   dir (L ["x", "env.build"]), file (L ["x", "env.build", "BAR.default"]) "b", file (L ["x", "env.build", "BAR2.prepend"]) "b2",
   dir (L ["x", "env.launch"]), file (L ["x", "env.launch", "BAZ.override"]) "c", file (L ["x", "env.launch", "BAZ2.append"]) "c2",
   dir (L ["x", "env.launch", "web"]), file (L ["x", "env.launch", "web", "QUX.prepend"]) "d",
   file (L ["x", "env.launch", "web", "QUX2.append"]) "d2",
   dir (L ["x", "env.launch", "worker"]), file (L ["x", "env.launch", "worker", "W.override"]) "w",
   file (L ["x", "env.launch", "worker", "W2.default"]) "w2",
   dir (L ["x", "exec.d"]), file (L ["x", "exec.d", "old1"]) "#!old1\n", file (L ["x", "exec.d", "old2"]) "#!old2\n",
   dir (L ["x", "bin"]), file (L ["x", "bin", "tool"]) "t",
   dir (L ["x", "data"]), file (L ["x", "data", "top"]) "t", dir (L ["x", "data", "inner"]),
   file (L ["x", "data", "inner", "file"]) "f", file (L ["x", "data", "inner", "file2"]) "g",
   file (L ["x.sbom.cdx.json"]) "{\"old\":1}", file (L ["x.sbom.spdx.json"]) "{\"old\":2}",
   file (L ["x.sbom.syft.json"]) "{\"old\":3}"]

def wideBody : FS :=
  [dir (L ["x", "env"])] ++ (List.range 21).map (fun i => file (L ["x", "env", "E" ++ pad2 i ++ ".append"]) ("e" ++ toString i)) ++
  (List.range 33).map (fun i => file (L ["x", "f" ++ pad2 i]) (toString i)) ++
  [dir (L ["x", "exec.d"])] ++ (List.range 17).map (fun i => file (L ["x", "exec.d", "p" ++ pad2 i]) ("#!" ++ toString i)) ++
  [file (L ["x.sbom.cdx.json"]) "{\"old\":1}"]

def preparedX : String → Option FS
  | "spdx" => some [dir (L []), dir (L ["x"]), (L ["x.toml"], .file tomlRestored), file (L ["x.sbom.spdx.json"]) "{\"old\":2}"]
  | "rich" => some ([dir (L []), dir (L ["x"]), (L ["x.toml"], .file tomlRestored)] ++ richBody)
  | "richinv" => some ([dir (L []), dir (L ["x"]), (L ["x.toml"], .file tomlInvalid)] ++ richBody)
  | "wide" => some ([dir (L []), dir (L ["x"]), (L ["x.toml"], .file tomlRestored)] ++ wideBody)
  | "emptyvals" => some [dir (L []), dir (L ["x"]), (L ["x.toml"], .file tomlRestored), dir (L ["x", "env"]),
      file (L ["x", "env", "EMPTY.append"]) "", file (L ["x", "env", "FULL.append"]) "v", file (L ["x.sbom.cdx.json"]) ""]
  | s => prepared s

/-- `env2()` of c12op.rs: several entries in every scope, two process types -/
def env2 : EnvSpec :=
  { all := [("FOO.append", "a2"), ("FOO.delim", ":"), ("ZED.override", "z2")],
    build := [("BAR.default", "b2"), ("BAR2.prepend", "b3")],
    launch := [("BAZ.override", "c2"), ("BAZ2.append", "c3")],
    procs := [("web", [("QUX.prepend", "d2"), ("QUX2.append", "d3")]), ("worker", [("W.override", "w2")])] }

def sbomNew3 : String × String := ("syft.json", "{\"new\":3}")
def progs3 : List (String × String) := [progSrc, ("prog2", "#!2\n"), ("prog3", "#!3\n")]
def createdM : LayerResultSpec := ⟨mv 3, env2, [sbomNew1, sbomNew2, sbomNew3], progs3⟩
def updatedM : LayerResultSpec := ⟨mv 4, env2, [sbomNew1, sbomNew2, sbomNew3], progs3⟩

def opProgX : String → Option Prog
  | "wenv-multi" => some (FsProg.writeToLayerDir (FsProg.layerDir lx) env2 unit)
  | "wenv-emptyval" => some (FsProg.writeToLayerDir (FsProg.layerDir lx) { all := [("EMPTY.append", "")], launch := [("FULL.override", "v")] } unit)
  | "wsbom-all" => some (FsProg.replaceSboms lx [sbomNew1, sbomNew2, sbomNew3] unit)
  | "wsbom-spdx" => some (FsProg.replaceSboms lx [sbomNew2] unit)
  | "wsbom-empty" => some (FsProg.replaceSboms lx [("cdx.json", ""), sbomNew3] unit)
  | "wexecd-multi" => some (FsProg.replaceExecd lx progs3 unit)
  | "t-recreate-multi" => some (FsProg.tHandle lx typesAll .recreate .recreate createdM updatedM 3)
  | "t-update-multi" => some (FsProg.tHandle lx typesAll .update .recreate createdM updatedM 3)
  | "build-sboms" => some (FsProg.buildWrites true true
      [("cdx.json", "{\"tbp-sbom\":2}"), ("spdx.json", "{\"tbp-sbom\":3}"), ("syft.json", "{\"tbp-sbom\":4}")]
      [("cdx.json", "{\"tbp-sbom\":5}"), ("spdx.json", "{\"tbp-sbom\":6}"), ("syft.json", "{\"tbp-sbom\":7}")])
  | s => opProg s

def handle (fields : List String) (obs : String) : String × String :=
  match fields with
  | [op, state, k, errno] =>
    match opProgX op, preparedX state with
    | some prog, some fs0 =>
      -- the unfaulted prelude of the LayerRef writes
      let start : Option FS := match opPrelude op with
        | none => some fs0
        | some pre => let r := exec fsSem none pre fs0; if r.out.isOk then some r.st else none
      match start with
      | none => ("bad-op", "bad-op")
      | some fs1 =>
        let ff := exec fsSem none prog fs1
        if k = "ff" then
          if errno != "-" then ("bad-op", "bad-op") else
          ((if ff.out.isOk then "ok" else "err") ++ "|" ++ callSet ff.log ++ "|" ++ renderFS fs0 ++ "|" ++ renderFS ff.st, "ok")
        else
          match k.toNat?, parseErrno errno, obs.splitOn "|" with
          | some _, some e, [seen, key, occ] =>
            -- the occ-th model call that issues this libc call (occ counted by the harness over the real trace)
            let model :=
              match occ.toNat?.bind (fun i => (positionsOf ff.log key)[i]?) with
              | none => "unknown-call|" ++ key ++ "|" ++ occ
              | some j => predict prog fs1 (renderFS ff.st true) j e ++ "|" ++ key ++ "|" ++ occ
            let verdict :=
              match Spec.Fault.Seen.ofString seen, key.splitOn ":" with
              | some s, cls :: _ => Spec.Fault.verdict errno cls s
              | _, _ => "fail:unparsable-observation " ++ seen
            (model, verdict)
          | _, _, _ => ("bad-op", "bad-op")
    | _, _ => ("bad-op", "bad-op")
  | _ => ("bad-op", "bad-op")

end CnbVerif.DriverC12
