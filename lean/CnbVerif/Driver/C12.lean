import CnbVerif.Model.FsProgOps
import CnbVerif.Spec.FaultReport
/-!
Driver glue for C12. Case fields: `op  state  k  errno`.

* `k = ff` (trace case): the model runs the operation's program without a fault on the prepared state and answers
  `result | set of libc-level calls | prepared state | final state` in the harness's canonical form.
* otherwise (fault case): the observation names the real call that was failed as `class:path:fault-free result` plus
  the number `occ` of earlier std calls with the same key (taken from the real trace, so call order is never compared).
  The model locates the `occ`-th primitive call of its own fault-free run that issues such a libc call, fails it with
  the errno and answers `err`, `ok:same` or `ok:diff` (final state against its fault-free final state, incl. directory modes). The spec judges the observation by the property itself.
-/
namespace CnbVerif.DriverC12
open CnbVerif CnbVerif.FsProg

def hexOfString (s : String) : String := hexEncode (strBytes s)

def typesStr : Option LTypes → String
  | none => "~"
  | some t => (if t.launch then "1" else "0") ++ (if t.build then "1" else "0") ++ (if t.cache then "1" else "0")

def optInt : Option Int → String
  | none => "~"
  | some i => toString i

def metaStr : Option MetaTbl → String
  | none => "~"
  | some m => optInt m.v ++ "_" ++ optInt m.w

def contentToken : Content → String
  | .raw s => "raw:" ++ hexOfString s
  | .ltoml (.doc t m) => "lt:" ++ typesStr t ++ "/" ++ metaStr m
  | .ltoml .broken => "lt:B"
  | .doc n => "doc:" ++ n

/-- canonical snapshot; `modes` adds the directory permission bits (compared only between two model states) -/
def renderFS (fs : FS) (modes : Bool := false) : String :=
  joinWith "," (sortBy (fun a b => decide (a < b)) (fs.map (fun e => match e.2 with
    | .dir m => "D " ++ pathStr e.1 ++ (if modes then " " ++ toString m else "")
    | .file c => "F " ++ pathStr e.1 ++ " " ++ contentToken c)))

def dedupSorted : List String → List String
  | a :: b :: rest => if a = b then dedupSorted (b :: rest) else a :: dedupSorted (b :: rest)
  | l => l

def callKey (c : LibcCall) : String := c.1 ++ ":" ++ c.2.1 ++ ":" ++ c.2.2

def callSet (log : List (Ev FS)) : String :=
  joinWith "," (dedupSorted (sortBy (fun a b => decide (a < b)) (log.flatMap (fun ev => (libcCalls ev.prim ev.pre).map callKey))))

def parseErrno (s : String) : Option Errno :=
  if s = "EIO" then some .eio else if s = "EACCES" then some .eacces else if s = "ENOSPC" then some .enospc
  else if s = "ENOENT" then some .enoent else none

/-- positions of the model's fault-free run whose primitive issues the given libc call, in order -/
def positionsOf (log : List (Ev FS)) (key : String) : List Nat :=
  (List.range log.length).filter (fun j => match log[j]? with
    | some ev => ((libcCalls ev.prim ev.pre).map callKey).contains key
    | none => false)

def predict (prog : Prog) (fs : FS) (ffFinal : String) (j : Nat) (e : Errno) : String :=
  let r := exec fsSem (some (j, e)) prog fs
  if !r.out.isOk then "err" else if renderFS r.st true = ffFinal then "ok:same" else "ok:diff"

def handle (fields : List String) (obs : String) : String × String :=
  match fields with
  | [op, state, k, errno] =>
    match opProg op, prepared state with
    | some prog, some fs0 =>
      -- the unfaulted prelude of the LayerRef writes
      let start : Option FS := match opPrelude op with
        | none => some fs0
        | some pre => let r := exec fsSem none pre fs0; if r.out.isOk then some r.st else none
      match start with
      | none => ("bad-op", "bad-op")
      | some fs1 =>
        let ff := exec fsSem none prog fs1
        if k = "ff" then
          if errno != "-" then ("bad-op", "bad-op") else
          ((if ff.out.isOk then "ok" else "err") ++ "|" ++ callSet ff.log ++ "|" ++ renderFS fs0 ++ "|" ++ renderFS ff.st, "ok")
        else
          match k.toNat?, parseErrno errno, obs.splitOn "|" with
          | some _, some e, [seen, key, occ] =>
            -- the occ-th model call that issues this libc call (occ counted by the harness over the real trace)
            let model :=
              match occ.toNat?.bind (fun i => (positionsOf ff.log key)[i]?) with
              | none => "unknown-call|" ++ key ++ "|" ++ occ
              | some j => predict prog fs1 (renderFS ff.st true) j e ++ "|" ++ key ++ "|" ++ occ
            let verdict :=
              match Spec.Fault.Seen.ofString seen, key.splitOn ":" with
              | some s, cls :: _ => Spec.Fault.verdict errno cls s
              | _, _ => "fail:unparsable-observation " ++ seen
            (model, verdict)
          | _, _, _ => ("bad-op", "bad-op")
    | _, _ => ("bad-op", "bad-op")
  | _ => ("bad-op", "bad-op")

end CnbVerif.DriverC12
