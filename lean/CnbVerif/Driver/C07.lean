import CnbVerif.Base.TomlWire
import CnbVerif.Model.Builders
import CnbVerif.Spec.Written
import CnbVerif.Gen.Schemas
/-!
Driver glue for C07. fields = [kind, kind-specific call sequence / value …]; the observation is
`<tree tomllib parsed from the bytes libcnb wrote>;rt=<1|0|->` (`rt`: libcnb's own reader returned the value written).
Family `launchseq` (`build()` inside the call sequence): one such observation per `build()`, joined by ` || `; every
document is judged on its own against the value the specification intends at that `build()`.
Family `layerfile` (layers through the public layer APIs): one such observation per distinct layer name in order of first use —
the file found at `<layers>/<name>.toml` — joined by ` || `, then ` ;; stray=<entries of the layers directory that belong to no
constructed layer|->`; `err:op<k>:<call>` when a layer API call failed.
-/
namespace CnbVerif.DriverC07
open CnbVerif CnbVerif.Codec CnbVerif.Cnb

/-- a string token: `x<hex>` -/
def pStr (s : String) : Option String := if s.startsWith "x" then hexStr (s.drop 1).toString else none
def pStrs (s : String) : Option (List String) := allSome ((splitList s ",").map pStr)
def pBool (s : String) : Option Bool := if s = "1" then some true else if s = "0" then some false else none

/-! both the model's call type and the specification's are filled from the same tokens, independently -/

def pProcOp (s : String) : Option (Builders.ProcOp × Spec.Written.PCall) :=
  match s.splitOn ":" with
  | ["a", v] => (pStr v).map (fun a => (.arg a, .arg a))
  | ["A", v] => (pStrs v).map (fun as => (.args as, .args as))
  | ["d", b] => (pBool b).map (fun b => (.dflt b, .dflt b))
  | ["w", "-"] => some (.wd none, .wd none)
  | ["w", v] => (pStr v).map (fun d => (.wd (some d), .wd (some d)))
  | _ => none

def pLaunchOp (s : String) : Option (Builders.LaunchOp × Spec.Written.LCall) :=
  match s.splitOn "~" with
  | ["P", t, c, ops] =>
    match pStr t, pStrs c, allSome ((splitList ops "/").map pProcOp) with
    | some t, some c, some ops => some (.process t c (ops.map (·.1)), .process t c (ops.map (·.2)))
    | _, _, _ => none
  | ["L", k, v] => match pStr k, pStr v with
    | some k, some v => some (.label k v, .label k v)
    | _, _ => none
  | ["S", ps] => (pStrs ps).map (fun ps => (.slice ps, .slice ps))
  | _ => none

/-! ### `launchseq`: `build()` anywhere in the call sequence (`B` between the launch calls, `b` between the calls of one
`ProcessBuilder`), the plural calls `Q` (processes) `M` (labels) `Z` (slices) -/

def pProcStep (s : String) : Option (Builders.SeqOp Builders.ProcOp × Spec.Written.Step Spec.Written.PCall) :=
  if s = "b" then some (.build, .build) else (pProcOp s).map (fun p => (.call p.1, .call p.2))

/-- `type~command~calls` of a process handed to `processes([..])` (no `build()` inside: its builder is built once) -/
def pProcTriple (s : String) : Option ((String × List String × List Builders.ProcOp) × (String × List String × List Spec.Written.PCall)) :=
  match s.splitOn "~" with
  | [t, c, ops] =>
    match pStr t, pStrs c, allSome ((splitList ops "/").map pProcOp) with
    | some t, some c, some ops => some ((t, c, ops.map (·.1)), (t, c, ops.map (·.2)))
    | _, _, _ => none
  | _ => none

def pLabelPair (s : String) : Option (String × String) :=
  match s.splitOn "~" with
  | [k, v] => match pStr k, pStr v with
    | some k, some v => some (k, v)
    | _, _ => none
  | _ => none

def pLaunchStep (s : String) : Option (Builders.SeqOp Builders.LaunchOpX × Spec.Written.Step Spec.Written.LCallX) :=
  if s = "B" then some (.build, .build) else
  if s.startsWith "Q~" then
    (allSome ((splitList (s.drop 2).toString ";").map pProcTriple)).map (fun ps => (.call (.processes (ps.map (·.1))), .call (.processes (ps.map (·.2)))))
  else if s.startsWith "M~" then
    (allSome ((splitList (s.drop 2).toString ";").map pLabelPair)).map (fun kvs => (.call (.labels kvs), .call (.labels kvs)))
  else if s.startsWith "Z~" then
    (allSome ((splitList (s.drop 2).toString ";").map pStrs)).map (fun pss => (.call (.slices pss), .call (.slices pss)))
  else
  match s.splitOn "~" with
  | ["P", t, c, ops] =>
    match pStr t, pStrs c, allSome ((splitList ops "/").map pProcStep) with
    | some t, some c, some ops => some (.call (.session t c (ops.map (·.1))), .call (.session t c (ops.map (·.2))))
    | _, _, _ => none
  | ["L", k, v] => match pStr k, pStr v with
    | some k, some v => some (.call (.label k v), .call (.label k v))
    | _, _ => none
  | ["S", ps] => (pStrs ps).map (fun ps => (.call (.slice ps), .call (.slice ps)))
  | _ => none

def pTable (s : String) : Option Table :=
  match parseTree s with
  | some (.tbl kvs) => some kvs
  | _ => none

def pPlanOp (s : String) : Option (Builders.PlanOp × Spec.Written.Call) :=
  match s.splitOn "~" with
  | ["p", n] => (pStr n).map (fun n => (.provides n, .provides n))
  | ["r", n, m] => match pStr n, pTable m with
    | some n, some m => some (.requires (Builders.requireWithMetadata n m), .requires ⟨n, m⟩)
    | _, _ => none
  | ["o"] => some (.or, .or)
  | "q" :: n :: ms => match pStr n, allSome (ms.map pTable) with
    | some n, some ms => some (.requires (Builders.requireSeq n ms), .requires (Spec.Written.intendedRequire n ms))
    | _, _ => none
  | _ => none

/-! ### `layerfile`: layers constructed through the public layer APIs, read at the layer's spec path -/

def pName (s : String) : Option Bytes :=
  if s.startsWith "x" then (hexDecode (s.drop 1).toString).bind (fun b => if b.isEmpty then none else some b) else none

def pLayerTypes (s : String) : Option LayerTypes :=
  match s.toList with
  | [l, b, c] => match pBool l.toString, pBool b.toString, pBool c.toString with
    | some l, some b, some c => some ⟨l, b, c⟩
    | _, _, _ => none
  | _ => none

/-- `<api>~<x name>~<launch build cache>~<metadata table|->`; `c`: cached_layer (cache = 1), `u`: uncached_layer (cache = 0), `t`: trait API -/
def pLayerCall (s : String) : Option (Builders.LayerCall × Spec.Written.LayerOp) :=
  match s.splitOn "~" with
  | [api, n, ty, md] =>
    let md : Option (Option Table) := if md = "-" then some none else (pTable md).map some
    match pName n, pLayerTypes ty, md with
    | some n, some ty, some md =>
      if api = "c" ∧ ty.cache then some (.cached n ty.launch ty.build md, .cachedKept n ty.launch ty.build md)
      else if api = "u" ∧ !ty.cache then some (.uncached n ty.launch ty.build md, .uncached n ty.launch ty.build md)
      else if api = "t" then some (.handle n ty md, .handled n ty md)
      else none
    | _, _, _ => none
  | _ => none

def pPair (s : String) : Option (String × String) :=
  match s.splitOn "=" with
  | [k, v] => match pStr k, pStr v with
    | some k, some v => some (k, v)
    | _, _ => none
  | _ => none

/-- (schema the code writes with, the model's value, the specification's schema, the intended value, own reader?) -/
structure Job where
  gen : Schema
  built : Val
  spec : Schema
  intended : Val
  ownReader : Bool
  /-- a known deviation that would explain a different decoded value: (the value it predicts, its name) -/
  known : Option (Val × String) := none

def job (fields : List String) : Option Job :=
  match fields with
  | ["launch", ops] =>
    (allSome ((splitList ops "|").map pLaunchOp)).map (fun ops =>
      ⟨Gen.S.Launch, (Builders.buildLaunch (ops.map (·.1))).toVal, Spec.Cnb.launchToml, (Spec.Written.intendedLaunch (ops.map (·.2))).toVal, true, none⟩)
  | ["plan", ops] =>
    (allSome ((splitList ops "|").map pPlanOp)).map (fun ops =>
      let built := (Builders.buildPlan (ops.map (·.1))).toVal
      ⟨Gen.S.BuildPlan, built, Spec.Cnb.buildPlan, (Spec.Written.intendedPlan (ops.map (·.2))).toVal, false,
        some (built, "datetime-in-require-metadata-written-as-private-table")⟩)
  | ["layer", types, mdata] =>
    let ty : Option (Option LayerTypes) :=
      if types = "-" then some none else
      match types.toList with
      | [l, b, c] => match pBool l.toString, pBool b.toString, pBool c.toString with
        | some l, some b, some c => some (some ⟨l, b, c⟩)
        | _, _, _ => none
      | _ => none
    let md : Option (Option Table) := if mdata = "-" then some none else (pTable mdata).map some
    match ty, md with
    | some ty, some md =>
      let v := (LayerMeta.mk ty md).toVal
      some ⟨Gen.S.LayerContentMetadata .optionalTable, v, Spec.Cnb.layerContentMetadata, v, true, none⟩
    | _, _ => none
  | ["store", mdata] => (pTable mdata).map (fun m => ⟨Gen.S.Store, storeVal m, Spec.Cnb.storeToml, storeVal m, true, none⟩)
  | ["package", bp, deps, os] =>
    match pStr bp, pStrs deps with
    | some bp, some deps =>
      -- `-`: the platform of `PackageDescriptor::default()`, which the specification says is linux
      let os := if os = "-" then "linux" else os
      -- `try_from(&str)` holds the reference as uriparse re-prints it; the constructed text is the text given
      let respell := fun (u : String) => (uriRespell u).getD u
      let built := (Package.mk (respell bp) (deps.map respell) os).toVal
      some ⟨Gen.S.PackageDescriptor, built, Spec.Cnb.packageToml, (Package.mk bp deps os).toVal, true,
        some (built, "uri-respelled-by-uriparse")⟩
    | _, _ => none
  | _ => none

def splitObs (obs : String) : Option (String × String) :=
  match obs.splitOn ";rt=" with
  | [t, r] => some (t, r)
  | _ => none

def judge (spec : Schema) (intended : String) (ownReader : Bool) (known : Option (Val × String)) (obs : String) : String :=
  match splitObs obs with
  | none => if obs = "invalid-toml" then "fail:the written text is not valid TOML 1.0" else "fail:unparsable-observation"
  | some (tree, rt) =>
    match parseTree tree with
    | none => "fail:unparsable-observation"
    | some t =>
      match decode spec t with
      | .error _ => "fail:an independent reader applying the specification rejects the written document"
      | .ok v =>
        if v.render ≠ intended then
          match known with
          | some (kv, name) => if v.render = kv.render then "fail:known-deviation:" ++ name
                               else "fail:the written document decodes to a different value than the one constructed"
          | none => "fail:the written document decodes to a different value than the one constructed"
        else if ownReader ∧ rt ≠ "1" then "fail:libcnb's own reader returns a value different from the one written"
        else "ok"

/-- the last field `pre=<what the target path held before the write>` does not enter the model or the specification:
the written document must be the same whatever was there -/
def stripPre (fields : List String) : List String :=
  match fields.reverse with
  | l :: r => if l.startsWith "pre=" then r.reverse else fields
  | [] => fields

/-- several documents of one case: observations joined by ` || `, each judged on its own against the value the
specification intends for that `build()` -/
def judgeDocs (spec : Schema) (intended : List String) (obs : String) : String :=
  let parts := obs.splitOn " || "
  if parts.length ≠ intended.length then "fail:the number of written documents is not the number of build() calls" else
  let rec go (k : Nat) : List String → List String → String
    | i :: is, o :: os =>
      match judge spec i true none o with
      | "ok" => go (k + 1) is os
      | v => "fail:document of build() #" ++ toString k ++ " of " ++ toString intended.length ++ ": " ++ (v.drop 5).toString
    | _, _ => "ok"
  go 1 intended parts

/-- the layer files of one layers directory: for every constructed layer name, in order of first use, the document an independent
reader finds at `<layers>/<name>.toml` must decode to the layer types and metadata constructed under that name; no layer API call
may fail; the directory holds nothing that belongs to no constructed layer -/
def judgeLayerFiles (ops : List Spec.Written.LayerOp) (obs : String) : String :=
  match obs.splitOn " ;; stray=" with
  | [docs, stray] =>
    let names := Spec.Written.layerNames ops
    let parts := docs.splitOn " || "
    if parts.length ≠ names.length then "fail:the number of documents is not the number of layers constructed" else
    let rec go : List Bytes → List String → String
      | n :: ns, o :: os =>
        let why :=
          if o = "no-file-written" then "fail:there is no file at the path the CNB spec gives the layer" else
          match Spec.Written.intendedLayer n none ops with
          | none => "fail:unparsable-observation"
          | some m => judge Spec.Cnb.layerContentMetadata m.toVal.render true none o
        if why = "ok" then go ns os
        else "fail:layer x" ++ hexEncode n ++ " read at <layers>/<name>.toml: " ++ (why.drop 5).toString
      | _, _ => "ok"
    match go names parts with
    | "ok" => if stray = "-" then "ok" else "fail:the layers directory holds entries that belong to no constructed layer: " ++ stray
    | v => v
  | _ => if obs.startsWith "err:" then "fail:a layer API call failed for a valid layer name: " ++ obs else "fail:unparsable-observation"

def handle (fields0 : List String) (obs : String) : String × String :=
  let fields := stripPre fields0
  match fields with
  | ["launchseq", ops] =>
    match allSome ((splitList ops "|").map pLaunchStep) with
    | none => ("bad-op", "bad-op")
    | some ops =>
      let built := Builders.launchSession (ops.map (·.1))
      let model := joinWith " || " (built.map (fun l => match encode Gen.S.Launch l.toVal with
        | some t => t.render ++ ";rt=1"
        | none => "model-value-ill-typed"))
      let intended := (Spec.Written.intendedLaunchDocs (ops.map (·.2))).map (fun l => l.toVal.render)
      (model, judgeDocs Spec.Cnb.launchToml intended obs)
  | ["layerfile", ops] =>
    match allSome ((splitList ops "|").map pLayerCall) with
    | none => ("bad-op", "bad-op")
    | some [] => ("bad-op", "bad-op")
    | some ops =>
      let calls := ops.map (·.1)
      let dir := Builders.layerSession calls
      let docs := (Builders.firstUses (calls.map Builders.LayerCall.name)).map (fun n =>
        match Builders.dirGet dir (Builders.layerFilePath n) with
        | some m => (match encode (Gen.S.LayerContentMetadata .optionalTable) m.toVal with
          | some t => t.render ++ ";rt=1"
          | none => "model-value-ill-typed")
        | none => "no-file-written")
      (joinWith " || " docs ++ " ;; stray=-", judgeLayerFiles (ops.map (·.2)) obs)
  | ["execd", pairs] =>
    match allSome ((splitList pairs ",").map pPair) with
    | none => ("bad-op", "bad-op")
    | some pairs =>
      let built := execdVal (Builders.collectMap pairs)
      let model := match encode Gen.S.ExecDProgramOutput built with
        | some t => t.render ++ ";rt=-"
        | none => "model-value-ill-typed"
      let verdict :=
        match splitObs obs with
        | none => if obs = "invalid-toml" then "fail:the written text is not valid TOML 1.0" else "fail:unparsable-observation"
        | some (tree, _) =>
          match parseTree tree with
          | none => "fail:unparsable-observation"
          | some t =>
            match decode Spec.Cnb.execdOutput t with
            | .ok (.record got) =>
              if Spec.Written.execdOK pairs got then "ok" else "fail:the exec.d output does not hold exactly the last value given for every key"
            | _ => "fail:an independent reader applying the specification rejects the written document"
      (model, verdict)
  | _ =>
    match job fields with
    | none => ("bad-op", "bad-op")
    | some j =>
      let model := match encode j.gen j.built with
        | some t => t.render ++ ";rt=" ++ (if j.ownReader then "1" else "-")
        | none => "model-value-ill-typed"
      (model, judge j.spec j.intended.render j.ownReader j.known obs)

end CnbVerif.DriverC07
