import CnbVerif.Model.LayerEnv
import CnbVerif.Spec.EnvSpec
/-! Driver glue for C04: parse a case, run the model, judge the implementation's observation by the spec. -/
namespace CnbVerif.DriverC04
open CnbVerif Spec

def parseScope (s : String) : Option Scope :=
  if s = "A" then some .all else if s = "B" then some .build else if s = "L" then some .launch
  else match s.splitOn ":" with
    | ["P", h] => (hexDecode h).map Scope.process
    | _ => none

def parsePair (s : String) : Option (Bytes × Bytes) :=
  match s.splitOn "=" with
  | [k, v] => match hexDecode k, hexDecode v with
    | some k, some v => some (k, v)
    | _, _ => none
  | _ => none

def parseEnv (s : String) : Option Env := allSome ((splitList s ",").map parsePair)

def parseIns (s : String) : Option Ins :=
  match s.splitOn "/" with
  | [sc, b, n, v] =>
    match parseScope sc, Beh.ofTag b, hexDecode n, hexDecode v with
    | some sc, some b, some n, some v => some ⟨sc, b, n, v⟩
    | _, _, _, _ => none
  | _ => none

def parseInsList (s : String) : Option (List Ins) := allSome ((splitList s ",").map parseIns)

def renderEnv (e : Env) : String :=
  joinWith "," ((sortBy (fun a b => bytesLt a.1 b.1) e).map (fun kv => hexEncode kv.1 ++ "=" ++ hexEncode kv.2))

def dedup (l : List Bytes) : List Bytes := l.foldl (fun acc x => if acc.contains x then acc else acc ++ [x]) []

/-- fields: query scope, starting env, inserts; `obs` is the implementation's resulting env -/
def handle (fields : List String) (obs : String) : String × String :=
  match fields with
  | [qs, env, ins] =>
    match parseScope qs, parseEnv env, parseInsList ins with
    | some qs, some env, some ins =>
      let le := ins.foldl (fun le i => le.insert i.scope i.beh i.name i.val) LayerEnv.empty
      let out := le.apply qs env
      -- the model's env may hold shadowed duplicates only through `set`, which filters; render as a map
      let model := renderEnv out ++ ";pure=1;permeq=1;histeq=1;chaineq=1;empty=" ++ renderEnv (le.applyToEmpty qs)
      let verdict :=
        match obs.splitOn ";" with
        | [oenv, "pure=1", "permeq=1", "histeq=1", "chaineq=1", oempty] =>
        (match parseEnv oenv, parseEnv (oempty.drop 6).toString with
        | none, _ => "fail:unparsable-observation"
        | _, none => "fail:unparsable-observation"
        | some o, some oe =>
          let namesE := dedup (ins.map (·.name) ++ oe.keys)
          match (if oempty.startsWith "empty=" then namesE.find? (fun n => specApply ins qs [] n != oe.get n) else some []) with
          | some n => "fail:apply_to_empty: variable " ++ hexEncode n ++ " expected " ++
              (match specApply ins qs [] n with | some v => hexEncode v | none => "unset") ++ " got " ++
              (match oe.get n with | some v => hexEncode v | none => "unset")
          | none =>
          let names := dedup (env.keys ++ ins.map (·.name) ++ o.keys)
          match names.find? (fun n => specApply ins qs env n != o.get n) with
          | none => "ok"
          | some n => "fail:variable " ++ hexEncode n ++ " expected " ++
              (match specApply ins qs env n with | some v => hexEncode v | none => "unset") ++ " got " ++
              (match o.get n with | some v => hexEncode v | none => "unset"))
        | [_, "pure=0", _, _, _, _] => "fail:input environment was modified"
        | [_, _, "permeq=0", _, _, _] => "fail:result depends on insertion order"
        -- the same entries, inserted with queries made in between, must apply like the freshly built value
        | [_, _, _, "histeq=0", _, _] => "fail:result depends on queries made before later inserts"
        | [_, _, _, _, "chaineq=0", _] => "fail:chainable_insert builds a different value than insert"
        | _ => "fail:unparsable-observation"
      (model, verdict)
    | _, _, _ => ("bad-op", "bad-op")
  | _ => ("bad-op", "bad-op")

end CnbVerif.DriverC04
