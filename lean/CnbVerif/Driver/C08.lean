import CnbVerif.Base.TomlWire
import CnbVerif.Gen.Schemas
import CnbVerif.Spec.CnbSchemas
/-! Driver glue for C08: fields = [libcnb type name, TOML document as a value tree]; the observation is what
`toml::from_str::<T>` did with the document: `reject` or `ok <decoded value>`. -/
namespace CnbVerif.DriverC08
open CnbVerif CnbVerif.Codec

def outcome (r : Except Err Val) : String :=
  match r with
  | .ok v => "ok " ++ v.render
  | .error _ => "reject"

def errName : Err → String
  | .wrongKind => "wrong-kind" | .unknownKey => "unknown-key" | .missing => "missing-key"
  | .invalid => "invalid-value" | .noVariant => "no-variant"

def handle (fields : List String) (obs : String) : String × String :=
  match fields with
  | [name, tree] =>
    match parseTree tree, Gen.readable.lookup name, Spec.Cnb.doc name with
    | some t, some g, some sp =>
      -- model: serde's reader on the schema regenerated from the code
      let model := outcome (decodeSerde false g t)
      -- specification: the kind-strict reader on the transcribed schema, from the document alone
      let want := outcome (decode sp t)
      let verdict :=
        if obs = want then "ok"
        else if want = "reject" ∧ obs.startsWith "ok " then
          -- fully explained by the known leniency: the document has such a site and the observation is what the model of serde's reader predicts
          if !(lenientFree sp t) ∧ obs = model then
            "fail:wrong-kind-accepted:serde-leniency (an array read as a table, or a single-key table read as an enum string)"
          else "fail:a document the specification does not allow was accepted"
        else if obs = "reject" then
          "fail:conforming-document-rejected:" ++ name ++ ":" ++
            (match decodeSerde false g t with | .error e => errName e | .ok _ => "unexplained")
        else if obs.startsWith "ok " then
          -- accepted by both; explained exactly by uriparse's re-printing of a URI reference?
          if obs = model ∧ !(lenientFree sp t) then "fail:known-deviation:uri-respelled-by-uriparse"
          else "fail:decoded value differs from the document; expected " ++ want
        else "fail:unparsable-observation"
      (model, verdict)
    | _, _, _ => ("bad-op", "bad-op")
  | _ => ("bad-op", "bad-op")

end CnbVerif.DriverC08
