import CnbVerif.Base.TomlWire
import CnbVerif.Gen.Schemas
import CnbVerif.Spec.CnbSchemas
/-! Driver glue for C08: fields = [libcnb type name, TOML document as a value tree] or the same followed by the TOML text
(hex) in which the harness handed that tree to the real parser (a layout of the document: the harness checks that the
text denotes the tree, model and specification work on the tree); the observation is what `toml::from_str::<T>` and
`read_toml_file::<T>` did with the document: `reject` or `ok <decoded value>`. -/
namespace CnbVerif.DriverC08
open CnbVerif CnbVerif.Codec

def outcome (r : Except Err Val) : String :=
  match r with
  | .ok v => "ok " ++ v.render
  | .error _ => "reject"

def errName : Err → String
  | .wrongKind => "wrong-kind" | .unknownKey => "unknown-key" | .missing => "missing-key"
  | .invalid => "invalid-value" | .noVariant => "no-variant"

/-! ### the recorded deviation C08-F5: a datetime where the free-form `metadata` table is expected

The toml crate hands a datetime to serde as the one-key map `{ "$__toml_private_datetime" = "<text>" }`, which
`toml::Table` reads. `datetimeAsTable sp t` is the document `t` with every datetime that sits **at a position where
the specification's schema `sp` expects the free-form table** (the `.table` positions: `metadata` of buildpack.toml,
of a plan entry, of `<layer>.toml`, of store.toml) replaced by that one-key table; datetimes anywhere else - scalar
positions, struct positions, inside free-form values - are left alone. The walk follows the specification's schema
only (never the code's). `fuel` bounds the schema depth (the CNB schemas are 5 levels deep). -/

def privateDatetimeKey : String := "$__toml_private_datetime"

def datetimeAsTableAux : Nat → Schema → TV → TV
  | 0, _, t => t
  | _ + 1, .table, .dt r => .tbl [(privateDatetimeKey, .str r)]
  | fuel + 1, .vec s, .arr xs => .arr (xs.map (datetimeAsTableAux fuel s))
  | fuel + 1, .map _ s, .tbl kvs => .tbl (kvs.map (fun kv => (kv.1, datetimeAsTableAux fuel s kv.2)))
  | fuel + 1, .struct _ fs, .tbl kvs =>
    .tbl (kvs.map (fun kv => match fs.find? (fun f => f.key == kv.1) with
      | some f => (kv.1, datetimeAsTableAux fuel f.schema kv.2)
      | none => kv))
  | fuel + 1, .untagged vs, t =>
    -- the variant under which the repaired document reads; the document itself when there is none
    match (vs.map (fun v => datetimeAsTableAux fuel v t)).find? (fun t' => (decode (.untagged vs) t').toBool) with
    | some t' => t'
    | none => t
  | _ + 1, _, t => t

def datetimeAsTable (sp : Schema) (t : TV) : TV := datetimeAsTableAux 32 sp t

/-- exactly the recorded deviation and nothing else: the specification rejects the document, at least one datetime sits
where the free-form table is expected, with those (and only those) read as the one-key table the document is
conforming, and the implementation's result is precisely what the specification's reader yields for that document -/
def isDatetimeAsTable (sp : Schema) (t : TV) (obs : String) : Bool :=
  let t' := datetimeAsTable sp t
  t'.render != t.render &&
  (match decode sp t with | .ok _ => false | .error _ => true) &&
  (match decode sp t' with | .ok v => obs == "ok " ++ v.render | .error _ => false)

/-- the optional third field: lowercase hex of the text -/
def layoutOk (fields : List String) : Bool :=
  match fields with
  | [_, _] => true
  | [_, _, text] => text.length % 2 == 0 && text.all (fun c => c.isDigit || ('a' ≤ c && c ≤ 'f'))
  | _ => false

def handle (fields : List String) (obs : String) : String × String :=
  if !layoutOk fields then ("bad-op", "bad-op") else
  match fields.take 2 with
  | [name, tree] =>
    match parseTree tree, Gen.readable.lookup name, Spec.Cnb.doc name with
    | some t, some g, some sp =>
      -- model: serde's reader on the schema regenerated from the code
      let model := outcome (decodeSerde false g t)
      -- specification: the kind-strict reader on the transcribed schema, from the document alone
      let want := outcome (decode sp t)
      let verdict :=
        if obs = want then "ok"
        else if want = "reject" ∧ obs.startsWith "ok " then
          -- fully explained by the known leniency: the document has such a site and the observation is what the model of serde's reader predicts
          if !(lenientFree sp t) ∧ obs = model then
            "fail:wrong-kind-accepted:serde-leniency (an array read as a table, or a single-key table read as an enum string)"
          -- fully explained by the known datetime encoding: only datetimes at free-form-table positions stand between the
          -- document and conformance, and they came back as the one-key table
          else if isDatetimeAsTable sp t obs then "fail:wrong-kind-accepted:datetime-as-table"
          else "fail:a document the specification does not allow was accepted"
        else if obs = "reject" then
          "fail:conforming-document-rejected:" ++ name ++ ":" ++
            (match decodeSerde false g t with | .error e => errName e | .ok _ => "unexplained")
        else if obs.startsWith "ok " then
          -- accepted by both; explained exactly by uriparse's re-printing of a URI reference?
          if obs = model ∧ !(lenientFree sp t) then "fail:known-deviation:uri-respelled-by-uriparse"
          else "fail:decoded value differs from the document; expected " ++ want
        else "fail:unparsable-observation"
      (model, verdict)
    | _, _, _ => ("bad-op", "bad-op")
  | _ => ("bad-op", "bad-op")

end CnbVerif.DriverC08
