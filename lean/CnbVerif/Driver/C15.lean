import CnbVerif.Base.Proto
import CnbVerif.Model.Packager
import CnbVerif.Spec.Packaging
/-!
Driver glue for C15.

fields
* `bps` — the directories holding a `buildpack.toml`, `;`-separated: `id>dir>hex(buildpack.toml)>K>extra` with
  `K = L` (libcnb.rs, member of the root cargo workspace; extra = `pkgName:bin,bin,…`), `S` (libcnb.rs crate that is its own
  cargo workspace, excluded from the root one; same extra), `C` (composite; extra = `hex(buildpack uri):hex(dep),…:none|linux|windows`),
  `F` (foreign; extra = `-`). `dir` is relative to the workspace root.
* `inv` — the invocation directory relative to the workspace root (`.` = the root).
* `cfg` — `dev|release` `,` `-` (default package directory) or hex of the `--package-dir` argument (a leading `$T` is
  the scratch root), optionally followed by `,L<hex dir>` (`$T/lnk` is a symbolic link to that directory of the
  workspace; model and judge are lexical, the link is one more name of the package directory) and `,N` (the workspace
  carries no ignore file; only generated for first runs).
* `prev` — `-`, or `inv,dev|release`: an earlier complete run (same package directory) executed before the operations.
* `ops` — operations on the package directory between the earlier run and the observed one, `|`-separated:
  `+path=D`, `+path=F<hex>`, `+path=L<hex target>` (put: replaces whatever is at or below the path, non-directories in
  the way become directories), `-path` (delete recursively).

observation: `ok;<stdout lines, sorted, ','>;<tree before>;<tree after>[;src-changed:<hex path>]` or
`err:<kind>;<stdout lines>`. A tree is the sorted list of entries below the package directory — the workspace sources
as materialised and cargo's `target/` / `Cargo.lock` left out when the package directory holds them; a source entry that
changed is reported by the `src-changed` part —, `|`-separated: `D path`, `L path hex(target)`, `F path token` with
token `raw:<hex>`, `art:<dev|release>:<package>:<bin target>` (bytes identical to that cargo artifact) or
`pkg:<hex uri>:<hex dep,…>:<os>` (a `package.toml`, parsed). The scratch root is printed as `$T`; the workspace root is
`$T/ws`; model and judge use the stand-in `/tmp/$T` (same depth as the real `/tmp/<random>`).
-/
namespace CnbVerif.DriverC15
open CnbVerif CnbVerif.Chars CnbVerif.Packager
open CnbVerif.PkgDescriptor (Descriptor)

def scratch : Str := "/tmp/$T".toList
def wsRoot : Str := "/tmp/$T/ws".toList
def targetTriple : String := "x86_64-unknown-linux-gnu"

def hexStr (s : String) : Option Str :=
  (hexDecode s).bind (fun b => (String.fromUTF8? (ByteArray.mk (b.map (·.toUInt8)).toArray)).map (·.toList))

def strHex (s : Str) : String := hexEncode (strBytes (String.ofList s))

def expandRoot (s : Str) : Str := if s.take 2 = "$T".toList then scratch ++ s.drop 2 else s

def contractRoot (s : Str) : Str :=
  if s = scratch then "$T".toList
  else if s.take (scratch.length + 1) = scratch ++ ['/'] then "$T".toList ++ s.drop scratch.length
  else s

/-! ### parsing the case -/

def parseProfile (s : String) : Option Profile :=
  if s = "dev" then some .dev else if s = "release" then some .release else none

def parseKind (k extra : String) : Option Kind :=
  if k = "F" then some .foreign
  else if k = "L" ∨ k = "S" then
    match extra.splitOn ":" with
    | [pkgName, bins] => if pkgName = "" then none else some (.libcnb pkgName (splitList bins ","))
    | _ => none
  else if k = "C" then
    match extra.splitOn ":" with
    | [bp, deps, platform] =>
      match hexStr bp, allSome ((splitList deps ",").map hexStr) with
      | some bp, some deps =>
        if platform = "none" ∨ platform = "linux" ∨ platform = "windows" then
          some (.composite ⟨bp, deps, (if platform = "none" then "linux" else platform).toList⟩)
        else none
      | _, _ => none
    | _ => none
  else none

def parseBp (s : String) : Option (Buildpack × Bool) :=
  match s.splitOn ">" with
  | [id, dir, desc, k, extra] =>
    if id = "" ∨ dir = "" ∨ (k = "S" ∧ dir = ".") then none else
    match parseKind k extra, hexDecode desc with
    | some kind, some _ => some (⟨id, (if dir = "." then [] else dir.toList), desc, kind⟩, k = "S")
    | _, _ => none
  | _ => none

def invAbs (inv : String) : Str := if inv = "." then wsRoot else wsRoot ++ '/' :: inv.toList

/-- `L<hex dir>` (what `$T/lnk` points to) or `N` (no ignore file): the model, being lexical, does not use them -/
def extraOk (s : String) : Bool :=
  s = "N" || (s.startsWith "L" && (match hexStr (s.drop 1).toString with | some t => !t.isEmpty | none => false))

def parseCfg (s : String) : Option Config :=
  match s.splitOn "," with
  | p :: d :: extras =>
    if !extras.all extraOk then none else
    match parseProfile p with
    | none => none
    | some prof =>
      if d = "-" then some ⟨prof, targetTriple, none⟩
      else match hexStr d with
        | some t => if t.isEmpty then none else some ⟨prof, targetTriple, some (expandRoot t)⟩
        | none => none
  | _ => none

def parsePath (s : String) : Option Path :=
  let p := s.splitOn "/"
  if s = "" ∨ p.any (fun c => c = "" ∨ c = "." ∨ c = "..") then none else some p

inductive Op
  | put (p : Path) (n : Node)
  | del (p : Path)

def parseOp (s : String) : Option Op :=
  if s.startsWith "-" then (parsePath (s.drop 1).toString).map Op.del
  else if s.startsWith "+" then
    match ((s.drop 1).toString).splitOn "=" with
    | [p, v] =>
      match parsePath p with
      | none => none
      | some p =>
        if v = "D" then some (.put p .dir)
        else if v.startsWith "F" then (hexDecode (v.drop 1).toString).map (fun _ => .put p (.file (.raw (v.drop 1).toString)))
        else if v.startsWith "L" then
          (hexStr (v.drop 1).toString).map (fun t => .put p (.link (String.ofList t)))
        else none
    | _ => none
  else none

/-- put: whatever is at or below the path goes, non-directories on the way become (implied) directories -/
def applyOp (fs : FS) : Op → FS
  | .del p => removeAll p fs
  | .put p n =>
    write p n (mkdirAll p.dropLast ((removeAll p fs).filter (fun e => !(e.1.isPrefixOf p && e.1 != p && e.2 != .dir))))

structure Input where
  /-- the cargo workspace the invocation directory belongs to (`effectiveWorkspace`) -/
  ws : Workspace
  inv : Str
  cfg : Config
  prev : Option (Str × Profile)
  ops : List Op

def distinct : List String → Bool
  | [] => true
  | x :: xs => !xs.contains x && distinct xs

def parseInput (fields : List String) : Option Input :=
  match fields with
  | [bps, inv, cfg, prev, ops] =>
    match allSome ((splitList bps ";").map parseBp), parseCfg cfg, allSome ((splitList ops "|").map parseOp) with
    | some bpsS, some cfg, some ops =>
      let bps := bpsS.map (·.1)
      let standalone := (bpsS.filter (·.2)).map (·.1.dir)
      let full : Workspace := ⟨wsRoot, bps⟩
      let eff := effectiveWorkspace full standalone (invAbs inv)
      if !distinct (bps.map (·.id)) ∨ inv = "" then none else
      let prevP : Option (Option (Str × Profile)) :=
        if prev = "-" then some none
        else match prev.splitOn "," with
          | [i, p] =>
            -- the earlier run must belong to the same cargo workspace (same default package directory)
            if (effectiveWorkspace full standalone (invAbs i)).root != eff.root then none
            else (parseProfile p).map (fun p => some (invAbs i, p))
          | _ => none
      match prevP with
      | none => none
      | some pv => some ⟨eff, invAbs inv, cfg, pv, ops⟩
    | _, _, _ => none
  | _ => none

/-! ### rendering -/

def profileTag : Profile → String
  | .dev => "dev"
  | .release => "release"

def renderPkg (d : Descriptor) : String :=
  "pkg:" ++ strHex d.buildpack ++ ":" ++ joinWith "," (d.deps.map (fun x => strHex (contractRoot x))) ++ ":" ++
    String.ofList d.platform

def renderContent : Content → String
  | .raw b => "raw:" ++ b
  | .artifact pkg t p => "art:" ++ profileTag p ++ ":" ++ pkg ++ ":" ++ t
  | .pkg d => renderPkg d

def showPath (p : Path) : String := String.intercalate "/" p

def renderNode (p : Path) : Node → String
  | .dir => "D " ++ showPath p
  | .file c => "F " ++ showPath p ++ " " ++ renderContent c
  | .link t => "L " ++ showPath p ++ " " ++ hexEncode (strBytes t)

/-- the non-empty proper prefixes of a path -/
def ancestors (p : Path) : List Path := (List.range p.length).filterMap (fun k => if k = 0 then none else some (p.take k))

/-- distinct paths of a tree in first-occurrence order -/
def firstPaths : FS → List Path → List Path
  | [], acc => acc.reverse
  | e :: rest, acc => if acc.contains e.1 then firstPaths rest acc else firstPaths rest (e.1 :: acc)

def renderTree (fs : FS) : String :=
  let paths := firstPaths fs []
  let implied := (paths.flatMap ancestors).foldl (fun acc p => if acc.contains p || paths.contains p then acc else p :: acc) []
  let lines := (paths.filterMap (fun p => (lookup fs p).map (fun n => (showPath p, renderNode p n)))) ++
    implied.map (fun p => (showPath p, renderNode p .dir))
  joinWith "|" ((sortBy (fun a b => decide (a.1 < b.1)) lines).map (·.2))

def renderStdout (lines : List Str) : String :=
  joinWith "," (sortBy (fun a b => decide (a < b)) (lines.map (fun l => String.ofList (contractRoot l))))

def errKind : Err → String
  | .noBuildpacksFound => "no-buildpacks"
  | .missingDependency _ => "missing-dep"
  | .invalidDependencyId _ => "invalid-dep-id"
  | .unknownRootNode _ => "unknown-root"
  | .noBinTargets => "no-bins"
  | .ambiguousBinTargets => "ambiguous-bins"
  | .descriptor _ => "descriptor"

def model (i : Input) : String :=
  let fs1 : Option FS :=
    match i.prev with
    | none => some []
    | some (pinv, pprof) =>
      -- the harness hands the earlier run the same package directory as a lexically normalised absolute path
      let pd := i.cfg.packageDir.map (fun p =>
        PkgDescriptor.normalizePath (if PkgDescriptor.isAbs p then p else PkgDescriptor.joinPath i.inv p))
      match package i.ws pinv { i.cfg with profile := pprof, packageDir := pd } [] with
      | .ok r => some r.fs
      | .error _ => none
  match fs1 with
  | none => "bad-op"
  | some fs1 =>
    let pre := i.ops.foldl applyOp fs1
    match package i.ws i.inv i.cfg pre with
    | .error e => "err:" ++ errKind e ++ ";-"
    | .ok r => "ok;" ++ renderStdout r.stdout ++ ";" ++ renderTree pre ++ ";" ++ renderTree r.fs

/-! ### parsing the observation -/

def parseContent (s : String) : Option Content :=
  if s.startsWith "raw:" then some (.raw (s.drop 4).toString)
  else if s.startsWith "art:" then
    match s.splitOn ":" with
    | [_, p, pkg, t] => (parseProfile p).map (fun p => .artifact pkg t p)
    | _ => none
  else if s.startsWith "pkg:" then
    match s.splitOn ":" with
    | [_, bp, deps, os] =>
      match hexStr bp, allSome ((splitList deps ",").map hexStr) with
      | some bp, some deps => some (.pkg ⟨bp, deps.map expandRoot, os.toList⟩)
      | _, _ => none
    | _ => none
  else none

def parseEntry (s : String) : Option (Path × Node) :=
  match s.splitOn " " with
  | ["D", p] => some (p.splitOn "/", .dir)
  | ["L", p, t] => (hexStr t).map (fun t => (p.splitOn "/", .link (String.ofList t)))
  | ["F", p, c] => (parseContent c).map (fun c => (p.splitOn "/", .file c))
  | _ => none

def parseTree (s : String) : Option FS := allSome ((splitList s "|").map parseEntry)

def parseLines (s : String) : List Str := (splitList s ",").map (fun l => expandRoot l.toList)

def verdictOk (i : Input) (out pre post : String) (srcChanged : Option String) : String :=
  match parseTree pre, parseTree post with
  | some pre, some post =>
    match Spec.Packaging.judge i.ws i.inv i.cfg ⟨true, parseLines out, pre, post, srcChanged⟩ with
    | none => "ok"
    | some w => "fail:" ++ w
  | _, _ => "fail:unparsable-observation"

def verdict (i : Input) (obs : String) : String :=
  match obs.splitOn ";" with
  | ["ok", out, pre, post] => verdictOk i out pre post none
  | ["ok", out, pre, post, chg] =>
    if chg.startsWith "src-changed:" then
      match hexStr (chg.drop 12).toString with
      | some p => verdictOk i out pre post (some (String.ofList p))
      | none => "fail:unparsable-observation"
    else "fail:unparsable-observation"
  | [e, out] =>
    if e.startsWith "err:" then
      match Spec.Packaging.judge i.ws i.inv i.cfg ⟨false, parseLines out, [], [], none⟩ with
      | none => "ok"
      | some w => "fail:" ++ w ++ " (" ++ e ++ ")"
    else "fail:unparsable-observation"
  | _ => "fail:unparsable-observation:" ++ (obs.take 40).toString

def handle (fields : List String) (obs : String) : String × String :=
  match parseInput fields with
  | none => ("bad-op", "bad-op")
  | some i => (model i, verdict i obs)

end CnbVerif.DriverC15
