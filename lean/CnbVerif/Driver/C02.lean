import CnbVerif.Spec.TraitSpec
import CnbVerif.Driver.C01
/-! Driver glue for C02: parse a history of trait-API `handle_layer` calls and restores, run the model from the empty
layers directory, judge the implementation's per-step observations (returned layer data through `apply` probes,
callback log, snapshot of the layers directory) with `Spec.tStepOk`. Snapshot grammar and parser are C01's. -/
namespace CnbVerif.DriverC02
open CnbVerif Spec DriverC04 DriverC03 DriverC01

/-- variable names of the probe environments (fixed; the harness uses the same) -/
def probeNames : List Bytes := [strBytes "P", strBytes "Q.x", strBytes "PATH", strBytes "LD_LIBRARY_PATH"]

/-- the probes: every scope (two process types) × {empty environment, every probe name set to "0"} -/
def probes : List (Scope × Env) :=
  probeScopes.flatMap (fun (_, sc) => (probeEnvs probeNames).map (fun e => (sc, e)))

def parseOptMeta (s : String) : Option (Option MetaTbl) :=
  if s = "~" then some none else (parseMeta s).map some

def parseEnvOpt (s : String) : Option (Option LayerEnv) :=
  if s = "~" then some none else (parseInsList s).map (fun ins => some (buildLe ins))

def parseExecd (s : String) : Option (List (Bytes × Option Bytes)) :=
  allSome ((splitList s "+").map (fun x => match x.splitOn "=" with
    | [k, h] => match hexDecode k with
      | some k => if h = "~" then some (k, none) else (hexDecode h).map (fun b => (k, some b))
      | none => none
    | _ => none))

def parseSboms (s : String) : Option (List (Nat × Bytes)) :=
  allSome ((splitList s "+").map (fun x => match x.splitOn "=" with
    | [i, h] => match i.toNat?, hexDecode h with
      | some i, some h => some (i, h)
      | _, _ => none
    | _ => none))

def parseFiles (s : String) : Option (List (Bytes × Node)) :=
  allSome ((splitList s "+").map (fun x => match x.splitOn "=" with
    | [k, h] => match hexDecode k with
      | some k =>
        if h = "*" then some (k, Node.dir [])
        -- symlinks the callback creates: to a directory, to a file, to nothing
        else if h = "@D" then some (k, Node.link .toDir) else if h = "@F" then some (k, Node.link .toFile)
        else if h = "@x" then some (k, Node.link .dangling)
        else (hexDecode h).map (fun b => (k, Node.file b))
      | none => none
    | _ => none))

def parseCb (s : String) : Option Cb :=
  if s = "f" then some .fail else
  match s.splitOn "!" with
  | [m, e, x, sb, fs] =>
    match parseOptMeta m, parseEnvOpt e, parseExecd x, parseSboms sb, parseFiles fs with
    | some m, some e, some x, some sb, some fs => some (.ok { mdata := m, env := e, execd := x, sboms := sb, files := fs })
    | _, _, _, _, _ => none
  | _ => none

def parseStrat (s : String) : Option Strat :=
  if s = "k" then some .keep else if s = "u" then some .update else if s = "r" then some .recreate
  else if s = "f" then some .fail else none

def parseMigr (s : String) : Option Migr :=
  match s.toList with
  | ['r'] => some .recreate
  | ['f'] => some .fail
  | 'p' :: r => (parseMeta (String.ofList r)).map Migr.replace
  | _ => none

def parseTOp (s : String) : Option TOp :=
  match s.splitOn "." with
  | ["R"] => some .restore
  | ["B", n] => (hexDecode n).map TOp.breakToml
  | ["H", n, ty, mt, st, mg, cr, up] =>
    match hexDecode n, ty.toList, parseStrat st, parseMigr mg, parseCb cr, parseCb up with
    | some n, [l, b, c], some st, some mg, some cr, some up =>
      match bit l, bit b, bit c, (if mt = "G" then some MetaT.generic else if mt = "V" then some MetaT.versioned else none) with
      | some l, some b, some c, some mt =>
        some (.handle n { types := ⟨l, b, c⟩, mt := mt, strategy := st, migrate := mg, create := cr, update := up })
      | _, _, _, _ => none
    | _, _, _, _, _, _ => none
  | _ => none

def errName : ErrKind → String
  | .buildpack => "buildpack" | .genericMeta => "parse" | .io => "io" | .missingLayer => "missingLayer"
  | .missingExecd => "missingExecd" | .metaFile => "metaFile" | .diverge => "diverge"

def parseErr (s : String) : Option ErrKind :=
  if s = "buildpack" then some .buildpack else if s = "parse" then some .genericMeta else if s = "io" then some .io
  else if s = "missingLayer" then some .missingLayer else if s = "missingExecd" then some .missingExecd
  else if s = "metaFile" then some .metaFile else none

/-- `data^<metadata>^<probes>` with the probes in the fixed order of `probes`, joined by `|` -/
def renderObs : TObs → String
  | .data m applied => "data^" ++ renderMeta m ++ "^" ++ String.intercalate "|" (applied.map (fun p => renderEnv p.2.2))
  | .err k => "err:" ++ errName k
  | .ok => "ok"

def parseObs (s : String) : Option TObs :=
  if s = "ok" then some .ok else
  match s.splitOn "^" with
  | ["data", m, ps] =>
    let parts := ps.splitOn "|"
    if parts.length ≠ probes.length then none else
    match parseOptMeta m, allSome (parts.map parseEnv) with
    | some m, some envs => some (.data m ((probes.zip envs).map (fun (p, r) => (p.1, p.2, r))))
    | _, _ => none
  | _ =>
    match s.splitOn ":" with
    | ["err", k] => (parseErr k).map TObs.err
    | _ => none

def renderTCall : TCall → String
  | .create e => "C" ++ (if e then "1" else "0")
  | .strategy m => "S" ++ renderMeta m
  | .update m => "U" ++ renderMeta m
  | .migrate m => "M" ++ renderMeta m

def parseTCall (s : String) : Option TCall :=
  match s.toList with
  | ['C', '1'] => some (.create true)
  | ['C', '0'] => some (.create false)
  | 'S' :: r => (parseOptMeta (String.ofList r)).map TCall.strategy
  | 'U' :: r => (parseOptMeta (String.ofList r)).map TCall.update
  | 'M' :: r => (parseOptMeta (String.ofList r)).map TCall.migrate
  | _ => none

/-- C01's snapshot rendering with one addition: a symlink line says what the link leads to (`L path D|F|x`) -/
partial def snapLinesK (pre : List Bytes) (d : Dir) : List String :=
  d.foldl (fun acc (kv : Bytes × Node) =>
    let p := pre ++ [kv.1]
    match kv.2 with
    | .file b => acc ++ ["F " ++ pathStr p ++ " " ++ hexEncode b]
    | .dir es => acc ++ ["D " ++ pathStr p] ++ snapLinesK p es
    | .link k => acc ++ ["L " ++ pathStr p ++ " " ++ (match k with | .toDir => "D" | .toFile => "F" | .dangling => "x")]) []

def renderStoreK (names : List Bytes) (s : Store) : String :=
  joinWith "&" ((sortBy bytesLt names).filterMap (fun n =>
    let l := s.get n
    if l.dir.isNone && l.toml.isNone && l.sboms.isEmpty then none
    else some (hexEncode n ++ ":" ++ (match l.dir with | none => "~" | some d => joinWith "," (sortBy strLt (snapLinesK [] d))) ++
      ":" ++ renderToml l.toml ++ ":" ++ renderSboms l.sboms)))

def runModel (names : List Bytes) (ops : List TOp) : List String :=
  (ops.foldl (fun (acc : Store × List String) op =>
    let r := tStep acc.1 op
    (r.1, acc.2 ++ [renderObs (r.2.1.observe probes) ++ "#" ++ joinWith "," (r.2.2.map renderTCall) ++ "#" ++
      renderStoreK names r.1]))
    (([] : Store), [])).2

/-- first step that violates the property; a step that fails *only* by the known deviation (keep drops metadata keys
unknown to the layer's metadata type, everything else exactly as required) is reported only if no other step fails -/
def judge (names : List Bytes) (ops : List TOp) (obsSteps : List String) : String :=
  if obsSteps.length ≠ ops.length then "fail:number of observed steps differs from the history" else
  let rec go (i : Nat) (pre : Store) (rest : List (TOp × String)) (known : Option String) : String :=
    match rest with
    | [] => match known with
      | some k => k
      | none => "ok"
    | (op, o) :: more =>
      match o.splitOn "#" with
      | [outS, logS, snapS] =>
        match parseObs outS, allSome ((splitList logS ",").map parseTCall), parseStore snapS with
        | some out, some log, some post =>
          if tStepOk names pre op out log post then go (i + 1) post more known
          else if tStepOk names pre op out log post false then
            go (i + 1) post more (known.orElse (fun _ =>
              some ("fail:step " ++ toString i ++ " keep-dropped-unknown-metadata-keys")))
          else "fail:step " ++ toString i ++ " (" ++ (outS.splitOn "^").headD "" ++ "; callbacks " ++ logS ++
            ") violates trait-based layer handling"
        | _, _, _ => "fail:step " ++ toString i ++ " unparsable observation (unexpected entries in the layers directory?)"
      | _ => "fail:step " ++ toString i ++ " unparsable observation"
  go 0 [] (ops.zip obsSteps) none

def handle (fields : List String) (obs : String) : String × String :=
  match fields with
  | [namesS, opsS] =>
    match parseNames namesS, allSome ((splitList opsS ";").map parseTOp) with
    | some names, some ops =>
      (String.intercalate ";" (runModel names ops), judge names ops (if obs = "" then [] else obs.splitOn ";"))
    | _, _ => ("bad-op", "bad-op")
  | _ => ("bad-op", "bad-op")

end CnbVerif.DriverC02
