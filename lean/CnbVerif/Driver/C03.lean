import CnbVerif.Model.EnvDir
import CnbVerif.Spec.EnvLayout
import CnbVerif.Driver.C04
/-! Driver glue for C03 (layer env on-disk layout and read-back). -/
namespace CnbVerif.DriverC03
open CnbVerif Spec DriverC04

def strLt (a b : String) : Bool := decide (a < b)

def pathStr (p : List Bytes) : String := String.intercalate "/" (p.map hexEncode)

/-- snapshot lines of a directory (no modes): `D path`, `F path content`, `L path kind` -/
partial def snapLines (pre : List Bytes) (d : Dir) : List String :=
  d.foldl (fun acc (kv : Bytes × Node) =>
    let p := pre ++ [kv.1]
    match kv.2 with
    | .file b => acc ++ ["F " ++ pathStr p ++ " " ++ hexEncode b]
    | .dir es => acc ++ ["D " ++ pathStr p] ++ snapLines p es
    | .link _ => acc ++ ["L " ++ pathStr p]) []

def renderSnap (d : Dir) : String := joinWith "," (sortBy strLt (snapLines [] d))

def probeScopes : List (String × Scope) :=
  [("A", .all), ("B", .build), ("L", .launch), ("P:776562", .process (strBytes "web")),
   ("P:776f726b6572", .process (strBytes "worker")),
   -- process types named like the phases: no implicit layer paths, no build/launch entries for them either
   ("P:6275696c64", .process (strBytes "build")), ("P:6c61756e6368", .process (strBytes "launch"))]

def probeEnvs (names : List Bytes) : List Env := [[], (dedup names).map (fun n => (n, [48]))]

def renderProbes (apply : Scope → Env → Env) (names : List Bytes) : String :=
  String.intercalate "|" (probeScopes.flatMap (fun (tag, sc) =>
    (probeEnvs names).zipIdx.map (fun (e, i) => tag ++ ">" ++ toString i ++ ">" ++ renderEnv (apply sc e))))

/-- an unrelated entry of the layer directory: `hexname=hexcontent` is a file, `hexname=@` an empty directory,
`hexname=@hexchild:hexcontent` a directory holding one file -/
def parseFile (s : String) : Option (Bytes × Node) :=
  match s.splitOn "=" with
  | [k, v] =>
    match hexDecode k with
    | none => none
    | some k =>
      if v.startsWith "@" then
        let rest := (v.drop 1).toString
        if rest = "" then some (k, .dir [])
        else match rest.splitOn ":" with
          | [c, b] => match hexDecode c, hexDecode b with
            | some c, some b => some (k, .dir [(c, .file b)])
            | _, _ => none
          | _ => none
      else (hexDecode v).map (fun v => (k, .file v))
  | _ => none

def buildLe (ins : List Ins) : LayerEnv :=
  ins.foldl (fun le i => le.insert i.scope i.beh i.name i.val) LayerEnv.empty

/-- expected probes from the spec: per variable value via `specApply` over all names in play -/
def specProbes (ins : List Ins) (names : List Bytes) : String :=
  String.intercalate "|" (probeScopes.flatMap (fun (tag, sc) =>
    (probeEnvs names).zipIdx.map (fun (e, i) =>
      let ns := dedup (e.keys ++ ins.map (·.name))
      let out : Env := ns.filterMap (fun n => (specApply ins sc e n).map (fun v => (n, v)))
      tag ++ ">" ++ toString i ++ ">" ++ renderEnv out)))

/-- spec verdict for a write: the env files are exactly `specFiles`, every other entry is as before -/
def judgeSnap (newIns : List Ins) (extras : Dir) (snap : String) : Option String :=
  let expectFiles := (specFiles newIns).map (fun (p, c) => "F " ++ pathStr p ++ " " ++ hexEncode c)
  let expectDirs := dedup' ((specFiles newIns).flatMap (fun (p, _) =>
      (List.range (p.length - 1)).map (fun k => "D " ++ pathStr (p.take (k + 1)))))
  let expectExtras := snapLines [] extras
  let expected := sortBy strLt (expectFiles ++ expectDirs ++ expectExtras)
  let got := splitList snap ","
  if got = expected then none
  else
    match got.find? (fun l => !expected.contains l) with
    | some l => some ("unexpected entry " ++ l)
    | none =>
      match expected.find? (fun l => !got.contains l) with
      | some l => some ("missing entry " ++ l)
      | none => some "entries differ in multiplicity/order"
where dedup' (l : List String) : List String := l.foldl (fun acc x => if acc.contains x then acc else acc ++ [x]) []

def splitKV (s : String) : List (String × String) :=
  (s.splitOn ";").filterMap (fun kv => match kv.splitOn "=" with
    | k :: rest => some (k, String.intercalate "=" rest)
    | [] => none)

def parseNames (s : String) : Option (List Bytes) := allSome ((splitList s ",").map hexDecode)

def handleW (oldS newS extrasS namesS : String) (obs : String) : String × String :=
  match parseInsList oldS, parseInsList newS, allSome ((splitList extrasS ",").map parseFile), parseNames namesS with
  | some old, some new, some extras, some names =>
    let model : String :=
      match writeToLayerDir (buildLe old) extras with
      | none => "err:io"
      | some l1 =>
        match writeToLayerDir (buildLe new) l1 with
        | none => "err:io"
        | some l2 =>
          match readFromLayerDir (strBytes "$L") l2 with
          | none => "snap=" ++ renderSnap l2 ++ ";probes=err:io"
          | some le => "snap=" ++ renderSnap l2 ++ ";probes=" ++ renderProbes le.apply names
    let verdict : String :=
      match splitKV obs with
      | [("snap", snap), ("probes", probes)] =>
        match judgeSnap new extras snap with
        | some why => "fail:layout: " ++ why
        | none =>
          if probes = specProbes new names then "ok"
          else "fail:read-back differs from the written environment: got " ++ probes
      | _ => "fail:write or read reported " ++ obs
    (model, verdict)
  | _, _, _, _ => ("bad-op", "bad-op")

/-- an env directory given as raw files: `dir:hexfile=hexcontent+hexfile=…`, dirs joined by `,`;
`dir` ∈ {A, B, L, P:<hex>} -/
def parseRawDirs (s : String) : Option (List (Scope × List (Bytes × Bytes))) :=
  allSome ((splitList s ",").map (fun d =>
    match d.splitOn "~" with
    | [sc, files] =>
      match parseScope sc, allSome ((splitList files "+").map parsePair) with
      | some sc, some fs => some (sc, fs)
      | _, _ => none
    | _ => none))

def rawLayer (dirs : List (Scope × List (Bytes × Bytes))) : Dir :=
  let filesOf (sc : Scope) : Option Dir :=
    match dirs.find? (fun d => d.1 = sc) with
    | some (_, fs) => some (fs.map (fun (k, v) => (k, Node.file v)))
    | none => none
  let procs : Dir := dirs.filterMap (fun d => match d.1 with
    | .process p => some (p, Node.dir (d.2.map (fun (k, v) => (k, Node.file v))))
    | _ => none)
  let launch : Option Dir :=
    match filesOf .launch, procs with
    | none, [] => none
    | some fs, ps => some (fs ++ ps)
    | none, ps => some ps
  ((match filesOf .all with | some fs => [(nEnv, Node.dir fs)] | none => []) ++
   (match filesOf .build with | some fs => [(nEnvBuild, Node.dir fs)] | none => []) ++
   (match launch with | some fs => [(nEnvLaunch, Node.dir fs)] | none => []))

def handleR (dirsS namesS : String) (obs : String) : String × String :=
  match parseRawDirs dirsS, parseNames namesS with
  | some dirs, some names =>
    let model : String :=
      match readFromLayerDir (strBytes "$L") (rawLayer dirs) with
      | none => "probes=err:io"
      | some le => "probes=" ++ renderProbes le.apply names
    let ins : List Ins := dirs.flatMap (fun d => d.2.filterMap (fun (k, v) =>
      (readName k).map (fun (b, n) => ({ scope := d.1, beh := b, name := n, val := v } : Ins))))
    let verdict :=
      if obs = "probes=" ++ specProbes ins names then "ok"
      else "fail:reading the directory gives " ++ obs
    (model, verdict)
  | _, _ => ("bad-op", "bad-op")

def handle (fields : List String) (obs : String) : String × String :=
  match fields with
  | ["W", o, n, x, ns] => handleW o n x ns obs
  | ["R", d, ns] => handleR d ns obs
  | _ => ("bad-op", "bad-op")

end CnbVerif.DriverC03
