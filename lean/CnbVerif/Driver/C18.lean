import CnbVerif.Model.Inventory
import CnbVerif.Spec.Inventory
/-!
Driver glue for C18. Strings travel as lowercase hex of their UTF-8 bytes and are carried here as one `Char` per byte
(only equality and the ASCII colon / hex digits are ever inspected, and `:` never occurs inside a multi-byte sequence).

* `T | P  <artifacts>  <queries>` — `T`: versions are integers (`Ord`), `resolve` and `partial_resolve`; `P`: versions are
  pairs `a.b` under the product order, `partial_resolve` only.
  artifact `<version>/<l|d>/<x|a>/<n|k>` (os linux/darwin, arch amd64/arm64, metadata None/Some k, k ≤ 255), url = position;
  query `[N@]<l|d>/<x|a>/<versions joined by + | * | ~ | >=v | <v | lo_hi>/<* | n | k>` (accepted versions: the listed ones /
  any / none / at least v / below v / between lo and hi inclusive, by the version order; metadata: any / exactly that /
  `v` = any, asked through a type that implements only `VersionRequirement` (the library's blanket impl);
  the prefix `N@` = the query is asked when only the first N artifacts have been pushed). Observation `r=<i|none>,…;p=<i|none>,…;rt=1` (`r=-` for `P`), one answer per query.
* `F  <artifacts>  -` — artifact `<int version>/<os>/<arch>/<meta>/<url hex>/<checksum string hex>`; observation
  `rt=1;enc=<os hex>|<arch hex>|<url hex>|<checksum hex>|<version>|<meta>,…` (what the rendered TOML holds per artifact).
* `R  <artifacts>  <vshape>:<mshape>` — artifact `<text hex>/<l|d>/<x|a>/<text hex>`: the harness derives a version of type `vshape` (`int`,
  `str`, `pair` = tuple struct, `tbl` = struct, a TOML table) and a metadata value of type `mshape` (plain values, arrays, tables,
  optional tables, arrays of tables, maps of tables, nested) from the two texts, renders the inventory with `Display`/`to_string`,
  parses it back with `FromStr` and compares field by field. The clause judged is "rendering an inventory to TOML and parsing it back
  gives equal artifacts": observation `rt=1`, anything else (`rt=0:<field>:<index>`, `rt=parse-error`, `PANIC`) is a failure. The typed
  values are not modelled (the record-level theorem `inventory_roundtrip_partial` is generic in the codecs); the model observation is `rt=1`.
* `K  -  -  <d2|s32|any>  <string hex>` (the two `-` keep the list positions 1, 2 that `./check` shrinks empty) — observation `ok:<name hex>:<value hex>:<rendered hex>` or `err:<kind>`.
-/
namespace CnbVerif.DriverC18
open CnbVerif CnbVerif.Inventory CnbVerif.Spec.Inventory

def chars (b : Bytes) : List Char := b.map Char.ofNat
def unchars (s : List Char) : Bytes := s.map Char.toNat
def hexOf (s : List Char) : String := hexEncode (unchars s)

def parseOs : String → Option Os | "l" => some .linux | "d" => some .darwin | _ => none
def parseArch : String → Option Arch | "x" => some .amd64 | "a" => some .arm64 | _ => none
def parseMeta : String → Option (Option Nat)
  | "n" => some none
  | s => match s.toNat? with
    | some k => if k ≤ 255 then some (some k) else none
    | none => none

def parsePair (s : String) : Option (Nat × Nat) :=
  match s.splitOn "." with
  | [a, b] => match a.toNat?, b.toNat? with | some a, some b => some (a, b) | _, _ => none
  | _ => none

abbrev MetaT := Option Nat

def anyDigest : Digest := ⟨fun _ => true, fun _ => true⟩
def digestOf : String → Option Digest
  | "d2" => some ⟨fun n => n == "d2".toList, fun l => l == 2⟩
  | "s32" => some ⟨fun n => n == "sha256".toList, fun l => l == 32⟩
  | "s64" => some ⟨fun n => n == "sha512".toList, fun l => l == 64⟩
  | "any" => some anyDigest
  | _ => none

def fixedChecksum : Checksum := ⟨"any".toList, [0]⟩

def parseArtifact {V : Type} (pv : String → Option V) (idx : Nat) (s : String) : Option (Artifact V MetaT) :=
  match s.splitOn "/" with
  | [v, os, arch, m] =>
    match pv v, parseOs os, parseArch arch, parseMeta m with
    | some v, some os, some arch, some m => some ⟨v, os, arch, (toString idx).toList, fixedChecksum, m⟩
    | _, _, _, _ => none
  | _ => none

def parseArtifacts {V : Type} (pv : String → Option V) (s : String) : Option (List (Artifact V MetaT)) :=
  let toks := splitList s ","
  allSome ((List.range toks.length).zip toks |>.map (fun p => parseArtifact pv p.1 p.2))

structure Query (V : Type) where
  /-- asked when only the first `upto` artifacts have been pushed (`none` = all) -/
  upto : Option Nat
  os : Os
  arch : Arch
  req : Req V MetaT

/-- the inventory a query sees -/
def Query.sees {V : Type} (q : Query V) (inv : List (Artifact V MetaT)) : List (Artifact V MetaT) :=
  match q.upto with
  | none => inv
  | some n => inv.take n

/-- `le` = the version type's `≤` (only the requirement forms `>=v`, `<v`, `lo_hi` use it) -/
def parseQueryBody {V : Type} [DecidableEq V] (pv : String → Option V) (le : V → V → Bool) (upto : Option Nat) (s : String) :
    Option (Query V) :=
  match s.splitOn "/" with
  | [os, arch, vs, m] =>
    let vreq : Option (V → Bool) :=
      if vs = "*" then some (fun _ => true)
      else if vs = "~" then some (fun _ => false)
      else if vs.startsWith ">=" then (pv (vs.drop 2).toString).map (fun b v => le b v)
      else if vs.startsWith "<" then (pv (vs.drop 1).toString).map (fun b v => le v b && v != b)
      else match vs.splitOn "_" with
        | [lo, hi] => match pv lo, pv hi with
          | some lo, some hi => some (fun v => le lo v && le v hi)
          | _, _ => none
        | _ => (allSome ((vs.splitOn "+").map pv)).map (fun l v => l.contains v)
    let mreq : Option (MetaT → Bool) :=
      if m = "*" ∨ m = "v" then some (fun _ => true) else (parseMeta m).map (fun want got => got == want)
    match parseOs os, parseArch arch, vreq, mreq with
    | some os, some arch, some vr, some mr => some ⟨upto, os, arch, ⟨vr, mr⟩⟩
    | _, _, _, _ => none
  | _ => none

def parseQuery {V : Type} [DecidableEq V] (pv : String → Option V) (le : V → V → Bool) (s : String) : Option (Query V) :=
  match s.splitOn "@" with
  | [body] => parseQueryBody pv le none body
  | [n, body] => match n.toNat? with
    | some n => parseQueryBody pv le (some n) body
    | none => none
  | _ => none

def renderRes {V : Type} (r : Option (Artifact V MetaT)) : String :=
  match r with | none => "none" | some a => String.ofList a.url

/-- the implementation's answer for one query, as an artifact of the inventory -/
def parseRes {V : Type} (inv : List (Artifact V MetaT)) (s : String) : Option (Option (Artifact V MetaT)) :=
  if s = "none" then some none
  else match s.toNat? with
    | some i => (inv[i]?).map some
    | none => none

def judge {V : Type} [DecidableEq V] (lt : V → V → Bool) (inv : List (Artifact V MetaT)) (qs : List (Query V))
    (what : String) (answers : String) : Option String :=
  let toks := splitList answers ","
  if toks.length ≠ qs.length then some (what ++ ": " ++ toString toks.length ++ " answers for " ++ toString qs.length ++ " queries")
  else
    (qs.zip toks).findSome? (fun (q, t) =>
      match parseRes (q.sees inv) t with
      | none => some (what ++ ": unparsable answer " ++ t)
      | some res =>
        if decide (Acceptable lt (q.sees inv) q.os q.arch q.req res) then none
        else some (what ++ " returned " ++ t ++ " which is not a maximal match (or nothing although something matches)"))

def kvs (key : String) (s : String) : Option String :=
  if s.startsWith (key ++ "=") then some ((s.drop (key.length + 1)).toString) else none

def handleResolve {V : Type} [DecidableEq V] (total : Bool) (pv : String → Option V) (le : V → V → Bool) (cmp : V → V → Ordering)
    (pcmp : V → V → Option Ordering) (arts queries obs : String) : String × String :=
  match parseArtifacts pv arts, allSome ((splitList queries ",").map (parseQuery pv le)) with
  | some inv, some qs =>
    let r := if total then joinWith "," (qs.map (fun q => renderRes (resolve cmp (q.sees inv) q.os q.arch q.req))) else "-"
    let p := joinWith "," (qs.map (fun q => renderRes (partialResolve pcmp (q.sees inv) q.os q.arch q.req)))
    let model := "r=" ++ r ++ ";p=" ++ p ++ ";rt=1"
    let verdict :=
      match obs.splitOn ";" with
      | [ro, po, rt] =>
        match kvs "r" ro, kvs "p" po with
        | some ro, some po =>
          let v1 := if total then judge (ltOfCmp cmp) inv qs "resolve" ro else (if ro = "-" then none else some "unexpected r")
          (match v1 with
          | some why => "fail:" ++ why
          | none =>
            match judge (ltOfPCmp pcmp) inv qs "partial_resolve" po with
            | some why => "fail:" ++ why
            | none => if rt = "rt=1" then "ok" else "fail:rendering the inventory to TOML and parsing it back does not give equal artifacts (" ++ rt ++ ")")
        | _, _ => "fail:unparsable-observation"
      | _ => "fail:unparsable-observation"
    (model, verdict)
  | _, _ => ("bad-op", "bad-op")

def parseArtifactF (s : String) : Option (Artifact Nat MetaT) :=
  match s.splitOn "/" with
  | [v, os, arch, m, url, ck] =>
    match v.toNat?, parseOs os, parseArch arch, parseMeta m, hexDecode url, hexDecode ck with
    | some v, some os, some arch, some m, some url, some ck =>
      match parseChecksum anyDigest (chars ck) with
      | .ok c => some ⟨v, os, arch, chars url, c, m⟩
      | .error _ => none
    | _, _, _, _, _, _ => none
  | _ => none

def natCodec : Codec Nat Nat := ⟨id, some⟩
def metaCodec : Codec MetaT MetaT := ⟨id, some⟩

def renderMeta : MetaT → String | none => "n" | some k => toString k

def renderRec (r : Rec Nat MetaT) : String :=
  hexOf r.os ++ "|" ++ hexOf r.arch ++ "|" ++ hexOf r.url ++ "|" ++ hexOf r.checksum ++ "|" ++ toString r.version ++ "|" ++ renderMeta r.metadata

def errName : ChecksumErr → String
  | .missingPrefix => "missing-prefix" | .incompatiblePrefix => "incompatible-prefix"
  | .invalidValue => "invalid-value" | .invalidLength => "invalid-length"

def vShapes : List String := ["int", "str", "pair", "tbl"]
def mShapes : List String := ["none-unit", "opt-int", "int", "float", "bool", "string", "enum", "array", "string-array", "tuple", "newtype", "struct",
  "map", "opt-struct", "opt-map", "opt-fields", "array-of-structs", "map-of-structs", "nested"]

/-- an artifact of family `R`: two texts (hex) around os and arch -/
def validArtifactR (s : String) : Bool :=
  match s.splitOn "/" with
  | [v, os, arch, m] => (hexDecode v).isSome && (parseOs os).isSome && (parseArch arch).isSome && (hexDecode m).isSome
  | _ => false

def handle (fields : List String) (obs : String) : String × String :=
  match fields with
  | ["R", arts, shape] =>
    match shape.splitOn ":" with
    | [vs, ms] =>
      if vShapes.contains vs && mShapes.contains ms && (splitList arts ",").all validArtifactR then
        ("rt=1", if obs = "rt=1" then "ok"
                 else "fail:rendering the inventory to TOML and parsing it back does not give equal artifacts (" ++ obs ++ ")")
      else ("bad-op", "bad-op")
    | _ => ("bad-op", "bad-op")
  | ["T", arts, queries] =>
    handleResolve (V := Nat) true String.toNat? (fun a b => decide (a ≤ b)) natCmp (fun a b => some (natCmp a b)) arts queries obs
  | ["P", arts, queries] =>
    handleResolve (V := Nat × Nat) false parsePair (fun a b => decide (a.1 ≤ b.1 ∧ a.2 ≤ b.2)) (fun _ _ => .eq) pairPCmp arts queries obs
  | ["F", arts, "-"] =>
    match allSome ((splitList arts ",").map parseArtifactF) with
    | some inv =>
      let recs := encodeInventory natCodec metaCodec inv
      let back := decodeInventory natCodec metaCodec anyDigest recs
      let rt := if back == some inv then "rt=1" else "rt=0"
      let model := rt ++ ";enc=" ++ joinWith "," (recs.map renderRec)
      let verdict :=
        match obs.splitOn ";" with
        | ["rt=1", _] => "ok"
        | _ => "fail:rendering the inventory to TOML and parsing it back does not give equal artifacts (" ++ obs ++ ")"
      (model, verdict)
    | none => ("bad-op", "bad-op")
  | ["K", "-", "-", dg, str] =>
    match digestOf dg, hexDecode str with
    | some d, some bytes =>
      let s := chars bytes
      let model :=
        match parseChecksum d s with
        | .ok c => "ok:" ++ hexOf c.name ++ ":" ++ hexEncode c.value ++ ":" ++ hexOf (renderChecksum c)
        | .error e => "err:" ++ errName e
      let want := accepts d s
      let verdict :=
        if obs.startsWith "err:" then
          (if want then "fail:rejected (" ++ obs ++ ") although the string is <algorithm>:<hex> of the expected digest" else "ok")
        else match obs.splitOn ":" with
          | ["ok", n, v, rendered] =>
            if !want then "fail:accepted although the string is not <algorithm>:<hex> of the expected digest"
            else
              -- accepted: the name is the part before the colon, the value the bytes the digits denote, and it renders back
              let name := s.takeWhile (· ≠ ':')
              let hex := (s.dropWhile (· ≠ ':')).drop 1
              if n ≠ hexOf name then "fail:algorithm name " ++ n ++ " expected " ++ hexOf name
              else if v ≠ hexEncode (hexValue hex) then "fail:digest value " ++ v ++ " expected " ++ hexEncode (hexValue hex)
              else match hexDecode rendered with
                | some rb => if accepts d (chars rb) && hexValue ((chars rb).dropWhile (· ≠ ':') |>.drop 1) == hexValue hex
                             && (chars rb).takeWhile (· ≠ ':') == name then "ok"
                             else "fail:the rendered checksum " ++ rendered ++ " does not parse back to the same checksum"
                | none => "fail:unparsable-observation"
          | _ => "fail:unparsable-observation"
      (model, verdict)
    | _, _ => ("bad-op", "bad-op")
  | _ => ("bad-op", "bad-op")

end CnbVerif.DriverC18
