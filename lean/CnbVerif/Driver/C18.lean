import CnbVerif.Model.Inventory
import CnbVerif.Spec.Inventory
/-!
Driver glue for C18. Strings travel as lowercase hex of their UTF-8 bytes and are carried here as one `Char` per byte
(only equality and the ASCII colon / hex digits are ever inspected, and `:` never occurs inside a multi-byte sequence).

* `T | P  <artifacts>  <queries>` — `T`: versions are integers (`Ord`), `resolve` and `partial_resolve`; `P`: versions are
  pairs `a.b` under the product order, `partial_resolve` only.
  artifact `<version>/<l|d>/<x|a>/<n|k>` (os linux/darwin, arch amd64/arm64, metadata None/Some k, k ≤ 255), url = position;
  query `[N@]<l|d>/<x|a>/<versions joined by + | * | ~ | >=v | <v | lo_hi>/<* | n | k>` (accepted versions: the listed ones /
  any / none / at least v / below v / between lo and hi inclusive, by the version order; metadata: any / exactly that /
  `v` = any, asked through a type that implements only `VersionRequirement` (the library's blanket impl);
  the prefix `N@` = the query is asked when only the first N artifacts have been pushed). Observation `r=<i|none>,…;p=<i|none>,…;rt=1` (`r=-` for `P`), one answer per query.
* `F  <artifacts>  -` — artifact `<int version>/<os>/<arch>/<meta>/<url hex>/<checksum string hex>`; observation
  `rt=1;enc=<os hex>|<arch hex>|<url hex>|<checksum hex>|<version>|<meta>,…` (what the rendered TOML holds per artifact).
* `R  <artifacts>  <vshape>:<mshape>` — artifact `<text hex>/<l|d>/<x|a>/<text hex>`: the harness derives a version of type `vshape` (`int`,
  `str`, `pair` = tuple struct, `tbl` = struct, a TOML table) and a metadata value of type `mshape` (plain values, arrays, tables,
  optional tables, arrays of tables, maps of tables, nested) from the two texts, renders the inventory with `Display`/`to_string`,
  parses it back with `FromStr` and compares field by field. The clause judged is "rendering an inventory to TOML and parsing it back
  gives equal artifacts": observation `rt=1`, anything else (`rt=0:<field>:<index>`, `rt=parse-error`, `PANIC`) is a failure. The typed
  values are not modelled (the record-level theorem `inventory_roundtrip_partial` is generic in the codecs); the model observation is `rt=1`.
* `K  -  -  <d2|s32|s64|any>  <string hex>` (the two `-` keep the list positions 1, 2 that `./check` shrinks empty) — observation `ok:<name hex>:<value hex>:<rendered hex>` or `err:<kind>`.
* `KP  -  -  <d2|s32|s64|any>  <string hex>  <- | l | ml | l+ml>` — the same candidate through every entry path a string has into
  `Checksum<D>`; observation `fs=<as K>;ds=<r>;dj=<r>;dt=<r>;dv=<r>;ib=<r>;imb=<r>;ij=<r>;at=<r>[;il=<r>][;iml=<r>]`, `r` = `ok:<name hex>:<value hex>`
  or `err`. `fs` = `str::parse`, `ds` / `dj` / `dt` / `dv` = `Deserialize` on its own (serde's `&str` deserializer, a JSON string, a one-field
  TOML record, a `toml::Value`), `ib` / `imb` / `il` / `iml` = `Inventory::from_str` of a one-artifact document with the checksum written as
  basic / multi-line basic / literal / multi-line literal string (the last field says which of the two literal notations the text allows;
  the harness checks with the `toml` crate that each document's decoded string is the candidate), `ij` = the inventory from JSON, `at` =
  one `Artifact` from TOML. The spec oracle (`accepts`, the digest value) is applied to every path's outcome separately; the verdict
  names the first path that deviates. The model's answer for the record paths is `decodeInventory` of the one-artifact record.
* `N  -  -  <os|arch>  <string hex>  <- | l | ml | l+ml>` — an OS / architecture name through the same paths (`fs` = `FromStr`, which also
  knows the aliases `osx`, `x86_64`, `aarch64`); observation `<path>=ok:<Display rendering hex>` or `<path>=err`. Judged directly: a
  rendered name (`linux`, `darwin` / `amd64`, `arm64`) must be read back as itself on every path, and all paths must give the same answer.
-/
namespace CnbVerif.DriverC18
open CnbVerif CnbVerif.Inventory CnbVerif.Spec.Inventory

def chars (b : Bytes) : List Char := b.map Char.ofNat
def unchars (s : List Char) : Bytes := s.map Char.toNat
def hexOf (s : List Char) : String := hexEncode (unchars s)

def parseOs : String → Option Os | "l" => some .linux | "d" => some .darwin | _ => none
def parseArch : String → Option Arch | "x" => some .amd64 | "a" => some .arm64 | _ => none
def parseMeta : String → Option (Option Nat)
  | "n" => some none
  | s => match s.toNat? with
    | some k => if k ≤ 255 then some (some k) else none
    | none => none

def parsePair (s : String) : Option (Nat × Nat) :=
  match s.splitOn "." with
  | [a, b] => match a.toNat?, b.toNat? with | some a, some b => some (a, b) | _, _ => none
  | _ => none

abbrev MetaT := Option Nat

def anyDigest : Digest := ⟨fun _ => true, fun _ => true⟩
def digestOf : String → Option Digest
  | "d2" => some ⟨fun n => n == "d2".toList, fun l => l == 2⟩
  | "s32" => some ⟨fun n => n == "sha256".toList, fun l => l == 32⟩
  | "s64" => some ⟨fun n => n == "sha512".toList, fun l => l == 64⟩
  | "any" => some anyDigest
  | _ => none

def fixedChecksum : Checksum := ⟨"any".toList, [0]⟩

def parseArtifact {V : Type} (pv : String → Option V) (idx : Nat) (s : String) : Option (Artifact V MetaT) :=
  match s.splitOn "/" with
  | [v, os, arch, m] =>
    match pv v, parseOs os, parseArch arch, parseMeta m with
    | some v, some os, some arch, some m => some ⟨v, os, arch, (toString idx).toList, fixedChecksum, m⟩
    | _, _, _, _ => none
  | _ => none

def parseArtifacts {V : Type} (pv : String → Option V) (s : String) : Option (List (Artifact V MetaT)) :=
  let toks := splitList s ","
  allSome ((List.range toks.length).zip toks |>.map (fun p => parseArtifact pv p.1 p.2))

structure Query (V : Type) where
  /-- asked when only the first `upto` artifacts have been pushed (`none` = all) -/
  upto : Option Nat
  os : Os
  arch : Arch
  req : Req V MetaT

/-- the inventory a query sees -/
def Query.sees {V : Type} (q : Query V) (inv : List (Artifact V MetaT)) : List (Artifact V MetaT) :=
  match q.upto with
  | none => inv
  | some n => inv.take n

/-- `le` = the version type's `≤` (only the requirement forms `>=v`, `<v`, `lo_hi` use it) -/
def parseQueryBody {V : Type} [DecidableEq V] (pv : String → Option V) (le : V → V → Bool) (upto : Option Nat) (s : String) :
    Option (Query V) :=
  match s.splitOn "/" with
  | [os, arch, vs, m] =>
    let vreq : Option (V → Bool) :=
      if vs = "*" then some (fun _ => true)
      else if vs = "~" then some (fun _ => false)
      else if vs.startsWith ">=" then (pv (vs.drop 2).toString).map (fun b v => le b v)
      else if vs.startsWith "<" then (pv (vs.drop 1).toString).map (fun b v => le v b && v != b)
      else match vs.splitOn "_" with
        | [lo, hi] => match pv lo, pv hi with
          | some lo, some hi => some (fun v => le lo v && le v hi)
          | _, _ => none
        | _ => (allSome ((vs.splitOn "+").map pv)).map (fun l v => l.contains v)
    let mreq : Option (MetaT → Bool) :=
      if m = "*" ∨ m = "v" then some (fun _ => true) else (parseMeta m).map (fun want got => got == want)
    match parseOs os, parseArch arch, vreq, mreq with
    | some os, some arch, some vr, some mr => some ⟨upto, os, arch, ⟨vr, mr⟩⟩
    | _, _, _, _ => none
  | _ => none

def parseQuery {V : Type} [DecidableEq V] (pv : String → Option V) (le : V → V → Bool) (s : String) : Option (Query V) :=
  match s.splitOn "@" with
  | [body] => parseQueryBody pv le none body
  | [n, body] => match n.toNat? with
    | some n => parseQueryBody pv le (some n) body
    | none => none
  | _ => none

def renderRes {V : Type} (r : Option (Artifact V MetaT)) : String :=
  match r with | none => "none" | some a => String.ofList a.url

/-- the implementation's answer for one query, as an artifact of the inventory -/
def parseRes {V : Type} (inv : List (Artifact V MetaT)) (s : String) : Option (Option (Artifact V MetaT)) :=
  if s = "none" then some none
  else match s.toNat? with
    | some i => (inv[i]?).map some
    | none => none

def judge {V : Type} [DecidableEq V] (lt : V → V → Bool) (inv : List (Artifact V MetaT)) (qs : List (Query V))
    (what : String) (answers : String) : Option String :=
  let toks := splitList answers ","
  if toks.length ≠ qs.length then some (what ++ ": " ++ toString toks.length ++ " answers for " ++ toString qs.length ++ " queries")
  else
    (qs.zip toks).findSome? (fun (q, t) =>
      match parseRes (q.sees inv) t with
      | none => some (what ++ ": unparsable answer " ++ t)
      | some res =>
        if decide (Acceptable lt (q.sees inv) q.os q.arch q.req res) then none
        else some (what ++ " returned " ++ t ++ " which is not a maximal match (or nothing although something matches)"))

def kvs (key : String) (s : String) : Option String :=
  if s.startsWith (key ++ "=") then some ((s.drop (key.length + 1)).toString) else none

def handleResolve {V : Type} [DecidableEq V] (total : Bool) (pv : String → Option V) (le : V → V → Bool) (cmp : V → V → Ordering)
    (pcmp : V → V → Option Ordering) (arts queries obs : String) : String × String :=
  match parseArtifacts pv arts, allSome ((splitList queries ",").map (parseQuery pv le)) with
  | some inv, some qs =>
    let r := if total then joinWith "," (qs.map (fun q => renderRes (resolve cmp (q.sees inv) q.os q.arch q.req))) else "-"
    let p := joinWith "," (qs.map (fun q => renderRes (partialResolve pcmp (q.sees inv) q.os q.arch q.req)))
    let model := "r=" ++ r ++ ";p=" ++ p ++ ";rt=1"
    let verdict :=
      match obs.splitOn ";" with
      | [ro, po, rt] =>
        match kvs "r" ro, kvs "p" po with
        | some ro, some po =>
          let v1 := if total then judge (ltOfCmp cmp) inv qs "resolve" ro else (if ro = "-" then none else some "unexpected r")
          (match v1 with
          | some why => "fail:" ++ why
          | none =>
            match judge (ltOfPCmp pcmp) inv qs "partial_resolve" po with
            | some why => "fail:" ++ why
            | none => if rt = "rt=1" then "ok" else "fail:rendering the inventory to TOML and parsing it back does not give equal artifacts (" ++ rt ++ ")")
        | _, _ => "fail:unparsable-observation"
      | _ => "fail:unparsable-observation"
    (model, verdict)
  | _, _ => ("bad-op", "bad-op")

def parseArtifactF (s : String) : Option (Artifact Nat MetaT) :=
  match s.splitOn "/" with
  | [v, os, arch, m, url, ck] =>
    match v.toNat?, parseOs os, parseArch arch, parseMeta m, hexDecode url, hexDecode ck with
    | some v, some os, some arch, some m, some url, some ck =>
      match parseChecksum anyDigest (chars ck) with
      | .ok c => some ⟨v, os, arch, chars url, c, m⟩
      | .error _ => none
    | _, _, _, _, _, _ => none
  | _ => none

def natCodec : Codec Nat Nat := ⟨id, some⟩
def metaCodec : Codec MetaT MetaT := ⟨id, some⟩

def renderMeta : MetaT → String | none => "n" | some k => toString k

def renderRec (r : Rec Nat MetaT) : String :=
  hexOf r.os ++ "|" ++ hexOf r.arch ++ "|" ++ hexOf r.url ++ "|" ++ hexOf r.checksum ++ "|" ++ toString r.version ++ "|" ++ renderMeta r.metadata

def errName : ChecksumErr → String
  | .missingPrefix => "missing-prefix" | .incompatiblePrefix => "incompatible-prefix"
  | .invalidValue => "invalid-value" | .invalidLength => "invalid-length"

def vShapes : List String := ["int", "str", "pair", "tbl"]
def mShapes : List String := ["none-unit", "opt-int", "int", "float", "bool", "string", "enum", "array", "string-array", "tuple", "newtype", "struct",
  "map", "opt-struct", "opt-map", "opt-fields", "array-of-structs", "map-of-structs", "nested"]

/-- an artifact of family `R`: two texts (hex) around os and arch -/
def validArtifactR (s : String) : Bool :=
  match s.splitOn "/" with
  | [v, os, arch, m] => (hexDecode v).isSome && (parseOs os).isSome && (parseArch arch).isSome && (hexDecode m).isSome
  | _ => false

/-- the model's answer for a checksum string: `Checksum::from_str`; `full` adds the `Serialize` rendering (as family K shows it),
the short form shows the error only as `err` (a serde path reports a message, not the error value) -/
def modelChecksum (d : Digest) (s : List Char) (full : Bool) : String :=
  match parseChecksum d s with
  | .ok c => "ok:" ++ hexOf c.name ++ ":" ++ hexEncode c.value ++ (if full then ":" ++ hexOf (renderChecksum c) else "")
  | .error e => if full then "err:" ++ errName e else "err"

/-- the spec oracle on one outcome for the candidate `s`; `want` = `accepts d s` (the grammar). `full`: the outcome of `str::parse`
(`ok:<name>:<value>:<rendered>` / `err:<kind>`), otherwise of a deserialisation path (`ok:<name>:<value>` / `err`). -/
def judgeChecksum (d : Digest) (want : Bool) (s : List Char) (full : Bool) (obs : String) : String :=
  let name := s.takeWhile (· ≠ ':')
  let hex := (s.dropWhile (· ≠ ':')).drop 1
  -- accepted: the name is the part before the colon, the value the bytes the digits denote
  let accepted (n v : String) (k : Unit → String) : String :=
    if !want then "fail:accepted although the string is not <algorithm>:<hex> of the expected digest"
    else if n ≠ hexOf name then "fail:algorithm name " ++ n ++ " expected " ++ hexOf name
    else if v ≠ hexEncode (hexValue hex) then "fail:digest value " ++ v ++ " expected " ++ hexEncode (hexValue hex)
    else k ()
  if (if full then obs.startsWith "err:" else obs == "err") then
    (if want then "fail:rejected (" ++ obs ++ ") although the string is <algorithm>:<hex> of the expected digest" else "ok")
  else match obs.splitOn ":", full with
    | ["ok", n, v, rendered], true =>
      accepted n v (fun _ =>
        -- … and it renders back
        match hexDecode rendered with
        | some rb => if accepts d (chars rb) && hexValue ((chars rb).dropWhile (· ≠ ':') |>.drop 1) == hexValue hex
                       && (chars rb).takeWhile (· ≠ ':') == name then "ok"
                     else "fail:the rendered checksum " ++ rendered ++ " does not parse back to the same checksum"
        | none => "fail:unparsable-observation")
    | ["ok", n, v], false => accepted n v (fun _ => "ok")
    | _, _ => "fail:unparsable-observation"

/-- the entry paths every `KP` / `N` case reports, in the order of the observation -/
def requiredPaths : List String := ["fs", "ds", "dj", "dt", "dv", "ib", "imb", "ij", "at"]
/-- the paths that carry the string inside an artifact record -/
def recordPaths : List String := ["ib", "imb", "ij", "at", "il", "iml"]
def optionalPaths : String → Option (List String)
  | "-" => some [] | "l" => some ["il"] | "ml" => some ["iml"] | "l+ml" => some ["il", "iml"] | _ => none

def pathName : String → String
  | "fs" => "str::parse (FromStr)"
  | "ds" => "Deserialize from serde's own str deserializer"
  | "dj" => "serde_json::from_str of the JSON string"
  | "dt" => "toml::from_str of a one-field record"
  | "dv" => "Deserialize from a toml::Value"
  | "ib" => "Inventory::from_str, value written as a TOML basic string"
  | "imb" => "Inventory::from_str, value written as a TOML multi-line basic string"
  | "il" => "Inventory::from_str, value written as a TOML literal string"
  | "iml" => "Inventory::from_str, value written as a TOML multi-line literal string"
  | "ij" => "Inventory deserialised from a JSON value"
  | "at" => "toml::from_str of one Artifact"
  | p => p

/-- `p1=o1;p2=o2;…` for exactly the expected paths, in order -/
def outcomes (paths : List String) (obs : String) : Option (List (String × String)) :=
  let toks := obs.splitOn ";"
  if toks.length ≠ paths.length then none
  else allSome ((paths.zip toks).map (fun (p, t) => (kvs p t).map (fun o => (p, o))))

/-- `impl FromStr for Os` / `for Arch` (artifact.rs), shown by the `Display` rendering: the lowercase names and the aliases -/
def osFromStr (s : List Char) : Option (List Char) :=
  if s = "linux".toList then some Os.linux.render
  else if s = "darwin".toList ∨ s = "osx".toList then some Os.darwin.render else none
def archFromStr (s : List Char) : Option (List Char) :=
  if s = "amd64".toList ∨ s = "x86_64".toList then some Arch.amd64.render
  else if s = "arm64".toList ∨ s = "aarch64".toList then some Arch.arm64.render else none

/-- (rendered names, FromStr, Deserialize) of the field `os` / `arch` -/
def nameField : String → Option (List (List Char) × (List Char → Option (List Char)) × (List Char → Option (List Char)))
  | "os" => some ([Os.linux.render, Os.darwin.render], osFromStr, fun s => (Os.parse s).map Os.render)
  | "arch" => some ([Arch.amd64.render, Arch.arm64.render], archFromStr, fun s => (Arch.parse s).map Arch.render)
  | _ => none

def handle (fields : List String) (obs : String) : String × String :=
  match fields with
  | ["R", arts, shape] =>
    match shape.splitOn ":" with
    | [vs, ms] =>
      if vShapes.contains vs && mShapes.contains ms && (splitList arts ",").all validArtifactR then
        ("rt=1", if obs = "rt=1" then "ok"
                 else "fail:rendering the inventory to TOML and parsing it back does not give equal artifacts (" ++ obs ++ ")")
      else ("bad-op", "bad-op")
    | _ => ("bad-op", "bad-op")
  | ["T", arts, queries] =>
    handleResolve (V := Nat) true String.toNat? (fun a b => decide (a ≤ b)) natCmp (fun a b => some (natCmp a b)) arts queries obs
  | ["P", arts, queries] =>
    handleResolve (V := Nat × Nat) false parsePair (fun a b => decide (a.1 ≤ b.1 ∧ a.2 ≤ b.2)) (fun _ _ => .eq) pairPCmp arts queries obs
  | ["F", arts, "-"] =>
    match allSome ((splitList arts ",").map parseArtifactF) with
    | some inv =>
      let recs := encodeInventory natCodec metaCodec inv
      let back := decodeInventory natCodec metaCodec anyDigest recs
      let rt := if back == some inv then "rt=1" else "rt=0"
      let model := rt ++ ";enc=" ++ joinWith "," (recs.map renderRec)
      let verdict :=
        match obs.splitOn ";" with
        | ["rt=1", _] => "ok"
        | _ => "fail:rendering the inventory to TOML and parsing it back does not give equal artifacts (" ++ obs ++ ")"
      (model, verdict)
    | none => ("bad-op", "bad-op")
  | ["K", "-", "-", dg, str] =>
    match digestOf dg, hexDecode str with
    | some d, some bytes =>
      let s := chars bytes
      (modelChecksum d s true, judgeChecksum d (accepts d s) s true obs)
    | _, _ => ("bad-op", "bad-op")
  | ["KP", "-", "-", dg, str, forms] =>
    match digestOf dg, hexDecode str, optionalPaths forms with
    | some d, some bytes, some opt =>
      let s := chars bytes
      let paths := requiredPaths ++ opt
      let viaRecord : String :=
        match decodeInventory natCodec metaCodec d [⟨1, Os.linux.render, Arch.amd64.render, ['u'], s, none⟩] with
        | some [a] => "ok:" ++ hexOf a.checksum.name ++ ":" ++ hexEncode a.checksum.value
        | _ => "err"
      let model := joinWith ";" (paths.map (fun p =>
        p ++ "=" ++ (if p = "fs" then modelChecksum d s true else if recordPaths.contains p then viaRecord else modelChecksum d s false)))
      let want := accepts d s
      let verdict :=
        match outcomes paths obs with
        | none => "fail:unparsable-observation"
        | some outs =>
          match outs.findSome? (fun (p, o) =>
              let v := judgeChecksum d want s (p == "fs") o
              if v = "ok" then none else some ("fail:" ++ pathName p ++ ": " ++ (v.drop 5).toString)) with
          | some why => why
          | none => "ok"
      (model, verdict)
    | _, _, _ => ("bad-op", "bad-op")
  | ["N", "-", "-", field, str, forms] =>
    match nameField field, hexDecode str, optionalPaths forms with
    | some (names, fromStr, de), some bytes, some opt =>
      let s := chars bytes
      let paths := requiredPaths ++ opt
      let show_ : Option (List Char) → String | some n => "ok:" ++ hexOf n | none => "err"
      let model := joinWith ";" (paths.map (fun p => p ++ "=" ++ show_ (if p = "fs" then fromStr s else de s)))
      let verdict :=
        match outcomes paths obs with
        | none => "fail:unparsable-observation"
        | some outs =>
          if !outs.all (fun (_, o) => o == "err" || names.any (fun n => o == "ok:" ++ hexOf n)) then "fail:unparsable-observation"
          else match (if names.contains s then outs.find? (fun (_, o) => o != "ok:" ++ hexOf s) else none) with
            | some (p, o) => "fail:" ++ pathName p ++ ": the rendered " ++ field ++ " name is not read back as itself (" ++ o ++ ")"
            | none =>
              match outs with
              | [] => "fail:unparsable-observation"
              | (p0, o0) :: rest =>
                match rest.find? (fun (_, o) => o != o0) with
                | some (p, o) => "fail:the entry paths disagree on this " ++ field ++ " name: " ++ pathName p0 ++ " gives " ++ o0 ++ ", " ++ pathName p ++ " gives " ++ o
                | none => "ok"
      (model, verdict)
    | _, _, _ => ("bad-op", "bad-op")
  | _ => ("bad-op", "bad-op")

end CnbVerif.DriverC18
