import CnbVerif.Base.Proto
import CnbVerif.Model.Ident
import CnbVerif.Model.Version
import CnbVerif.Spec.Grammar
/-!
Driver glue for C09. Fields: `<kind> <string> <extra>`; `<string>` = hex code points joined by `,` (`-` = empty, the field
`./check` shrinks), `<extra>` = `-` when unused.

* kind `layer | process | bpid | execd`: `<string>` is the input. Observation `p=<r>;t=<r>;u=<r>;j=<r>;k=<r>` (`str::parse`,
  deserialisation of a TOML value, of a TOML value spelled with escapes, of a JSON string, of a TOML table key) with
  `<r>` = `err` or `ok:<Display>:<Serialize>` (code points).
* kind `version | api`: `<string>` is the input. Observation `p=<r>;t=<r>;u=<r>;j=<r>;k=<r>` (`TryFrom<String>`, the same
  deserialisation paths) with `<r>` = `err` or `ok:<numbers joined by .>:<Display>:<numbers of the re-parsed Display | err>`.
* kind `mlayer | mprocess | mbpid | mexecd`: `<extra>` = a batch of literals joined by `/`, code points joined by `.`.
  Observation: one `1`/`0` per literal (the literal macro compiled / was rejected with `compile_error!`).
* kind `xlayer | … | xversion | xapi`: `<string>` = a prefix, `<extra>` = `<alphabet code points joined by .>|<depth>`: all
  strings prefix ++ suffix with suffixes of length ≤ depth over the alphabet (by length, then alphabet order). Observation:
  one class per string: `0` rejected, `1` accepted and displayed as the input, `2` accepted and displayed differently.
* kind `vtriple | apair`: `<extra>` = u64 numbers joined by `.`. Observation `d=<Display>;r=<numbers of the parsed Display | err>`.

The verdict is computed from `Spec/Grammar.lean` only (never from the model).
-/
namespace CnbVerif.DriverC09
open CnbVerif

def hexNat (s : String) : Option Nat :=
  if s.isEmpty then none
  else s.toList.foldl (fun acc c => match acc, hexVal c with
    | some a, some d => some (a * 16 + d)
    | _, _ => none) (some 0)

def cpChar (n : Nat) : Option Char := if n.isValidChar then some (Char.ofNat n) else none

def parseCps (sep : String) (s : String) : Option (List Char) :=
  allSome ((splitList s sep).map (fun t => (hexNat t).bind cpChar))

def natHex (n : Nat) : String := String.ofList (Nat.toDigits 16 n)

def renderCps (s : List Char) : String := joinWith "," (s.map (fun c => natHex c.toNat))

def nums (l : List Nat) : String := String.intercalate "." (l.map toString)

def parseNums (s : String) : Option (List Nat) := allSome ((s.splitOn ".").map String.toNat?)

/-- regex (model) and language (spec) of an identifier kind -/
def identKind (k : String) : Option (Anchored × (List Char → Bool)) :=
  if k = "layer" then some (Gen.layerNameRe, Spec.isLayerName)
  else if k = "process" then some (Gen.processTypeRe, Spec.isProcessType)
  else if k = "bpid" then some (Gen.buildpackIdRe, Spec.isBuildpackId)
  else if k = "execd" then some (Gen.execdKeyRe, Spec.isExecdKey)
  else none

def identResult (a : Anchored) (s : List Char) : String :=
  match parseNewtype a s with
  | some v => "ok:" ++ renderCps (displayNewtype v) ++ ":" ++ renderCps (serializeNewtype v)
  | none => "err"

def specIdentResult (lang : List Char → Bool) (s : List Char) : String :=
  if lang s then "ok:" ++ renderCps s ++ ":" ++ renderCps s else "err"

def versionResult (s : List Char) : String :=
  match parseVersion s with
  | some v =>
    let d := displayVersion v
    "ok:" ++ nums [v.1, v.2.1, v.2.2] ++ ":" ++ renderCps d ++ ":" ++
      (match parseVersion d with | some w => nums [w.1, w.2.1, w.2.2] | none => "err")
  | none => "err"

/-- what the spec demands for a version input: the denoted value, displayed as the input, re-parsed as the same value -/
def specVersionResult (s : List Char) : String :=
  match Spec.versionValue s with
  | some (a, b, c) => "ok:" ++ nums [a, b, c] ++ ":" ++ renderCps s ++ ":" ++ nums [a, b, c]
  | none => "err"

def apiResult (s : List Char) : String :=
  match parseApi s with
  | some v =>
    let d := displayApi v
    "ok:" ++ nums [v.1, v.2] ++ ":" ++ renderCps d ++ ":" ++
      (match parseApi d with | some w => nums [w.1, w.2] | none => "err")
  | none => "err"

def specApiResult (s : List Char) : String :=
  match Spec.apiValue s with
  | some (a, b) => "ok:" ++ nums [a, b] ++ ":" ++ renderCps (Spec.apiText a b) ++ ":" ++ nums [a, b]
  | none => "err"

/-- the entry paths of one observation, in the harness's order: `p` run-time parsing (`str::parse` / `TryFrom<String>`),
`t` TOML value as the toml crate spells it, `u` TOML value spelled with `\u` escapes only, `j` JSON string, `k` TOML table key -/
def pathNames : List String := ["p", "t", "u", "j", "k"]

def pathWhat (n : String) : String :=
  if n = "p" then "parse" else if n = "t" then "deserialisation" else if n = "u" then "deserialisation (escaped TOML string)"
  else if n = "j" then "deserialisation (JSON)" else "deserialisation (TOML table key)"

/-- what the model says for every path -/
def allPaths (m : String) : String := String.intercalate ";" (pathNames.map (fun n => n ++ "=" ++ m))

/-- every path of the observation must equal what the spec demands -/
def judgePaths (obs : String) (expected : String) : String :=
  let parts := obs.splitOn ";"
  if parts.length != pathNames.length then "fail:unparsable-observation"
  else
    match (pathNames.zip parts).find? (fun np => np.2 != np.1 ++ "=" ++ expected) with
    | none => "ok"
    | some (n, got) =>
      if got.startsWith (n ++ "=") then
        "fail:" ++ pathWhat n ++ " gives " ++ (got.drop (n.length + 1)).toString ++ " but the spec demands " ++ expected
      else "fail:unparsable-observation"

def macroKind (k : String) : Option String :=
  if k = "mlayer" then some "layer" else if k = "mprocess" then some "process"
  else if k = "mbpid" then some "bpid" else if k = "mexecd" then some "execd" else none

def bits (f : List Char → Bool) (l : List (List Char)) : String :=
  String.ofList (l.map (fun s => if f s then '1' else '0'))

def firstDiff : List Char → List Char → Nat → Option Nat
  | a :: as, b :: bs, i => if a = b then firstDiff as bs (i + 1) else some i
  | [], [], _ => none
  | _, _, i => some i

/-- all strings of length ≤ depth over the alphabet: by length, then in alphabet order (the harness enumerates alike) -/
def enumSuffixes (alphabet : List Char) : Nat → List (List Char)
  | 0 => [[]]
  | d + 1 =>
    let rec levels (k : Nat) (cur : List (List Char)) (acc : List (List Char)) : List (List Char) :=
      match k with
      | 0 => acc
      | k + 1 =>
        let next := cur.flatMap (fun w => alphabet.map (fun a => w ++ [a]))
        levels k next (acc ++ next)
    levels (d + 1) [[]] [[]]

def bulkKind (k : String) : Option String :=
  if k = "xlayer" then some "layer" else if k = "xprocess" then some "process"
  else if k = "xbpid" then some "bpid" else if k = "xexecd" then some "execd"
  else if k = "xversion" then some "version" else if k = "xapi" then some "api" else none

/-- class of one string in a bulk case: `0` rejected, `1` accepted and displayed as the input, `2` accepted and displayed
differently (API versions outside the `N.M` normal form) -/
def classOf (accepted : Bool) (display : List Char) (s : List Char) : Char :=
  if !accepted then '0' else if display = s then '1' else '2'

def modelClass (kind : String) (s : List Char) : Option Char :=
  match identKind kind with
  | some (re, _) => some (match parseNewtype re s with | some v => classOf true (displayNewtype v) s | none => '0')
  | none =>
    if kind = "version" then some (match parseVersion s with | some v => classOf true (displayVersion v) s | none => '0')
    else if kind = "api" then some (match parseApi s with | some v => classOf true (displayApi v) s | none => '0')
    else none

def specClass (kind : String) (s : List Char) : Option Char :=
  match identKind kind with
  | some (_, lang) => some (if lang s then '1' else '0')
  | none =>
    if kind = "version" then some (match Spec.versionValue s with | some _ => '1' | none => '0')
    else if kind = "api" then
      some (match Spec.apiValue s with | some (a, b) => classOf true (Spec.apiText a b) s | none => '0')
    else none

def compareBits (what : String) (obs want : String) (lits : List (List Char)) : String :=
  match firstDiff obs.toList want.toList 0 with
  | none => "ok"
  | some i =>
    if obs.length != want.length then "fail:unparsable-observation"
    else "fail:" ++ what ++ " classifies " ++ renderCps (lits.getD i []) ++ " as " ++ String.singleton (obs.toList.getD i '?') ++
      " but the spec demands " ++ String.singleton (want.toList.getD i '?')

/-- fields: kind, input string (code points, `,`), extra (`-` when unused) -/
def handle (fields : List String) (obs : String) : String × String :=
  match fields with
  | [kind, str, extra] =>
    match identKind kind with
    | some (re, lang) =>
      (match parseCps "," str, extra with
      | some s, "-" =>
        let m := identResult re s
        (allPaths m, judgePaths obs (specIdentResult lang s))
      | _, _ => ("bad-op", "bad-op"))
    | none =>
    match (macroKind kind).bind identKind with
    | some (re, lang) =>
      (match str, allSome ((splitList extra "/").map (parseCps ".")) with
      | "-", some lits =>
        (bits (accepts re) lits, compareBits "the literal macro" obs (bits lang lits) lits)
      | _, _ => ("bad-op", "bad-op"))
    | none =>
    match bulkKind kind with
    | some k =>
      (match parseCps "," str, extra.splitOn "|" with
      | some pre, [alpha, depth] =>
        (match parseCps "." alpha, depth.toNat? with
        | some alphabet, some d =>
          let strs := (enumSuffixes alphabet d).map (fun suf => pre ++ suf)
          (match allSome (strs.map (modelClass k)), allSome (strs.map (specClass k)) with
          | some m, some w => (String.ofList m, compareBits "the implementation" obs (String.ofList w) strs)
          | _, _ => ("bad-op", "bad-op"))
        | _, _ => ("bad-op", "bad-op"))
      | _, _ => ("bad-op", "bad-op"))
    | none =>
    if kind = "version" then
      match parseCps "," str, extra with
      | some s, "-" => let m := versionResult s; (allPaths m, judgePaths obs (specVersionResult s))
      | _, _ => ("bad-op", "bad-op")
    else if kind = "api" then
      match parseCps "," str, extra with
      | some s, "-" => let m := apiResult s; (allPaths m, judgePaths obs (specApiResult s))
      | _, _ => ("bad-op", "bad-op")
    else if kind = "vtriple" then
      match str, parseNums extra with
      | "-", some [a, b, c] =>
        if a < u64Bound ∧ b < u64Bound ∧ c < u64Bound then
          let d := displayVersion (a, b, c)
          let m := "d=" ++ renderCps d ++ ";r=" ++ (match parseVersion d with | some w => nums [w.1, w.2.1, w.2.2] | none => "err")
          let want := "d=" ++ renderCps (Spec.versionText a b c) ++ ";r=" ++ nums [a, b, c]
          (m, if obs = want then "ok" else "fail:display/parse of a version value gives " ++ obs ++ " but the spec demands " ++ want)
        else ("bad-op", "bad-op")
      | _, _ => ("bad-op", "bad-op")
    else if kind = "apair" then
      match str, parseNums extra with
      | "-", some [a, b] =>
        if a < u64Bound ∧ b < u64Bound then
          let d := displayApi (a, b)
          let m := "d=" ++ renderCps d ++ ";r=" ++ (match parseApi d with | some w => nums [w.1, w.2] | none => "err")
          let want := "d=" ++ renderCps (Spec.apiText a b) ++ ";r=" ++ nums [a, b]
          (m, if obs = want then "ok" else "fail:display/parse of an API value gives " ++ obs ++ " but the spec demands " ++ want)
        else ("bad-op", "bad-op")
      | _, _ => ("bad-op", "bad-op")
    else ("bad-op", "bad-op")
  | _ => ("bad-op", "bad-op")

end CnbVerif.DriverC09
