import CnbVerif.Driver.TestRunnerIO
import CnbVerif.Spec.DockerGrammar
import CnbVerif.Spec.PackGrammar
/-!
Driver glue for C17. Model observation: the full command log of the scenario as `Model/TestRunner` + `Model/Argv`
predict it (exact argv), the app-dir snapshots pack saw, the temp dirs left. Spec verdict: the argv the *real* code
produced is parsed by the reference docker/pack grammars and compared with the configuration of the case — the
model is not consulted.
-/
namespace CnbVerif.DriverC17
open CnbVerif CnbVerif.Argv CnbVerif.TestRunner CnbVerif.TestRunnerIO

/-- multiset equality -/
def permEq {α} [DecidableEq α] : List α → List α → Bool
  | [], b => b.isEmpty
  | x :: a, b => if b.contains x then permEq a (b.erase x) else false

def idx (what : String) (i : Nat) (why : String) : String := "fail:" ++ what ++ "[" ++ toString i ++ "]:" ++ why

/-- the scenario is one C17 talks about: nothing injected, no panic act, every build proceeds to its closure -/
def inScope (c : Case) : Bool :=
  (match c.inj with | .none => true | _ => false) &&
  c.chain.all (fun (b, acts) =>
    b.cfg.appDirValid && (platformOf b.cfg.triple).isSome &&
    ((b.cfg.expectSuccess && b.cfg.packResult == .ok) || (!b.cfg.expectSuccess && b.cfg.packResult == .nonzero)) &&
    acts.all (fun a => match a with
      | .panic => false
      | .startContainer cfg cas => cas.all (fun ca => match ca with
        | .panic => false
        | .port p => cfg.exposedPorts.contains p
        | _ => true)
      | _ => true))

/-- the app path pack must be given when there is no preprocessor: the fixture itself -/
def fixturePath (b : BCase) : Bytes :=
  if b.isAbs then w!"/$A" ++ b.raw else w!"/$M/" ++ b.raw

def isTmpDirWord (w : Bytes) : Bool :=
  match w with
  | 36 :: 68 :: d@(_ :: _) => d.all Spec.Pflag.isDigit   -- `$D<k>`: a directory directly under TMPDIR
  | _ => false

/-- why `docker run …` is not a sentence of the grammar: the value of a `--mount` / `--publish`, or the option syntax -/
def whyRunUnparsable (args : List Bytes) : String :=
  match args with
  | _ :: rest =>
    (match Spec.Pflag.parseArgs Spec.Docker.runFlags false rest with
    | some raw =>
      if (Spec.Pflag.valuesOf raw.opts w!"mount").any (fun v => (Spec.Docker.parseMount v).isNone) then "mounts-unparsable"
      else if (Spec.Pflag.valuesOf raw.opts w!"publish").any (fun v => (Spec.Docker.parsePublish v).isNone) then "ports-unparsable"
      else "unparsable"
    | none => "options-unparsable")
  | [] => "unparsable"

def whyBuildUnparsable (args : List Bytes) : String :=
  match args with
  | _ :: rest =>
    (match Spec.Pflag.parseArgs Spec.Pack.buildFlags true rest with
    | some raw =>
      if (Spec.Pflag.valuesOf raw.opts w!"buildpack").any (fun v => (Spec.Pack.stringSlice v).isNone) then "buildpacks-unparsable"
      else "unparsable"
    | none => "options-unparsable")
  | [] => "unparsable"

/-- the environment a sequence of `env(k, v)` calls configures: one pair per key, the last value -/
def envMap (calls : List (Bytes × Bytes)) : List (Bytes × Bytes) :=
  calls.foldl (fun m kv => if m.any (fun e => e.1 == kv.1) then m.map (fun e => if e.1 == kv.1 then (e.1, kv.2) else e) else m ++ [kv]) []

def checkBuild (i : Nat) (fx : List (Bytes × Bytes)) (b : BCase) (args : List Bytes) (snap : Option String) : Option String :=
  match Spec.Pack.parsePackBuild args with
  | none => some (idx "pack-build" i (whyBuildUnparsable args))
  | some pb =>
    let envExpected := (envMap b.cfg.cfg.env).map (fun kv => (kv.1, some kv.2))
    if pb.builder != some b.cfg.cfg.builder then some (idx "pack-build" i "builder")
    else if pb.buildpacks != b.cfg.cfg.buildpacks then some (idx "pack-build" i "buildpacks")
    else if !(permEq pb.env envExpected) then some (idx "pack-build" i "env")
    else if pb.caches != [⟨w!"build", w!"volume", pb.image ++ w!".build-cache"⟩, ⟨w!"launch", w!"volume", pb.image ++ w!".launch-cache"⟩]
      then some (idx "pack-build" i "caches")
    else
      let pathOk := match b.edits, pb.path with
        | none, some p => p == fixturePath b
        | some _, some p => isTmpDirWord p
        | _, none => false
      if !pathOk then some (idx "pack-build" i "path")
      else if snap != some (snapOf fx b) then some (idx "pack-build" i "app-contents")
      else none

def checkStart (j : Nat) (image : Bytes) (cfg : ContainerConfig) (args : List Bytes) : Option String :=
  match Spec.Docker.parseDockerRun args with
  | none => some (idx "docker-run" j (whyRunUnparsable args))
  | some r =>
    if r.entrypoint != cfg.entrypoint then some (idx "docker-run" j "entrypoint")
    else if !(permEq r.env ((envMap cfg.env).map (fun kv => (kv.1, some kv.2)))) then some (idx "docker-run" j "env")
    else if !(permEq r.publish (cfg.exposedPorts.map (fun p => ⟨w!"127.0.0.1", [], p, w!"tcp"⟩))) then some (idx "docker-run" j "ports")
    else if !(permEq r.mounts (cfg.bindMounts.map (fun m => ⟨w!"bind", some m.1, m.2, false, []⟩))) then some (idx "docker-run" j "mounts")
    else if r.image != image then some (idx "docker-run" j "image")
    else if r.command != (match cfg.command with | some c => c | none => []) then some (idx "docker-run" j "command")
    else if !r.detach then some (idx "docker-run" j "detach")
    else if !r.other.isEmpty then some (idx "docker-run" j "other-options")
    else none

def checkShell (j : Nat) (image cmd : Bytes) (args : List Bytes) : Option String :=
  match Spec.Docker.parseDockerRun args with
  | none => some (idx "docker-run" j "unparsable")
  | some r =>
    if r.entrypoint != some w!"launcher" then some (idx "docker-run" j "entrypoint")
    else if !(r.env.isEmpty && r.publish.isEmpty && r.mounts.isEmpty && r.other.isEmpty) then some (idx "docker-run" j "other-options")
    else if r.image != image then some (idx "docker-run" j "image")
    else if r.command != [cmd] then some (idx "docker-run" j "command")
    else none

def firstSome : List (Option String) → Option String
  | [] => none
  | some s :: _ => some s
  | none :: r => firstSome r

def zipIdx {α} (l : List α) : List (Nat × α) := (List.range l.length).zip l

/-- the verdict on an observation of the real code -/
def verdict (c : Case) (o : Obs) : String :=
  if !inScope c then "ok"
  else if o.exit != "ok" then "fail:scenario-did-not-complete:" ++ o.exit
  else if !o.fixtureSame then "fail:fixture-modified"
  else
    let builds := (o.log.filter (fun (p, a) => p == .pack && a.head? == some w!"build")).map (·.2)
    let runs := (o.log.filter (fun (p, a) => p == .docker && a.head? == some w!"run")).map (·.2)
    let execs := (o.log.filter (fun (p, a) => p == .docker && a.head? == some w!"exec")).map (·.2)
    let acts := c.chain.flatMap (·.2)
    let runActs := acts.filter (fun a => match a with | .startContainer .. => true | .runShell _ => true | _ => false)
    let execCmds := acts.flatMap (fun a => match a with
      | .startContainer _ cas => cas.filterMap (fun ca => match ca with | .exec cmd => some cmd | _ => none)
      | _ => [])
    if builds.length != c.chain.length then "fail:pack-build:count"
    else if runs.length != runActs.length then "fail:docker-run:count"
    else if execs.length != execCmds.length then "fail:docker-exec:count"
    else
      let image : Bytes := match builds with
        | a :: _ => (match Spec.Pack.parsePackBuild a with | some pb => pb.image | none => [])
        | [] => []
      let r1 := firstSome ((zipIdx (c.chain.zip builds)).map (fun (i, (b, _), args) => checkBuild i c.fixture b args (o.snaps[i]?)))
      let r2 := firstSome ((zipIdx (runActs.zip runs)).map (fun (j, a, args) => match a with
        | .startContainer cfg _ => checkStart j image cfg args
        | .runShell cmd => checkShell j image cmd args
        | _ => none))
      let r3 := firstSome ((zipIdx (execCmds.zip execs)).map (fun (k, cmd, args) =>
        match Spec.Docker.parseDockerExec args with
        | some e => if e.command == [w!"launcher", cmd] ∧ e.other.isEmpty then none else some (idx "docker-exec" k "command")
        | none => some (idx "docker-exec" k "unparsable")))
      match firstSome [r1, r2, r3] with
      | some f => f
      | none => "ok"

def handle (fields : List String) (obs : String) : String × String :=
  match parseCase fields with
  | none => ("bad-op", "bad-op")
  | some c =>
    let model := renderRun c (run (oracleOf c.inj) c.scenario)
    match parseObs obs with
    | none => (model, "fail:unparsable-observation")
    | some o => (model, verdict c o)

end CnbVerif.DriverC17
