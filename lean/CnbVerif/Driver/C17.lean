import CnbVerif.Driver.TestRunnerIO
import CnbVerif.Spec.DockerGrammar
import CnbVerif.Spec.PackGrammar
import CnbVerif.Spec.PackInvocation
import CnbVerif.Model.PackOutput
/-!
Driver glue for C17. Model observation: the full command log of the scenario as `Model/TestRunner` + `Model/Argv`
predict it (exact argv), the app-dir snapshots pack saw, the temp dirs left; for a case with a script of tool results
(6th field) also what every `build`/`rebuild` handed to the test (`Model/PackOutput`). Spec verdict: the argv the *real*
code produced is parsed by the reference docker/pack grammars and compared with the configuration of the case, the
`pack build` invocations are counted against the `build`/`rebuild` calls of the scenario, and the pack output the test
was handed is compared with what the stand-in printed at that invocation — the model is not consulted.

Case: fields 0-4 as for C16 (`Driver/TestRunnerIO`), optional field 5 = script: `-` or `,`-joined entries
`<p|d><n>:<exit>:<stdout hex>:<stderr hex>` (the `n`-th invocation, 0-based, of pack / docker exits with `exit` after
printing these bytes). A scripted case has no other injection and scripts every pack invocation the scenario can make.
Observation of a scripted case: the five parts of C16/C17 followed by ` ctx=` (`<stdout hex>:<stderr hex>` of every
`TestContext`, `/`-joined), ` panic=` (`-`, `other`, or `h<hex>` of a panic message of `build_internal`'s pack `match`),
` inv=` (`<exit>:<stdout hex>:<stderr hex>` as recorded by the stand-in at every `pack build`, `?` if not scripted).
-/
namespace CnbVerif.DriverC17
open CnbVerif CnbVerif.Argv CnbVerif.TestRunner CnbVerif.TestRunnerIO

/-- multiset equality -/
def permEq {α} [DecidableEq α] : List α → List α → Bool
  | [], b => b.isEmpty
  | x :: a, b => if b.contains x then permEq a (b.erase x) else false

def idx (what : String) (i : Nat) (why : String) : String := "fail:" ++ what ++ "[" ++ toString i ++ "]:" ++ why

/-! ### the script of tool results (field 5) -/

abbrev Script := PackOutput.Script

def parseScriptEntry (s : String) : Option (Prog × Nat × PackOutput.ToolOutput) :=
  match s.splitOn ":" with
  | [key, ex, so, se] =>
    let keyP : Option (Prog × Nat) :=
      match key.toList with
      | 'p' :: r => (String.ofList r).toNat?.map (fun n => (Prog.pack, n))
      | 'd' :: r => (String.ofList r).toNat?.map (fun n => (Prog.docker, n))
      | _ => none
    match keyP, ex.toNat?, hexDecode so, hexDecode se with
    | some (p, n), some e, some so, some se => if e ≤ 255 then some (p, n, ⟨e, so, se⟩) else none
    | _, _, _, _ => none
  | _ => none

def parseScript (s : String) : Option Script := allSome ((lst s ",").map parseScriptEntry)

/-- the scripted result of the `n`-th invocation of a program (spec side: a plain look-up, first entry wins) -/
def scripted (script : Script) (p : Prog) (n : Nat) : Option PackOutput.ToolOutput :=
  match script with
  | [] => none
  | (p', n', t) :: r => if p' == p && n' == n then some t else scripted r p n

def isSbom : Act → Bool
  | .downloadSbom => true
  | _ => false

/-- Position of each build's `pack build` among the pack invocations, **as the property has it**: one `pack build` per
`build`/`rebuild` call, one `pack sbom download` per `download_sbom_files`, in program order. Second component: how many pack
invocations the whole scenario makes at most. -/
def packIndices : List (BCase × List Act) → Nat → List Nat × Nat
  | [], n => ([], n)
  | (_, acts) :: r, n =>
    let rest := packIndices r (n + 1 + (acts.filter isSbom).length)
    (n :: rest.1, rest.2)

/-- does this build's pack end with status 0: as scripted, else as the case's own pack switch says -/
def packSucceeds (script : Script) (b : BCase) (n : Nat) : Bool :=
  match scripted script .pack n with
  | some t => t.exit == 0
  | none => b.cfg.packResult == .ok

/-- The `build`/`rebuild` calls the scenario makes, each with the acts of its closure that run and whether pack ended as the
configuration expects: the chain up to and including the first build whose pack result is *not* the expected one — that call
panics instead of running its closure, so nothing after it happens. -/
def callsMade (script : Script) : List ((BCase × List Act) × Nat) → List (BCase × List Act × Bool)
  | [] => []
  | ((b, acts), n) :: r =>
    if packSucceeds script b n == b.cfg.expectSuccess then (b, acts, true) :: callsMade script r else [(b, [], false)]

def calls (c : Case) (script : Script) : List (BCase × List Act × Bool) :=
  callsMade script (c.chain.zip (packIndices c.chain 0).1)

/-- the scenario is one C17 talks about: nothing injected, no tool fails except a `pack build` (scripted failures of
invocations the scenario never reaches do not count), no panic act, every closure that runs runs to its end -/
def inScope (c : Case) (script : Script) : Bool :=
  let (buildIdx, total) := packIndices c.chain 0
  (match c.inj with | .none => true | _ => false) &&
  script.all (fun (p, n, t) => t.exit == 0 || (p == .pack && (buildIdx.contains n || n ≥ total))) &&
  (calls c script).all (fun (b, acts, _) =>
    b.cfg.appDirValid && (platformOf b.cfg.triple).isSome &&
    acts.all (fun a => match a with
      | .panic => false
      | .startContainer cfg cas => cas.all (fun ca => match ca with
        | .panic => false
        | .port p => cfg.exposedPorts.contains p
        | _ => true)
      | _ => true))

/-- the app path pack must be given when there is no preprocessor: the fixture itself -/
def fixturePath (b : BCase) : Bytes :=
  if b.isAbs then w!"/$A" ++ b.raw else w!"/$M/" ++ b.raw

def isTmpDirWord (w : Bytes) : Bool :=
  match w with
  | 36 :: 68 :: d@(_ :: _) => d.all Spec.Pflag.isDigit   -- `$D<k>`: a directory directly under TMPDIR
  | _ => false

/-- why `docker run …` is not a sentence of the grammar: the value of a `--mount` / `--publish`, or the option syntax -/
def whyRunUnparsable (args : List Bytes) : String :=
  match args with
  | _ :: rest =>
    (match Spec.Pflag.parseArgs Spec.Docker.runFlags false rest with
    | some raw =>
      if (Spec.Pflag.valuesOf raw.opts w!"mount").any (fun v => (Spec.Docker.parseMount v).isNone) then "mounts-unparsable"
      else if (Spec.Pflag.valuesOf raw.opts w!"publish").any (fun v => (Spec.Docker.parsePublish v).isNone) then "ports-unparsable"
      else "unparsable"
    | none => "options-unparsable")
  | [] => "unparsable"

def whyBuildUnparsable (args : List Bytes) : String :=
  match args with
  | _ :: rest =>
    (match Spec.Pflag.parseArgs Spec.Pack.buildFlags true rest with
    | some raw =>
      if (Spec.Pflag.valuesOf raw.opts w!"buildpack").any (fun v => (Spec.Pack.stringSlice v).isNone) then "buildpacks-unparsable"
      else "unparsable"
    | none => "options-unparsable")
  | [] => "unparsable"

/-- the environment a sequence of `env(k, v)` calls configures: one pair per key, the last value -/
def envMap (calls : List (Bytes × Bytes)) : List (Bytes × Bytes) :=
  calls.foldl (fun m kv => if m.any (fun e => e.1 == kv.1) then m.map (fun e => if e.1 == kv.1 then (e.1, kv.2) else e) else m ++ [kv]) []

def checkBuild (i : Nat) (fx : List (Bytes × Bytes)) (b : BCase) (args : List Bytes) (snap : Option String) : Option String :=
  match Spec.Pack.parsePackBuild args with
  | none => some (idx "pack-build" i (whyBuildUnparsable args))
  | some pb =>
    let envExpected := (envMap b.cfg.cfg.env).map (fun kv => (kv.1, some kv.2))
    if pb.builder != some b.cfg.cfg.builder then some (idx "pack-build" i "builder")
    else if pb.buildpacks != b.cfg.cfg.buildpacks then some (idx "pack-build" i "buildpacks")
    else if !(permEq pb.env envExpected) then some (idx "pack-build" i "env")
    else if pb.caches != [⟨w!"build", w!"volume", pb.image ++ w!".build-cache"⟩, ⟨w!"launch", w!"volume", pb.image ++ w!".launch-cache"⟩]
      then some (idx "pack-build" i "caches")
    else
      let pathOk := match b.edits, pb.path with
        | none, some p => p == fixturePath b
        | some _, some p => isTmpDirWord p
        | _, none => false
      if !pathOk then some (idx "pack-build" i "path")
      else if snap != some (snapOf fx b) then some (idx "pack-build" i "app-contents")
      else none

def checkStart (j : Nat) (image : Bytes) (cfg : ContainerConfig) (args : List Bytes) : Option String :=
  match Spec.Docker.parseDockerRun args with
  | none => some (idx "docker-run" j (whyRunUnparsable args))
  | some r =>
    if r.entrypoint != cfg.entrypoint then some (idx "docker-run" j "entrypoint")
    else if !(permEq r.env ((envMap cfg.env).map (fun kv => (kv.1, some kv.2)))) then some (idx "docker-run" j "env")
    else if !(permEq r.publish (cfg.exposedPorts.map (fun p => ⟨w!"127.0.0.1", [], p, w!"tcp"⟩))) then some (idx "docker-run" j "ports")
    else if !(permEq r.mounts (cfg.bindMounts.map (fun m => ⟨w!"bind", some m.1, m.2, false, []⟩))) then some (idx "docker-run" j "mounts")
    else if r.image != image then some (idx "docker-run" j "image")
    else if r.command != (match cfg.command with | some c => c | none => []) then some (idx "docker-run" j "command")
    else if !r.detach then some (idx "docker-run" j "detach")
    else if !r.other.isEmpty then some (idx "docker-run" j "other-options")
    else none

def checkShell (j : Nat) (image cmd : Bytes) (args : List Bytes) : Option String :=
  match Spec.Docker.parseDockerRun args with
  | none => some (idx "docker-run" j "unparsable")
  | some r =>
    if r.entrypoint != some w!"launcher" then some (idx "docker-run" j "entrypoint")
    else if !(r.env.isEmpty && r.publish.isEmpty && r.mounts.isEmpty && r.other.isEmpty) then some (idx "docker-run" j "other-options")
    else if r.image != image then some (idx "docker-run" j "image")
    else if r.command != [cmd] then some (idx "docker-run" j "command")
    else none

def firstSome : List (Option String) → Option String
  | [] => none
  | some s :: _ => some s
  | none :: r => firstSome r

def zipIdx {α} (l : List α) : List (Nat × α) := (List.range l.length).zip l

/-- the parts of a scripted case's observation that say what the test was handed -/
structure Extras where
  /-- `pack_stdout`, `pack_stderr` of every `TestContext`, in order -/
  ctx : List (Bytes × Bytes)
  /-- no panic / a panic that is not about the pack result / the message of the panic about the pack result -/
  panic : Option (Option Bytes)
  /-- per `pack build` invocation: exit status, stdout, stderr as the stand-in recorded them (none: it did not) -/
  inv : List (Option (Nat × Bytes × Bytes))

/-- The pack output handed to the test is that of the build's one invocation: the texts of the `TestContext` when pack ended
as expected, quoted in the panic message when it did not. Judged against what the stand-in recorded at that invocation. -/
def checkHandOver (cs : List (BCase × List Act × Bool)) (x : Extras) : Option String :=
  if x.ctx.length != (cs.filter (·.2.2)).length then some "fail:pack-output:contexts"
  else firstSome ((zipIdx (cs.zip x.inv)).map (fun (i, (_, _, asExpected), inv) =>
    match inv with
    | none => none
    | some (_, so, se) =>
      if asExpected then
        match x.ctx[i]? with
        | some (cso, cse) =>
          if !Spec.PackInv.sameText so cso then some (idx "pack-output" i "stdout")
          else if !Spec.PackInv.sameText se cse then some (idx "pack-output" i "stderr")
          else none
        | none => some (idx "pack-output" i "missing")
      else
        match x.panic with
        | some (some m) =>
          if Spec.PackInv.quotedIn so m && Spec.PackInv.quotedIn se m then none else some (idx "pack-output" i "panic-message")
        | _ => some (idx "pack-output" i "panic-message")))

/-- the verdict on an observation of the real code -/
def verdict (c : Case) (script : Script) (o : Obs) (x : Option Extras) : String :=
  if !inScope c script then "ok"
  else
    let cs := calls c script
    let unexpected := cs.any (fun (_, _, asExpected) => !asExpected)
    -- more `pack build` invocations than `build`/`rebuild` calls the scenario can make at all: whatever else happened
    if (o.log.filter (fun (p, a) => p == .pack && a.head? == some w!"build")).length > cs.length then "fail:pack-build:count"
    else if !unexpected && o.exit != "ok" then "fail:scenario-did-not-complete:" ++ o.exit
    else if unexpected && o.exit != "panic" then "fail:unexpected-pack-result-did-not-panic:" ++ o.exit
    else if !o.fixtureSame then "fail:fixture-modified"
    else
    let builds := (o.log.filter (fun (p, a) => p == .pack && a.head? == some w!"build")).map (·.2)
    let runs := (o.log.filter (fun (p, a) => p == .docker && a.head? == some w!"run")).map (·.2)
    let execs := (o.log.filter (fun (p, a) => p == .docker && a.head? == some w!"exec")).map (·.2)
    let acts := cs.flatMap (·.2.1)
    let runActs := acts.filter (fun a => match a with | .startContainer .. => true | .runShell _ => true | _ => false)
    let execCmds := acts.flatMap (fun a => match a with
      | .startContainer _ cas => cas.filterMap (fun ca => match ca with | .exec cmd => some cmd | _ => none)
      | _ => [])
    -- one `pack build` invocation per `build`/`rebuild` call
    if builds.length != cs.length then "fail:pack-build:count"
    else if runs.length != runActs.length then "fail:docker-run:count"
    else if execs.length != execCmds.length then "fail:docker-exec:count"
    else
      let image : Bytes := match builds with
        | a :: _ => (match Spec.Pack.parsePackBuild a with | some pb => pb.image | none => [])
        | [] => []
      let r1 := firstSome ((zipIdx (cs.zip builds)).map (fun (i, (b, _), args) => checkBuild i c.fixture b args (o.snaps[i]?)))
      let r2 := firstSome ((zipIdx (runActs.zip runs)).map (fun (j, a, args) => match a with
        | .startContainer cfg _ => checkStart j image cfg args
        | .runShell cmd => checkShell j image cmd args
        | _ => none))
      let r3 := firstSome ((zipIdx (execCmds.zip execs)).map (fun (k, cmd, args) =>
        match Spec.Docker.parseDockerExec args with
        | some e => if e.command == [w!"launcher", cmd] ∧ e.other.isEmpty then none else some (idx "docker-exec" k "command")
        | none => some (idx "docker-exec" k "unparsable")))
      let r4 := match x with
        | some x => checkHandOver cs x
        | none => none
      match firstSome [r1, r2, r3, r4] with
      | some f => f
      | none => "ok"

/-! ### scripted cases: model observation, decoding -/

def renderHanded (script : Script) (c : Case) (r : Outcome × St) : String :=
  let hs := PackOutput.handOvers script c.scenario r.2.log
  let ctx := hs.filterMap (fun h => match h with
    | .context so se => some (hexEncode so ++ ":" ++ hexEncode se)
    | _ => none)
  let panic := match hs.findSome? (fun h => match h with | .panic m => some m | _ => none) with
    | some m => "h" ++ hexEncode m
    | none => if r.1 == .ok then "-" else "other"
  let inv := (PackOutput.packBuildsIn r.2.log 0).filterMap (fun (n, e) =>
    if e.res == .notFound then none
    else some (match PackOutput.Script.find script .pack n with
      | some t => toString t.exit ++ ":" ++ hexEncode t.stdout ++ ":" ++ hexEncode t.stderr
      | none => "?"))
  " ctx=" ++ dash ctx "/" ++ " panic=" ++ panic ++ " inv=" ++ dash inv "/"

def stripPrefix (s p : String) : Option String :=
  if s.startsWith p then some ((s.drop p.length).toString) else none

def parseExtras (ctx pn inv : String) : Option Extras :=
  let ctxP : Option (List (Bytes × Bytes)) := (stripPrefix ctx "ctx=").bind (fun s =>
    allSome ((lst s "/").map (fun e => match e.splitOn ":" with
      | [a, b] => (match hexDecode a, hexDecode b with | some a, some b => some (a, b) | _, _ => none)
      | _ => none)))
  let pnP : Option (Option (Option Bytes)) := (stripPrefix pn "panic=").bind (fun s =>
    if s = "-" then some none else if s = "other" then some (some none)
    else ((dropPrefix s 'h').bind hexDecode).map (fun m => some (some m)))
  let invP : Option (List (Option (Nat × Bytes × Bytes))) := (stripPrefix inv "inv=").bind (fun s =>
    allSome ((lst s "/").map (fun e =>
      if e = "?" then some none
      else match e.splitOn ":" with
        | [x, a, b] => (match x.toNat?, hexDecode a, hexDecode b with | some x, some a, some b => some (some (x, a, b)) | _, _, _ => none)
        | _ => none)))
  match ctxP, pnP, invP with
  | some c, some p, some i => some ⟨c, p, i⟩
  | _, _, _ => none

def handle (fields : List String) (obs : String) : String × String :=
  match fields with
  | [_, _, _, _, _] =>
    (match parseCase fields with
    | none => ("bad-op", "bad-op")
    | some c =>
      let model := renderRun c (run (oracleOf c.inj) c.scenario)
      match parseObs obs with
      | none => (model, "fail:unparsable-observation")
      | some o => (model, verdict c [] o none))
  | [f0, f1, f2, f3, f4, f5] =>
    (match parseCase [f0, f1, f2, f3, f4], parseScript f5 with
    | some c, some script =>
      let total := (packIndices c.chain 0).2
      let injNone := match c.inj with | .none => true | _ => false
      -- a scripted case has no other injection and scripts every pack invocation the scenario can make
      if !injNone || !((List.range total).all (fun n => (scripted script .pack n).isSome)) then ("bad-op", "bad-op")
      else
        let r := run (PackOutput.scriptOracle script (oracleOf c.inj)) c.scenario
        let model := renderRun c r ++ renderHanded script c r
        match obs.splitOn " " with
        | [e, l, t, f, sn, ctx, pn, inv] =>
          (match parseObs (String.intercalate " " [e, l, t, f, sn]), parseExtras ctx pn inv with
          | some o, some x => (model, verdict c script o (some x))
          | _, _ => (model, "fail:unparsable-observation"))
        | _ => (model, "fail:unparsable-observation")
    | _, _ => ("bad-op", "bad-op"))
  | _ => ("bad-op", "bad-op")

end CnbVerif.DriverC17
