import CnbVerif.Base.Proto
import CnbVerif.Model.DepGraph
import CnbVerif.Spec.Topo
/-!
Driver glue for C13.

fields: `nodes` (`id>dep,dep;id>;…`, generation order), `roots` (`*` = every non-empty ordered selection of distinct
nodes, else selections separated by `|`, ids by `,`, `-` = the empty selection), `layout` (directory layout seed,
used by the harness only).

observation: `walk=<ids in the order the real graph holds them>;<result>|<result>|…` with one result per selection
(`a,b,c`, `-`, `err:root:<id>`), or `walk=…;err:missing:<id>` when graph construction failed.
The model receives the nodes **in the walk order taken from the observation** (the order `read_dir` happened to
produce is not a function of the case); the spec verdict never looks at that order.

Second family (first field `pkg`): the real `cargo libcnb package` executable on a generated workspace.
fields: `pkg`, buildpacks `id>K>dir>dep,dep|…` (`K` = `L` libcnb.rs / `C` composite / `S` composite whose directory
entry is a symbolic link to a directory outside the workspace, `dir` relative to the workspace root, `.` = the root), invocation directories `dir;dir;…` (one run of the executable per entry).
observation: `walk=<ids in directory-walk order>;<result>|<result>|…`, one result per invocation directory:
`<ids in the order of the "[n/m] Building <id>" progress lines, - if none>:<ok | err:<kind>>`.
The model's result is `packagingOrder` (Model/DepGraph.lean) on the buildpacks in walk order; the verdict applies the
same judge as above (`Topo.whyNot`) to the order the executable really packaged in, with the selection read off the
case (the buildpack in the invocation directory, else all of them from the root) — never the walk, never the model.
-/
namespace CnbVerif.DriverC13
open CnbVerif CnbVerif.DepGraph CnbVerif.Spec

def parseNode (s : String) : Option Node :=
  match s.splitOn ">" with
  | [i, ds] => if i = "" then none else some ⟨i, splitList ds ","⟩
  | _ => none

def parseNodes (s : String) : Option (List Node) := allSome ((splitList s ";").map parseNode)

/-- every non-empty sequence of distinct elements of `avail` with at most `k` elements: for each `x` in order,
`[x]`, then `x ::` every selection from the rest -/
def sels : Nat → List String → List (List String)
  | 0, _ => []
  | k + 1, avail => avail.flatMap (fun x => [x] :: (sels k (avail.erase x)).map (x :: ·))

def parseRoots (ids : List String) (s : String) : List (List String) :=
  if s = "*" then sels ids.length ids else (s.splitOn "|").map (fun sel => splitList sel ",")

def renderIds (l : List String) : String := joinWith "," l

/-- ids of the nodes, deps looked up by id (order of `nodes` irrelevant when ids are distinct) -/
def depsOf (nodes : List Node) (x : String) : List String :=
  match nodes.find? (fun nd => nd.id = x) with
  | some nd => nd.deps
  | none => []

def modelResult (g : Graph) (sel : List String) : String :=
  match getDependencies g sel with
  | .error r => "err:root:" ++ r
  | .ok out => renderIds (out.map (fun i => g.ids.getD i "?"))

def model (nodes : List Node) (walk : List String) (selections : List (List String)) : String :=
  let ordered := walk.filterMap (fun x => nodes.find? (fun nd => nd.id = x))
  let body :=
    match createGraph ordered with
    | .error e => "err:missing:" ++ e
    | .ok g => String.intercalate "|" (selections.map (modelResult g))
  "walk=" ++ renderIds walk ++ ";" ++ body

/-- the spec's judgement of one observed result -/
def judgeOne (nodes : List Node) (ids : List String) (sel : List String) (res : String) : Option String :=
  match sel.find? (fun r => !ids.contains r) with
  | some _ =>
    if res.startsWith "err:root:" then
      let r := (res.drop 9).toString
      if sel.contains r && !ids.contains r then none else some ("reported root " ++ r ++ " is not an unknown root")
    else some "unknown root not reported"
  | none =>
    if res.startsWith "err:" then some ("unexpected " ++ res)
    else
      let out := splitList res ","
      match out.find? (fun x => !ids.contains x) with
      | some x => some ("unknown buildpack in the order: " ++ x)
      | none => (Topo.whyNot (depsOf nodes) sel ids.length out id).map (fun w => "roots " ++ renderIds sel ++ ": " ++ w)

def judgeAll (nodes : List Node) (ids : List String) : List (List String) → List String → Option String
  | [], [] => none
  | sel :: ss, r :: rs =>
    match judgeOne nodes ids sel r with
    | some w => some w
    | none => judgeAll nodes ids ss rs
  | _, _ => some "number of results differs from the number of selections"

def verdict (nodes : List Node) (walk : List String) (selections : List (List String)) (body : String) : String :=
  let ids := nodes.map (·.id)
  if !(walk.length = ids.length && ids.all (fun x => walk.contains x)) then
    "fail:the graph does not hold exactly the generated buildpacks"
  else
    let dangling := nodes.flatMap (fun nd => nd.deps.filter (fun d => !ids.contains d))
    if !dangling.isEmpty then
      if body.startsWith "err:missing:" then
        let d := (body.drop 12).toString
        if dangling.contains d then "ok" else "fail:reported missing dependency " ++ d ++ " is not a dangling one"
      else "fail:dependency on unknown buildpack " ++ dangling.headD "" ++ " was not reported"
    else if body.startsWith "err:missing:" then "fail:unexpected " ++ body
    else
      match judgeAll nodes ids selections (body.splitOn "|") with
      | none => "ok"
      | some w => "fail:" ++ w

def distinct : List String → Bool
  | [] => true
  | x :: xs => !xs.contains x && distinct xs

/-! ### the `pkg` family -/

def parseLocated (s : String) : Option Located :=
  match s.splitOn ">" with
  | [i, k, d, ds] => if i = "" || d = "" || !(k = "L" || k = "C" || k = "S") || (k = "S" && d = ".") then none else some ⟨⟨i, splitList ds ","⟩, d⟩
  | _ => none

/-- directories of the buildpacks of kind `S` (a composite whose directory entry is a symbolic link to a directory
outside the workspace): a buildpack of the workspace like any other; the tool is never invoked from inside one -/
def linkedDirs (s : String) : List String :=
  (splitList s "|").filterMap (fun b => match b.splitOn ">" with | [_, "S", d, _] => some d | _ => none)

def parseLocatedAll (s : String) : Option (List Located) := allSome ((splitList s "|").map parseLocated)

def errName : ExecErr → String
  | .missingDependency _ => "missing-dep"
  | .unknownRoot _ => "unknown-root"
  | .noBuildpacksFound => "no-buildpacks"

def pkgModelResult (ordered : List Located) (inv : String) : String :=
  match packagingOrder ordered inv with
  | .ok out => renderIds out ++ ":ok"
  | .error e => "-:err:" ++ errName e

def pkgModel (bps : List Located) (walk : List String) (invs : List String) : String :=
  let ordered := walk.filterMap (fun x => bps.find? (fun b => b.node.id = x))
  "walk=" ++ renderIds walk ++ ";" ++ String.intercalate "|" (invs.map (pkgModelResult ordered))

/-- the selection a user makes by invoking the tool in `inv`, read from the case (not from the model): the
buildpack living there; from the workspace root (when no buildpack lives there) all of them; else nothing -/
def selectionOf (bps : List Located) (inv : String) : List String :=
  match bps.find? (fun b => b.dir = inv) with
  | some b => [b.node.id]
  | none => if inv = "." then bps.map (·.node.id) else []

/-- `<order>:<status>` -/
def splitResult (res : String) : Option (List String × String) :=
  match res.splitOn ":" with
  | o :: st :: more => some (splitList o ",", String.intercalate ":" (st :: more))
  | _ => none

def pkgJudgeOne (bps : List Located) (inv : String) (res : String) : Option String :=
  let nodes := bps.map (·.node)
  let ids := nodes.map (·.id)
  match splitResult res with
  | none => some ("unparsable result " ++ res)
  | some (out, status) =>
    let sel := selectionOf bps inv
    if sel.isEmpty then
      if out.isEmpty && status = "err:no-buildpacks" then none
      else some ("from " ++ inv ++ " nothing is selected, yet: " ++ res)
    else
      match out.find? (fun x => !ids.contains x) with
      | some x => some ("from " ++ inv ++ ": unknown buildpack in the order: " ++ x)
      | none =>
        match Topo.whyNot (depsOf nodes) sel ids.length out id with
        | some w => some ("from " ++ inv ++ " (selected " ++ renderIds sel ++ "; " ++ status ++ "): " ++ w)
        | none => if status = "ok" then none else some ("from " ++ inv ++ ": packaging failed with " ++ status)

def pkgJudgeAll (bps : List Located) : List String → List String → Option String
  | [], [] => none
  | inv :: is, r :: rs =>
    match pkgJudgeOne bps inv r with
    | some w => some w
    | none => pkgJudgeAll bps is rs
  | _, _ => some "number of results differs from the number of invocations"

def pkgVerdict (bps : List Located) (walk : List String) (invs : List String) (body : String) : String :=
  let nodes := bps.map (·.node)
  let ids := nodes.map (·.id)
  let results := body.splitOn "|"
  let dangling := nodes.flatMap (fun nd => nd.deps.filter (fun d => !ids.contains d))
  -- the buildpack directories found are the buildpacks of the workspace (directory or link to one), none dropped
  if let some w := Topo.nodeSetWhyNot ids walk id then "fail:" ++ w else
  if !dangling.isEmpty then
    if results.length = invs.length && results.all (fun r => r = "-:err:missing-dep") then "ok"
    else "fail:dependency on unknown buildpack " ++ dangling.headD "" ++ " was not reported (or something was packaged): " ++ body
  else
    match pkgJudgeAll bps invs results with
    | none => "ok"
    | some w => "fail:" ++ w

def handlePkg (bs is : String) (obs : String) : String × String :=
  match parseLocatedAll bs with
  | none => ("bad-op", "bad-op")
  | some bps =>
    let invs := splitList is ";"
    let linked := linkedDirs bs
    if !distinct (bps.map (·.node.id)) || !distinct (bps.map (·.dir)) || invs.isEmpty || invs.any (· = "") ||
        invs.any (fun i => linked.any (fun d => i = d || i.startsWith (d ++ "/"))) then ("bad-op", "bad-op") else
    if obs.startsWith "walk=" then
      match ((obs.drop 5).toString).splitOn ";" with
      | [w, body] => (pkgModel bps (splitList w ",") invs, pkgVerdict bps (splitList w ",") invs body)
      | _ => ("unparsable-observation", "fail:unparsable-observation")
    else ("no-walk", "fail:" ++ obs)

/-! ### the `lnk` family: buildpack directories reached through symbolic links

fields: `lnk`, buildpacks `id>H>dep,dep|…` (`H`: `d` `n` real directory, `a` `r` `R` link, `c` `C` chain of two links,
`t` real directory whose files are links, `i` below an intermediate directory that is a link), selections
`a,b;c;-`, noise `0`/`1` (harness only). Observation as in the first family. The buildpacks of the workspace are all
but the `i` ones; the verdict first requires the node set found to be exactly those (`Topo.nodeSetWhyNot`), then
judges as in the first family — a dependency on an `i` buildpack is a dangling one. -/

def parsePlaced (s : String) : Option Placed :=
  match s.splitOn ">" with
  | [i, h, ds] =>
    if i = "" then none else
    let nd : Node := ⟨i, splitList ds ","⟩
    if h = "d" || h = "n" || h = "t" then some ⟨nd, .dir⟩
    else if h = "a" || h = "r" || h = "R" then some ⟨nd, .link 0⟩
    else if h = "c" || h = "C" then some ⟨nd, .link 1⟩
    else if h = "i" then some ⟨nd, .viaLinkedDir⟩
    else none
  | _ => none

def parsePlacedAll (s : String) : Option (List Placed) := allSome ((splitList s "|").map parsePlaced)

/-- the buildpacks of the workspace, read off the case (not through the model's `discover`) -/
def inWorkspace (ps : List Placed) : List Node :=
  ps.filterMap (fun p => match p.reach with | .viaLinkedDir => none | _ => some p.node)

/-- the model's nodes are `discover ps`; the observed walk only supplies their order (when it is an arrangement of
exactly those nodes — else the model keeps the written order and the observations differ) -/
def lnkModel (ps : List Placed) (walk : List String) (selections : List (List String)) : String :=
  let nodes := discover ps
  let ids := nodes.map (·.id)
  let w := if walk.length = ids.length && ids.all (fun x => walk.contains x) then walk else ids
  model nodes w selections

def lnkVerdict (ps : List Placed) (walk : List String) (selections : List (List String)) (body : String) : String :=
  let nodes := inWorkspace ps
  match Topo.nodeSetWhyNot (nodes.map (·.id)) walk id with
  | some w => "fail:" ++ w
  | none => verdict nodes walk selections body

def handleLnk (ns ss noise : String) (obs : String) : String × String :=
  if !(noise = "0" || noise = "1") then ("bad-op", "bad-op") else
  match parsePlacedAll ns with
  | none => ("bad-op", "bad-op")
  | some ps =>
    if !distinct (ps.map (·.node.id)) then ("bad-op", "bad-op") else
    let selections := (ss.splitOn ";").map (fun sel => splitList sel ",")
    if obs.startsWith "walk=" then
      match ((obs.drop 5).toString).splitOn ";" with
      | [w, body] =>
        let walk := splitList w ","
        (lnkModel ps walk selections, lnkVerdict ps walk selections body)
      | _ => ("unparsable-observation", "fail:unparsable-observation")
    else ("no-walk", "fail:" ++ obs)

def handle (fields : List String) (obs : String) : String × String :=
  match fields with
  | ["pkg", bs, is] => handlePkg bs is obs
  | ["lnk", ns, ss, noise] => handleLnk ns ss noise obs
  | [ns, rs, layout] =>
    if layout.toNat?.isNone then ("bad-op", "bad-op") else
    match parseNodes ns with
    | none => ("bad-op", "bad-op")
    | some nodes =>
      let ids := nodes.map (·.id)
      if !distinct ids then ("bad-op", "bad-op") else
      let selections := parseRoots ids rs
      if obs.startsWith "walk=" then
        match ((obs.drop 5).toString).splitOn ";" with
        | [w, body] =>
          let walk := splitList w ","
          (model nodes walk selections, verdict nodes walk selections body)
        | _ => ("unparsable-observation", "fail:unparsable-observation")
      else ("no-walk", "fail:" ++ obs)
  | _ => ("bad-op", "bad-op")

end CnbVerif.DriverC13
