import CnbVerif.Base.Proto
import CnbVerif.Model.Platform
import CnbVerif.Spec.ContextSpec
/-! Driver glue for C06: parse what the platform supplied, run the model of the context assembly, judge the context the
real executable dumped. The five paths the platform hands over travel as the texts it wrote (field 11, `$T` = the temp root; the
harness substitutes the root on the way in and puts `$T` back on the way out, nothing else). Documents decoded by the `toml` crate (plan, store, descriptor) travel as canonical text. The
model decides "is a `String`" with its own `utf8Valid`, the specification with core Lean's `ByteArray.validateUTF8`. -/
namespace CnbVerif.DriverC06
open CnbVerif CnbVerif.Platform

def specValid (b : Bytes) : Bool := ByteArray.validateUTF8 ⟨(b.map (fun n => n.toUInt8)).toArray⟩

def parseVar (s : String) : Option VarVal :=
  if s = "-" then some .unset
  else match s.toList with
    | 'u' :: h => (hexDecodeChars h).bind (fun b => if utf8Valid b then some (.val b) else none)
    | 'n' :: h => (hexDecodeChars h).bind (fun b => if utf8Valid b then none else some (.val b))
    | _ => none

def parseVars (s : String) : Option TargetVars :=
  match (s.splitOn ",").map parseVar with
  | [some a, some b, some c, some d, some e] => some ⟨a, b, c, d, e⟩
  | _ => none

/-- one entry of the listing as the harness describes it; `sibling`: the regular-file entry of the same listing this entry
aliases (kinds `ls`, `hs`) -/
structure RawEntry where
  name : Bytes
  kind : EntryKind
  sibling : Option Bytes
  /-- the entry is of kind `f` (what a sibling reference may point at) -/
  plain : Bool := false

/-- kinds: `f` file, `hf` hard link to a file outside the directory (a regular file); `lf` link to a file, `lr` relative link
to a file, `l2` link to a link to a file; `d` directory, `de` empty directory; `ld` link to a directory, `ld2` link to a link
to a directory; `dl` dangling link, `lo` link to itself (resolves to nothing); with a fourth component naming a sibling
entry: `ls` link to that sibling, `hs` hard link to that sibling -/
def parseEntry (s : String) : Option RawEntry :=
  match s.splitOn ":" with
  | [n, k, c] =>
    match hexDecode n, hexDecode c with
    | some n, some c =>
      if k = "f" then some ⟨n, .file c, none, true⟩
      else if k = "hf" then some ⟨n, .file c, none, false⟩
      else if k = "lf" ∨ k = "lr" ∨ k = "l2" then some ⟨n, .linkFile c, none, false⟩
      else if c ≠ [] then none
      else if k = "d" ∨ k = "de" then some ⟨n, .dir, none, false⟩
      else if k = "ld" ∨ k = "ld2" then some ⟨n, .linkDir, none, false⟩
      else if k = "dl" ∨ k = "lo" then some ⟨n, .dangling, none, false⟩
      else none
    | _, _ => none
  | [n, k, c, sb] =>
    match hexDecode n, hexDecode c, hexDecode sb with
    | some n, some c, some sb =>
      if k = "ls" then some ⟨n, .linkFile c, some sb, false⟩
      else if k = "hs" then some ⟨n, .file c, some sb, false⟩
      else none
    | _, _, _ => none
  | _ => none

/-- every aliasing entry names a regular-file entry of the same listing with the same content -/
def siblingsOk (l : List RawEntry) : Bool :=
  l.all (fun e => match e.sibling with
    | none => true
    | some sb => match e.kind.fileContent with
      | some c => l.any (fun q => q.plain && q.name == sb && q.kind == .file c)
      | none => false)

def parsePlat (s : String) : Option PlatDir :=
  if s = "noenv" ∨ s = "noplat" ∨ s = "envdangling" then some .noEnv
  else if s = "notdir" ∨ s = "envlinkfile" then some .notDir
  else match allSome ((splitList s ",").map parseEntry) with
    | some l => if siblingsOk l then some (.entries (l.map (fun e => (e.name, e.kind)))) else none
    | none => none

/-- the fourth component of the directory field: `e` (env is a link to the directory with the entries) and / or `p` (the
platform directory is a link) - both invisible to what the platform supplies -/
def flagsOk (s : String) : Bool := s.all (fun c => c = 'e' || c = 'p')

/-- names the harness itself puts into the process environment -/
def inputVars : List String := ["CNB_TARGET_OS", "CNB_TARGET_ARCH", "CNB_TARGET_ARCH_VARIANT", "CNB_TARGET_DISTRO_NAME",
  "CNB_TARGET_DISTRO_VERSION", "CNB_BUILDPACK_DIR", "TBP_OUT", "TBP_DETECT", "TBP_BUILD"]

/-- field 10: other variables of the process environment, `hexname=hexvalue,…`; none may be named like an input, names are
non-empty and hold no `=`, nothing holds a NUL -/
def othersOk (s : String) : Bool :=
  (splitList s ",").all (fun kv => match kv.splitOn "=" with
    | [n, v] => (match hexDecode n, hexDecode v with
      | some n, some v => !n.isEmpty && !n.contains 61 && !n.contains 0 && !v.contains 0 && !(inputVars.map strBytes).contains n
      | _, _ => false)
    | _ => false)

def tRoot : Bytes := strBytes "$T/"

/-- the path texts of field 11, as written: `hex(layers)/hex(platform)/hex(plan)/hex(bp)/hex(cwd)`, layers `-` in detect.
A text is not empty and holds no NUL (the OS would refuse it as an argument); the path the working directory is entered by is
absolute (starts with `/` or with `$T`). Nothing else is asked of a text: it is opaque. -/
structure PathTexts where
  layers : Option Bytes
  plat : Bytes
  plan : Bytes
  bp : Bytes
  cwdBy : Bytes

def textOk (b : Bytes) : Bool := !b.isEmpty && !b.contains 0

def parseTexts (phase : String) (s : String) : Option PathTexts :=
  match s.splitOn "/" with
  | [l, p, pl, b, c] =>
    let layers? : Option (Option Bytes) :=
      if l = "-" then (if phase = "detect" then some none else none)
      else if phase = "detect" then none else (hexDecode l).map some
    match layers?, hexDecode p, hexDecode pl, hexDecode b, hexDecode c with
    | some layers, some p, some pl, some b, some c =>
      if (match layers with | some t => textOk t | none => true) && textOk p && textOk pl && textOk b && textOk c && (c.head? == some 47 || c.take 2 == [36, 84])
      then some ⟨layers, p, pl, b, c⟩ else none
    | _, _, _, _, _ => none
  | _ => none

/-- a document field (4 plan, 6 store, 8 descriptor) with its expected-value field (5, 7, 9): the hex of a TOML text that decodes
(the expected field holds the canonical value; store: `none` / `none` = no file), or a raw state, whose expected field is `!` -
`raw:<hex>` a regular file with bytes that do not decode (not valid UTF-8, or a String that is not TOML: the harness's claim),
`lnk:<hex>` a symbolic link to such a file, `dir` a directory at the path, `lnkdir` a link to a directory, `missing` nothing at the
path, `dangling` a dangling link (for the store these two may also carry the expected value `none`: tolerated) -/
def parseDoc (s expected : String) : Option Doc :=
  if s = "dir" ∨ s = "lnkdir" then (if expected = "!" then some .unreadable else none)
  else if s = "missing" ∨ s = "dangling" then (if expected = "!" ∨ expected = "none" then some .missing else none)
  else if s.startsWith "raw:" ∨ s.startsWith "lnk:" then
    (if expected = "!" then (hexDecode (s.drop 4).toString).map Doc.undecodable else none)
  else if expected = "!" then none else some .asGiven

def parseInputs (fields : List String) : Option (String × Inputs String) :=
  match (if fields.length = 11 ∨ fields.length = 12 then (if othersOk (fields.getD 10 "") then some (fields.take 10) else none) else some fields) with
  | none => none
  | some fields10 =>
  match fields10 with
  | [phase, dirs, vars, plat, planToml, planX, storeToml, storeX, descToml, descX] =>
    let docs? : Option Docs := (parseDoc planToml planX).bind (fun dPlan => (parseDoc storeToml storeX).bind (fun dStore =>
      (parseDoc descToml descX).map (fun dDesc => { desc := dDesc, plan := dPlan, store := dStore })))
    match docs? with
    | none => none
    | some docs =>
    let dparts := dirs.splitOn "/"
    if !(dparts.length = 3 ∨ (dparts.length = 4 ∧ flagsOk (dparts.getD 3 ""))) then none else
    match (dparts.take 3).map hexDecode, parseVars vars, parsePlat plat with
    | [some app, some bp, some layers], some vars, some plat =>
      -- without field 11 every path is written `$T/<name>`; with it the texts are the field's. The working directory is the
      -- directory `$T/<app>` whatever path it is entered by (the harness refuses a text that leads elsewhere), and `getcwd`
      -- names a directory by its link-free absolute path: `$T/<app>`.
      let texts? : Option PathTexts :=
        if fields.length = 12 then parseTexts phase (fields.getD 11 "")
        else some ⟨if phase = "detect" then none else some (tRoot ++ layers), strBytes "$T/plat",
                   strBytes (if phase = "detect" then "$T/work/plan.toml" else "$T/work/bpplan.toml"), tRoot ++ bp, tRoot ++ app⟩
      match texts? with
      | none => none
      | some tx =>
      if phase = "detect" then
        if planX = "-" ∧ storeX = "-" then
          some (phase, { cwd := tRoot ++ app, bpDir := tx.bp, layersDir := none, platArg := tx.plat, planArg := tx.plan,
                         vars := vars, plat := plat, plan := none, store := none, desc := descX, docs := docs })
        else none
      else if phase = "build" then
        if planX = "-" ∨ storeX = "-" then none else
        some (phase, { cwd := tRoot ++ app, bpDir := tx.bp, layersDir := tx.layers, platArg := tx.plat, planArg := tx.plan,
                       vars := vars, plat := plat,
                       plan := some planX, store := if storeX = "none" ∨ storeX = "!" then none else some storeX, desc := descX,
                       docs := docs })
      else none
    | _, _, _ => none
  | _ => none

def errName : Err → String
  | .platform => "CannotCreatePlatformFromPath" | .targetOs => "CannotDetermineTargetOs"
  | .targetArch => "CannotDetermineTargetArch" | .distroName => "CannotDetermineTargetDistroName"
  | .distroVersion => "CannotDetermineTargetDistroVersion"
  | .descriptor => "exit254" | .plan => "CannotReadBuildpackPlan" | .store => "CannotReadStore"

def renderEnv (e : PEnv) : String :=
  joinWith "," ((sortBy (fun a b => bytesLt a.1 b.1) e).map (fun kv => hexEncode kv.1 ++ ":" ++ hexEncode kv.2))

def renderCtx (phase : String) (c : Ctx String) : String :=
  "ok;phase=" ++ phase ++ ";app=" ++ hexEncode c.appDir ++ ";bp=" ++ hexEncode c.bpDir ++
  ";layers=" ++ (match c.layersDir with | some l => hexEncode l | none => "-") ++
  ";os=" ++ hexEncode c.target.os ++ ";arch=" ++ hexEncode c.target.arch ++
  ";variant=" ++ (match c.target.variant with | some v => "s:" ++ hexEncode v | none => "none") ++
  ";dname=" ++ hexEncode c.target.dname ++ ";dver=" ++ hexEncode c.target.dver ++
  ";env=" ++ renderEnv c.env ++
  ";plan=" ++ (match c.plan with | some p => p | none => "-") ++
  ";store=" ++ (if phase = "detect" then "-" else match c.store with | some s => s | none => "none") ++
  ";desc=" ++ c.desc

/-- split `k=v` at the first `=` -/
def kvFirst (key : String) (s : String) : Option String :=
  let pre := key ++ "="
  if s.startsWith pre then some (s.drop pre.length).toString else none

def parseEnvPair (s : String) : Option (Bytes × Bytes) :=
  match s.splitOn ":" with
  | [k, v] => match hexDecode k, hexDecode v with
    | some k, some v => some (k, v)
    | _, _ => none
  | _ => none

def parseSeen (phase : String) (obs : String) : Spec.Seen String :=
  if obs.startsWith "err:" then .error
  else match obs.splitOn ";" with
    | ["ok", ph, app, bp, layers, os, arch, variant, dname, dver, env, plan, store, desc] =>
      match kvFirst "phase" ph, (kvFirst "app" app).bind hexDecode, (kvFirst "bp" bp).bind hexDecode, kvFirst "layers" layers,
            (kvFirst "os" os).bind hexDecode, (kvFirst "arch" arch).bind hexDecode, kvFirst "variant" variant,
            (kvFirst "dname" dname).bind hexDecode, (kvFirst "dver" dver).bind hexDecode,
            (kvFirst "env" env).bind (fun e => allSome ((splitList e ",").map parseEnvPair)), kvFirst "plan" plan, kvFirst "store" store, kvFirst "desc" desc with
      | some ph, some app, some bp, some layers, some os, some arch, some variant, some dname, some dver, some env, some plan, some store, some desc =>
        let layers? : Option (Option Bytes) := if layers = "-" then some none else (hexDecode layers).map some
        let variant? : Option (Option Bytes) :=
          if variant = "none" then some none
          else if variant.startsWith "s:" then (hexDecode (variant.drop 2).toString).map some else none
        match layers?, variant? with
        | some layers, some variant =>
          if ph ≠ phase then .other "the other phase ran"
          else .context { appDir := app, bpDir := bp, layersDir := layers,
                          target := { os := os, arch := arch, variant := variant, dname := dname, dver := dver },
                          env := env, plan := if plan = "-" then none else some plan,
                          store := if store = "-" ∨ store = "none" then none else some store, desc := desc }
        | _, _ => .other "unparsable dump"
      | _, _, _, _, _, _, _, _, _, _, _, _, _ => .other "unparsable dump"
    | _ => .other obs

def handle (fields : List String) (obs : String) : String × String :=
  match parseInputs fields with
  | none => ("bad-op", "bad-op")
  | some (phase, i) =>
    let build := phase = "build"
    let model := match assembleDocs utf8Valid build i with
      | .ok c => renderCtx phase c
      -- a descriptor that cannot be read never reaches `on_error`: `libcnb_runtime` reads its `api` key first and exits with 254
      | .error .descriptor => "weird:exit=Some(254),onerr=0,dump=false"
      | .error e => "err:" ++ errName e
    (model, Spec.verdictDocs specValid build i (parseSeen phase obs))

end CnbVerif.DriverC06
