import CnbVerif.Base.Proto
import CnbVerif.Model.Platform
import CnbVerif.Spec.ContextSpec
/-! Driver glue for C06: parse what the platform supplied, run the model of the context assembly, judge the context the
real executable dumped. Documents decoded by the `toml` crate (plan, store, descriptor) travel as canonical text. The
model decides "is a `String`" with its own `utf8Valid`, the specification with core Lean's `ByteArray.validateUTF8`. -/
namespace CnbVerif.DriverC06
open CnbVerif CnbVerif.Platform

def specValid (b : Bytes) : Bool := ByteArray.validateUTF8 ⟨(b.map (fun n => n.toUInt8)).toArray⟩

def parseVar (s : String) : Option VarVal :=
  if s = "-" then some .unset
  else match s.toList with
    | 'u' :: h => (hexDecodeChars h).bind (fun b => if utf8Valid b then some (.val b) else none)
    | 'n' :: h => (hexDecodeChars h).bind (fun b => if utf8Valid b then none else some (.val b))
    | _ => none

def parseVars (s : String) : Option TargetVars :=
  match (s.splitOn ",").map parseVar with
  | [some a, some b, some c, some d, some e] => some ⟨a, b, c, d, e⟩
  | _ => none

def parseEntry (s : String) : Option (Bytes × EntryKind) :=
  match s.splitOn ":" with
  | [n, k, c] =>
    match hexDecode n, hexDecode c with
    | some n, some c =>
      if k = "f" then some (n, .file c) else if k = "lf" then some (n, .linkFile c)
      else if c ≠ [] then none
      else if k = "d" then some (n, .dir) else if k = "ld" then some (n, .linkDir) else if k = "dl" then some (n, .dangling) else none
    | _, _ => none
  | _ => none

def parsePlat (s : String) : Option PlatDir :=
  if s = "noenv" ∨ s = "noplat" then some .noEnv
  else if s = "notdir" then some .notDir
  else (allSome ((splitList s ",").map parseEntry)).map .entries

def tRoot : Bytes := strBytes "$T/"

def parseInputs (fields : List String) : Option (String × Inputs String) :=
  match fields with
  | [phase, dirs, vars, plat, _planToml, planX, _storeToml, storeX, _descToml, descX] =>
    match (dirs.splitOn "/").map hexDecode, parseVars vars, parsePlat plat with
    | [some app, some bp, some layers], some vars, some plat =>
      if phase = "detect" then
        if planX = "-" ∧ storeX = "-" then
          some (phase, { cwd := tRoot ++ app, bpDir := tRoot ++ bp, layersDir := none, vars := vars, plat := plat,
                         plan := none, store := none, desc := descX })
        else none
      else if phase = "build" then
        if planX = "-" ∨ storeX = "-" then none else
        some (phase, { cwd := tRoot ++ app, bpDir := tRoot ++ bp, layersDir := some (tRoot ++ layers), vars := vars, plat := plat,
                       plan := some planX, store := if storeX = "none" then none else some storeX, desc := descX })
      else none
    | _, _, _ => none
  | _ => none

def errName : Err → String
  | .platform => "CannotCreatePlatformFromPath" | .targetOs => "CannotDetermineTargetOs"
  | .targetArch => "CannotDetermineTargetArch" | .distroName => "CannotDetermineTargetDistroName"
  | .distroVersion => "CannotDetermineTargetDistroVersion"

def renderEnv (e : PEnv) : String :=
  joinWith "," ((sortBy (fun a b => bytesLt a.1 b.1) e).map (fun kv => hexEncode kv.1 ++ ":" ++ hexEncode kv.2))

def renderCtx (phase : String) (c : Ctx String) : String :=
  "ok;phase=" ++ phase ++ ";app=" ++ hexEncode c.appDir ++ ";bp=" ++ hexEncode c.bpDir ++
  ";layers=" ++ (match c.layersDir with | some l => hexEncode l | none => "-") ++
  ";os=" ++ hexEncode c.target.os ++ ";arch=" ++ hexEncode c.target.arch ++
  ";variant=" ++ (match c.target.variant with | some v => "s:" ++ hexEncode v | none => "none") ++
  ";dname=" ++ hexEncode c.target.dname ++ ";dver=" ++ hexEncode c.target.dver ++
  ";env=" ++ renderEnv c.env ++
  ";plan=" ++ (match c.plan with | some p => p | none => "-") ++
  ";store=" ++ (if phase = "detect" then "-" else match c.store with | some s => s | none => "none") ++
  ";desc=" ++ c.desc

/-- split `k=v` at the first `=` -/
def kvFirst (key : String) (s : String) : Option String :=
  let pre := key ++ "="
  if s.startsWith pre then some (s.drop pre.length).toString else none

def parseEnvPair (s : String) : Option (Bytes × Bytes) :=
  match s.splitOn ":" with
  | [k, v] => match hexDecode k, hexDecode v with
    | some k, some v => some (k, v)
    | _, _ => none
  | _ => none

def parseSeen (phase : String) (obs : String) : Spec.Seen String :=
  if obs.startsWith "err:" then .error
  else match obs.splitOn ";" with
    | ["ok", ph, app, bp, layers, os, arch, variant, dname, dver, env, plan, store, desc] =>
      match kvFirst "phase" ph, (kvFirst "app" app).bind hexDecode, (kvFirst "bp" bp).bind hexDecode, kvFirst "layers" layers,
            (kvFirst "os" os).bind hexDecode, (kvFirst "arch" arch).bind hexDecode, kvFirst "variant" variant,
            (kvFirst "dname" dname).bind hexDecode, (kvFirst "dver" dver).bind hexDecode,
            (kvFirst "env" env).bind (fun e => allSome ((splitList e ",").map parseEnvPair)), kvFirst "plan" plan, kvFirst "store" store, kvFirst "desc" desc with
      | some ph, some app, some bp, some layers, some os, some arch, some variant, some dname, some dver, some env, some plan, some store, some desc =>
        let layers? : Option (Option Bytes) := if layers = "-" then some none else (hexDecode layers).map some
        let variant? : Option (Option Bytes) :=
          if variant = "none" then some none
          else if variant.startsWith "s:" then (hexDecode (variant.drop 2).toString).map some else none
        match layers?, variant? with
        | some layers, some variant =>
          if ph ≠ phase then .other "the other phase ran"
          else .context { appDir := app, bpDir := bp, layersDir := layers,
                          target := { os := os, arch := arch, variant := variant, dname := dname, dver := dver },
                          env := env, plan := if plan = "-" then none else some plan,
                          store := if store = "-" ∨ store = "none" then none else some store, desc := desc }
        | _, _ => .other "unparsable dump"
      | _, _, _, _, _, _, _, _, _, _, _, _, _ => .other "unparsable dump"
    | _ => .other obs

def handle (fields : List String) (obs : String) : String × String :=
  match parseInputs fields with
  | none => ("bad-op", "bad-op")
  | some (phase, i) =>
    let model := match assemble utf8Valid i with
      | .ok c => renderCtx phase c
      | .error e => "err:" ++ errName e
    (model, Spec.verdict specValid i (parseSeen phase obs))

end CnbVerif.DriverC06
