import CnbVerif.Model.Determinism
import CnbVerif.Spec.Determinism
import CnbVerif.Driver.C04
/-!
Driver glue for C20. A case is `kind \t a \t b` (the scenario; its content is executed by the harness):
`layers` (a history of struct- and trait-API layer operations replayed in fresh processes), `bp` (the harness's
data-driven buildpack run as `detect` / `build`), `tbp` (the C05 test buildpack), `probe` (is `toml::Table` sorted?).
The implementation's observation is `equal` or `differ:<first differing line>` (or `infra:…` when the runs could not be
carried out).

The model's prediction: `equal` (Props/C20: on the success paths the outputs do not depend on the iteration order),
except for the two error-path classes where the **model itself** is order-sensitive — an exec.d write whose copy loop
(`Det.copyExecd`) leaves different directories for the given and the reversed order (a missing source among several
programs), and an env write the model fails (`writeEnv` = `err io`: a process type named like a launch env file) with
several process types. There either outcome of the comparison is consistent with the model (the order is not under
the harness's control), so the model side repeats the observation. The spec oracle is byte equality in every case.
-/
namespace CnbVerif.DriverC20
open CnbVerif

def knownKinds : List String := ["layers", "bp", "tbp", "probe"]

def parseProg (s : String) : Option (Bytes × Option Bytes) :=
  match s.splitOn "=" with
  | [n, "~"] => (hexDecode n).map (fun n => (n, none))
  | [n, b] => match hexDecode n, hexDecode b with
    | some n, some b => some (n, some b)
    | _, _ => none
  | _ => none

/-- the copy loop leaves different `exec.d` directories for the given order and its reverse -/
def execdOrderSensitive (s : String) : Bool :=
  match allSome ((splitList s "+").map parseProg) with
  | some progs =>
    !(Node.beqList (Spec.Det.canon (Det.copyExecd [] progs).1) (Spec.Det.canon (Det.copyExecd [] progs.reverse).1))
  | none => false

/-- the env write fails in the model (after possibly writing some process directories) and there is more than one process type -/
def envOrderSensitive (s : String) : Bool :=
  match DriverC04.parseInsList s with
  | some ins =>
    let le := ins.foldl (fun le i => le.insert i.scope i.beh i.name i.val) LayerEnv.empty
    decide (le.process.length ≥ 2) && (writeToLayerDir le []).isNone
  | none => false

def opOrderSensitive (op : String) : Bool :=
  match op.splitOn "." with
  | ["X", _, progs] => execdOrderSensitive progs
  | ["E", _, env] => envOrderSensitive env
  | ["T", _, _, _, _, env, progs, _] => envOrderSensitive env || execdOrderSensitive progs
  | _ => false

def handle (fields : List String) (obs : String) : String × String :=
  match fields with
  | [kind, a, b] =>
    if knownKinds.contains kind && !a.isEmpty && !b.isEmpty && obs != "bad-fields" then
      let sensitive := (kind == "layers" || kind == "bp") && (splitList b ";").any opOrderSensitive
      let model := if sensitive && obs.startsWith "differ:" then obs else Det.pairObservation
      (model, Spec.Det.verdict obs)
    else ("bad-op", "bad-op")
  | _ => ("bad-op", "bad-op")

end CnbVerif.DriverC20
