import CnbVerif.Model.Determinism
import CnbVerif.Spec.Determinism
import CnbVerif.Driver.C04
/-!
Driver glue for C20. A case is `kind \t a \t b` (the scenario; its content is executed by the harness):
`layers` (a history of struct- and trait-API layer operations replayed in fresh processes), `bp` (the harness's
data-driven buildpack run as `detect` / `build`), `tbp` (the C05 test buildpack), `probe` (is `toml::Table` sorted?),
`execd` (a restored layer whose `exec.d` was prepared by hand and is written again, see below).
The implementation's observation is `equal` or `differ:<first differing line>` (or `infra:…` when the runs could not be
carried out).

Kind `execd`: `a` = `<api>,<entry>,…` (api `s` struct API KeepLayer + `write_exec_d_programs`, `t` trait API `Update`;
entry = `f<path hex>=<content hex>` plain file, `l<path hex>=<target hex>` symlink, `h<path hex>=<existing path hex>`
hard link; paths relative to the layer directory), `b` = wanted programs `<name hex>=<source hex>` joined by `+`. The
entries are replayed into `Det.XFs` (storage identity kept: hard links share an inode number, symlinks to a sibling or
to a known file elsewhere are followed by `XFs.copyTo`), `Det.replaceExecdX` is run on it with the programs in the given
order, and the model's observation is `equal|ok|<listing of the model's exec.d>` in the harness's format (regular
files with the link count `XFs.nlink` computes). Both APIs reach the same function with the same `exec.d`, so `api`
does not enter the model. The spec oracle is `Spec.Det.execdVerdict`.

Kind `sbom`: `a` = route (`bp` | `tbp`: the build phase with a build result that registers 0-8 build and 0-8 launch
SBOMs, formats repeated; `ls` | `lt`: a layer's SBOMs written from a list with repeated formats through the struct /
trait API), `b` = the registrations in order (`;`). The model writes the Vecs front to back (`Det.writeBuildResultSboms`,
`Det.replaceLayerSbomFiles`) and its observation is `equal|ok|<SBOM files: name hex=bytes hex, sorted>`; the spec
oracle is `Spec.Det.sbomVerdict` on the registrations as (file name, bytes): runs equal and every file = the SBOM
registered last for it.

The model's prediction: `equal` (Props/C20: on the success paths the outputs do not depend on the iteration order),
except for the two error-path classes where the **model itself** is order-sensitive — an exec.d write whose copy loop
(`Det.copyExecd`) leaves different directories for the given and the reversed order (a missing source among several
programs), and an env write the model fails (`writeEnv` = `err io`: a process type named like a launch env file) with
several process types. There either outcome of the comparison is consistent with the model (the order is not under
the harness's control), so the model side repeats the observation. The spec oracle is byte equality in every case.
-/
namespace CnbVerif.DriverC20
open CnbVerif

def knownKinds : List String := ["layers", "bp", "tbp", "probe"]

def parseProg (s : String) : Option (Bytes × Option Bytes) :=
  match s.splitOn "=" with
  | [n, "~"] => (hexDecode n).map (fun n => (n, none))
  | [n, b] => match hexDecode n, hexDecode b with
    | some n, some b => some (n, some b)
    | _, _ => none
  | _ => none

/-- the copy loop leaves different `exec.d` directories for the given order and its reverse -/
def execdOrderSensitive (s : String) : Bool :=
  match allSome ((splitList s "+").map parseProg) with
  | some progs =>
    !(Node.beqList (Spec.Det.canon (Det.copyExecd [] progs).1) (Spec.Det.canon (Det.copyExecd [] progs.reverse).1))
  | none => false

/-- the env write fails in the model (after possibly writing some process directories) and there is more than one process type -/
def envOrderSensitive (s : String) : Bool :=
  match DriverC04.parseInsList s with
  | some ins =>
    let le := ins.foldl (fun le i => le.insert i.scope i.beh i.name i.val) LayerEnv.empty
    decide (le.process.length ≥ 2) && (writeToLayerDir le []).isNone
  | none => false

def opOrderSensitive (op : String) : Bool :=
  match op.splitOn "." with
  | ["X", _, progs] => execdOrderSensitive progs
  | ["E", _, env] => envOrderSensitive env
  | ["T", _, _, _, _, env, progs, _] => envOrderSensitive env || execdOrderSensitive progs
  | _ => false

/-! ### kind `execd` -/

structure Prep where
  fs : Det.XFs := {}
  /-- path (relative to the layer directory) ↦ inode, for the regular files prepared so far -/
  paths : List (Bytes × Nat) := []
  next : Nat := 0

def execdPrefix : Bytes := strBytes "exec.d/"

def stripPre (pre p : Bytes) : Option Bytes := if pre.isPrefixOf p then some (p.drop pre.length) else none

/-- what a symlink placed in `exec.d` designates: a sibling (no `/` in the target), a known regular file elsewhere
(`../<path in the layer>` or `$ROOT/<path below the temp root>`), or nothing the model can write through -/
def linkEnt (st : Prep) (target : Bytes) : Det.XEnt :=
  if !target.contains 47 then .symSib target
  else
    let known : Option Nat :=
      match stripPre (strBytes "../") target with
      | some rest => List.lookup rest st.paths
      | none =>
        match stripPre (strBytes "$ROOT/") target with
        | some rest => List.lookup (strBytes "../../" ++ rest) st.paths
        | none => none
    match known with
    | some k => .symOut k
    | none => .other

def addEntry (st : Prep) (kind : String) (path val : Bytes) : Option Prep :=
  match stripPre execdPrefix path with
  | some rest =>
    let name := rest.takeWhile (· != 47)
    if name.isEmpty then none
    else if name.length < rest.length then some { st with fs := st.fs.setName name .other }   -- below a sub-directory of exec.d
    else if kind == "f" then
      some { fs := (st.fs.setName name (.ino st.next)).setData st.next val, paths := (path, st.next) :: st.paths, next := st.next + 1 }
    else if kind == "h" then
      (List.lookup val st.paths).map (fun k => { st with fs := st.fs.setName name (.ino k), paths := (path, k) :: st.paths })
    else if kind == "l" then some { st with fs := st.fs.setName name (linkEnt st val) }
    else none
  | none =>
    if kind == "f" then
      some { fs := { st.fs.setData st.next val with outer := st.next :: st.fs.outer }, paths := (path, st.next) :: st.paths, next := st.next + 1 }
    else if kind == "h" then
      (List.lookup val st.paths).map (fun k => { st with fs := { st.fs with outer := k :: st.fs.outer }, paths := (path, k) :: st.paths })
    else if kind == "l" then some st
    else none

def parseEntry (s : String) : Option (String × Bytes × Bytes) :=
  match (s.drop 1).toString.splitOn "=" with
  | [p, v] => match hexDecode p, hexDecode v with
    | some p, some v => some ((s.take 1).toString, p, v)
    | _, _ => none
  | _ => none

def prepare : Prep → List (String × Bytes × Bytes) → Option Prep
  | st, [] => some st
  | st, (k, p, v) :: rest => match addEntry st k p v with
    | some st' => prepare st' rest
    | none => none

def parseWanted (s : String) : Option (Bytes × Bytes) :=
  match parseProg s with
  | some (n, some b) => some (n, b)
  | _ => none

/-- the harness's listing format (`c20.rs` `execd_listing`), from the model's `exec.d` -/
def showEntry (fs : Det.XFs) (kv : Bytes × Det.XEnt) : String :=
  match fs.node kv.2 with
  | .file b => hexEncode kv.1 ++ ":F:" ++ hexEncode b ++ ":" ++ toString (fs.nlink kv.2)
  | .link _ => hexEncode kv.1 ++ ":L"
  | .dir _ => hexEncode kv.1 ++ ":D"

def showListing : Option Det.XFs → String
  | none => "absent"
  | some fs =>
    if fs.names.isEmpty then "empty"
    else String.intercalate "," ((sortBy (fun x y => bytesLt x.1 y.1) fs.names).map (showEntry fs))

def handleExecd (a b obs : String) : String × String :=
  match splitList a "," with
  | api :: entries =>
    match allSome (entries.map parseEntry), allSome ((splitList b "+").map parseWanted) with
    | some es, some wanted =>
      match prepare {} es with
      | some st =>
        if (api == "s" || api == "t") && obs != "bad-fields" then
          let r := Det.replaceExecdX st.fs wanted
          ("equal|" ++ (if r.2 then "ok" else "err:io") ++ "|" ++ showListing r.1, Spec.Det.execdVerdict wanted obs)
        else ("bad-op", "bad-op")
      | none => ("bad-op", "bad-op")
    | _, _ => ("bad-op", "bad-op")
  | [] => ("bad-op", "bad-op")

/-! ### kind `sbom` -/

/-- `cnb_sbom_path`: `<base>.sbom.<suffix>`, suffix number `f` of `Gen.sbomSuffixes` -/
def sbomFileName (k : Det.SbomKey) : Option Bytes :=
  (Gen.sbomSuffixes.map (·.2))[k.2]?.map (fun suf => strBytes (k.1 ++ ".sbom." ++ suf))

def natOfDigits (s : String) : Option Nat := if s.isEmpty || !s.all Char.isDigit then none else s.toNat?

/-- what one registration does: nothing the SBOM files depend on (`none`), or an SBOM for (target, format) -/
abbrev SbomItem := Option (String × Nat × Bytes)

/-- an item of the data-driven buildpack (`c20.rs` `bp_build`): `b.<fmt>.<hex>` build SBOM, `h.<fmt>.<hex>` launch SBOM;
launch.toml / store items (`p` `l` `s` `m`) and `i` do not touch SBOM files -/
def parseBpItem (it : String) : Option SbomItem :=
  match it.splitOn "." with
  | [t, f, h] =>
    if t == "b" || t == "h" then
      match natOfDigits f, hexDecode h with
      | some f, some b => if f < 3 then some (some (if t == "b" then "build" else "launch", f, b)) else none
      | _, _ => none
    else if ["i", "p", "l", "s", "m"].contains t then some none else none
  | t :: _ => if ["i", "p", "l", "s", "m"].contains t then some none else none
  | [] => none

def tbpFmt (s : String) : Option Nat := match s with | "cdx" => some 0 | "spdx" => some 1 | "syft" => some 2 | _ => none

/-- an item of the C05 test buildpack (`tbp.rs`), `k` = its position in the item list: SBOM payloads are
`{"tbp-sbom":k}` / no bytes (`e`) / FF 00 followed by the decimal digits of `k` (`x`) -/
def parseTbpItem (k : Nat) (it : String) : Option SbomItem :=
  if ["launch", "elaunch", "xlaunch", "store", "estore", "xstore"].contains it then some none
  else
    match it.splitOn "." with
    | [head, f] =>
      let payload : Option (String × Bytes) :=
        match head with
        | "b" => some ("build", strBytes ("{\"tbp-sbom\":" ++ toString k ++ "}"))
        | "be" => some ("build", [])
        | "bx" => some ("build", [255, 0] ++ strBytes (toString k))
        | "l" => some ("launch", strBytes ("{\"tbp-sbom\":" ++ toString k ++ "}"))
        | "le" => some ("launch", [])
        | "lx" => some ("launch", [255, 0] ++ strBytes (toString k))
        | _ => none
      match payload, tbpFmt f with
      | some (t, b), some f => some (some (t, f, b))
      | _, _ => none
    | _ => none

def parseTbpItems : Nat → List String → Option (List SbomItem)
  | _, [] => some []
  | k, it :: rest => match parseTbpItem k it, parseTbpItems (k + 1) rest with
    | some x, some xs => some (x :: xs)
    | _, _ => none

/-- an SBOM of a layer: `<fmt>=<hex>` -/
def parseLayerSbom (s : String) : Option (Nat × Bytes) :=
  match s.splitOn "=" with
  | [f, h] => match natOfDigits f, hexDecode h with
    | some f, some b => if f < 3 then some (f, b) else none
    | _, _ => none
  | _ => none

/-- the layer scenarios write these three SBOMs first (`c20.rs` `SBOM_OLD`), then the scenario's list -/
def layerOldSboms : List (Nat × Bytes) := [(0, strBytes "old-cdx"), (1, strBytes "old-spdx"), (2, strBytes "old-syft")]
def sbomLayerName : String := "a"

def showSbomFiles (fs : Det.SbomFiles) : Option String :=
  (allSome (fs.map (fun kv => (sbomFileName kv.1).map (fun n => (n, kv.2))))).map (fun named =>
    joinWith "," ((sortBy (fun x y => bytesLt x.1 y.1) named).map (fun e => hexEncode e.1 ++ "=" ++ hexEncode e.2)))

/-- registrations in order as (file name, bytes) for the spec oracle -/
def namedRegs (regs : List (String × Nat × Bytes)) : Option (List (Bytes × Bytes)) :=
  allSome (regs.map (fun r => (sbomFileName (r.1, r.2.1)).map (fun n => (n, r.2.2))))

def sbomOutcome (files : Det.SbomFiles) (regs : List (String × Nat × Bytes)) (obs : String) : String × String :=
  match showSbomFiles files, namedRegs regs with
  | some listing, some named => ("equal|ok|" ++ listing, Spec.Det.sbomVerdict named obs)
  | _, _ => ("bad-op", "bad-op")

/-- Kind `sbom`: `a` = route, `b` = registrations (`;`).
`bp`: the harness's data-driven buildpack, `tbp`: the C05 test buildpack — the real build phase (`libcnb_runtime_build`)
on a fresh layers directory, model `Det.writeBuildResultSboms`. `ls`: struct API `LayerRef::write_sboms`, `lt`: trait API
`update` returning the SBOMs (`Sboms::Replace`) — on a cached layer that already has an SBOM of every format, model
`Det.replaceLayerSbomFiles`. -/
def handleSbom (a b obs : String) : String × String :=
  if obs == "bad-fields" then ("bad-op", "bad-op")
  else if a == "bp" || a == "tbp" then
    let items := splitList b ";"
    match (if a == "bp" then allSome (items.map parseBpItem) else parseTbpItems 0 items) with
    | some its =>
      let regs := its.filterMap id
      let of (t : String) := (regs.filter (·.1 == t)).map (·.2)
      sbomOutcome (Det.writeBuildResultSboms [] (of "build") (of "launch")) regs obs
    | none => ("bad-op", "bad-op")
  else if a == "ls" || a == "lt" then
    match allSome ((splitList b ";").map parseLayerSbom) with
    | some sb =>
      let before := Det.replaceLayerSbomFiles sbomLayerName [] layerOldSboms
      sbomOutcome (Det.replaceLayerSbomFiles sbomLayerName before sb) (sb.map (fun x => (sbomLayerName, x.1, x.2))) obs
    | none => ("bad-op", "bad-op")
  else ("bad-op", "bad-op")

def handle (fields : List String) (obs : String) : String × String :=
  match fields with
  | ["execd", a, b] => handleExecd a b obs
  | ["sbom", a, b] => handleSbom a b obs
  | [kind, a, b] =>
    if knownKinds.contains kind && !a.isEmpty && !b.isEmpty && obs != "bad-fields" then
      let sensitive := (kind == "layers" || kind == "bp") && (splitList b ";").any opOrderSensitive
      let model := if sensitive && obs.startsWith "differ:" then obs else Det.pairObservation
      (model, Spec.Det.verdict obs)
    else ("bad-op", "bad-op")
  | _ => ("bad-op", "bad-op")

end CnbVerif.DriverC20
