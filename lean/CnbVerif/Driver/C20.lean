import CnbVerif.Model.Determinism
import CnbVerif.Spec.Determinism
import CnbVerif.Driver.C04
/-!
Driver glue for C20. A case is `kind \t a \t b` (the scenario; its content is executed by the harness):
`layers` (a history of struct- and trait-API layer operations replayed in fresh processes), `bp` (the harness's
data-driven buildpack run as `detect` / `build`), `tbp` (the C05 test buildpack), `probe` (is `toml::Table` sorted?),
`execd` (a restored layer whose `exec.d` was prepared by hand and is written again, see below).
The implementation's observation is `equal` or `differ:<first differing line>` (or `infra:…` when the runs could not be
carried out).

Kind `execd`: `a` = `<api>,<entry>,…` (api `s` struct API KeepLayer + `write_exec_d_programs`, `t` trait API `Update`;
entry = `f<path hex>=<content hex>` plain file, `l<path hex>=<target hex>` symlink, `h<path hex>=<existing path hex>`
hard link; paths relative to the layer directory), `b` = wanted programs `<name hex>=<source hex>` joined by `+`. The
entries are replayed into `Det.XFs` (storage identity kept: hard links share an inode number, symlinks to a sibling or
to a known file elsewhere are followed by `XFs.copyTo`), `Det.replaceExecdX` is run on it with the programs in the given
order, and the model's observation is `equal|ok|<listing of the model's exec.d>` in the harness's format (regular
files with the link count `XFs.nlink` computes). Both APIs reach the same function with the same `exec.d`, so `api`
does not enter the model. The spec oracle is `Spec.Det.execdVerdict`.

The model's prediction: `equal` (Props/C20: on the success paths the outputs do not depend on the iteration order),
except for the two error-path classes where the **model itself** is order-sensitive — an exec.d write whose copy loop
(`Det.copyExecd`) leaves different directories for the given and the reversed order (a missing source among several
programs), and an env write the model fails (`writeEnv` = `err io`: a process type named like a launch env file) with
several process types. There either outcome of the comparison is consistent with the model (the order is not under
the harness's control), so the model side repeats the observation. The spec oracle is byte equality in every case.
-/
namespace CnbVerif.DriverC20
open CnbVerif

def knownKinds : List String := ["layers", "bp", "tbp", "probe"]

def parseProg (s : String) : Option (Bytes × Option Bytes) :=
  match s.splitOn "=" with
  | [n, "~"] => (hexDecode n).map (fun n => (n, none))
  | [n, b] => match hexDecode n, hexDecode b with
    | some n, some b => some (n, some b)
    | _, _ => none
  | _ => none

/-- the copy loop leaves different `exec.d` directories for the given order and its reverse -/
def execdOrderSensitive (s : String) : Bool :=
  match allSome ((splitList s "+").map parseProg) with
  | some progs =>
    !(Node.beqList (Spec.Det.canon (Det.copyExecd [] progs).1) (Spec.Det.canon (Det.copyExecd [] progs.reverse).1))
  | none => false

/-- the env write fails in the model (after possibly writing some process directories) and there is more than one process type -/
def envOrderSensitive (s : String) : Bool :=
  match DriverC04.parseInsList s with
  | some ins =>
    let le := ins.foldl (fun le i => le.insert i.scope i.beh i.name i.val) LayerEnv.empty
    decide (le.process.length ≥ 2) && (writeToLayerDir le []).isNone
  | none => false

def opOrderSensitive (op : String) : Bool :=
  match op.splitOn "." with
  | ["X", _, progs] => execdOrderSensitive progs
  | ["E", _, env] => envOrderSensitive env
  | ["T", _, _, _, _, env, progs, _] => envOrderSensitive env || execdOrderSensitive progs
  | _ => false

/-! ### kind `execd` -/

structure Prep where
  fs : Det.XFs := {}
  /-- path (relative to the layer directory) ↦ inode, for the regular files prepared so far -/
  paths : List (Bytes × Nat) := []
  next : Nat := 0

def execdPrefix : Bytes := strBytes "exec.d/"

def stripPre (pre p : Bytes) : Option Bytes := if pre.isPrefixOf p then some (p.drop pre.length) else none

/-- what a symlink placed in `exec.d` designates: a sibling (no `/` in the target), a known regular file elsewhere
(`../<path in the layer>` or `$ROOT/<path below the temp root>`), or nothing the model can write through -/
def linkEnt (st : Prep) (target : Bytes) : Det.XEnt :=
  if !target.contains 47 then .symSib target
  else
    let known : Option Nat :=
      match stripPre (strBytes "../") target with
      | some rest => List.lookup rest st.paths
      | none =>
        match stripPre (strBytes "$ROOT/") target with
        | some rest => List.lookup (strBytes "../../" ++ rest) st.paths
        | none => none
    match known with
    | some k => .symOut k
    | none => .other

def addEntry (st : Prep) (kind : String) (path val : Bytes) : Option Prep :=
  match stripPre execdPrefix path with
  | some rest =>
    let name := rest.takeWhile (· != 47)
    if name.isEmpty then none
    else if name.length < rest.length then some { st with fs := st.fs.setName name .other }   -- below a sub-directory of exec.d
    else if kind == "f" then
      some { fs := (st.fs.setName name (.ino st.next)).setData st.next val, paths := (path, st.next) :: st.paths, next := st.next + 1 }
    else if kind == "h" then
      (List.lookup val st.paths).map (fun k => { st with fs := st.fs.setName name (.ino k), paths := (path, k) :: st.paths })
    else if kind == "l" then some { st with fs := st.fs.setName name (linkEnt st val) }
    else none
  | none =>
    if kind == "f" then
      some { fs := { st.fs.setData st.next val with outer := st.next :: st.fs.outer }, paths := (path, st.next) :: st.paths, next := st.next + 1 }
    else if kind == "h" then
      (List.lookup val st.paths).map (fun k => { st with fs := { st.fs with outer := k :: st.fs.outer }, paths := (path, k) :: st.paths })
    else if kind == "l" then some st
    else none

def parseEntry (s : String) : Option (String × Bytes × Bytes) :=
  match (s.drop 1).toString.splitOn "=" with
  | [p, v] => match hexDecode p, hexDecode v with
    | some p, some v => some ((s.take 1).toString, p, v)
    | _, _ => none
  | _ => none

def prepare : Prep → List (String × Bytes × Bytes) → Option Prep
  | st, [] => some st
  | st, (k, p, v) :: rest => match addEntry st k p v with
    | some st' => prepare st' rest
    | none => none

def parseWanted (s : String) : Option (Bytes × Bytes) :=
  match parseProg s with
  | some (n, some b) => some (n, b)
  | _ => none

/-- the harness's listing format (`c20.rs` `execd_listing`), from the model's `exec.d` -/
def showEntry (fs : Det.XFs) (kv : Bytes × Det.XEnt) : String :=
  match fs.node kv.2 with
  | .file b => hexEncode kv.1 ++ ":F:" ++ hexEncode b ++ ":" ++ toString (fs.nlink kv.2)
  | .link _ => hexEncode kv.1 ++ ":L"
  | .dir _ => hexEncode kv.1 ++ ":D"

def showListing : Option Det.XFs → String
  | none => "absent"
  | some fs =>
    if fs.names.isEmpty then "empty"
    else String.intercalate "," ((sortBy (fun x y => bytesLt x.1 y.1) fs.names).map (showEntry fs))

def handleExecd (a b obs : String) : String × String :=
  match splitList a "," with
  | api :: entries =>
    match allSome (entries.map parseEntry), allSome ((splitList b "+").map parseWanted) with
    | some es, some wanted =>
      match prepare {} es with
      | some st =>
        if (api == "s" || api == "t") && obs != "bad-fields" then
          let r := Det.replaceExecdX st.fs wanted
          ("equal|" ++ (if r.2 then "ok" else "err:io") ++ "|" ++ showListing r.1, Spec.Det.execdVerdict wanted obs)
        else ("bad-op", "bad-op")
      | none => ("bad-op", "bad-op")
    | _, _ => ("bad-op", "bad-op")
  | [] => ("bad-op", "bad-op")

def handle (fields : List String) (obs : String) : String × String :=
  match fields with
  | ["execd", a, b] => handleExecd a b obs
  | [kind, a, b] =>
    if knownKinds.contains kind && !a.isEmpty && !b.isEmpty && obs != "bad-fields" then
      let sensitive := (kind == "layers" || kind == "bp") && (splitList b ";").any opOrderSensitive
      let model := if sensitive && obs.startsWith "differ:" then obs else Det.pairObservation
      (model, Spec.Det.verdict obs)
    else ("bad-op", "bad-op")
  | _ => ("bad-op", "bad-op")

end CnbVerif.DriverC20
