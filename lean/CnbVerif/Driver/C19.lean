import CnbVerif.Model.MappedWrite
import CnbVerif.Model.Pipes
import CnbVerif.Spec.Streaming
/-!
Driver glue for C19.

* `A  <marker hex>  <prefix hex, - = empty>  <chunks>  [<writers>]`: chunks separated by `,`, `_` = an empty chunk, `-` = no write at all.
  Observation `drop=…;unwrap=…;line=…;teea=…;teeb=…;ret=1` (hex): what the inner writer holds after `mapped(.., marker,
  add_prefix(prefix))` was fed the chunks and dropped / unwrapped, the same for `line_mapped`, the two tee targets,
  and whether every `write` call returned the chunk length.
  `<writers>` = `-` (plain `Vec`s) or `<first tee target>/<second tee target>/<inner writer of the mapped writers>`, each
  `f` (accepts everything) | `s<k>` (at most k bytes per call) | `a<k>` (odd calls everything, even calls at most k), optionally
  followed by `i<n>` (every n-th call fails with `Interrupted`, n >= 2). The chunks are fed with a `write_all` loop; `ret` says
  whether every `write` call took its whole buffer (compared with the model only, the property does not constrain it).
* `B  <seq|par>  <- | stdout writer/stderr writer>  <items>`: items (separated by `;`) `o|e.<len>.<seed>.<delay ms>`; byte `i` of an item is `(seed + i) % 251`.
  Observation `o=<len>:<fnv>/<len>:<fnv>;e=…;status=0` (returned `Output` buffer / supplied writer), or `timeout`.
-/
namespace CnbVerif.DriverC19
open CnbVerif MW Pipes Spec.Streaming

def parseChunk (s : String) : Option Bytes := if s = "_" then some [] else hexDecode s
def parseChunks (s : String) : Option (List Bytes) := allSome ((splitList s ",").map parseChunk)

def fnv (b : Bytes) : Nat :=
  (b.foldl (fun (h : UInt64) x => (h ^^^ UInt64.ofNat x) * 0x100000001b3) (0xcbf29ce484222325 : UInt64)).toNat

def digest (b : Bytes) : String := toString b.length ++ ":" ++ toString (fnv b)

def itemBytes (len seed : Nat) : Bytes := (List.range len).map (fun i => (seed + i) % 251)

def parseItem (s : String) : Option (Bool × Bytes) :=
  match s.splitOn "." with
  | [st, len, seed, delay] =>
    match (if st = "o" then some false else if st = "e" then some true else none), len.toNat?, seed.toNat?, delay.toNat? with
    | some st, some len, some seed, some _ => some (st, itemBytes len seed)
    | _, _, _, _ => none
  | _ => none

def parseScript (s : String) : Option Script := allSome ((splitList s ";").map parseItem)

structure WSpec where
  mode : Char
  k : Nat
  intr : Nat

def parseWSpec (s : String) : Option WSpec :=
  match s.toList with
  | [] => none
  | m :: rest =>
    if m ≠ 'f' ∧ m ≠ 's' ∧ m ≠ 'a' then none else
    match (String.ofList rest).splitOn "i" with
    | [ks] => (if m = 'f' then (if ks = "" then some ⟨m, 0, 0⟩ else none) else (ks.toNat?).bind (fun k => if k ≥ 1 then some ⟨m, k, 0⟩ else none))
    | [ks, ns] =>
      match (if m = 'f' then (if ks = "" then some 0 else none) else (ks.toNat?).bind (fun k => if k ≥ 1 then some k else none)), ns.toNat? with
      | some k, some n => if n ≥ 2 then some ⟨m, k, n⟩ else none
      | _, _ => none
    | _ => none

/-- the behaviour script of a scripted writer for its first `n` calls (`0` = Interrupted, else the accept limit) -/
def WSpec.script (w : WSpec) (n : Nat) : List Nat :=
  (List.range n).map (fun j =>
    let c := j + 1
    if w.intr > 0 ∧ c % w.intr = 0 then 0
    else if w.mode = 'f' then 1000000
    else if w.mode = 's' then w.k
    else if c % 2 = 1 then 1000000 else w.k)

def parseWriters (n : Nat) (s : String) : Option (List WSpec) :=
  if s = "-" then some (List.replicate n ⟨'f', 0, 0⟩)
  else match allSome ((s.splitOn "/").map parseWSpec) with
    | some l => if l.length = n then some l else none
    | none => none

def renderA (d u l a b : Bytes) : String :=
  "drop=" ++ hexEncode d ++ ";unwrap=" ++ hexEncode u ++ ";line=" ++ hexEncode l ++
  ";teea=" ++ hexEncode a ++ ";teeb=" ++ hexEncode b ++ ";ret=1"

def renderB (oa ob ea eb : Bytes) : String :=
  "o=" ++ digest oa ++ "/" ++ digest ob ++ ";e=" ++ digest ea ++ "/" ++ digest eb ++ ";status=0"

def kv (key : String) (s : String) : Option String :=
  if s.startsWith (key ++ "=") then some ((s.drop (key.length + 1)).toString) else none

def checkPart (what : String) (got : Option String) (want : Bytes) : Option String :=
  match got with
  | none => some ("unparsable-observation " ++ what)
  | some g => if g = hexEncode want then none else some (what ++ " expected " ++ hexEncode want ++ " got " ++ g)

def firstSome : List (Option String) → Option String
  | [] => none
  | some x :: _ => some x
  | none :: r => firstSome r

def scriptTotal (sc : Script) : Nat := (sc.map (·.2.length)).foldl (· + ·) 0

def handleA (m p chunks writers obs : String) : String × String :=
  match hexDecode m, (if p = "-" then some [] else hexDecode p), parseChunks chunks, parseWriters 3 writers with
  | some [m], some p, some chunks, some [wa, wb, wi] =>
    let f := addPrefix p
    let input := chunks.flatten
    -- the models over scripted (short-writing) targets; by C19.mapped_output_short_writes / tee_full_input_short_writes
    -- the contents do not depend on the scripts
    let out := runS m f (wi.script (2 * (run m f chunks).length + 4)) chunks
    let line := runS 10 f (wi.script (2 * (run 10 f chunks).length + 4)) chunks
    let t := teeRunS (wa.script (2 * input.length + 4)) (wb.script (2 * input.length + 4)) chunks
    let model := renderA out out line t.a t.b
    let verdict :=
      match obs.splitOn ";" with
      | [d, u, l, a, b, r] =>
        (match firstSome [
            checkPart "mapped-drop" (kv "drop" d) (mappedOutput m f input),
            checkPart "mapped-unwrap" (kv "unwrap" u) (mappedOutput m f input),
            checkPart "line_mapped-drop" (kv "line" l) (mappedOutput 10 f input),
            checkPart "tee-first-target" (kv "teea" a) (teeOutput input),
            checkPart "tee-second-target" (kv "teeb" b) (teeOutput input),
            (if r = "ret=1" ∨ r = "ret=0" then none else some "unparsable-observation ret")] with
        | none => "ok"
        | some why => "fail:" ++ why)
      | _ => "fail:unparsable-observation"
    (model, verdict)
  | _, _, _, _ => ("bad-op", "bad-op")

def handle (fields : List String) (obs : String) : String × String :=
  match fields with
  | ["A", m, p, chunks] => handleA m p chunks "-" obs
  | ["A", m, p, chunks, writers] => handleA m p chunks writers obs
  | ["B", mode, writers, items] =>
    if (mode ≠ "seq" ∧ mode ≠ "par") ∨ (parseWriters 2 writers).isNone then ("bad-op", "bad-op") else
    match parseScript items with
    | some script =>
      -- small scripts: run the step model itself (pipe capacity 3, first-enabled scheduler); large: its proved final state
      let fin :=
        if scriptTotal script ≤ 64 then runFirst codeMode 3 (measure (init script)) (init script) else finalOf script
      let model := if final fin then renderB fin.o.tee.a fin.o.tee.b fin.e.tee.a fin.e.tee.b else "deadlock"
      let so := streamBytes false script
      let se := streamBytes true script
      let verdict :=
        if obs = "timeout" then "fail:timeout (no return within the watchdog limit, twice)"
        else if obs = renderB so so se se then "ok"
        else match obs.splitOn ";" with
          | [o, e, st] =>
            if o ≠ "o=" ++ digest so ++ "/" ++ digest so then "fail:stdout expected " ++ digest so ++ " (Output/writer) got " ++ o
            else if e ≠ "e=" ++ digest se ++ "/" ++ digest se then "fail:stderr expected " ++ digest se ++ " (Output/writer) got " ++ e
            else "fail:" ++ st
          | _ => "fail:" ++ obs
      (model, verdict)
    | none => ("bad-op", "bad-op")
  | _ => ("bad-op", "bad-op")

end CnbVerif.DriverC19
