import CnbVerif.Model.MappedWrite
import CnbVerif.Model.Pipes
import CnbVerif.Spec.Streaming
/-!
Driver glue for C19.

* `A  <marker hex>  <prefix hex, - = empty>  <chunks>`: chunks separated by `,`, `_` = an empty chunk, `-` = no write at all.
  Observation `drop=…;unwrap=…;line=…;teea=…;teeb=…;ret=1` (hex): what the inner writer holds after `mapped(.., marker,
  add_prefix(prefix))` was fed the chunks and dropped / unwrapped, the same for `line_mapped`, the two tee targets,
  and whether every `write` call returned the chunk length.
* `B  <seq|par>  -  <items>`: items (separated by `;`) `o|e.<len>.<seed>.<delay ms>`; byte `i` of an item is `(seed + i) % 251`.
  Observation `o=<len>:<fnv>/<len>:<fnv>;e=…;status=0` (returned `Output` buffer / supplied writer), or `timeout`.
-/
namespace CnbVerif.DriverC19
open CnbVerif MW Pipes Spec.Streaming

def parseChunk (s : String) : Option Bytes := if s = "_" then some [] else hexDecode s
def parseChunks (s : String) : Option (List Bytes) := allSome ((splitList s ",").map parseChunk)

def fnv (b : Bytes) : Nat :=
  (b.foldl (fun (h : UInt64) x => (h ^^^ UInt64.ofNat x) * 0x100000001b3) (0xcbf29ce484222325 : UInt64)).toNat

def digest (b : Bytes) : String := toString b.length ++ ":" ++ toString (fnv b)

def itemBytes (len seed : Nat) : Bytes := (List.range len).map (fun i => (seed + i) % 251)

def parseItem (s : String) : Option (Bool × Bytes) :=
  match s.splitOn "." with
  | [st, len, seed, delay] =>
    match (if st = "o" then some false else if st = "e" then some true else none), len.toNat?, seed.toNat?, delay.toNat? with
    | some st, some len, some seed, some _ => some (st, itemBytes len seed)
    | _, _, _, _ => none
  | _ => none

def parseScript (s : String) : Option Script := allSome ((splitList s ";").map parseItem)

def renderA (d u l a b : Bytes) : String :=
  "drop=" ++ hexEncode d ++ ";unwrap=" ++ hexEncode u ++ ";line=" ++ hexEncode l ++
  ";teea=" ++ hexEncode a ++ ";teeb=" ++ hexEncode b ++ ";ret=1"

def renderB (oa ob ea eb : Bytes) : String :=
  "o=" ++ digest oa ++ "/" ++ digest ob ++ ";e=" ++ digest ea ++ "/" ++ digest eb ++ ";status=0"

def kv (key : String) (s : String) : Option String :=
  if s.startsWith (key ++ "=") then some ((s.drop (key.length + 1)).toString) else none

def checkPart (what : String) (got : Option String) (want : Bytes) : Option String :=
  match got with
  | none => some ("unparsable-observation " ++ what)
  | some g => if g = hexEncode want then none else some (what ++ " expected " ++ hexEncode want ++ " got " ++ g)

def firstSome : List (Option String) → Option String
  | [] => none
  | some x :: _ => some x
  | none :: r => firstSome r

def scriptTotal (sc : Script) : Nat := (sc.map (·.2.length)).foldl (· + ·) 0

def handle (fields : List String) (obs : String) : String × String :=
  match fields with
  | ["A", m, p, chunks] =>
    match hexDecode m, (if p = "-" then some [] else hexDecode p), parseChunks chunks with
    | some [m], some p, some chunks =>
      let f := addPrefix p
      let out := run m f chunks
      let line := run 10 f chunks
      let t := teeRun chunks
      let model := renderA out out line t.a t.b
      let input := chunks.flatten
      let verdict :=
        match obs.splitOn ";" with
        | [d, u, l, a, b, r] =>
          (match firstSome [
              checkPart "mapped-drop" (kv "drop" d) (mappedOutput m f input),
              checkPart "mapped-unwrap" (kv "unwrap" u) (mappedOutput m f input),
              checkPart "line_mapped-drop" (kv "line" l) (mappedOutput 10 f input),
              checkPart "tee-first-target" (kv "teea" a) (teeOutput input),
              checkPart "tee-second-target" (kv "teeb" b) (teeOutput input),
              (if r = "ret=1" then none else some "a write call did not report the whole chunk as written")] with
          | none => "ok"
          | some why => "fail:" ++ why)
        | _ => "fail:unparsable-observation"
      (model, verdict)
    | _, _, _ => ("bad-op", "bad-op")
  | ["B", mode, "-", items] =>
    if mode ≠ "seq" ∧ mode ≠ "par" then ("bad-op", "bad-op") else
    match parseScript items with
    | some script =>
      -- small scripts: run the step model itself (pipe capacity 3, first-enabled scheduler); large: its proved final state
      let fin :=
        if scriptTotal script ≤ 64 then runFirst codeMode 3 (measure (init script)) (init script) else finalOf script
      let model := if final fin then renderB fin.o.tee.a fin.o.tee.b fin.e.tee.a fin.e.tee.b else "deadlock"
      let so := streamBytes false script
      let se := streamBytes true script
      let verdict :=
        if obs = "timeout" then "fail:timeout (no return within the watchdog limit, twice)"
        else if obs = renderB so so se se then "ok"
        else match obs.splitOn ";" with
          | [o, e, st] =>
            if o ≠ "o=" ++ digest so ++ "/" ++ digest so then "fail:stdout expected " ++ digest so ++ " (Output/writer) got " ++ o
            else if e ≠ "e=" ++ digest se ++ "/" ++ digest se then "fail:stderr expected " ++ digest se ++ " (Output/writer) got " ++ e
            else "fail:" ++ st
          | _ => "fail:" ++ obs
      (model, verdict)
    | none => ("bad-op", "bad-op")
  | _ => ("bad-op", "bad-op")

end CnbVerif.DriverC19
