import CnbVerif.Model.MappedWrite
import CnbVerif.Model.Pipes
import CnbVerif.Spec.Streaming
/-!
Driver glue for C19.

* `A  <marker hex>  <prefix hex, - = empty>  <ops>  [<writers>]`: ops separated by `,`: a hex chunk = `write` of it, `_` = a
  `write` of an empty chunk, `F` = `flush()`; `-` = no call at all.
  Observation `drop=…;unwrap=…;line=…;teea=…;teeb=…;tm=…/…;mt=…/…;mm=…;fl=n.n.n.n.n.n.n.n.n.n;ret=1` (hex): what the inner
  writer holds after `mapped(.., marker, add_prefix(prefix))` was given the ops and dropped / unwrapped, the same for
  `line_mapped`, the two tee targets; `tm` = the two targets of `tee(a, mapped(b, marker, prefix))`, `mt` = the two targets
  under `mapped(tee(a, b), marker, prefix)`, `mm` = the target under `mapped(line_mapped(w, add_prefix("| ")), marker, prefix)`;
  `fl` = the number of `flush()` calls each of these ten targets received (in this order); `ret` = whether every `write` call
  returned the chunk length and every `flush` returned `Ok`.
  `<writers>` = `-` (plain `Vec`s) or `<first tee target>/<second tee target>/<inner writer of the mapped writers>`, each
  `f` (accepts everything) | `s<k>` (at most k bytes per call) | `a<k>` (odd calls everything, even calls at most k), optionally
  followed by `i<n>` (every n-th call fails with `Interrupted`, n >= 2). The chunks are fed with a `write_all` loop. `fl` and
  `ret` are compared with the model only (the property does not constrain them).
* `B  <seq|par>  <- | stdout writer/stderr writer>  <items>`: items (separated by `;`) `o|e.<len>.<seed>.<delay ms>[.t]`; byte `i` of an
  item is `(seed + i) % 251`, with `.t` (text, never a newline) `97 + (seed + i) % 26`.
  Observation `o=<len>:<fnv>/<len>:<fnv>;e=…;status=0` (returned `Output` buffer / supplied writer), or `timeout`.
* `M  <out|spawn>  <seq|par>  <stdout target>/<stderr target>  <items>`: the child's streams go, through
  `output_and_write_streams` (`out`) or `spawn_and_write_streams` + `wait` (`spawn`), into targets `v` (a `Vec`),
  `l` (`line_mapped(Vec, add_prefix("> "))`), `m` (`mapped(Vec, b'a', add_prefix("<"))`), `t` (`tee(line_mapped(Vec, "> "), Vec)`).
  Observation `o=<Output.stdout digest, - for spawn>/<target digest>[+<second tee target digest>];e=…;status=0`, or `timeout`.
* `L  <out|spawn>  <stdout target>/<stderr target>  <items>`: a child with a lifetime; items as above (run in order) and `xo` / `xe` /
  `xb.0.0.<ms>` = after the pause close stdout / stderr / both (the process lives on), `z.0.0.<ms>` = stay alive for that long.
  Observation: as for `M`, followed by `;run=1|0|na;t=early|late|na`: for `spawn` and a child that stays alive >= 1000 ms after it
  closed both streams, whether the child was still running (`try_wait() == None`) when `spawn_and_write_streams` returned, and
  whether it returned more than 500 ms before the child's earliest possible exit; `na` otherwise (nothing to judge).
-/
namespace CnbVerif.DriverC19
open CnbVerif MW Pipes Spec.Streaming

def parseChunk (s : String) : Option Bytes := if s = "_" then some [] else hexDecode s
def parseChunks (s : String) : Option (List Bytes) := allSome ((splitList s ",").map parseChunk)
/-- `F` = flush (`none`), anything else a chunk -/
def parseOp (s : String) : Option (Option Bytes) := if s = "F" then some none else (parseChunk s).map some
def parseOps (s : String) : Option (List (Option Bytes)) := allSome ((splitList s ",").map parseOp)

def fnv (b : Bytes) : Nat :=
  (b.foldl (fun (h : UInt64) x => (h ^^^ UInt64.ofNat x) * 0x100000001b3) (0xcbf29ce484222325 : UInt64)).toNat

def digest (b : Bytes) : String := toString b.length ++ ":" ++ toString (fnv b)

def itemBytes (len seed : Nat) : Bytes := (List.range len).map (fun i => (seed + i) % 251)
/-- text items: lower-case letters only, never a newline -/
def itemText (len seed : Nat) : Bytes := (List.range len).map (fun i => 97 + (seed + i) % 26)

def parseItem (s : String) : Option (Bool × Bytes) :=
  let mk (text : Bool) (st len seed delay : String) : Option (Bool × Bytes) :=
    match (if st = "o" then some false else if st = "e" then some true else none), len.toNat?, seed.toNat?, delay.toNat? with
    | some st, some len, some seed, some _ => some (st, if text then itemText len seed else itemBytes len seed)
    | _, _, _, _ => none
  match s.splitOn "." with
  | [st, len, seed, delay] => mk false st len seed delay
  | [st, len, seed, delay, "t"] => mk true st len seed delay
  | _ => none

def parseScript (s : String) : Option Script := allSome ((splitList s ";").map parseItem)

structure WSpec where
  mode : Char
  k : Nat
  intr : Nat

def parseWSpec (s : String) : Option WSpec :=
  match s.toList with
  | [] => none
  | m :: rest =>
    if m ≠ 'f' ∧ m ≠ 's' ∧ m ≠ 'a' then none else
    match (String.ofList rest).splitOn "i" with
    | [ks] => (if m = 'f' then (if ks = "" then some ⟨m, 0, 0⟩ else none) else (ks.toNat?).bind (fun k => if k ≥ 1 then some ⟨m, k, 0⟩ else none))
    | [ks, ns] =>
      match (if m = 'f' then (if ks = "" then some 0 else none) else (ks.toNat?).bind (fun k => if k ≥ 1 then some k else none)), ns.toNat? with
      | some k, some n => if n ≥ 2 then some ⟨m, k, n⟩ else none
      | _, _ => none
    | _ => none

/-- the behaviour script of a scripted writer for its first `n` calls (`0` = Interrupted, else the accept limit) -/
def WSpec.script (w : WSpec) (n : Nat) : List Nat :=
  -- a plain target: the empty script (an exhausted script accepts everything)
  if w.mode = 'f' ∧ w.intr = 0 then [] else
  (List.range n).map (fun j =>
    let c := j + 1
    if w.intr > 0 ∧ c % w.intr = 0 then 0
    else if w.mode = 'f' then 1000000
    else if w.mode = 's' then w.k
    else if c % 2 = 1 then 1000000 else w.k)

def parseWriters (n : Nat) (s : String) : Option (List WSpec) :=
  if s = "-" then some (List.replicate n ⟨'f', 0, 0⟩)
  else match allSome ((s.splitOn "/").map parseWSpec) with
    | some l => if l.length = n then some l else none
    | none => none

def renderA (d u l a b tma tmb mta mtb mm : Bytes) (fl : List Nat) : String :=
  "drop=" ++ hexEncode d ++ ";unwrap=" ++ hexEncode u ++ ";line=" ++ hexEncode l ++
  ";teea=" ++ hexEncode a ++ ";teeb=" ++ hexEncode b ++
  ";tm=" ++ hexEncode tma ++ "/" ++ hexEncode tmb ++ ";mt=" ++ hexEncode mta ++ "/" ++ hexEncode mtb ++ ";mm=" ++ hexEncode mm ++
  ";fl=" ++ joinWith "." (fl.map toString) ++ ";ret=1"

def renderB (oa ob ea eb : Bytes) : String :=
  "o=" ++ digest oa ++ "/" ++ digest ob ++ ";e=" ++ digest ea ++ "/" ++ digest eb ++ ";status=0"

def kv (key : String) (s : String) : Option String :=
  if s.startsWith (key ++ "=") then some ((s.drop (key.length + 1)).toString) else none

def checkPart (what : String) (got : Option String) (want : Bytes) : Option String :=
  match got with
  | none => some ("unparsable-observation " ++ what)
  | some g => if g = hexEncode want then none else some (what ++ " expected " ++ hexEncode want ++ " got " ++ g)

def firstSome : List (Option String) → Option String
  | [] => none
  | some x :: _ => some x
  | none :: r => firstSome r

def scriptTotal (sc : Script) : Nat := (sc.map (·.2.length)).foldl (· + ·) 0

/-- the prefix of the inner `line_mapped` of the `mapped`-of-`mapped` composition: `"| "` -/
def innerPrefix : Bytes := [124, 32]

def checkPair (what : String) (got : Option String) (wantA wantB : Bytes) : Option String :=
  match got with
  | none => some ("unparsable-observation " ++ what)
  | some g => if g = hexEncode wantA ++ "/" ++ hexEncode wantB then none
              else some (what ++ " expected " ++ hexEncode wantA ++ "/" ++ hexEncode wantB ++ " got " ++ g)

def handleA (m p ops writers obs : String) : String × String :=
  match hexDecode m, (if p = "-" then some [] else hexDecode p), parseOps ops, parseWriters 3 writers with
  | some [m], some p, some ops, some [wa, wb, wi] =>
    let f := addPrefix p
    let g := addPrefix innerPrefix
    let input := writtenBytes ops
    -- the model: every wrapper is the calls it makes on what it wraps (Model/MappedWrite.lean), the targets at the bottom are
    -- scripted (short-writing) sinks; by C19.mapped_output_independent_of_flushes / tee_full_input_with_flushes /
    -- compositions_independent_of_flushes their contents depend neither on the scripts nor on the flushes
    let sink (w : WSpec) (calls : List (Option Bytes)) : Bytes := sinkRunS (w.script (2 * (sinkContent calls).length + 4)) [] calls
    let cm := mappedCalls m f ops
    let cl := mappedCalls 10 f ops
    let ct := teeCalls ops
    let ctm := mappedCalls m f (teeCalls ops).2
    let cmt := teeCalls (mappedCalls m f ops)
    let cmm := mappedCalls 10 g (mappedCalls m f ops)
    let dm := sink wi cm
    let model := renderA dm dm (sink wi cl) (sink wa ct.1) (sink wb ct.2)
      (sink wa (teeCalls ops).1) (sink wi ctm) (sink wa cmt.1) (sink wb cmt.2) (sink wi cmm)
      ([cm, cm, cl, ct.1, ct.2, (teeCalls ops).1, ctm, cmt.1, cmt.2, cmm].map sinkFlushes)
    let mo := mappedOutput m f input
    let verdict :=
      match obs.splitOn ";" with
      | [d, u, l, a, b, tm, mt, mm, fl, r] =>
        (match firstSome [
            checkPart "mapped-drop" (kv "drop" d) mo,
            checkPart "mapped-unwrap" (kv "unwrap" u) mo,
            checkPart "line_mapped-drop" (kv "line" l) (mappedOutput 10 f input),
            checkPart "tee-first-target" (kv "teea" a) (teeOutput input),
            checkPart "tee-second-target" (kv "teeb" b) (teeOutput input),
            checkPair "tee-into-mapped" (kv "tm" tm) (teeOutput input) mo,
            checkPair "mapped-into-tee" (kv "mt" mt) (teeOutput mo) (teeOutput mo),
            checkPart "mapped-of-line_mapped" (kv "mm" mm) (mappedOutput 10 g mo),
            (if (kv "fl" fl).isSome then none else some "unparsable-observation fl"),
            (if r = "ret=1" ∨ r = "ret=0" then none else some "unparsable-observation ret")] with
        | none => "ok"
        | some why => "fail:" ++ why)
      | _ => "fail:unparsable-observation"
    (model, verdict)
  | _, _, _, _ => ("bad-op", "bad-op")

/-- the targets of the `M` cases -/
def parseTargets (s : String) : Option (Char × Char) :=
  match s.toList with
  | [a, '/', b] => if "vlmt".toList.contains a ∧ "vlmt".toList.contains b then some (a, b) else none
  | _ => none

def targetPrefix : Bytes := [62, 32]   -- "> "
def targetPrefixA : Bytes := [60]      -- "<"

/-- what the property requires the bottom `Vec`(s) of a target to hold, given the bytes the child wrote to the stream -/
def targetSpec (t : Char) (bytes : Bytes) : String :=
  if t = 'v' then digest (teeOutput bytes)
  else if t = 'l' then digest (mappedOutput 10 (addPrefix targetPrefix) bytes)
  else if t = 'm' then digest (mappedOutput 97 (addPrefix targetPrefixA) bytes)
  else digest (mappedOutput 10 (addPrefix targetPrefix) bytes) ++ "+" ++ digest (teeOutput bytes)

/-- the model of a target that received `calls` (the copier's calls on the supplied writer) -/
def targetModel (t : Char) (calls : List (Option Bytes)) : String :=
  if t = 'v' then digest (sinkContent calls)
  else if t = 'l' then digest (sinkContent (mappedCalls 10 (addPrefix targetPrefix) calls))
  else if t = 'm' then digest (sinkContent (mappedCalls 97 (addPrefix targetPrefixA) calls))
  else digest (sinkContent (mappedCalls 10 (addPrefix targetPrefix) (teeCalls calls).1)) ++ "+" ++ digest (sinkContent (teeCalls calls).2)

def handleM (entry mode targets items obs : String) : String × String :=
  if (entry ≠ "out" ∧ entry ≠ "spawn") ∨ (mode ≠ "seq" ∧ mode ≠ "par") then ("bad-op", "bad-op") else
  match parseTargets targets, parseScript items with
  | some (to, te), some script =>
    let so := streamBytes false script
    let se := streamBytes true script
    let outPart (b : Bytes) : String := if entry = "out" then digest b else "-"
    let render (o e : String) (oa ea : Bytes) : String := "o=" ++ outPart oa ++ "/" ++ o ++ ";e=" ++ outPart ea ++ "/" ++ e ++ ";status=0"
    -- small scripts: the step model (pipe capacity 3, first-enabled scheduler); its copier hands the supplied writer one byte
    -- per `write`. Large: the proved final state and, for the targets, the proved closed form of the writer model
    -- (C19.delivery, C19.mapped_output_independent_of_flushes: every chunking gives this).
    let model :=
      if scriptTotal script ≤ 64 then
        let fin := runFirst codeMode 3 (measure (init script)) (init script)
        if final fin then
          render (targetModel to (fin.o.tee.b.map (fun b => some [b]))) (targetModel te (fin.e.tee.b.map (fun b => some [b]))) fin.o.tee.a fin.e.tee.a
        else "deadlock"
      else
        let fin := finalOf script
        render (targetSpec to fin.o.tee.b) (targetSpec te fin.e.tee.b) fin.o.tee.a fin.e.tee.a
    let want := render (targetSpec to so) (targetSpec te se) so se
    let verdict :=
      if obs = "timeout" then "fail:timeout (no return within the watchdog limit, twice)"
      else if obs = want then "ok"
      else match obs.splitOn ";", want.splitOn ";" with
        | [o, e, st], [wo, we, _] =>
          if o ≠ wo then "fail:stdout (Output/target " ++ String.singleton to ++ ") expected " ++ wo ++ " got " ++ o
          else if e ≠ we then "fail:stderr (Output/target " ++ String.singleton te ++ ") expected " ++ we ++ " got " ++ e
          else "fail:" ++ st
        | _, _ => "fail:" ++ obs
    (model, verdict)
  | _, _ => ("bad-op", "bad-op")

/-- an item of an `L` script as an action of the specification's `Life` -/
def parseLifeItem (s : String) : Option (Nat × Act) :=
  match s.splitOn "." with
  | [k, "0", "0", delay] =>
    (match delay.toNat? with
     | none => none
     | some d =>
       if k = "xo" then some (d, .close false) else if k = "xe" then some (d, .close true)
       else if k = "xb" then some (d, .closeBoth) else if k = "z" then some (d, .idle)
       else (parseItem s).map (fun (st, b) => (d, .write st b)))
  | parts =>
    (match parts with
     | _ :: _ :: _ :: delay :: _ => (match delay.toNat?, parseItem s with | some d, some (st, b) => some (d, .write st b) | _, _ => none)
     | _ => none)

def parseLife (s : String) : Option Life := allSome ((splitList s ";").map parseLifeItem)

/-- the child's events up to (and including) the close after which both streams are closed; `none`: it never closes both itself -/
def eventsUntilBothClosed (acc : List CEv) : Life → Option (List CEv)
  | [] => none
  | (_, act) :: rest =>
    let acc' := acc ++ (match act with | .close st => [CEv.close st] | .closeBoth => [CEv.close false, CEv.close true] | _ => [])
    if acc'.contains (.close false) && acc'.contains (.close true) then some acc' else eventsUntilBothClosed acc' rest

def handleL (entry targets items obs : String) : String × String :=
  if entry ≠ "out" ∧ entry ≠ "spawn" then ("bad-op", "bad-op") else
  match parseTargets targets, parseLife items with
  | some (to, te), some life =>
    let so := lifeBytes false life
    let se := lifeBytes true life
    let outPart (b : Bytes) : String := if entry = "out" then digest b else "-"
    let bytesPart := "o=" ++ outPart so ++ "/" ++ targetSpec to so ++ ";e=" ++ outPart se ++ "/" ++ targetSpec te se ++ ";status=0"
    let judged := entry = "spawn" ∧ (mustBeRunningAtReturn life).isSome
    -- the model: has `spawn_and_write_streams` (as the source has it now) returned at the moment both streams are closed?
    let modelRun : String :=
      if ¬ judged then ";run=na;t=na"
      else match eventsUntilBothClosed [] life with
        | some pre => if returned spawnProg pre then ";run=1;t=early" else ";run=0;t=late"
        | none => ";run=na;t=na"
    let model := bytesPart ++ modelRun
    let verdict :=
      if obs = "timeout" then "fail:timeout (no return within the watchdog limit)"
      else match obs.splitOn ";" with
        | [o, e, st, run, t] =>
          if o ++ ";" ++ e ++ ";" ++ st ≠ bytesPart then
            (match bytesPart.splitOn ";" with
             | [wo, we, _] =>
               if o ≠ wo then "fail:stdout (Output/target " ++ String.singleton to ++ ") expected " ++ wo ++ " got " ++ o
               else if e ≠ we then "fail:stderr (Output/target " ++ String.singleton te ++ ") expected " ++ we ++ " got " ++ e
               else "fail:" ++ st
             | _ => "fail:" ++ obs)
          else if ¬ judged then (if run = "run=na" ∧ t = "t=na" then "ok" else "fail:unparsable-observation " ++ run ++ ";" ++ t)
          else if mustBeRunningAtReturn life = some true then
            (if run = "run=1" then (if t = "t=early" ∨ t = "t=late" then "ok" else "fail:unparsable-observation " ++ t)
             else if run = "run=0" then
               "fail:return-not-at-stream-close (the child stays alive " ++ toString (outlives false false life) ++
                 " ms after closing both streams, yet it had already exited when spawn_and_write_streams returned; " ++ t ++ ")"
             else "fail:unparsable-observation " ++ run)
          else "ok"
        | _ => "fail:" ++ obs
    (model, verdict)
  | _, _ => ("bad-op", "bad-op")

def handle (fields : List String) (obs : String) : String × String :=
  match fields with
  | ["L", entry, targets, items] => handleL entry targets items obs
  | ["A", m, p, chunks] => handleA m p chunks "-" obs
  | ["A", m, p, chunks, writers] => handleA m p chunks writers obs
  | ["M", entry, mode, targets, items] => handleM entry mode targets items obs
  | ["B", mode, writers, items] =>
    if (mode ≠ "seq" ∧ mode ≠ "par") ∨ (parseWriters 2 writers).isNone then ("bad-op", "bad-op") else
    match parseScript items with
    | some script =>
      -- small scripts: run the step model itself (pipe capacity 3, first-enabled scheduler); large: its proved final state
      let fin :=
        if scriptTotal script ≤ 64 then runFirst codeMode 3 (measure (init script)) (init script) else finalOf script
      let model := if final fin then renderB fin.o.tee.a fin.o.tee.b fin.e.tee.a fin.e.tee.b else "deadlock"
      let so := streamBytes false script
      let se := streamBytes true script
      let verdict :=
        if obs = "timeout" then "fail:timeout (no return within the watchdog limit, twice)"
        else if obs = renderB so so se se then "ok"
        else match obs.splitOn ";" with
          | [o, e, st] =>
            if o ≠ "o=" ++ digest so ++ "/" ++ digest so then "fail:stdout expected " ++ digest so ++ " (Output/writer) got " ++ o
            else if e ≠ "e=" ++ digest se ++ "/" ++ digest se then "fail:stderr expected " ++ digest se ++ " (Output/writer) got " ++ e
            else "fail:" ++ st
          | _ => "fail:" ++ obs
      (model, verdict)
    | none => ("bad-op", "bad-op")
  | _ => ("bad-op", "bad-op")

end CnbVerif.DriverC19
