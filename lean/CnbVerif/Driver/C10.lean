import CnbVerif.Driver.C03
import CnbVerif.Spec.LayerPaths
/-! Driver glue for C10 (implicit layer paths; never persisted). -/
namespace CnbVerif.DriverC10
open CnbVerif Spec DriverC04 DriverC03

def kindNode (c : Char) : Option (Option Node) :=
  if c = 'a' then some none
  else if c = 'd' then some (some (.dir []))
  else if c = 'f' then some (some (.file []))
  else if c = 'D' then some (some (.link .toDir))
  else if c = 'F' then some (some (.link .toFile))
  else if c = 'x' then some (some (.link .dangling))
  else none

def subs : List LSub := [.bin, .lib, .incl, .pkgconfig]

def layerOf (kinds : List Char) : Option Dir :=
  match allSome (kinds.map kindNode) with
  | some ns =>
    if ns.length = 4 then
      some ((subs.zip ns).filterMap (fun (s, n) => n.map (fun x => (s.dirName, x))))
    else none
  | none => none

def isDirOf (kinds : List Char) (s : LSub) : Bool :=
  let i := match s with | .bin => 0 | .lib => 1 | .incl => 2 | .pkgconfig => 3
  match kinds[i]? with
  | some c => c = 'd' || c = 'D'
  | none => false

/-- env entries of the snapshot only (the four sub-directories are inputs) -/
def envSnap (l : Dir) : String :=
  renderSnap (l.filter (fun kv => kv.1 = nEnv || kv.1 = nEnvBuild || kv.1 = nEnvLaunch))

def cycles (lp : Bytes) (l : Dir) : Nat → List String
  | 0 => []
  | n + 1 =>
    match readFromLayerDir lp l with
    | none => ["err:io"]
    | some le =>
      match writeToLayerDir le l with
      | none => ["err:io"]
      | some l' => envSnap l' :: cycles lp l' n

def specProbes10 (ins : List Ins) (kinds : List Char) (names : List Bytes) : String :=
  String.intercalate "|" (probeScopes.flatMap (fun (tag, sc) =>
    (probeEnvs names).zipIdx.map (fun (e, i) =>
      let ns := dedup (e.keys ++ ins.map (·.name) ++ layerPathTable.map (·.1))
      let out : Env := ns.filterMap (fun n =>
        let ex := specApply ins sc e n
        let v := match sc with
          | .build => implicitRule (strBytes "$L") (isDirOf kinds) n .build ex
          | .launch => implicitRule (strBytes "$L") (isDirOf kinds) n .launch ex
          | _ => ex
        v.map (fun v => (n, v)))
      tag ++ ">" ++ toString i ++ ">" ++ renderEnv out)))

def handle (fields : List String) (obs : String) : String × String :=
  match fields with
  | [kindsS, insS, namesS] =>
    match layerOf kindsS.toList, parseInsList insS, parseNames namesS with
    | some l0, some ins, some names =>
      let lp := strBytes "$L"
      match writeToLayerDir (buildLe ins) l0 with
      | none => ("err:io", "fail:could not write the explicit environment")
      | some l1 =>
        let first := envSnap l1
        let model :=
          match readFromLayerDir lp l1 with
          | none => "probes=err:io"
          | some le => "probes=" ++ renderProbes le.apply names ++ ";cycles=" ++
              String.intercalate "#" (first :: cycles lp l1 3)
        let expectSnap := joinWith "," (sortBy strLt
          ((specFiles ins).map (fun (p, c) => "F " ++ pathStr p ++ " " ++ hexEncode c) ++
           (judgeSnap.dedup' ((specFiles ins).flatMap (fun (p, _) =>
              (List.range (p.length - 1)).map (fun k => "D " ++ pathStr (p.take (k + 1))))))))
        let verdict :=
          match splitKV obs with
          | [("probes", probes), ("cycles", cyc)] =>
            if probes ≠ specProbes10 ins kindsS.toList names then
              "fail:implicit layer paths wrong: got " ++ probes
            else
              match (cyc.splitOn "#").find? (fun s => s ≠ expectSnap) with
              | some s => "fail:env directories changed by read->write (or hold an implicit entry): " ++ s
              | none => if (cyc.splitOn "#").length = 4 then "ok" else "fail:expected 4 snapshots"
          | _ => "fail:unparsable observation " ++ obs
        (model, verdict)
    | _, _, _ => ("bad-op", "bad-op")
  | _ => ("bad-op", "bad-op")

end CnbVerif.DriverC10
