import CnbVerif.Driver.C03
import CnbVerif.Spec.LayerPaths
/-! Driver glue for C10 (implicit layer paths; never persisted). -/
namespace CnbVerif.DriverC10
open CnbVerif Spec DriverC04 DriverC03

def kindNode (c : Char) : Option (Option Node) :=
  if c = 'a' then some none
  else if c = 'd' then some (some (.dir []))
  else if c = 'f' then some (some (.file []))
  else if c = 'D' then some (some (.link .toDir))
  else if c = 'F' then some (some (.link .toFile))
  else if c = 'x' then some (some (.link .dangling))
  -- further ways of (not) being a directory: non-empty directory, symlink chain ending in a directory, relative symlink
  -- to a directory, directory without permission bits; symlink loop, FIFO
  else if c = 'e' then some (some (.dir [([102], .file [])]))
  else if c = 'C' then some (some (.link .toDir))
  else if c = 'r' then some (some (.link .toDir))
  else if c = 'm' then some (some (.dir []))
  else if c = 'l' then some (some (.link .dangling))
  else if c = 'p' then some (some (.file []))
  else none

def subs : List LSub := [.bin, .lib, .incl, .pkgconfig]

def layerOf (kinds : List Char) : Option Dir :=
  match allSome (kinds.map kindNode) with
  | some ns =>
    if ns.length = 4 then
      some ((subs.zip ns).filterMap (fun (s, n) => n.map (fun x => (s.dirName, x))))
    else none
  | none => none

def isDirOf (kinds : List Char) (s : LSub) : Bool :=
  let i := match s with | .bin => 0 | .lib => 1 | .incl => 2 | .pkgconfig => 3
  match kinds[i]? with
  | some c => c = 'd' || c = 'D' || c = 'e' || c = 'C' || c = 'r' || c = 'm'
  | none => false

/-- env entries of the snapshot only (the four sub-directories are inputs) -/
def envSnap (l : Dir) : String :=
  renderSnap (l.filter (fun kv => kv.1 = nEnv || kv.1 = nEnvBuild || kv.1 = nEnvLaunch))

def cycles (lp : Bytes) (l : Dir) : Nat → List String
  | 0 => []
  | n + 1 =>
    match readFromLayerDir lp l with
    | none => ["err:io"]
    | some le =>
      match writeToLayerDir le l with
      | none => ["err:io"]
      | some l' => envSnap l' :: cycles lp l' n

/-- starting environments of the probes: the two of C03 (unset / every name = "0") and, when the case carries one, a
third with the given values -/
def probeEnvs10 (names : List Bytes) (start : Option Env) : List Env :=
  probeEnvs names ++ (match start with | some e => [e] | none => [])

def renderProbes10 (apply : Scope → Env → Env) (names : List Bytes) (start : Option Env) : String :=
  String.intercalate "|" (probeScopes.flatMap (fun (tag, sc) =>
    (probeEnvs10 names start).zipIdx.map (fun (e, i) => tag ++ ">" ++ toString i ++ ">" ++ renderEnv (apply sc e))))

def specProbes10 (ins : List Ins) (kinds : List Char) (names : List Bytes) (start : Option Env := none) : String :=
  String.intercalate "|" (probeScopes.flatMap (fun (tag, sc) =>
    (probeEnvs10 names start).zipIdx.map (fun (e, i) =>
      let ns := dedup (e.keys ++ ins.map (·.name) ++ layerPathTable.map (·.1))
      let out : Env := ns.filterMap (fun n =>
        let ex := specApply ins sc e n
        let v := match sc with
          | .build => implicitRule (strBytes "$L") (isDirOf kinds) n .build ex
          | .launch => implicitRule (strBytes "$L") (isDirOf kinds) n .launch ex
          | _ => ex
        v.map (fun v => (n, v)))
      tag ++ ">" ++ toString i ++ ">" ++ renderEnv out)))

/-- the optional starting environment of a case: `-` = none, else `hexname=hexvalue,…` -/
def parseStart (s : String) : Option (Option Env) :=
  if s = "-" then some none else (parseEnv s).map some

/-- flags of a case (how the harness reaches the layer directory); they do not change what is expected -/
def flagsOk (s : String) : Bool := s = "-" || s = "linked"

def handle5 (kindsS insS namesS : String) (start : Option (Option Env)) (obs : String) : String × String :=
    match layerOf kindsS.toList, parseInsList insS, parseNames namesS, start with
    | some l0, some ins, some names, some start =>
      let lp := strBytes "$L"
      match writeToLayerDir (buildLe ins) l0 with
      | none => ("err:io", "fail:could not write the explicit environment")
      | some l1 =>
        let first := envSnap l1
        let model :=
          match readFromLayerDir lp l1 with
          | none => "probes=err:io"
          | some le => "probes=" ++ renderProbes10 le.apply names start ++ ";cycles=" ++
              String.intercalate "#" (first :: cycles lp l1 3)
        let expectSnap := joinWith "," (sortBy strLt
          ((specFiles ins).map (fun (p, c) => "F " ++ pathStr p ++ " " ++ hexEncode c) ++
           (judgeSnap.dedup' ((specFiles ins).flatMap (fun (p, _) =>
              (List.range (p.length - 1)).map (fun k => "D " ++ pathStr (p.take (k + 1))))))))
        let verdict :=
          match splitKV obs with
          | [("probes", probes), ("cycles", cyc)] =>
            if probes ≠ specProbes10 ins kindsS.toList names start then
              "fail:implicit layer paths wrong: got " ++ probes
            else
              match (cyc.splitOn "#").find? (fun s => s ≠ expectSnap) with
              | some s => "fail:env directories changed by read->write (or hold an implicit entry): " ++ s
              | none => if (cyc.splitOn "#").length = 4 then "ok" else "fail:expected 4 snapshots"
          | _ => "fail:unparsable observation " ++ obs
        (model, verdict)
    | _, _, _, _ => ("bad-op", "bad-op")

def handle (fields : List String) (obs : String) : String × String :=
  match fields with
  | [kindsS, insS, namesS] => handle5 kindsS insS namesS (some none) obs
  | [kindsS, insS, namesS, startS, flagsS] =>
    if flagsOk flagsS then handle5 kindsS insS namesS (parseStart startS) obs else ("bad-op", "bad-op")
  | _ => ("bad-op", "bad-op")

end CnbVerif.DriverC10
