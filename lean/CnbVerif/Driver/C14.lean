import CnbVerif.Base.Proto
import CnbVerif.Model.PkgDescriptor
import CnbVerif.Spec.PathDenote
/-!
Driver glue for C14.

fields: `src` (spelling of the buildpack directory below the scratch root `$T`, plain text), `bp` (buildpack URI,
hex), `deps` (hex, comma separated), `platform` (`none|linux|windows`), `map` (`hexid=hexpath,…`; a path may start
with `$T`); optionally a sixth field `twice` / `link` / `twice+link` that only the harness reads (the function is called twice on the same
destination, which then already holds stale files; the source location's last component is a symbolic link): the expected
result is the same function of the first five fields.

observation: `ok;<hex buildpack uri>;<hex dep>,…;<os>;reparse=0|1` (the written `package.toml` read back with a
generic TOML reader; a leading scratch root is printed as `$T`) or `err:missing:<hexid>` / `err:id` / `err:<other>`.

The scratch root is a fresh directory `/tmp/<random>`; model and judge use the stand-in `/tmp/$T` of the same depth.
-/
namespace CnbVerif.DriverC14
open CnbVerif CnbVerif.Chars CnbVerif.PkgDescriptor

def rootStandIn : Str := "/tmp/$T".toList

def hexStr (s : String) : Option Str :=
  (hexDecode s).bind (fun b => (String.fromUTF8? (ByteArray.mk (b.map (·.toUInt8)).toArray)).map (·.toList))

def strHex (s : Str) : String := hexEncode (strBytes (String.ofList s))

/-- `$T…` ↦ `/tmp/$T…` -/
def expandRoot (s : Str) : Str :=
  if s.take 2 = "$T".toList then rootStandIn ++ s.drop 2 else s

/-- `/tmp/$T` or `/tmp/$T/…` ↦ `$T…` -/
def contractRoot (s : Str) : Str :=
  if s = rootStandIn then "$T".toList
  else if s.take (rootStandIn.length + 1) = rootStandIn ++ ['/'] then "$T".toList ++ s.drop rootStandIn.length
  else s

def parseMapEntry (s : String) : Option (Str × Str) :=
  match s.splitOn "=" with
  | [k, v] => match hexStr k, hexStr v with
    | some k, some v => some (k, expandRoot v)
    | _, _ => none
  | _ => none

def lookup (m : List (Str × Str)) (k : Str) : Option Str := (m.find? (fun kv => kv.1 = k)).map (·.2)

structure Input where
  parent : Str
  desc : Descriptor
  map : List (Str × Str)

def parseInput (fields : List String) : Option Input :=
  match fields with
  | [src, bp, deps, platform, mp] =>
    match hexStr bp, allSome ((splitList deps ",").map hexStr), allSome ((splitList mp ",").map parseMapEntry) with
    | some bp, some deps, some mp =>
      let os := if platform = "none" then "linux" else platform
      if platform = "none" ∨ platform = "linux" ∨ platform = "windows" then
        some ⟨rootStandIn ++ '/' :: src.toList, ⟨bp, deps, os.toList⟩, mp⟩
      else none
    | _, _, _ => none
  | [src, bp, deps, platform, mp, opt] =>
    if opt = "twice" ∨ opt = "link" ∨ opt = "twice+link" then parseInput [src, bp, deps, platform, mp] else none
  | _ => none

def renderOk (d : Descriptor) : String :=
  "ok;" ++ strHex d.buildpack ++ ";" ++ joinWith "," (d.deps.map (fun x => strHex (contractRoot x))) ++ ";" ++
    String.ofList d.platform ++ ";reparse=1"

def model (i : Input) : String :=
  match packageDescriptor (lookup i.map) i.parent i.desc with
  | .ok d => renderOk d
  | .error (.missingPath id) => "err:missing:" ++ strHex id
  | .error (.invalidId _) => "err:id"

/-! ### the judge (Spec/PathDenote only) -/

/-- names the difference when a URI that had to be copied verbatim differs only by spelling (the verdict stays `fail`;
the tag lets `known_findings.json` identify exactly the class of finding C14-authority-empty-path) -/
def spellingTag (dep out : Str) : String :=
  open CnbVerif.Spec.PathDenote in
  if out = withSlashAfterAuthority dep then " [only: slash after authority]"
  else if out = withLowerScheme dep then " [only: scheme lower-cased]"
  else if out = withSlashAfterAuthority (withLowerScheme dep) then " [only: scheme lower-cased, slash after authority]"
  else ""

open CnbVerif.Spec.PathDenote in
def judgeDep (parent : Str) (mp : List (Str × Str)) (dep out : Str) : Option String :=
  match kindOf dep with
  | .libcnb id =>
    match lookup mp id with
    | some p => if out = p then none else some ("libcnb:" ++ String.ofList id ++ " became " ++ String.ofList out)
    | none => some ("libcnb:" ++ String.ofList id ++ " has no packaged location but the result is ok")
  | .other =>
    if out = dep then none
    else some (String.ofList dep ++ " was not copied verbatim: " ++ String.ofList out ++ spellingTag dep out)
  | .relative =>
    if !isAbsolute out then some (String.ofList dep ++ " became the non-absolute " ++ String.ofList out)
    else if !dotFree out then some (String.ofList dep ++ " became " ++ String.ofList out ++ " which is not dot-free")
    else if denote out != denoteFrom (denote parent) dep then
      some (String.ofList dep ++ " became " ++ String.ofList out ++ " which denotes another directory")
    else none

def judgeDeps (parent : Str) (mp : List (Str × Str)) : List Str → List Str → Option String
  | [], [] => none
  | d :: ds, o :: os =>
    match judgeDep parent mp d o with
    | some w => some w
    | none => judgeDeps parent mp ds os
  | _, _ => some "number of dependencies changed"

/-! ### known finding C14-root-colon-segment

uriparse 0.6 refuses a scheme-less reference whose text is `/` followed by a first segment holding a colon (`/c:/x`, `/:`; a colon
in a later segment, `/a/c:`, `/./c:`, is accepted) although RFC 3986 allows it (path-absolute = "/" [ segment-nz *( "/" segment ) ],
segment-nz may hold ":"). Every text of the descriptor goes through uriparse, so such a text makes `package_composite_buildpack`
fail, by three routes with the same root cause:

* `err:read` — the text is written in the original `package.toml` as an absolute dependency or as the buildpack URI;
* `err:uri-of-map-path` — it is the packaged location of a `libcnb:` reference (reached before any later reference is looked at);
* `err:uri-of-absolutized-path` — it is the absolute, dot-free path a relative dependency denotes (reached only when every
  `libcnb:` reference was replaced).

`expectedRefusal` says which of the three errors — if any — the case must end in when this is the only thing wrong with it; the
verdict names the deviation only when the implementation reports exactly that error. Computed from the case and Spec/PathDenote
only (not from the model). -/

/-- the text starts with `/` and its first segment holds a colon -/
def firstSegColon (s : Str) : Bool :=
  match s with
  | '/' :: rest => (rest.takeWhile (· != '/')).contains ':'
  | _ => false

open CnbVerif.Spec.PathDenote in
/-- the `libcnb:` references in order: `some (some e)` = the replacement stops with the refusal `e`; `some none` = it stops with another
error first (invalid id, missing location); `none` = every reference is replaced -/
def replaceStage (mp : List (Str × Str)) : List Str → Option (Option String)
  | [] => none
  | dep :: rest =>
    match kindOf dep with
    | .libcnb id =>
      if !idOk id then some none
      else match lookup mp id with
        | none => some none
        | some p => if firstSegColon p then some (some "err:uri-of-map-path") else replaceStage mp rest
    | _ => replaceStage mp rest

open CnbVerif.Spec.PathDenote in
def expectedRefusal (i : Input) : Option String :=
  if firstSegColon i.desc.buildpack || i.desc.deps.any firstSegColon then some "err:read"
  else match replaceStage i.map i.desc.deps with
    | some r => r
    | none =>
      let lands (dep : Str) : Bool :=
        match kindOf dep with
        | .relative => match denoteFrom (denote i.parent) dep with
          | first :: _ => first.contains ':'
          | [] => false
        | _ => false
      if i.desc.deps.any lands then some "err:uri-of-absolutized-path" else none

def rootColonVerdict : String := "fail:known-deviation:first-segment-with-colon-refused-by-uriparse"

open CnbVerif.Spec.PathDenote in
def verdict (i : Input) (obs : String) : String :=
  let refs := i.desc.deps.filterMap (fun d => match kindOf d with | .libcnb id => some id | _ => none)
  let invalid := refs.filter (fun id => !idOk id)
  let missing := refs.filter (fun id => idOk id && (lookup i.map id).isNone)
  match obs.splitOn ";" with
  | ["ok", bp, deps, os, rp] =>
    if !invalid.isEmpty then "fail:invalid id in a libcnb reference was not reported"
    else if !missing.isEmpty then "fail:libcnb reference without packaged location was not reported"
    else
      match hexStr bp, allSome ((splitList deps ",").map hexStr) with
      | some bp, some deps =>
        if bp != i.desc.buildpack then
          "fail:buildpack uri " ++ String.ofList i.desc.buildpack ++ " was not copied verbatim: " ++ String.ofList bp ++
            spellingTag i.desc.buildpack bp
        else if os.toList != i.desc.platform then "fail:platform changed"
        else if rp != "reparse=1" then "fail:result does not parse again"
        else match judgeDeps i.parent i.map i.desc.deps (deps.map expandRoot) with
          | none => "ok"
          | some w => "fail:" ++ w
      | _, _ => "fail:unparsable-observation"
  | [e] =>
    if e = "err:id" then (if invalid.isEmpty then "fail:error without an invalid id" else "ok")
    else if e.startsWith "err:missing:" then
      match hexStr (e.drop 12).toString with
      | some id => if missing.contains id then "ok" else "fail:reported id is not a referenced id without location"
      | none => "fail:unparsable-observation"
    else if expectedRefusal i = some e then rootColonVerdict
    else "fail:" ++ e
  | _ => "fail:unparsable-observation"

def handle (fields : List String) (obs : String) : String × String :=
  match parseInput fields with
  | none => ("bad-op", "bad-op")
  | some i => (model i, verdict i obs)

end CnbVerif.DriverC14
