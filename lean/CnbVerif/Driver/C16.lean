import CnbVerif.Driver.TestRunnerIO
import CnbVerif.Spec.Cleanup
/-!
Driver glue for C16. Model observation: how the scenario ends, the command log, the temp dirs left, as
`Model/TestRunner` predicts them under the injected fault. Spec verdict: the cleanup conditions of `Spec/Cleanup`
evaluated directly on the command log the *real* run produced (the model's evaluation is not consulted), for every
case inside the property's quantifier (at most one injected panic or command failure).
-/
namespace CnbVerif.DriverC16
open CnbVerif CnbVerif.Argv CnbVerif.TestRunner CnbVerif.TestRunnerIO

/-- panics the scenario itself contains: `panic` steps and look-ups of a port that is not exposed -/
def panicSources (c : Case) : Nat :=
  (c.chain.map (fun (_, acts) => (acts.map (fun a => match a with
    | .panic => 1
    | .startContainer cfg cas => (cas.map (fun ca => match ca with
      | .panic => 1
      | .port p => if cfg.exposedPorts.contains p then 0 else 1
      | _ => 0)).sum
    | _ => 0)).sum)).sum

/-- at most one injected panic or external-command failure -/
def inScope (c : Case) : Bool :=
  match c.inj with
  | .none => panicSources c ≤ 1
  | .failAt _ => panicSources c = 0
  | .packGone _ => panicSources c = 0
  | .dockerGone _ => false

def isDigits (w : Bytes) : Bool := !w.isEmpty && w.all Spec.Pflag.isDigit

/-- names the canonicaliser gave to run-generated identifiers: `$N<k>`, `$N<k>.build-cache`, `$N<k>.launch-cache` -/
def ownObs (w : Bytes) : Bool :=
  match w with
  | 36 :: 78 :: r =>
    let digits := r.takeWhile Spec.Pflag.isDigit
    let sfx := r.dropWhile Spec.Pflag.isDigit
    !digits.isEmpty && (sfx = [] || sfx = w!".build-cache" || sfx = w!".launch-cache")
  | _ => false

def verdict (c : Case) (o : Obs) : String :=
  if !inScope c then "ok"
  else if o.exit != "ok" && o.exit != "panic" then "fail:ended-by-" ++ o.exit
  else
    let log : List Cmd := o.log.map (fun (p, a) => ⟨p, a⟩)
    if !Spec.Cleanup.m1 log then "fail:M1-detached-container-not-force-removed"
    else if !Spec.Cleanup.m2 w!"$N1" log then "fail:M2-image-or-volumes-not-removed-exactly-once-after-last-use"
    else if !Spec.Cleanup.m3 ownObs [] log then "fail:M3-foreign-resource-removed"
    else if o.tmp != 0 then "fail:M4-temp-dir-left-behind"
    else if !o.fixtureSame then "fail:fixture-modified"
    else "ok"

def handle (fields : List String) (obs : String) : String × String :=
  match parseCase fields with
  | none => ("bad-op", "bad-op")
  | some c =>
    let model := renderRun c (run (oracleOf c.inj) c.scenario)
    match parseObs obs with
    | none => (model, "fail:unparsable-observation")
    | some o => (model, verdict c o)

end CnbVerif.DriverC16
