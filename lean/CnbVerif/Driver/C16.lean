import CnbVerif.Driver.TestRunnerIO
import CnbVerif.Spec.Cleanup
/-!
Driver glue for C16. Model observation: how the scenario ends, the command log, the temp dirs left, as
`Model/TestRunner` predicts them under the injected fault. Spec verdict: the cleanup conditions of `Spec/Cleanup`
evaluated directly on the command log the *real* run produced and on what it left in TMPDIR (the model's evaluation is
not consulted), whichever way the scenario process ended, for every case inside the property's quantifier (`inScope`).
-/
namespace CnbVerif.DriverC16
open CnbVerif CnbVerif.Argv CnbVerif.TestRunner CnbVerif.TestRunnerIO

/-- panics the scenario itself contains: `panic` steps and look-ups of a port that is not exposed -/
def panicSources (c : Case) : Nat :=
  (c.chain.map (fun (_, acts) => (acts.map (fun a => match a with
    | .panic => 1
    | .startContainer cfg cas => (cas.map (fun ca => match ca with
      | .panic => 1
      | .port p => if cfg.exposedPorts.contains p then 0 else 1
      | _ => 0)).sum
    | _ => 0)).sum)).sum

/-- the `k`-th (1-based) command the real run issued is a `docker rm` -/
def kthIsContainerRemoval (o : Obs) (k : Nat) : Bool :=
  match o.log[k - 1]? with
  | some (p, a) => (Spec.Cleanup.containerRemoval ⟨p, a⟩).isSome
  | none => false

/-- **Which cases the property is judged on.** The property quantifies over panics of the test closure / a container closure
at any point, containers failing to start, pack failing, and external-command failures: judged are
* every scenario with any panic steps in which **no `docker rm` is made to fail** — whatever else fails, how often and
  in which combination (fault scripts whose rules spare `docker rm`, pack missing, the k-th command failing when that
  command is not a `docker rm`): the faults are in the commands libcnb-test *uses*, the removals it must still issue;
* a failing `docker rm` as the *only* thing that goes wrong (no panic step, one injection).
Not judged (compared with the model only): a `docker rm` failing while something else already failed — the removal
command itself breaks during unwinding, `Drop` panics a second time and the process aborts (stated in
`Props/C16.double_fault_aborts`) — and `docker` missing from PATH altogether. -/
def inScope (c : Case) (o : Obs) : Bool :=
  match c.inj with
  | .none => true
  | .failAt k => panicSources c = 0 || !kthIsContainerRemoval o k
  | .packGone _ => true
  | .dockerGone _ => false
  | .script rules => rules.all FRule.sparesRm || (panicSources c = 0 && rules.length ≤ 1 &&
      rules.all (fun r => match r.sel with | .atIdx _ => true | _ => false))

def isDigits (w : Bytes) : Bool := !w.isEmpty && w.all Spec.Pflag.isDigit

/-- names the canonicaliser gave to run-generated identifiers: `$N<k>`, `$N<k>.build-cache`, `$N<k>.launch-cache` -/
def ownObs (w : Bytes) : Bool :=
  match w with
  | 36 :: 78 :: r =>
    let digits := r.takeWhile Spec.Pflag.isDigit
    let sfx := r.dropWhile Spec.Pflag.isDigit
    !digits.isEmpty && (sfx = [] || sfx = w!".build-cache" || sfx = w!".launch-cache")
  | _ => false

/-- The cleanup clauses are read off the command log of the stand-ins and the state of TMPDIR alone — however the scenario
process ended (normally, by panic, by `abort`, killed): a run that dies before it issued its removals fails M1/M2/M4 like
any other. How the process ended is only appended to the reason. -/
def verdict (c : Case) (o : Obs) : String :=
  if !inScope c o then "ok"
  else
    let log : List Cmd := o.log.map (fun (p, a) => ⟨p, a⟩)
    let why : Option String :=
      if !Spec.Cleanup.m1 log then some "M1-detached-container-not-force-removed"
      else if !Spec.Cleanup.m1x log then some "M1x-container-not-removed-exactly-once-after-last-use"
      else if !Spec.Cleanup.m2 w!"$N1" log then some "M2-image-or-volumes-not-removed-exactly-once-after-last-use"
      else if !Spec.Cleanup.m3 ownObs [] log then some "M3-foreign-resource-removed"
      else if o.tmp != 0 then some "M4-temp-dir-left-behind"
      else if !o.fixtureSame then some "fixture-modified"
      else none
    match why with
    | none => "ok"
    | some w => "fail:" ++ w ++ (if o.exit == "ok" || o.exit == "panic" then "" else ";process-ended-by-" ++ o.exit)

def handle (fields : List String) (obs : String) : String × String :=
  match parseCase fields with
  | none => ("bad-op", "bad-op")
  | some c =>
    let model := renderRun c (run (oracleOf c.inj) c.scenario)
    match parseObs obs with
    | none => (model, "fail:unparsable-observation")
    | some o => (model, verdict c o)

end CnbVerif.DriverC16
