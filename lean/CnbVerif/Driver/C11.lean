import CnbVerif.Spec.Frame
/-! Driver glue for C11: parse a tree and a request, run the model, render result + snapshots; judge the
implementation's two snapshots with `Spec.Frame.judgeOutcome`.

The request field names the API and what the buildpack's callbacks do: `U` `C` `T` (every callback succeeds and decides
to delete), `Cd` `Td` (the deciding callback returns `Err`), `Tc` (`Layer::create` returns `Err`). Results: `ok:new`,
`ok:recreated`, `err:read|delete|write`, `err:decide` (the deciding callback's error came back: nothing was deleted),
`err:create` (`create`'s error, no layer had been deleted), `err:recreate` (`create`'s error after the existing layer
had been deleted).

Hard links: the tree entry `H:<path>:<target path>` makes `<path>` another name of the regular file `F:<target path>:…`
(which must be an `F` entry of the same tree); that file and all the `H` entries naming it become `Node.hard i mode
content` with `i` the position of the `F` entry. A snapshot line of a regular file whose link count is not 1 carries it
as a fifth field `n<count>`; the model renders the number of names its state holds for the inode. The link count is
compared between model and implementation, it is not part of the node the specification compares. -/
namespace CnbVerif.DriverC11
open CnbVerif CnbVerif.RmTree

def parsePath (s : String) : Option Path :=
  if s = "" then none else allSome ((s.splitOn "/").map hexDecode)

def parseOct (s : String) : Option Nat :=
  if s = "" then none else
  s.toList.foldl (fun acc c => match acc with
    | none => none
    | some n => if '0' ≤ c ∧ c ≤ '7' then some (n * 8 + (c.toNat - 48)) else none) (some 0)

def parseHexOrDash (s : String) : Option Bytes := if s = "-" then some [] else hexDecode s

def parseDec (s : String) : Option Nat :=
  if s = "" then none else
  s.toList.foldl (fun acc c => match acc with
    | none => none
    | some n => if '0' ≤ c ∧ c ≤ '9' then some (n * 10 + (c.toNat - 48)) else none) (some 0)

/-- the link count field of a snapshot line: `n<decimal>` -/
def parseNlink (s : String) : Option Nat :=
  match s.toList with
  | 'n' :: ds => parseDec (String.ofList ds)
  | _ => none

def parseEntry (sep : String) (s : String) : Option (Path × Node) :=
  match s.splitOn sep with
  | ["D", p, m] => match parsePath p, parseOct m with
    | some p, some m => some (p, .dir m)
    | _, _ => none
  | ["F", p, m, c] => match parsePath p, parseOct m, parseHexOrDash c with
    | some p, some m, some c => some (p, .file m c)
    | _, _, _ => none
  | ["F", p, m, c, nl] => match parsePath p, parseOct m, parseHexOrDash c, parseNlink nl with
    | some p, some m, some c, some _ => some (p, .file m c)   -- a snapshot line with its link count
    | _, _, _, _ => none
  | ["L", p, t] => match parsePath p, hexDecode t with
    | some p, some t => if t = [] then none else some (p, .link t)
    | _, _ => none
  | _ => none

def parseTree (sep : String) (s : String) (entrySep : String) : Option FS :=
  allSome ((splitList s entrySep).map (parseEntry sep))

/-- an entry of the input tree: a node, or a further name (hard link) of a regular file entered elsewhere in the tree -/
inductive Raw
  | node (p : Path) (v : Node)
  | hl (p : Path) (target : Path)

def parseRaw (s : String) : Option Raw :=
  match s.splitOn ":" with
  | ["H", p, t] => match parsePath p, parsePath t with
    | some p, some t => some (.hl p t)
    | _, _ => none
  | ["F", _, _, _, _] => none   -- link counts belong to snapshots, not to input trees
  | _ => (parseEntry ":" s).map (fun kv => .node kv.1 kv.2)

/-- position, mode and content of the `F` entry at path `t` -/
def findFile (t : Path) : List Raw → Nat → Option (Nat × Nat × Bytes)
  | [], _ => none
  | .node p (.file m c) :: r, i => if p = t then some (i, m, c) else findFile t r (i + 1)
  | _ :: r, i => findFile t r (i + 1)

def isTarget (t : Path) (raws : List Raw) : Bool :=
  raws.any (fun r => match r with | .hl _ t' => decide (t' = t) | _ => false)

/-- entries → state: a file that is the target of an `H` entry, and every `H` entry naming it, are names of one inode -/
def resolveRaws (all : List Raw) : List Raw → Nat → Option FS
  | [], _ => some []
  | .node p (.file m c) :: r, i =>
    (resolveRaws all r (i + 1)).map (fun fs => (p, if isTarget p all then Node.hard i m c else .file m c) :: fs)
  | .node p v :: r, i => (resolveRaws all r (i + 1)).map (fun fs => (p, v) :: fs)
  | .hl p t :: r, i =>
    match findFile t all 0 with
    | none => none
    | some (j, m, c) => (resolveRaws all r (i + 1)).map (fun fs => (p, Node.hard j m c) :: fs)

def parseInputTree (s : String) : Option FS :=
  match allSome ((splitList s ";").map parseRaw) with
  | none => none
  | some raws => resolveRaws raws raws 0

def nodupKeys : FS → Bool
  | [] => true
  | (k, _) :: r => (fget r k).isNone && nodupKeys r

/-- what the harness can build: distinct non-empty paths, every parent a recorded directory, no empty component -/
def buildable (fs : FS) : Bool :=
  nodupKeys fs && wfB fs && fs.all (fun kv => !kv.1.isEmpty && kv.1.all (fun c => !c.isEmpty))

def toOct (n : Nat) : String := String.ofList (Nat.toDigits 8 n)

def renderPath (p : Path) : String := String.intercalate "/" (p.map hexEncode)

def pathLt : Path → Path → Bool
  | [], [] => false
  | [], _ :: _ => true
  | _ :: _, [] => false
  | a :: as, b :: bs => if bytesLt a b then true else if bytesLt b a then false else pathLt as bs

/-- number of names the state holds for inode `i` -/
def nlinkOf (fs : FS) (i : Nat) : Nat :=
  (fs.filter (fun kv => match kv.2 with | .hard j _ _ => decide (j = i) | _ => false)).length

def renderNode (fs : FS) (p : Path) : Node → String
  | .dir m => "D " ++ renderPath p ++ " " ++ toOct m
  | .file m c => "F " ++ renderPath p ++ " " ++ toOct m ++ " " ++ (if c = [] then "-" else hexEncode c)
  | .link t => "L " ++ renderPath p ++ " " ++ hexEncode t
  | .hard i m c => "F " ++ renderPath p ++ " " ++ toOct m ++ " " ++ (if c = [] then "-" else hexEncode c) ++
      (if nlinkOf fs i = 1 then "" else " n" ++ toString (nlinkOf fs i))

def renderSnap (fs : FS) : String :=
  joinWith "|" ((sortBy (fun a b => pathLt a.1 b.1) fs).map (fun kv => renderNode fs kv.1 kv.2))

def parseApi (s : String) : Option (Api × Bp) :=
  if s = "U" then some (.uncached, .ok) else if s = "C" then some (.cached, .ok) else if s = "T" then some (.handle, .ok)
  else if s = "Cd" then some (.cached, .decideErr) else if s = "Td" then some (.handle, .decideErr)
  else if s = "Tc" then some (.handle, .createErr) else none

def renderStage : Stage → String
  | .read => "read" | .delete => "delete" | .write => "write"
  | .decide => "decide" | .create => "create" | .recreate => "recreate"

def renderRes : Except (Stage × Err) Bool → String
  | .ok true => "ok:recreated"
  | .ok false => "ok:new"
  | .error (st, _) => "err:" ++ renderStage st

def judge (api : Api) (n : Name) (obs : String) : String :=
  match obs.splitOn "@" with
  | [res, before, after] =>
    match parseTree " " before "|", parseTree " " after "|" with
    | some b, some a =>
      let known := res = "ok:recreated" ∨ res = "ok:new" ∨ res = "err:read" ∨ res = "err:delete" ∨ res = "err:write" ∨
        res = "err:decide" ∨ res = "err:create" ∨ res = "err:recreate"
      if ¬ known then "fail:unexpected result " ++ res else
      let o : Spec.Frame.Outcome :=
        if res = "ok:recreated" then .recreated else if res = "err:recreate" then .failedCreate
        else if res = "err:decide" then .failedDecide else .other
      match Spec.Frame.frameBreach n b a with
      | some p => "fail:frame: " ++ renderPath p ++ " is outside the layer and changed"
      | none =>
        if res = "ok:recreated" && !Spec.Frame.recreatedB n (Spec.Frame.freshDoc api) a then
          "fail:recreated: the request succeeded but old entries of the layer remain (or no fresh layer)"
        else if res = "err:recreate" && !Spec.Frame.oldGoneB n b a then
          "fail:old-entries: the layer was deleted, then create failed, but entries of the old layer are still there"
        else if res = "err:decide" && !Spec.Frame.intactB n b a then
          "fail:not-intact: the deciding callback failed before any deletion, but entries of the layer are gone or changed"
        else if Spec.Frame.judgeOutcome n (Spec.Frame.freshDoc api) o b a then "ok"
        else "fail:spec"
    | _, _ => "fail:unparsable snapshot"
  | _ => "fail:unparsable observation"

def handle (fields : List String) (obs : String) : String × String :=
  match fields with
  | [apiS, uidS, nameS, treeS] =>
    match parseApi apiS, (if uidS = "root" then some true else if uidS = "user" then some false else none),
        hexDecode nameS, parseInputTree treeS with
    | some (api, bp), some root, some n, some fs =>
      if n = [] ∨ !buildable fs then ("bad-op", "bad-op") else
      let r := request root api bp fs n
      (renderRes r.1 ++ "@" ++ renderSnap fs ++ "@" ++ renderSnap r.2, judge api n obs)
    | _, _, _, _ => ("bad-op", "bad-op")
  | _ => ("bad-op", "bad-op")

end CnbVerif.DriverC11
