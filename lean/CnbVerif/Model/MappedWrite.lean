import CnbVerif.Base.Proto
/-!
# Model A of C19 — `libherokubuildpack/src/write.rs`

`MappedWrite` (built by `mapped` / `line_mapped`) and `TeeWrite` (built by `tee`), in the code's own order:

* `MappedWrite::write(buf)`: `for byte in buf { buffer.push(byte); if byte == marker { inner.write_all(f(take(buffer))) } }`
  and the whole chunk is reported as consumed (`Ok(buf.len())`).
* drop / `unwrap`: the remainder is flushed through `f` **only when it is non-empty** — this is the code *after the minimal
  fix of D5* (the unfixed code calls `map_and_write_current_buffer` unconditionally and so emits `f([])`; kept here as
  `finishUnfixed`, used only by the counterexample in `Props/C19.lean`).
* `TeeWrite::write(buf)`: `inner_a.write_all(buf)?; inner_b.write_all(buf)?; Ok(buf.len())`.

Core Lean only. The inner writer is modelled by the byte string it has received (`out`).
-/
namespace CnbVerif.MW

/-- state of a `MappedWrite`: the pending `buffer` and what the inner writer has received so far -/
structure St where
  buf : Bytes
  out : Bytes
deriving DecidableEq, Repr

def St.init : St := ⟨[], []⟩

/-- one iteration of the `for byte in buf` loop -/
def stepByte (m : Nat) (f : Bytes → Bytes) (s : St) (b : Nat) : St :=
  let buf := s.buf ++ [b]
  if b = m then { buf := [], out := s.out ++ f buf } else { s with buf := buf }

/-- `MappedWrite::write` for one chunk -/
def write (m : Nat) (f : Bytes → Bytes) (s : St) (chunk : Bytes) : St :=
  chunk.foldl (stepByte m f) s

/-- number of bytes `write` reports as consumed -/
def writeRet (chunk : Bytes) : Nat := chunk.length

/-- drop / `unwrap` (after the D5 fix): flush the remainder only when it is non-empty; result = what the inner writer holds -/
def finish (f : Bytes → Bytes) (s : St) : Bytes :=
  if s.buf.isEmpty then s.out else s.out ++ f s.buf

/-- drop / `unwrap` as in the unfixed code: `f` is applied to the remainder even when it is empty (D5) -/
def finishUnfixed (f : Bytes → Bytes) (s : St) : Bytes := s.out ++ f s.buf

/-- a whole life of a mapped writer: create, one `write` per chunk, drop/unwrap -/
def run (m : Nat) (f : Bytes → Bytes) (chunks : List Bytes) : Bytes :=
  finish f (chunks.foldl (write m f) St.init)

def runUnfixed (m : Nat) (f : Bytes → Bytes) (chunks : List Bytes) : Bytes :=
  finishUnfixed f (chunks.foldl (write m f) St.init)

/-- `mappers::add_prefix` -/
def addPrefix (p : Bytes) : Bytes → Bytes := fun seg => p ++ seg

/-- state of a `TeeWrite`: what each of the two targets has received -/
structure Tee where
  a : Bytes
  b : Bytes
deriving DecidableEq, Repr

def Tee.init : Tee := ⟨[], []⟩

/-- `TeeWrite::write` -/
def teeWrite (t : Tee) (chunk : Bytes) : Tee := { a := t.a ++ chunk, b := t.b ++ chunk }

def teeRun (chunks : List Bytes) : Tee := chunks.foldl teeWrite Tee.init

/-! ## targets that may accept only a prefix (short writes)

A target `io::Write` is its content plus a *behaviour script*: one entry per `write` call it will receive — `0` = the call
fails with `ErrorKind::Interrupted` (which `write_all` retries), `k + 1` = the call accepts at most `k + 1` bytes of what it
is offered (never `Ok(0)` for a non-empty buffer: that is an error). An exhausted script accepts everything. `TeeWrite` and
`MappedWrite` hand bytes to their targets with `write_all`. -/

/-- `io::Write::write_all` against a scripted target: returns the target's content and the rest of its script -/
def writeAll : List Nat → Bytes → Bytes → Bytes × List Nat
  | script, got, [] => (got, script)
  | [], got, buf => (got ++ buf, [])
  | 0 :: rest, got, b :: bs => writeAll rest got (b :: bs)
  | (k + 1) :: rest, got, b :: bs => writeAll rest (got ++ (b :: bs).take (k + 1)) ((b :: bs).drop (k + 1))

/-- a `TeeWrite` over two scripted targets -/
structure TeeS where
  a : Bytes
  b : Bytes
  sa : List Nat
  sb : List Nat
deriving DecidableEq, Repr

/-- `TeeWrite::write`: `inner_a.write_all(buf)?; inner_b.write_all(buf)?; Ok(buf.len())` -/
def teeWriteS (t : TeeS) (chunk : Bytes) : TeeS :=
  let ra := writeAll t.sa t.a chunk
  let rb := writeAll t.sb t.b chunk
  ⟨ra.1, rb.1, ra.2, rb.2⟩

def teeRunS (sa sb : List Nat) (chunks : List Bytes) : TeeS := chunks.foldl teeWriteS ⟨[], [], sa, sb⟩

/-- a `MappedWrite` over a scripted inner writer -/
structure StS where
  buf : Bytes
  out : Bytes
  script : List Nat
deriving DecidableEq, Repr

def stepByteS (m : Nat) (f : Bytes → Bytes) (s : StS) (b : Nat) : StS :=
  if b = m then
    let r := writeAll s.script s.out (f (s.buf ++ [b]))
    { buf := [], out := r.1, script := r.2 }
  else { s with buf := s.buf ++ [b] }

def writeS (m : Nat) (f : Bytes → Bytes) (s : StS) (chunk : Bytes) : StS := chunk.foldl (stepByteS m f) s

def finishS (f : Bytes → Bytes) (s : StS) : Bytes :=
  if s.buf.isEmpty then s.out else (writeAll s.script s.out (f s.buf)).1

def runS (m : Nat) (f : Bytes → Bytes) (script : List Nat) (chunks : List Bytes) : Bytes :=
  finishS f (chunks.foldl (writeS m f) ⟨[], [], script⟩)

end CnbVerif.MW
