import CnbVerif.Base.Proto
/-!
# Model A of C19 — `libherokubuildpack/src/write.rs`

`MappedWrite` (built by `mapped` / `line_mapped`) and `TeeWrite` (built by `tee`), in the code's own order:

* `MappedWrite::write(buf)`: `for byte in buf { buffer.push(byte); if byte == marker { inner.write_all(f(take(buffer))) } }`
  and the whole chunk is reported as consumed (`Ok(buf.len())`).
* drop / `unwrap`: the remainder is flushed through `f` **only when it is non-empty** — this is the code *after the minimal
  fix of D5* (the unfixed code calls `map_and_write_current_buffer` unconditionally and so emits `f([])`; kept here as
  `finishUnfixed`, used only by the counterexample in `Props/C19.lean`).
* `TeeWrite::write(buf)`: `inner_a.write_all(buf)?; inner_b.write_all(buf)?; Ok(buf.len())`.

Core Lean only. The inner writer is modelled by the byte string it has received (`out`).
-/
namespace CnbVerif.MW

/-- state of a `MappedWrite`: the pending `buffer` and what the inner writer has received so far -/
structure St where
  buf : Bytes
  out : Bytes
deriving DecidableEq, Repr

def St.init : St := ⟨[], []⟩

/-- one iteration of the `for byte in buf` loop -/
def stepByte (m : Nat) (f : Bytes → Bytes) (s : St) (b : Nat) : St :=
  let buf := s.buf ++ [b]
  if b = m then { buf := [], out := s.out ++ f buf } else { s with buf := buf }

/-- `MappedWrite::write` for one chunk -/
def write (m : Nat) (f : Bytes → Bytes) (s : St) (chunk : Bytes) : St :=
  chunk.foldl (stepByte m f) s

/-- number of bytes `write` reports as consumed -/
def writeRet (chunk : Bytes) : Nat := chunk.length

/-- drop / `unwrap` (after the D5 fix): flush the remainder only when it is non-empty; result = what the inner writer holds -/
def finish (f : Bytes → Bytes) (s : St) : Bytes :=
  if s.buf.isEmpty then s.out else s.out ++ f s.buf

/-- drop / `unwrap` as in the unfixed code: `f` is applied to the remainder even when it is empty (D5) -/
def finishUnfixed (f : Bytes → Bytes) (s : St) : Bytes := s.out ++ f s.buf

/-- a whole life of a mapped writer: create, one `write` per chunk, drop/unwrap -/
def run (m : Nat) (f : Bytes → Bytes) (chunks : List Bytes) : Bytes :=
  finish f (chunks.foldl (write m f) St.init)

def runUnfixed (m : Nat) (f : Bytes → Bytes) (chunks : List Bytes) : Bytes :=
  finishUnfixed f (chunks.foldl (write m f) St.init)

/-- `mappers::add_prefix` -/
def addPrefix (p : Bytes) : Bytes → Bytes := fun seg => p ++ seg

/-- state of a `TeeWrite`: what each of the two targets has received -/
structure Tee where
  a : Bytes
  b : Bytes
deriving DecidableEq, Repr

def Tee.init : Tee := ⟨[], []⟩

/-- `TeeWrite::write` -/
def teeWrite (t : Tee) (chunk : Bytes) : Tee := { a := t.a ++ chunk, b := t.b ++ chunk }

def teeRun (chunks : List Bytes) : Tee := chunks.foldl teeWrite Tee.init

end CnbVerif.MW
