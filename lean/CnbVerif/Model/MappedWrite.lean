import CnbVerif.Base.Proto
/-!
# Model A of C19 — `libherokubuildpack/src/write.rs`

`MappedWrite` (built by `mapped` / `line_mapped`) and `TeeWrite` (built by `tee`), in the code's own order:

* `MappedWrite::write(buf)`: `for byte in buf { buffer.push(byte); if byte == marker { inner.write_all(f(take(buffer))) } }`
  and the whole chunk is reported as consumed (`Ok(buf.len())`).
* drop / `unwrap`: the remainder is flushed through `f` **only when it is non-empty** — this is the code *after the minimal
  fix of D5* (the unfixed code calls `map_and_write_current_buffer` unconditionally and so emits `f([])`; kept here as
  `finishUnfixed`, used only by the counterexample in `Props/C19.lean`).
* `TeeWrite::write(buf)`: `inner_a.write_all(buf)?; inner_b.write_all(buf)?; Ok(buf.len())`.

Core Lean only. The inner writer is modelled by the byte string it has received (`out`).
-/
namespace CnbVerif.MW

/-- state of a `MappedWrite`: the pending `buffer` and what the inner writer has received so far -/
structure St where
  buf : Bytes
  out : Bytes
deriving DecidableEq, Repr

def St.init : St := ⟨[], []⟩

/-- one iteration of the `for byte in buf` loop -/
def stepByte (m : Nat) (f : Bytes → Bytes) (s : St) (b : Nat) : St :=
  let buf := s.buf ++ [b]
  if b = m then { buf := [], out := s.out ++ f buf } else { s with buf := buf }

/-- `MappedWrite::write` for one chunk -/
def write (m : Nat) (f : Bytes → Bytes) (s : St) (chunk : Bytes) : St :=
  chunk.foldl (stepByte m f) s

/-- number of bytes `write` reports as consumed -/
def writeRet (chunk : Bytes) : Nat := chunk.length

/-- drop / `unwrap` (after the D5 fix): flush the remainder only when it is non-empty; result = what the inner writer holds -/
def finish (f : Bytes → Bytes) (s : St) : Bytes :=
  if s.buf.isEmpty then s.out else s.out ++ f s.buf

/-- drop / `unwrap` as in the unfixed code: `f` is applied to the remainder even when it is empty (D5) -/
def finishUnfixed (f : Bytes → Bytes) (s : St) : Bytes := s.out ++ f s.buf

/-- a whole life of a mapped writer: create, one `write` per chunk, drop/unwrap -/
def run (m : Nat) (f : Bytes → Bytes) (chunks : List Bytes) : Bytes :=
  finish f (chunks.foldl (write m f) St.init)

def runUnfixed (m : Nat) (f : Bytes → Bytes) (chunks : List Bytes) : Bytes :=
  finishUnfixed f (chunks.foldl (write m f) St.init)

/-- `mappers::add_prefix` -/
def addPrefix (p : Bytes) : Bytes → Bytes := fun seg => p ++ seg

/-- state of a `TeeWrite`: what each of the two targets has received -/
structure Tee where
  a : Bytes
  b : Bytes
deriving DecidableEq, Repr

def Tee.init : Tee := ⟨[], []⟩

/-- `TeeWrite::write` -/
def teeWrite (t : Tee) (chunk : Bytes) : Tee := { a := t.a ++ chunk, b := t.b ++ chunk }

def teeRun (chunks : List Bytes) : Tee := chunks.foldl teeWrite Tee.init

/-! ## targets that may accept only a prefix (short writes)

A target `io::Write` is its content plus a *behaviour script*: one entry per `write` call it will receive — `0` = the call
fails with `ErrorKind::Interrupted` (which `write_all` retries), `k + 1` = the call accepts at most `k + 1` bytes of what it
is offered (never `Ok(0)` for a non-empty buffer: that is an error). An exhausted script accepts everything. `TeeWrite` and
`MappedWrite` hand bytes to their targets with `write_all`. -/

/-- `io::Write::write_all` against a scripted target: returns the target's content and the rest of its script -/
def writeAll : List Nat → Bytes → Bytes → Bytes × List Nat
  | script, got, [] => (got, script)
  | [], got, buf => (got ++ buf, [])
  | 0 :: rest, got, b :: bs => writeAll rest got (b :: bs)
  | (k + 1) :: rest, got, b :: bs => writeAll rest (got ++ (b :: bs).take (k + 1)) ((b :: bs).drop (k + 1))

/-- a `TeeWrite` over two scripted targets -/
structure TeeS where
  a : Bytes
  b : Bytes
  sa : List Nat
  sb : List Nat
deriving DecidableEq, Repr

/-- `TeeWrite::write`: `inner_a.write_all(buf)?; inner_b.write_all(buf)?; Ok(buf.len())` -/
def teeWriteS (t : TeeS) (chunk : Bytes) : TeeS :=
  let ra := writeAll t.sa t.a chunk
  let rb := writeAll t.sb t.b chunk
  ⟨ra.1, rb.1, ra.2, rb.2⟩

def teeRunS (sa sb : List Nat) (chunks : List Bytes) : TeeS := chunks.foldl teeWriteS ⟨[], [], sa, sb⟩

/-- a `MappedWrite` over a scripted inner writer -/
structure StS where
  buf : Bytes
  out : Bytes
  script : List Nat
deriving DecidableEq, Repr

def stepByteS (m : Nat) (f : Bytes → Bytes) (s : StS) (b : Nat) : StS :=
  if b = m then
    let r := writeAll s.script s.out (f (s.buf ++ [b]))
    { buf := [], out := r.1, script := r.2 }
  else { s with buf := s.buf ++ [b] }

def writeS (m : Nat) (f : Bytes → Bytes) (s : StS) (chunk : Bytes) : StS := chunk.foldl (stepByteS m f) s

def finishS (f : Bytes → Bytes) (s : StS) : Bytes :=
  if s.buf.isEmpty then s.out else (writeAll s.script s.out (f s.buf)).1

def runS (m : Nat) (f : Bytes → Bytes) (script : List Nat) (chunks : List Bytes) : Bytes :=
  finishS f (chunks.foldl (writeS m f) ⟨[], [], script⟩)

/-! ## `flush` in the op alphabet; writers as call transducers

A call on an `io::Write` is `some bytes` (= `write_all(bytes)`; for `MappedWrite` and `TeeWrite`, whose `write` always
takes the whole buffer, the same as one `write(bytes)`) or `none` (= `flush()`). A writer that wraps other writers is
modelled by **the calls it makes on them**, in order, so that compositions (`tee` into `mapped`, `mapped` into `tee`,
`mapped` of `mapped`) are compositions of these functions, and a target at the bottom (a `Vec`, a short-writing
scripted writer) is described by the calls it has received.

* `MappedWrite::flush`: `match self.inner { Some(ref mut inner) => inner.flush(), None => Ok(()) }` — the pending
  `buffer` is **kept** (nothing is mapped, nothing is handed to the inner writer), the flush is forwarded.
* `TeeWrite::flush`: `self.inner_a.flush()?; self.inner_b.flush()` — forwarded to both.
* drop order of `mapped(inner, ..)`: `Drop for MappedWrite` hands the non-empty remainder to `inner`, then the field
  `inner` is dropped (so an inner `MappedWrite` emits its own remainder after that). -/

/-- a `MappedWrite` seen from outside: its pending buffer and the calls it has made on its inner writer -/
structure StT where
  buf : Bytes
  calls : List (Option Bytes)
deriving DecidableEq, Repr

def stepByteT (m : Nat) (f : Bytes → Bytes) (s : StT) (b : Nat) : StT :=
  if b = m then { buf := [], calls := s.calls ++ [some (f (s.buf ++ [b]))] } else { s with buf := s.buf ++ [b] }

/-- one call on a `MappedWrite`: `write(chunk)` or `flush()` -/
def callT (m : Nat) (f : Bytes → Bytes) (s : StT) : Option Bytes → StT
  | some chunk => chunk.foldl (stepByteT m f) s
  | none => { s with calls := s.calls ++ [none] }

/-- drop / `unwrap`: the remainder goes to the inner writer only when it is non-empty -/
def dropT (f : Bytes → Bytes) (s : StT) : List (Option Bytes) :=
  if s.buf.isEmpty then s.calls else s.calls ++ [some (f s.buf)]

/-- every call the inner writer of `mapped(inner, m, f)` receives while the mapped writer is given `ops` and then
dropped / unwrapped -/
def mappedCalls (m : Nat) (f : Bytes → Bytes) (ops : List (Option Bytes)) : List (Option Bytes) :=
  dropT f (ops.foldl (callT m f) ⟨[], []⟩)

/-- the calls the two targets of `tee(a, b)` receive: `write(chunk)` = `a.write_all(chunk); b.write_all(chunk)`,
`flush()` = `a.flush(); b.flush()` — each target sees the tee's own call sequence -/
def teeCalls (ops : List (Option Bytes)) : List (Option Bytes) × List (Option Bytes) := (ops, ops)

/-- what a `Vec<u8>` holds after these calls -/
def sinkContent : List (Option Bytes) → Bytes
  | [] => []
  | some bytes :: rest => bytes ++ sinkContent rest
  | none :: rest => sinkContent rest

/-- how many `flush()` calls a target has received -/
def sinkFlushes : List (Option Bytes) → Nat
  | [] => 0
  | some _ :: rest => sinkFlushes rest
  | none :: rest => sinkFlushes rest + 1

/-- what a scripted (short-writing / interrupted) target holds after these calls; its `flush` is `Ok(())` and does not
consume a script entry -/
def sinkRunS : List Nat → Bytes → List (Option Bytes) → Bytes
  | _, got, [] => got
  | script, got, some bytes :: rest => sinkRunS (writeAll script got bytes).2 (writeAll script got bytes).1 rest
  | script, got, none :: rest => sinkRunS script got rest

/-- **Not the code**: a `flush` that first maps and emits the pending (not yet marker-terminated) buffer, then forwards
the flush. Used only by the counterexample `C19.emitting_flush_violates_spec` (the statement about flushes discriminates). -/
def callTEmitting (m : Nat) (f : Bytes → Bytes) (s : StT) : Option Bytes → StT
  | some chunk => chunk.foldl (stepByteT m f) s
  | none => { buf := [], calls := dropT f s ++ [none] }

def mappedCallsEmitting (m : Nat) (f : Bytes → Bytes) (ops : List (Option Bytes)) : List (Option Bytes) :=
  dropT f (ops.foldl (callTEmitting m f) ⟨[], []⟩)

end CnbVerif.MW
