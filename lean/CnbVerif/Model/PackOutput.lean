import CnbVerif.Model.TestRunner
/-!
Model of what `TestRunner::build_internal` does with the **result** of its `pack build` (C17): `util::run_command`
(`Command::output`, `String::from_utf8_lossy` on both streams, `status.success()`), the four-way `match` on
`(expected_pack_result, pack_result)`, the `Display` impls of `LogOutput` / `CommandError` that make up the panic
messages, and the `TestContext { pack_stdout, pack_stderr, .. }` handed to the closure.

The result of an external command — exit status, stdout bytes, stderr bytes — is an **input** of this model
(`ToolOutput`, given per invocation by a `Script`). The scenario model `Model/TestRunner.lean` sees of it only whether
the status was zero (`scriptOracle`): which commands are issued, and with which argv, is decided there and nowhere looks
at the text a tool printed. This file adds what the text is used for: it is handed to the test.

Core Lean only.
-/
namespace CnbVerif.PackOutput
open CnbVerif CnbVerif.Argv CnbVerif.TestRunner

/-- what the operating system reports of one finished `pack` / `docker` process -/
structure ToolOutput where
  exit : Nat
  stdout : Bytes
  stderr : Bytes
deriving Repr

/-! ### `String::from_utf8_lossy` (std's `Utf8Chunks`: every maximal ill-formed prefix of a sequence becomes one U+FFFD) -/

def inR (lo hi b : Nat) : Bool := lo ≤ b && b ≤ hi
def isCont (b : Nat) : Bool := inR 128 191 b

/-- `Utf8Chunks::next` at lead byte `b` followed by `r`: how many bytes the step consumes, and whether they are a
well-formed sequence (otherwise they are the invalid part of the chunk) -/
def chunkStep (b : Nat) (r : List Nat) : Nat × Bool :=
  if b < 128 then (1, true)
  else if inR 194 223 b then
    match r with
    | c :: _ => if isCont c then (2, true) else (1, false)
    | [] => (1, false)
  else if inR 224 239 b then
    match r with
    | c :: r2 =>
      if (b == 224 && inR 160 191 c) || (inR 225 236 b && inR 128 191 c) || (b == 237 && inR 128 159 c)
          || (inR 238 239 b && inR 128 191 c) then
        match r2 with
        | d :: _ => if isCont d then (3, true) else (2, false)
        | [] => (2, false)
      else (1, false)
    | [] => (1, false)
  else if inR 240 244 b then
    match r with
    | c :: r2 =>
      if (b == 240 && inR 144 191 c) || (inR 241 243 b && inR 128 191 c) || (b == 244 && inR 128 143 c) then
        match r2 with
        | d :: r3 =>
          if isCont d then
            match r3 with
            | e :: _ => if isCont e then (4, true) else (3, false)
            | [] => (3, false)
          else (2, false)
        | [] => (2, false)
      else (1, false)
    | [] => (1, false)
  else (1, false)

def replacement : Bytes := [239, 191, 189]

def lossyFuel : Nat → List Nat → List Nat
  | 0, _ => []
  | _, [] => []
  | f + 1, b :: r =>
    (if (chunkStep b r).2 then (b :: r).take (chunkStep b r).1 else replacement)
      ++ lossyFuel f ((b :: r).drop (chunkStep b r).1)

def fromUtf8Lossy (s : Bytes) : Bytes := lossyFuel s.length s

/-! ### `util::run_command` and the `Display` impls -/

/-- `LogOutput` -/
structure LogOutput where
  stdout : Bytes
  stderr : Bytes
deriving Repr

/-- `CommandError` (the `Io` variant — a spawn error other than "not found" — is not modelled) -/
inductive CommandError
  | notFound (program : Bytes)
  | nonZero (program : Bytes) (exitCode : Nat) (log : LogOutput)
deriving Repr

/-- `impl Display for LogOutput` -/
def LogOutput.display (o : LogOutput) : Bytes :=
  w!"## stderr:\n\n" ++ o.stderr ++ w!"\n## stdout:\n\n" ++ o.stdout ++ w!"\n"

/-- `impl Display for CommandError` -/
def CommandError.display : CommandError → Bytes
  | .notFound p => w!"Couldn't find external program `" ++ p ++ w!"`. Ensure it is installed and on PATH."
  | .nonZero p c o => p ++ w!" command failed with exit code " ++ natToDec c ++ w!"!\n\n" ++ o.display

/-- `util::run_command` once the process has finished: both streams decoded lossily, `Ok` iff the status is zero -/
def runCommand (program : Bytes) (t : ToolOutput) : Except CommandError LogOutput :=
  let log : LogOutput := ⟨fromUtf8Lossy t.stdout, fromUtf8Lossy t.stderr⟩
  if t.exit = 0 then .ok log else .error (.nonZero program t.exit log)

/-- what a `build` / `rebuild` call gives the test: a `TestContext` with these two texts, or a panic with this message -/
inductive Handed
  | context (packStdout packStderr : Bytes)
  | panic (msg : Bytes)
  | unknown
deriving Repr, DecidableEq

/-- the `match (&config.expected_pack_result, pack_result)` of `build_internal`, in the code's order of arms -/
def handOver (expectSuccess : Bool) (r : Except CommandError LogOutput) : Handed :=
  match expectSuccess, r with
  | true, .ok o => .context o.stdout o.stderr
  | false, .error (.nonZero _ _ o) => .context o.stdout o.stderr
  | false, .ok o => .panic (w!"The pack build was expected to fail, but did not:\n\n" ++ o.display)
  | _, .error e => .panic (w!"Error performing pack build:\n\n" ++ e.display)

/-! ### scripts: the results of the external commands as input of a scenario -/

/-- the result of the `n`-th invocation (0-based) of a program, for the invocations listed -/
abbrev Script := List (Prog × Nat × ToolOutput)

def Script.find (s : Script) (p : Prog) (n : Nat) : Option ToolOutput :=
  (List.find? (fun e => e.1 == p && e.2.1 == n) s).map (·.2.2)

/-- all the scenario model gets to see of a result -/
def statusOf (t : ToolOutput) : Res := if t.exit = 0 then .ok else .nonzero

/-- the oracle of `Model/TestRunner` for a script: scripted invocations end as scripted, the others as `fallback` says -/
def scriptOracle (s : Script) (fallback : Oracle) : Oracle :=
  fun i c n => match s.find c.prog n with
    | some t => some (statusOf t)
    | none => fallback i c n

/-- the `pack build` entries of a log, each with its position among the `pack` invocations (counted from `n`) -/
def packBuildsIn : List Entry → Nat → List (Nat × Entry)
  | [], _ => []
  | e :: r, n =>
    match e.cmd with
    | .packBuild _ => (n, e) :: packBuildsIn r (n + 1)
    | c => packBuildsIn r (if c.prog == .pack then n + 1 else n)

def handedOf (s : Script) (b : Build) (n : Nat) (e : Entry) : Handed :=
  match e.res with
  | .notFound => handOver b.cfg.expectSuccess (.error (.notFound w!"pack"))
  | _ =>
    match s.find .pack n with
    | some t => handOver b.cfg.expectSuccess (runCommand w!"pack" t)
    | none => .unknown

/-- what each `build` / `rebuild` of the chain that got as far as running pack handed to the test -/
def handOvers (s : Script) (sc : Scenario) (log : List Entry) : List Handed :=
  (sc.zip (packBuildsIn log 0)).map (fun (b, n, e) => handedOf s b n e)

end CnbVerif.PackOutput
