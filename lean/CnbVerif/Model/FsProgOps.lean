import CnbVerif.Model.FsProg
/-!
C12: the modelled operations (one public-API call each, as performed by `harness/src/bin/c12op.rs` and by the test
buildpack `tbp` for the phases) and the prepared states of the directory beneath the fault prefix, layer name `x`.
`prepared` mirrors `prepare` in `c12op.rs` / `prepare_phase` in `c12.rs`; the correspondence compares the rendering of
both before and after the fault-free call.
-/
namespace CnbVerif.FsProg

def lx : String := "x"
def typesAll : LTypes := ⟨true, true, true⟩
/-- `UncachedLayerDefinition { build: true, launch: false }` -/
def typesUncached : LTypes := ⟨false, true, false⟩

def mv (v : Int) : MetaTbl := ⟨some v, none⟩

def tomlRestored : Content := .ltoml (.doc none (some (mv 1)))
def tomlTyped : Content := .ltoml (.doc (some typesAll) (some (mv 1)))
def tomlInvalid : Content := .ltoml (.doc none (some ⟨none, some 2⟩))

def L (rest : List String) : Path := "layers" :: rest
def file (p : Path) (s : String) : Path × Obj := (p, .file (.raw s))
def dir (p : Path) : Path × Obj := (p, .dir modeNew)

def oldContent : String := "OLD-CONTENT\n"

def prepared : String → Option FS
  | "absent" => some [dir (L [])]
  | "orphan" => some [dir (L []), (L ["x.toml"], .file tomlRestored)]
  | "bare" => some [dir (L []), dir (L ["x"])]
  | "min" => some [dir (L []), dir (L ["x"]), (L ["x.toml"], .file tomlRestored)]
  | "typed" => some [dir (L []), dir (L ["x"]), (L ["x.toml"], .file tomlTyped)]
  | "invalid" => some [dir (L []), dir (L ["x"]), dir (L ["x", "data"]), file (L ["x", "data", "file"]) "f",
      (L ["x.toml"], .file tomlInvalid)]
  | "broken" => some [dir (L []), dir (L ["x"]), (L ["x.toml"], .file (.ltoml .broken))]
  | "full" => some [dir (L []), dir (L ["x"]), (L ["x.toml"], .file tomlRestored),
      dir (L ["x", "env"]), file (L ["x", "env", "FOO.append"]) "a",
      dir (L ["x", "env.build"]), file (L ["x", "env.build", "BAR.default"]) "b",
      dir (L ["x", "env.launch"]), file (L ["x", "env.launch", "BAZ.override"]) "c",
      dir (L ["x", "env.launch", "web"]), file (L ["x", "env.launch", "web", "QUX.prepend"]) "d",
      dir (L ["x", "exec.d"]), file (L ["x", "exec.d", "old"]) "#!old\n",
      dir (L ["x", "bin"]), file (L ["x", "bin", "tool"]) "t",
      dir (L ["x", "data"]), dir (L ["x", "data", "inner"]), file (L ["x", "data", "inner", "file"]) "f",
      file (L ["x.sbom.cdx.json"]) "{\"old\":1}", file (L ["x.sbom.syft.json"]) "{\"old\":3}"]
  -- restored by an older buildpack version: decodes as `M`, but with a value the data-dependent callbacks reject
  | "stale" => some [dir (L []), dir (L ["x"]), (L ["x.toml"], .file (.ltoml (.doc none (some (mv 7))))),
      dir (L ["x", "env"]), file (L ["x", "env", "FOO.append"]) "a", dir (L ["x", "bin"]), file (L ["x", "bin", "tool"]) "t"]
  -- phases
  | "clean" => some [dir (L [])]
  | "existing" => some [dir (L []), file ["plan.toml"] oldContent, file (L ["launch.toml"]) oldContent,
      (L ["store.toml"], .file (.doc "store-old")), file (L ["build.sbom.cdx.json"]) oldContent]
  | _ => none

/-- `env1()` of c12op.rs: all, launch and one process delta; no build delta -/
def env1 : EnvSpec :=
  { all := [("FOO.append", "a2")], launch := [("BAZ.override", "c2")], procs := [("web", [("QUX.prepend", "d2")])] }
def envProc : EnvSpec := { procs := [("web", [("QUX.prepend", "d2")])] }

def sbomNew1 : String × String := ("cdx.json", "{\"new\":1}")
def sbomNew2 : String × String := ("spdx.json", "{\"new\":2}")
def progSrc : String × String := ("prog", "#!/bin/sh\n")

def created : LayerResultSpec := ⟨mv 3, env1, [sbomNew1], [progSrc]⟩
def updated : LayerResultSpec := ⟨mv 4, env1, [sbomNew1], [progSrc]⟩

/-- `cached(…, restored = keep, invalid = delete)`: also the prelude that obtains the `LayerRef` of the `w*` operations -/
def cachedKeep : Prog := handleLayer lx typesAll .versioned (.delete 2) (.keep 3) 3

/-! ### callbacks that depend on what was read from disk (mirrored by `cached_migrate` / `TraitLayer { datadep }` in c12op.rs)

With a constant callback a read whose failure is swallowed ("no metadata") leaves no trace: the call returns `Ok` with
the directory of a successful call. These callbacks make every read that feeds a decision change the outcome. -/

/-- `invalid_metadata_action` as a real migration: the old format `{ w = <int> }` becomes `V { v: w + 10 }`; when there is
nothing to migrate from (no metadata, no `w`) the layer is deleted -/
def migrateInv : Option MetaTbl → CbInv
  | some ⟨_, some w⟩ => .replace (mv (w + 10)) 1
  | _ => .delete 2

/-- `restored_layer_action` looking at the metadata: the current value (1) and a migrated one (11 …) are kept, others deleted -/
def restoredByMeta : Option MetaTbl → CbRes
  | some ⟨some v, _⟩ => if v = 1 ∨ v > 10 then .keep 3 else .delete 4
  | _ => .delete 4

/-- `migrate_incompatible_metadata` (trait API) as the same migration; nothing to migrate from → `RecreateLayer` -/
def migrateT : Option MetaTbl → Migration
  | some ⟨_, some w⟩ => .replace (mv (w + 10))
  | _ => .recreate

/-- does the env read back from the layer directory set `FOO` (an `env/FOO.append` file)? -/
def envHasFoo (e : EnvSpec) : Bool := e.all.any (fun f => f.1 == "FOO.append")

/-- `existing_layer_strategy` looking at the `LayerData`: a migrated layer is kept; a current one (v = 1) is updated when
its env sets `FOO` and kept otherwise; any other value is recreated -/
def strategyByData : Option MetaTbl → EnvSpec → Strategy
  | some ⟨some v, _⟩, e => if v > 10 then .keep else if v = 1 then (if envHasFoo e then .update else .keep) else .recreate
  | _, _ => .recreate

/-- `update` deriving its metadata from the old one (`v + 3`); env, SBOM and exec.d as `updated` -/
def updatedByData : Option MetaTbl → EnvSpec → LayerResultSpec
  | some ⟨some v, _⟩, _ => ⟨mv (v + 3), env1, [sbomNew1], [progSrc]⟩
  | _, _ => ⟨mv 0, env1, [sbomNew1], [progSrc]⟩

/-- the operation performed for an op id -/
def opProg : String → Option Prog
  | "cached-keep" => some cachedKeep
  | "cached-del" => some (handleLayer lx typesAll .versioned (.delete 2) (.delete 4) 3)
  | "cached-repl" => some (handleLayer lx typesAll .versioned (.replace (mv 5) 1) (.keep 3) 3)
  | "cached-migrate" => some (handleLayerD lx typesAll .versioned migrateInv restoredByMeta 3)
  | "uncached" => some (handleLayer lx typesUncached .generic (.delete 0) (.delete 0) 3)
  | "wmeta" => some (replaceMeta lx (mv 9) unit)
  | "wenv" => some (writeToLayerDir (layerDir lx) env1 unit)
  | "wenv-empty" => some (writeToLayerDir (layerDir lx) {} unit)
  | "wenv-proc" => some (writeToLayerDir (layerDir lx) envProc unit)
  | "wsbom" => some (replaceSboms lx [sbomNew1, sbomNew2] unit)
  | "wsbom-none" => some (replaceSboms lx [] unit)
  | "wexecd" => some (replaceExecd lx [progSrc] unit)
  | "wexecd-none" => some (replaceExecd lx [] unit)
  | "t-recreate" => some (tHandle lx typesAll .recreate .recreate created updated 3)
  | "t-update" => some (tHandle lx typesAll .update .recreate created updated 3)
  | "t-keep" => some (tHandle lx typesAll .keep .recreate created updated 3)
  | "t-mig-replace" => some (tHandle lx typesAll .keep (.replace (mv 6)) created updated 3)
  | "t-mig-recreate" => some (tHandle lx typesAll .keep .recreate created updated 3)
  | "t-migrate" => some (tHandleD lx typesAll strategyByData migrateT created updatedByData 3)
  | "envwrite" => some (writeToLayerDir (layerDir lx) env1 unit)
  | "envwrite-empty" => some (writeToLayerDir (layerDir lx) {} unit)
  | "detect-plan" => some detectWritesPlan
  | "build-all" => some (buildWrites true true [("cdx.json", "{\"tbp-sbom\":2}")] [("spdx.json", "{\"tbp-sbom\":3}")])
  | "build-none" => some (buildWrites false false [] [])
  | _ => none

def opIds : List String :=
  ["cached-keep", "cached-del", "cached-repl", "cached-migrate", "t-migrate", "uncached", "wmeta", "wenv", "wenv-empty", "wenv-proc", "wsbom", "wsbom-none",
   "wexecd", "wexecd-none", "t-recreate", "t-update", "t-keep", "t-mig-replace", "t-mig-recreate", "envwrite", "envwrite-empty",
   "detect-plan", "build-all", "build-none"]

/-- the `LayerRef` writes are preceded by an (unfaulted) `cached_layer` request that keeps a restored layer -/
def opPrelude (op : String) : Option Prog :=
  if op.startsWith "w" then some cachedKeep else none

end CnbVerif.FsProg
