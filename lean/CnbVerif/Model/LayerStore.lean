import CnbVerif.Model.EnvDir
import CnbVerif.Spec.EnvSpec
/-!
Model of the struct-based layer API: `libcnb/src/layer/shared.rs` (`read_layer`, `write_layer`, `delete_layer`,
`replace_layer_metadata/types/sboms/exec_d_programs`), `libcnb/src/layer/struct_api/handling.rs`
(`handle_layer`, `create_layer`), `BuildContext::{cached_layer, uncached_layer}` and the `LayerRef::write_*` methods.

The layers directory is a map layer name ↦ `Layer` = (layer directory, `<name>.toml`, SBOM files). The content-metadata
file is kept as a document (`types`, `metadata`) or `broken` (not even a generic content-metadata document).
Metadata tables are drawn from a two-key domain (`v`, `w`): a layer definition with metadata type `versioned`
(`struct { v: i64 }` in the harness) can decode a table iff it has `v`; type `generic` decodes everything.
Buildpack callbacks are data. `delete_layer` is modelled **as repaired** for defect D1 (it also removes the
layer's SBOM files); see DESIGN.md §8.
-/
namespace CnbVerif

structure LTypes where
  launch : Bool
  build : Bool
  cache : Bool
deriving DecidableEq, Repr

structure MetaTbl where
  v : Option Int
  w : Option Int
deriving DecidableEq, Repr

inductive Toml
  | doc (types : Option LTypes) (mdata : Option MetaTbl)
  | broken
deriving DecidableEq, Repr

structure Layer where
  dir : Option Dir := none
  toml : Option Toml := none
  /-- `<name>.sbom.<fmt>.json` files, by format index into `Gen.sbomSuffixes` -/
  sboms : List (Nat × Bytes) := []
deriving Repr

def Layer.absent : Layer := {}

abbrev Store := List (Bytes × Layer)

def Store.get (s : Store) (n : Bytes) : Layer := (List.lookup n s).getD Layer.absent
def Store.set (s : Store) (n : Bytes) (l : Layer) : Store := (n, l) :: s.filter (fun kv => kv.1 != n)

inductive MetaT | generic | versioned
deriving DecidableEq, Repr

/-- what the invalid-metadata callback answers -/
inductive CbInv
  | delete (c : Nat)
  | replace (m : MetaTbl) (c : Nat)
  | fail
deriving DecidableEq, Repr

/-- what the restored-layer callback answers -/
inductive CbRes
  | keep (c : Nat)
  | delete (c : Nat)
  | fail
deriving DecidableEq, Repr

inductive ErrKind
  | buildpack | genericMeta | io | missingLayer | missingExecd | metaFile | diverge
deriving DecidableEq, Repr

inductive Out
  | restored (c : Nat)
  | emptyNew
  | emptyInv (c : Nat)
  | emptyRes (c : Nat)
  | err (k : ErrKind)
  | ok
  | noref
deriving DecidableEq, Repr

/-- one callback invocation: which callback, with which metadata -/
inductive CbCall
  | inv (m : Option MetaTbl)
  | res (m : Option MetaTbl)
deriving DecidableEq, Repr

/-- does the stored metadata decode as the definition's metadata type? -/
def decodes (mt : MetaT) (m : Option MetaTbl) : Bool :=
  match mt with
  | .generic => true
  | .versioned => match m with
    | some t => t.v.isSome
    | none => false

/-- what the restored-layer callback gets to see: the metadata decoded as the definition's type -/
def viewAs (mt : MetaT) (m : Option MetaTbl) : Option MetaTbl :=
  match mt with
  | .generic => m
  | .versioned => m.map (fun t => ⟨t.v, none⟩)

inductive ReadRes
  | none
  | some (m : Option MetaTbl)
  | parseErr
deriving Repr

/-- `read_layer::<M>`: both normalisations, then decode. Returns the (possibly normalised) layer. -/
def readLayer (l : Layer) (mt : MetaT) : Layer × ReadRes :=
  match l.dir, l.toml with
  | none, none => (l, .none)
  | none, some _ => ({ l with toml := none }, .none)                       -- remove the orphan toml
  | some _, none => ({ l with toml := some (.doc none none) },              -- write an empty toml
      if decodes mt none then .some none else .parseErr)
  | some _, some (.doc _ m) => (l, if decodes mt m then .some m else .parseErr)
  | some _, some .broken => (l, .parseErr)

/-- `delete_layer` (repaired): layer directory, toml and the layer's SBOM files -/
def deleteLayer (_ : Layer) : Layer := Layer.absent

/-- `create_layer`: `write_layer` (create_dir_all + toml with the types and no metadata), then re-read -/
def createLayer (l : Layer) (t : LTypes) : Layer :=
  { l with dir := some (l.dir.getD []), toml := some (.doc (some t) none) }

/-- `replace_layer_types`: read as generic document, set types, write back -/
def replaceTypes (l : Layer) (t : LTypes) : Option Layer :=
  match l.toml with
  | some (.doc _ m) => some { l with toml := some (.doc (some t) m) }
  | _ => none

/-- `replace_layer_metadata` -/
def replaceMeta (l : Layer) (m : MetaTbl) : Option Layer :=
  match l.toml with
  | some (.doc t _) => some { l with toml := some (.doc t (some m)) }
  | _ => none

/-- `handle_layer`; `fuel` bounds the re-entry after `ReplaceMetadata` -/
def handleLayer (l : Layer) (t : LTypes) (mt : MetaT) (ci : CbInv) (cr : CbRes) :
    Nat → List CbCall → Layer × Out × List CbCall
  | 0, log => (l, .err .diverge, log)
  | fuel + 1, log =>
    match readLayer l mt with
    | (l1, .none) => (createLayer l1 t, .emptyNew, log)
    | (l1, .some m) =>
      let log := log ++ [.res (viewAs mt m)]
      match cr with
      | .fail => (l1, .err .buildpack, log)
      | .delete c => (createLayer (deleteLayer l1) t, .emptyRes c, log)
      | .keep c =>
        match replaceTypes l1 t with
        | some l2 => (l2, .restored c, log)
        | none => (l1, .err .metaFile, log)
    | (l1, .parseErr) =>
      match l1.toml with
      | some (.doc _ m) =>
        let log := log ++ [.inv m]
        match ci with
        | .fail => (l1, .err .buildpack, log)
        | .delete c => (createLayer (deleteLayer l1) t, .emptyInv c, log)
        | .replace m' _ =>
          match replaceMeta l1 m' with
          | some l2 => handleLayer l2 t mt ci cr fuel log
          | none => (l1, .err .metaFile, log)
      | _ => (l1, .err .genericMeta, log)

/-- `replace_layer_sboms` -/
def replaceSboms (l : Layer) (sb : List (Nat × Bytes)) : Layer × Out :=
  match l.dir with
  | none => (l, .err .missingLayer)
  | some _ => ({ l with sboms := sb }, .ok)

def nExecd : Bytes := [101, 120, 101, 99, 46, 100]   -- "exec.d"

/-- `replace_layer_exec_d_programs`; a program whose source file is missing is `(name, none)` -/
def replaceExecd (l : Layer) (progs : List (Bytes × Option Bytes)) : Layer × Out :=
  match l.dir with
  | none => (l, .err .missingLayer)
  | some d =>
    -- `if exec_d_dir.is_dir() { remove_dir_all }`
    let d1 : Dir := match d.get nExecd with
      | some (.dir _) => d.erase nExecd
      | _ => d
    if progs.isEmpty then ({ l with dir := some d1 }, .ok)
    else
      match d1.get nExecd with
      | some _ => (l, .err .io)               -- `exec.d` is a file: create_dir_all fails
      | none =>
        match allSome (progs.map (fun p => p.2.map (fun b => (p.1, Node.file b)))) with
        | some files => ({ l with dir := some (d1.set nExecd (.dir files)) }, .ok)
        | none => ({ l with dir := some (d1.set nExecd (.dir [])) }, .err .missingExecd)

/-- a buildpack writing a plain file into its layer directory -/
def writeFile (l : Layer) (f : Bytes) (b : Bytes) : Layer × Out :=
  match l.dir with
  | none => (l, .err .missingLayer)
  | some d =>
    match d.get f with
    | some (.dir _) => (l, .err .io)
    | _ => ({ l with dir := some (d.set f (.file b)) }, .ok)

def writeEnv (l : Layer) (ins : List Spec.Ins) : Layer × Out :=
  match l.dir with
  | none => (l, .err .io)
  | some d =>
    let le := ins.foldl (fun le i => le.insert i.scope i.beh i.name i.val) LayerEnv.empty
    match writeToLayerDir le d with
    | some d' => ({ l with dir := some d' }, .ok)
    | none => (l, .err .io)

def writeMeta (l : Layer) (m : MetaTbl) : Layer × Out :=
  match replaceMeta l m with
  | some l' => (l', .ok)
  | none => (l, .err .metaFile)

/-- lifecycle restore between two builds, as fixed by the property text -/
def restoreLayer (l : Layer) : Layer :=
  match l.toml with
  | some (.doc (some t) m) =>
    if t.cache then { l with toml := some (.doc none m) }
    else if t.launch then { dir := none, toml := some (.doc none m), sboms := [] }
    else Layer.absent
  | _ => Layer.absent

inductive Op
  | cached (n : Bytes) (build launch : Bool) (mt : MetaT) (ci : CbInv) (cr : CbRes)
  | uncached (n : Bytes) (build launch : Bool)
  | wmeta (n : Bytes) (m : MetaTbl)
  /-- `write_metadata` with a value serde accepts but TOML cannot encode (an unsigned integer above `i64::MAX`, …):
  `replace_layer_metadata` reads the file, then `write_toml_file` serialises *before* it opens the file for writing -/
  | wmetaBad (n : Bytes)
  | wenv (n : Bytes) (ins : List Spec.Ins)
  | wsbom (n : Bytes) (sb : List (Nat × Bytes))
  | wexecd (n : Bytes) (progs : List (Bytes × Option Bytes))
  | wfile (n : Bytes) (f : Bytes) (b : Bytes)
  | breakToml (n : Bytes)
  | restore
deriving Repr

structure St where
  store : Store := []
  /-- layer names for which the current build holds a `LayerRef` -/
  refs : List Bytes := []
deriving Repr

def Op.name : Op → Option Bytes
  | .cached n .. => some n | .uncached n .. => some n | .wmeta n _ => some n | .wmetaBad n => some n | .wenv n _ => some n
  | .wsbom n _ => some n | .wexecd n _ => some n | .wfile n .. => some n | .breakToml n => some n | .restore => none

def isRequestOk : Out → Bool
  | .restored _ => true | .emptyNew => true | .emptyInv _ => true | .emptyRes _ => true | _ => false

/-- the effect of an operation on the layer it names -/
def stepLayer (l : Layer) : Op → Layer × Out × List CbCall
  | .cached _ b la mt ci cr => handleLayer l ⟨la, b, true⟩ mt ci cr 3 []
  | .uncached _ b la =>
    -- the callbacks of an uncached request are libcnb's own closures: nothing for the buildpack to log
    let r := handleLayer l ⟨la, b, false⟩ .generic (.delete 0) (.delete 0) 3 []
    (r.1, r.2.1, [])
  | .wmeta _ m => let r := writeMeta l m; (r.1, r.2, [])
  | .wmetaBad _ => (l, .err .metaFile, [])
  | .wenv _ ins => let r := writeEnv l ins; (r.1, r.2, [])
  | .wsbom _ sb => let r := replaceSboms l sb; (r.1, r.2, [])
  | .wexecd _ ps => let r := replaceExecd l ps; (r.1, r.2, [])
  | .wfile _ f b => let r := writeFile l f b; (r.1, r.2, [])
  | .breakToml _ => ({ l with toml := some .broken }, .ok, [])
  | .restore => (l, .ok, [])

def isRequest : Op → Bool
  | .cached .. => true | .uncached .. => true | _ => false

def isWrite : Op → Bool
  | .wmeta .. => true | .wmetaBad .. => true | .wenv .. => true | .wsbom .. => true | .wexecd .. => true | .wfile .. => true | _ => false

def step (s : St) (op : Op) : St × Out × List CbCall :=
  match op with
  | .restore => ({ store := s.store.map (fun kv => (kv.1, restoreLayer kv.2)), refs := [] }, .ok, [])
  | op =>
    match op.name with
    | none => (s, .ok, [])
    | some n =>
      if isWrite op && !s.refs.contains n then (s, .noref, [])
      else
        let r := stepLayer (s.store.get n) op
        let refs := if isRequest op && isRequestOk r.2.1 && !s.refs.contains n then n :: s.refs else s.refs
        ({ store := s.store.set n r.1, refs := refs }, r.2.1, r.2.2)

end CnbVerif
