/-!
Model of `libcnb-package/src/dependency_graph.rs`, in the code's own order. Core Lean only.

* `createGraph` = `create_dependency_graph`: every node becomes a graph node in the given order (petgraph node index
  = position); then, node by node and dependency by dependency, an edge to the **first** node carrying the
  dependency's id is added, the first dependency without such a node aborts with `MissingDependency`.
* `getDependencies` = `get_dependencies`: for each root in the given order the first node with the root's id is
  looked up (else `UnknownRootNode`), then a post-order DFS runs from it, successors in edge-insertion order, the
  visited state **shared** by all roots.

`petgraph::visit::DfsPostOrder` is the modelled external. It is iterative (`stack`, `discovered`, `finished`);
`Graph::neighbors` yields the out-edges newest first and the stack reverses that again, so successors are explored
in edge-insertion order; a node pushed a second time while still undiscovered lies *below* its live entry, hence it
is already finished when it surfaces and is dropped. The emission order is therefore that of the recursive
post-order DFS below on every graph. The recursion carries a fuel (`node count + 1`); `St.starved` records whether
the fuel ever was the reason to stop (`C13.fuel_enough`: it never is).
-/
namespace CnbVerif.DepGraph

/-- one `DependencyNode`: its id and the ids it depends on, in declaration order -/
structure Node where
  id : String
  deps : List String
deriving Repr, DecidableEq

/-- `petgraph::Graph<T, ()>`: node weights in index order and, per node, the targets of its out-edges in the
order the edges were added. -/
structure Graph where
  ids : List String
  adj : List (List Nat)
deriving Repr, DecidableEq

/-- `graph.node_indices().find(|idx| graph[*idx].id() == x)`: the first index carrying the id -/
def findIdx : List String → String → Option Nat
  | [], _ => none
  | y :: ys, x => if y = x then some 0 else (findIdx ys x).map (· + 1)

/-- the edges of one node: every dependency resolved in order, the first unknown one is the error -/
def resolveDeps (ids : List String) : List String → Except String (List Nat)
  | [] => .ok []
  | d :: ds =>
    match findIdx ids d with
    | none => .error d
    | some i =>
      match resolveDeps ids ds with
      | .error e => .error e
      | .ok r => .ok (i :: r)

def resolveAll (ids : List String) : List Node → Except String (List (List Nat))
  | [] => .ok []
  | n :: ns =>
    match resolveDeps ids n.deps with
    | .error e => .error e
    | .ok r =>
      match resolveAll ids ns with
      | .error e => .error e
      | .ok rs => .ok (r :: rs)

/-- `create_dependency_graph`; `.error d` = `CreateDependencyGraphError::MissingDependency(d)` -/
def createGraph (nodes : List Node) : Except String Graph :=
  let ids := nodes.map (·.id)
  match resolveAll ids nodes with
  | .error e => .error e
  | .ok adj => .ok ⟨ids, adj⟩

def Graph.succ (g : Graph) (v : Nat) : List Nat := g.adj.getD v []

def Graph.size (g : Graph) : Nat := g.adj.length

/-- traversal state: `seen` = petgraph's `discovered`, `out` = the emitted order (= `finished`, in order) -/
structure St where
  seen : List Nat
  out : List Nat
  starved : Bool
deriving Repr, DecidableEq

def St.empty : St := ⟨[], [], false⟩

/-- post-order DFS from `v`: skip if discovered; else mark, visit the successors in order, emit -/
def visit (succ : Nat → List Nat) : Nat → Nat → St → St
  | fuel, v, st =>
    if v ∈ st.seen then st else
    match fuel with
    | 0 => { st with starved := true }
    | fuel + 1 =>
      let st1 := (succ v).foldl (fun s w => visit succ fuel w s) { st with seen := v :: st.seen }
      { st1 with out := st1.out ++ [v] }

/-- all roots, one shared state -/
def visitRoots (succ : Nat → List Nat) (fuel : Nat) (roots : List Nat) (st : St) : St :=
  roots.foldl (fun s r => visit succ fuel r s) st

/-- the loop of `get_dependencies`, in its order: look the root up, traverse, next root -/
def getDepsLoop (g : Graph) : List String → St → Except String St
  | [], st => .ok st
  | r :: rs, st =>
    match findIdx g.ids r with
    | none => .error r
    | some i => getDepsLoop g rs (visit g.succ (g.size + 1) i st)

/-- `get_dependencies`; `.error r` = `GetDependenciesError::UnknownRootNode(r)`; result = node indices in build order -/
def getDependencies (g : Graph) (roots : List String) : Except String (List Nat) :=
  match getDepsLoop g roots St.empty with
  | .error e => .error e
  | .ok st => .ok st.out

/-! ### `libcnb-cargo/src/package/command.rs` `execute`: which buildpacks are packaged, in which order

`execute` builds the graph of the whole workspace (`build_libcnb_buildpacks_dependency_graph`: the libcnb.rs and
composite buildpack directories in the order of the directory walk), picks `root_nodes` (the first node whose
directory is the current directory; else, if the current directory is the workspace root, every node in graph
order; else none), calls `get_dependencies`, refuses an empty result (`NoBuildpacksFound`) and then runs
`for node in build_order.iter()` — `package_buildpack` is called once per element, in exactly that order. -/

/-- a buildpack directory as `execute` sees it: the graph node and the directory it was found in (relative to the
workspace root, `.` = the root itself) -/
structure Located where
  node : Node
  dir : String
deriving Repr, DecidableEq

inductive ExecErr where
  /-- `CannotBuildBuildpackDependencyGraph(CreateDependencyGraphError(MissingDependency d))` -/
  | missingDependency (d : String)
  /-- `CannotGetDependencies(UnknownRootNode r)` -/
  | unknownRoot (r : String)
  /-- `NoBuildpacksFound` -/
  | noBuildpacksFound
deriving Repr, DecidableEq

/-- `root_nodes`, as ids -/
def rootNodes (bps : List Located) (inv : String) : List String :=
  match bps.find? (fun b => b.dir = inv) with
  | some b => [b.node.id]
  | none => if inv = "." then bps.map (·.node.id) else []

/-- the ids handed to `package_buildpack`, in the order of the calls (`bps` in directory-walk order, `inv` the
current directory relative to the workspace root) -/
def packagingOrder (bps : List Located) (inv : String) : Except ExecErr (List String) :=
  match createGraph (bps.map (·.node)) with
  | .error d => .error (.missingDependency d)
  | .ok g =>
    match getDependencies g (rootNodes bps inv) with
    | .error r => .error (.unknownRoot r)
    | .ok out => if out.isEmpty then .error .noBuildpacksFound else .ok (out.map (fun i => g.ids.getD i ""))

/-! ### `libcnb-package/src/lib.rs` `find_buildpack_dirs`: which directories become nodes

`ignore::Walk` (links are not followed while descending) yields every entry below the start directory;
`find_buildpack_dirs` keeps an entry when `entry.path().is_dir()` — which resolves the entry itself, through any
chain of links — and `buildpack.toml` exists inside. So the way the *entry* comes to be a directory does not matter;
what lies below an *intermediate* directory that is a link is never visited. -/

/-- how the directory entry of a buildpack comes to be a directory -/
inductive Reach where
  /-- a real directory -/
  | dir
  /-- a symbolic link (or a chain of `hops + 1` links) ending in a directory outside the walked tree -/
  | link (hops : Nat)
  /-- a real directory below an intermediate directory that is a link: not visited, not part of the workspace -/
  | viaLinkedDir
deriving Repr, DecidableEq

structure Placed where
  node : Node
  reach : Reach
deriving Repr, DecidableEq

def Reach.visited : Reach → Bool
  | .viaLinkedDir => false
  | _ => true

/-- the node list handed to `create_dependency_graph` (`ps` in directory-walk order) -/
def discover (ps : List Placed) : List Node := (ps.filter (fun p => p.reach.visited)).map (·.node)

end CnbVerif.DepGraph
