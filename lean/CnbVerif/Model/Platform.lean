import CnbVerif.Base.Proto
/-!
Model of the context assembly of C06: `libcnb/src/platform.rs` (`read_platform_env`), `libcnb/src/generic.rs`
(`GenericPlatform::from_path`), `libcnb/src/runtime.rs` (`context_target`, and the record construction of
`DetectContext` / `BuildContext` in `libcnb_runtime_detect` / `libcnb_runtime_build`). Core Lean only.

`valid : Bytes → Bool` is Rust's "these bytes are a `String`" (`fs::read_to_string`, `env::var`); it is a parameter of
the model, so the theorems hold for whatever the predicate is. The buildpack plan, the store and the buildpack descriptor
are decoded by the `toml` crate (trusted, sampled by the correspondence): the model carries them as opaque values `X`.
-/
namespace CnbVerif.Platform

/-- what `<platform>/env/<name>` is: `path.is_file()` follows symbolic links -/
inductive EntryKind
  | file (content : Bytes)       -- regular file
  | dir                          -- directory
  | linkFile (content : Bytes)   -- symbolic link to a regular file
  | linkDir                      -- symbolic link to a directory (k8s volume mounts)
  | dangling                     -- symbolic link to nothing
deriving DecidableEq, Repr

/-- `<platform>/env` -/
inductive PlatDir
  | noEnv                                        -- does not exist (`ErrorKind::NotFound`): tolerated
  | notDir                                       -- exists but `read_dir` fails otherwise (a regular file)
  | entries (l : List (Bytes × EntryKind))       -- in `read_dir` order (unspecified)
deriving Repr

/-- `libcnb::Env`: a `HashMap<OsString, OsString>`; `insert` replaces -/
abbrev PEnv := List (Bytes × Bytes)
def PEnv.get (e : PEnv) (n : Bytes) : Option Bytes := List.lookup n e
def PEnv.insert (e : PEnv) (n v : Bytes) : PEnv := (n, v) :: e.filter (fun kv => kv.1 != n)

/-- the bytes `fs::read_to_string` would read when `path.is_file()` holds -/
def EntryKind.fileContent : EntryKind → Option Bytes
  | .file c => some c
  | .linkFile c => some c
  | _ => none

/-- the `for entry in entries` loop of `read_platform_env`: a file whose content is not a `String` aborts with `Err` -/
def readEntries (valid : Bytes → Bool) : List (Bytes × EntryKind) → PEnv → Except Unit PEnv
  | [], env => .ok env
  | (n, k) :: rest, env =>
    match k.fileContent with
    | some c => if valid c then readEntries valid rest (env.insert n c) else .error ()
    | none => readEntries valid rest env

/-- `read_platform_env` -/
def readPlatformEnv (valid : Bytes → Bool) : PlatDir → Except Unit PEnv
  | .noEnv => .ok []
  | .notDir => .error ()
  | .entries l => readEntries valid l []

/-- an environment variable of the process: unset, or set to some bytes -/
inductive VarVal | unset | val (b : Bytes)
deriving DecidableEq, Repr

structure TargetVars where
  os : VarVal
  arch : VarVal
  variant : VarVal
  dname : VarVal
  dver : VarVal
deriving Repr

/-- `libcnb::Target` -/
structure Target where
  os : Bytes
  arch : Bytes
  variant : Option Bytes
  dname : Bytes
  dver : Bytes
deriving DecidableEq, Repr

inductive Err | platform | targetOs | targetArch | distroName | distroVersion
  | descriptor   -- buildpack.toml cannot be read: `libcnb_runtime` reads its `api` key before anything else and answers a failure with
                 -- a message on stderr and `exit(254)` (no `on_error`); the later `Error::CannotReadBuildpackDescriptor` is for a
                 -- document that has an `api` key and does not decode otherwise (not generated)
  | plan         -- `Error::CannotReadBuildpackPlan`
  | store        -- `Error::CannotReadStore`
deriving DecidableEq, Repr

/-- what the runtime finds at the path of a document it reads with `read_toml_file` (`<buildpack dir>/buildpack.toml`, the
buildpack plan file, `<layers>/store.toml`), as raw file-system state — not as a decoded value -/
inductive Doc
  /-- a regular file (or a link to one) whose bytes are a `String` that the `toml` crate decodes into the document's type: the
  decoded value is the `plan` / `store` / `desc` field of the inputs (for the store also: no file, when that field is `none`) -/
  | asGiven
  /-- nothing at the path (`ErrorKind::NotFound`; also a dangling link) -/
  | missing
  /-- something is there but `fs::read_to_string` fails on it before any byte is looked at: a directory, a link to a directory -/
  | unreadable
  /-- a regular file (or a link to one) with these bytes, which are not a `String` (not valid UTF-8: `fs::read_to_string` fails with
  `InvalidData`) or are a `String` the `toml` crate does not decode into the document's type -/
  | undecodable (b : Bytes)
deriving DecidableEq, Repr

/-- the documents of a phase; the default is "all three as the decoded fields say" -/
structure Docs where
  desc : Doc := .asGiven
  plan : Doc := .asGiven
  store : Doc := .asGiven
deriving DecidableEq, Repr

/-- `libcnb_common::toml_file::TomlFileError`, with the one `io::ErrorKind` the code looks at -/
inductive TomlFileErr | ioNotFound | ioOther | tomlDe
deriving DecidableEq, Repr

/-- `read_toml_file`: `fs::read_to_string(path)?` (fails with `IoError`: not found / a directory / bytes that are not a `String`),
then `toml::from_str(&contents)?` (fails with `TomlDeserializationError`). `none` = `Ok(value)`. -/
def Doc.readError (valid : Bytes → Bool) : Doc → Option TomlFileErr
  | .asGiven => none
  | .missing => some .ioNotFound
  | .unreadable => some .ioOther
  | .undecodable b => if valid b then some .tomlDe else some .ioOther

/-- `env::var(name)`: `Err(NotPresent)` when unset, `Err(NotUnicode)` when not a `String` -/
def envVar (valid : Bytes → Bool) : VarVal → Option Bytes
  | .unset => none
  | .val b => if valid b then some b else none

/-- `context_target`; `CNB_TARGET_ARCH_VARIANT` goes through `.ok()`, every other variable through `map_err(..)?` -/
def contextTarget (valid : Bytes → Bool) (v : TargetVars) : Except Err Target :=
  match envVar valid v.os with
  | none => .error .targetOs
  | some os =>
    match envVar valid v.arch with
    | none => .error .targetArch
    | some arch =>
      let variant := envVar valid v.variant
      match envVar valid v.dname with
      | none => .error .distroName
      | some dname =>
        match envVar valid v.dver with
        | none => .error .distroVersion
        | some dver => .ok { os := os, arch := arch, variant := variant, dname := dname, dver := dver }

/-- everything the lifecycle supplies to a phase (`X`: documents decoded by the `toml` crate).

The five paths are carried as their **texts**: opaque byte strings exactly as written by the platform (absolute or relative,
through links, with `.` / `..` / doubled or trailing slashes — the model never looks inside). That mirrors the code:
`PathBuf::from(arg)` for the positional arguments (`DetectArgs::parse` / `BuildArgs::parse`), `env::var("CNB_BUILDPACK_DIR")
.map(PathBuf::from)` for the buildpack directory — no `canonicalize`, no `absolute`, no `components()` round trip. The app
directory is not handed over as a text at all: the lifecycle enters it (`chdir`) and the code asks `env::current_dir()`; `cwd`
is what that call returns (the kernel's name of the working directory, whatever path it was entered by). -/
structure Inputs (X : Type) where
  /-- what `env::current_dir()` returns -/
  cwd : Bytes
  /-- value of `CNB_BUILDPACK_DIR`, as written -/
  bpDir : Bytes
  /-- `<layers>` argument, as written (build only) -/
  layersDir : Option Bytes
  /-- `<platform>` argument, as written. The code only opens `<platform>/env` through it; `plat` is what the OS finds there. It
  is not a field of either context. -/
  platArg : Bytes := []
  /-- `<plan>` argument, as written (detect: where the build plan goes; build: where the buildpack plan is read from, `plan` is
  what was decoded). Not a field of either context. -/
  planArg : Bytes := []
  vars : TargetVars
  plat : PlatDir
  /-- buildpack plan (build only) -/
  plan : Option X
  /-- previous `store.toml`, if present (build only) -/
  store : Option X
  desc : X
  /-- the raw state of the three documents (default: readable and decoded into the three fields above) -/
  docs : Docs := {}

/-- `DetectContext` / `BuildContext` (fields a phase does not have are `none`) -/
structure Ctx (X : Type) where
  appDir : Bytes
  bpDir : Bytes
  layersDir : Option Bytes
  target : Target
  env : PEnv
  plan : Option X
  store : Option X
  desc : X

/-- the reads of `libcnb_runtime_detect` / `libcnb_runtime_build` that C06 varies, in the code's order (platform, then
[plan, store,] then target), followed by the record construction -/
def assemble {X : Type} (valid : Bytes → Bool) (i : Inputs X) : Except Err (Ctx X) :=
  match readPlatformEnv valid i.plat with
  | .error _ => .error .platform
  | .ok env =>
    match contextTarget valid i.vars with
    | .error e => .error e
    | .ok target =>
      .ok { appDir := i.cwd, bpDir := i.bpDir, layersDir := i.layersDir, target := target, env := env,
            plan := i.plan, store := i.store, desc := i.desc }

/-- `libcnb_runtime_detect` (`build = false`) / `libcnb_runtime_build` (`build = true`) with the document reads in the code's order:
`read_buildpack_descriptor()?` first, then the platform, then (build only) the buildpack plan
(`read_toml_file(..).map_err(CannotReadBuildpackPlan)?`) and the store — `Err(IoError(e)) if is_not_found_error_kind(&e) => Ok(None)`,
every other failure `CannotReadStore` —, then the target and the record construction (`assemble`; the platform read is pure, so
reading it again there changes nothing). -/
def assembleDocs {X : Type} (valid : Bytes → Bool) (build : Bool) (i : Inputs X) : Except Err (Ctx X) :=
  match i.docs.desc.readError valid with
  | some _ => .error .descriptor
  | none =>
    match readPlatformEnv valid i.plat with
    | .error _ => .error .platform
    | .ok _ =>
      if build then
        match i.docs.plan.readError valid with
        | some _ => .error .plan
        | none =>
          match i.docs.store.readError valid with
          | some .ioNotFound => assemble valid { i with store := none }
          | some _ => .error .store
          | none => assemble valid i
      else assemble valid i

/-- Rust's `str::from_utf8` acceptance (Unicode table 3-7: well-formed UTF-8 byte sequences) -/
def utf8Valid : Bytes → Bool
  | [] => true
  | b0 :: rest =>
    if b0 < 0x80 then utf8Valid rest
    else if 0xC2 ≤ b0 ∧ b0 ≤ 0xDF then
      match rest with
      | b1 :: r => (0x80 ≤ b1 && b1 ≤ 0xBF) && utf8Valid r
      | _ => false
    else if 0xE0 ≤ b0 ∧ b0 ≤ 0xEF then
      match rest with
      | b1 :: b2 :: r =>
        let lo := if b0 = 0xE0 then 0xA0 else 0x80
        let hi := if b0 = 0xED then 0x9F else 0xBF
        (lo ≤ b1 && b1 ≤ hi) && (0x80 ≤ b2 && b2 ≤ 0xBF) && utf8Valid r
      | _ => false
    else if 0xF0 ≤ b0 ∧ b0 ≤ 0xF4 then
      match rest with
      | b1 :: b2 :: b3 :: r =>
        let lo := if b0 = 0xF0 then 0x90 else 0x80
        let hi := if b0 = 0xF4 then 0x8F else 0xBF
        (lo ≤ b1 && b1 ≤ hi) && (0x80 ≤ b2 && b2 ≤ 0xBF) && (0x80 ≤ b3 && b3 ≤ 0xBF) && utf8Valid r
      | _ => false
    else false

end CnbVerif.Platform
