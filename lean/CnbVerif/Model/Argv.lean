import CnbVerif.Base.Proto
import CnbVerif.Base.Words
/-!
Model of `libcnb-test/src/{docker.rs,pack.rs}` (typed command structs → argv, in the code's own order) and of the
places in `test_context.rs` / `test_runner.rs` / `container_context.rs` that fill those structs from the user's
`ContainerConfig` / `BuildConfig`. Words are byte strings; `String`/`PathBuf` values are their UTF-8 bytes
(`to_string_lossy` is the identity on valid UTF-8 — paths that are not UTF-8 are outside this model).
Core Lean only.
-/
namespace CnbVerif.Argv

/-! ### std pieces: `u16::to_string`, `BTreeMap`/`BTreeSet` insertion, `Path` ordering, `Path::join` -/

/-- `u16::to_string` / `format!("{port}")` -/
def natToDec (n : Nat) : Word :=
  if _h : n < 10 then [48 + n] else natToDec (n / 10) ++ [48 + n % 10]
termination_by n
decreasing_by omega

/-- `BTreeMap::insert`: keeps the map sorted; on an equal key the **old key stays** and the value is replaced.
`ContainerConfig`/`BuildConfig` first collect the entries in a `HashMap` with the same replace rule; its iteration
order is irrelevant because the command structs re-insert everything into a `BTreeMap`. -/
def btInsert {κ ν : Type} (lt : κ → κ → Bool) (k : κ) (v : ν) : List (κ × ν) → List (κ × ν)
  | [] => [(k, v)]
  | (k', v') :: r =>
    if lt k k' then (k, v) :: (k', v') :: r
    else if lt k' k then (k', v') :: btInsert lt k v r
    else (k', v) :: r

/-- the map obtained from a sequence of `insert` calls -/
def btOfList {κ ν : Type} (lt : κ → κ → Bool) (l : List (κ × ν)) : List (κ × ν) :=
  l.foldl (fun m kv => btInsert lt kv.1 kv.2 m) []

/-- `BTreeSet<u16>::insert` -/
def bsInsert (x : Nat) : List Nat → List Nat
  | [] => [x]
  | y :: r => if x < y then x :: y :: r else if y < x then y :: bsInsert x r else y :: r

def bsOfList (l : List Nat) : List Nat := l.foldl (fun s x => bsInsert x s) []

/-- split at every `/` -/
def splitSlash : Word → List Word
  | [] => [[]]
  | x :: xs =>
    if x = 47 then [] :: splitSlash xs
    else match splitSlash xs with
      | [] => [[x]]
      | h :: t => (x :: h) :: t

/-- `Path::components` on unix as sort keys: RootDir=(1,·) < CurDir=(2,·) < ParentDir=(3,·) < Normal=(4,name)
(derive order of `std::path::Component`). Empty parts and inner `.` are skipped, a leading `.` is `CurDir`. -/
def components (p : Word) : List (Nat × Word) :=
  let parts := splitSlash p
  let first : List (Nat × Word) :=
    match parts with
    | [] => []
    | h :: _ => if h = w!"." then [(2, [])] else []
  let body := parts.filterMap (fun part =>
    if part = [] then none
    else if part = w!"." then none
    else if part = w!".." then some (3, [])
    else some (4, part))
  (if p.head? = some 47 then [(1, [])] else []) ++ first ++ body

def compLt (a b : Nat × Word) : Bool := a.1 < b.1 || (a.1 == b.1 && bytesLt a.2 b.2)

def compsLt : List (Nat × Word) → List (Nat × Word) → Bool
  | [], [] => false
  | [], _ :: _ => true
  | _ :: _, [] => false
  | a :: as, b :: bs => if compLt a b then true else if compLt b a then false else compsLt as bs

/-- `impl Ord for Path`: component-wise -/
def pathLt (a b : Word) : Bool := compsLt (components a) (components b)

/-- `Path::join` for a relative right-hand side (an absolute one replaces the base) -/
def pathJoin (base rel : Word) : Word :=
  if rel.head? = some 47 then rel
  else if base.getLast? = some 47 ∨ base = [] then base ++ rel
  else base ++ [47] ++ rel

/-! ### docker.rs -/

/-- `DockerRunCommand` (maps already in `BTreeMap` order) -/
structure DockerRunCommand where
  command : Option (List Word)
  containerName : Word
  detach : Bool
  entrypoint : Option Word
  env : List (Word × Word)
  exposedPorts : List Nat
  imageName : Word
  platform : Option Word
  remove : Bool
  bindMounts : List (Word × Word)
deriving Repr

/-- `impl From<DockerRunCommand> for Command` (arguments after the program name) -/
def dockerRunArgv (c : DockerRunCommand) : List Word :=
  [w!"run", w!"--name", c.containerName]
  ++ (if c.detach then [w!"--detach"] else [])
  ++ (if c.remove then [w!"--rm"] else [])
  ++ (match c.platform with | some p => [w!"--platform", p] | none => [])
  ++ (match c.entrypoint with | some e => [w!"--entrypoint", e] | none => [])
  ++ c.env.flatMap (fun kv => [w!"--env", kv.1 ++ [61] ++ kv.2])
  ++ c.exposedPorts.flatMap (fun p => [w!"--publish", w!"127.0.0.1::" ++ natToDec p])
  ++ c.bindMounts.flatMap (fun m => [w!"--mount", w!"type=bind,source=" ++ m.1 ++ w!",target=" ++ m.2])
  ++ [c.imageName]
  ++ (match c.command with | some cmd => cmd | none => [])

def dockerExecArgv (container : Word) (command : List Word) : List Word :=
  [w!"exec", container] ++ command

def dockerLogsArgv (container : Word) (follow : Bool) : List Word :=
  [w!"logs", container] ++ (if follow then [w!"--follow"] else [])

def dockerPortArgv (container : Word) (port : Nat) : List Word :=
  [w!"port", container, natToDec port]

/-- `DockerRemoveContainerCommand::new` sets `force: true` -/
def dockerRmArgv (container : Word) : List Word := [w!"rm", container, w!"--force"]

def dockerRmiArgv (image : Word) : List Word := [w!"rmi", image, w!"--force"]

def dockerVolumeRemoveArgv (volumes : List Word) : List Word :=
  [w!"volume", w!"remove"] ++ volumes ++ [w!"--force"]

/-! ### pack.rs -/

/-- `PackBuildCommand`; `pull_policy` is always `IfNotPresent`, both trust flags always `true` (`new`) -/
structure PackBuildCommand where
  buildCacheVolumeName : Word
  builder : Word
  buildpacks : List Word
  env : List (Word × Word)
  imageName : Word
  launchCacheVolumeName : Word
  path : Word
deriving Repr

def packBuildArgv (c : PackBuildCommand) : List Word :=
  [w!"build", c.imageName,
   w!"--builder", c.builder,
   w!"--cache", w!"type=build;format=volume;name=" ++ c.buildCacheVolumeName,
   w!"--cache", w!"type=launch;format=volume;name=" ++ c.launchCacheVolumeName,
   w!"--path", c.path,
   w!"--pull-policy", w!"if-not-present"]
  ++ c.buildpacks.flatMap (fun b => [w!"--buildpack", b])
  ++ c.env.flatMap (fun kv => [w!"--env", kv.1 ++ [61] ++ kv.2])
  ++ [w!"--trust-builder", w!"--trust-extra-buildpacks"]

def packSbomDownloadArgv (image outputDir : Word) : List Word :=
  [w!"sbom", w!"download", image, w!"--output-dir", outputDir]

/-! ### the user's configuration and how it is poured into the command structs -/

/-- `ContainerConfig`: the builder calls in order (`env(k, v)`, `expose_port(p)`, `bind_mount(src, dst)`) -/
structure ContainerConfig where
  entrypoint : Option Word
  command : Option (List Word)
  env : List (Word × Word)
  exposedPorts : List Nat
  bindMounts : List (Word × Word)
deriving Repr

/-- `TestContext::determine_container_platform`; `none` = `unimplemented!` -/
def platformOf (triple : Word) : Option Word :=
  if triple = w!"aarch64-unknown-linux-musl" then some w!"linux/arm64"
  else if triple = w!"x86_64-unknown-linux-musl" then some w!"linux/amd64"
  else none

/-- `TestContext::start_container`, up to the `docker run` -/
def startContainerCommand (image name platform : Word) (cfg : ContainerConfig) : DockerRunCommand :=
  { command := cfg.command, containerName := name, detach := true, entrypoint := cfg.entrypoint,
    env := btOfList bytesLt cfg.env, exposedPorts := bsOfList cfg.exposedPorts, imageName := image,
    platform := some platform, remove := false, bindMounts := btOfList pathLt cfg.bindMounts }

/-- `util::CNB_LAUNCHER_BINARY` -/
def launcher : Word := w!"launcher"

/-- `TestContext::run_shell_command` -/
def runShellCommand (image name platform command : Word) : DockerRunCommand :=
  { command := some [command], containerName := name, detach := false, entrypoint := some launcher,
    env := [], exposedPorts := [], imageName := image, platform := some platform, remove := true, bindMounts := [] }

/-- `ContainerContext::shell_exec` -/
def shellExecArgv (container command : Word) : List Word := dockerExecArgv container [launcher, command]

/-- the parts of `BuildConfig` that reach `pack` when every buildpack is `BuildpackReference::Other` -/
structure BuildConfig where
  appDir : Word
  builder : Word
  buildpacks : List Word
  env : List (Word × Word)
deriving Repr

/-- `TemporaryDockerResources` as created by `TestRunner::build` -/
structure Resources where
  buildCacheVolumeName : Word
  imageName : Word
  launchCacheVolumeName : Word
deriving Repr

def resourcesFor (image : Word) : Resources :=
  ⟨image ++ w!".build-cache", image, image ++ w!".launch-cache"⟩

/-- `build_internal`: `cargo_manifest_dir.join(app_dir)` for a relative app dir -/
def normalizedAppDir (manifest appDir : Word) : Word := pathJoin manifest appDir

/-- `build_internal`, up to the `pack build`; `appPath` is the normalised fixture path or the private copy -/
def packBuildCommand (res : Resources) (cfg : BuildConfig) (appPath : Word) : PackBuildCommand :=
  { buildCacheVolumeName := res.buildCacheVolumeName, builder := cfg.builder, buildpacks := cfg.buildpacks,
    env := btOfList bytesLt cfg.env, imageName := res.imageName,
    launchCacheVolumeName := res.launchCacheVolumeName, path := appPath }

end CnbVerif.Argv
