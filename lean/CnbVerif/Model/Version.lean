import CnbVerif.Base.Proto
import CnbVerif.Base.Decimal
/-!
Model of `libcnb-data/src/buildpack/version.rs` (`BuildpackVersion: TryFrom<String>`, `Display`) and
`libcnb-data/src/buildpack/api.rs` (`BuildpackApi: TryFrom<String>`, `Display`), in the code's own order, **as the code is
after the minimal repair of defect D3**: every component must be a non-empty string of ASCII digits before it is handed to
`u64::from_str` (which on its own also accepts a leading `+`). Everything else is unchanged: `split('.')`, the
leading-zero rule of versions, exactly three parts; `split_once('.')` with default minor `0` for the API. Core Lean only.
-/
namespace CnbVerif

/-- 2^64 -/
def u64Bound : Nat := 18446744073709551616

/-- Rust `u64::from_str` (`core::num`, radix 10, unsigned): empty ⇒ error; a lone `+` ⇒ error; one leading `+` is
stripped; every remaining byte must be an ASCII digit; overflow of `u64` ⇒ error. (`-` is not stripped for unsigned types
and is then an invalid digit.) Leading zeros are accepted. -/
def u64FromStr (s : List Char) : Option Nat :=
  let ds := match s with
    | '+' :: r => r
    | _ => s
  match digitsValue ds with
  | some n => if n < u64Bound then some n else none
  | none => none

/-- the repaired component parser: `if !s.is_empty() && s.bytes().all(|b| b.is_ascii_digit()) { s.parse().ok() } else { None }` -/
def parseU64 (s : List Char) : Option Nat :=
  if s ≠ [] ∧ s.all isAsciiDigit = true then u64FromStr s else none

/-- the closure of `BuildpackVersion::try_from`: `if s.starts_with('0') && s != "0" { None } else { component(s) }` -/
def versionComponent (s : List Char) : Option Nat :=
  if s.head? = some '0' ∧ s ≠ ['0'] then none else parseU64 s

/-- `BuildpackVersion::try_from(String)`: `value.split('.').map(component).collect::<Option<Vec<_>>>()` must be a slice
of exactly three numbers -/
def parseVersion (s : List Char) : Option (Nat × Nat × Nat) :=
  match allSome ((splitChar '.' s).map versionComponent) with
  | some [a, b, c] => some (a, b, c)
  | _ => none

/-- `Display for BuildpackVersion`: `format!("{}.{}.{}", major, minor, patch)` (`Display for u64` = canonical decimal) -/
def displayVersion (v : Nat × Nat × Nat) : List Char :=
  render v.1 ++ '.' :: (render v.2.1 ++ '.' :: render v.2.2)

/-- `BuildpackApi::try_from(String)`: `value.split_once('.').unwrap_or((&value, "0"))`, both parts parsed -/
def parseApi (s : List Char) : Option (Nat × Nat) :=
  let p := (splitOnce '.' s).getD (s, ['0'])
  match parseU64 p.1 with
  | none => none
  | some a =>
    match parseU64 p.2 with
    | none => none
    | some b => some (a, b)

/-- `Display for BuildpackApi`: `format!("{}.{}", major, minor)` -/
def displayApi (v : Nat × Nat) : List Char := render v.1 ++ '.' :: render v.2

end CnbVerif
