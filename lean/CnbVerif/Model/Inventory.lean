import CnbVerif.Base.Proto
/-!
# Model of C18 — `libherokubuildpack/src/inventory.rs`, `inventory/{artifact,checksum,version}.rs`

In the code's own order:

* `Inventory::resolve` = `artifacts.iter().filter(matches).max_by_key(|a| &a.version)`; `Iterator::max_by_key` is
  `reduce(|x, y| match compare(key x, key y) { Greater => x, _ => y })`, i.e. it returns the **last** maximum.
* `Inventory::partial_resolve` = the local `partial_max_by_key`: `fold(None, |acc, item| match acc { None => Some(item),
  Some(acc) => match key(item).partial_cmp(key(acc)) { Some(Greater | Equal) => Some(item), None | Some(Less) => Some(acc) } })`.
* `Checksum::from_str` = `split_once(':')` (missing ⇒ `MissingPrefix`), `hex::decode` of the part after the first colon
  (`InvalidValue`), then `D::name_compatible` (`IncompatiblePrefix`), then `D::length_compatible` (`InvalidChecksumLength`).
  `Serialize` = `format!("{}:{}", name, hex::encode(value))`.
* serde shapes: `Os`/`Arch` are `rename_all = "lowercase"` unit-variant enums; an `Artifact` is the record
  `version, os, arch, url, checksum, metadata`.

Everything is generic over the version type `V` (with its comparison passed explicitly: `cmp` for `Ord`, `pcmp` for
`PartialOrd`) and the metadata type `M`. Strings are `List Char`. Core Lean only.
-/
namespace CnbVerif.Inventory

inductive Os | darwin | linux
deriving DecidableEq, Repr

inductive Arch | amd64 | arm64
deriving DecidableEq, Repr

/-- `Checksum<D>`: algorithm name and digest bytes -/
structure Checksum where
  name : List Char
  value : Bytes
deriving DecidableEq, Repr

structure Artifact (V M : Type) where
  version : V
  os : Os
  arch : Arch
  url : List Char
  checksum : Checksum
  metadata : M
deriving DecidableEq, Repr

/-- `ArtifactRequirement<V, M>`: `satisfies_version`, `satisfies_metadata` -/
structure Req (V M : Type) where
  version : V → Bool
  metadata : M → Bool

/-- the filter closure shared by `resolve` and `partial_resolve` -/
def selects {V M : Type} (os : Os) (arch : Arch) (req : Req V M) (a : Artifact V M) : Bool :=
  a.os == os && a.arch == arch && req.version a.version && req.metadata a.metadata

/-- the closure `max_by` reduces with: keep the earlier element only when it is strictly greater -/
def maxStep {α V : Type} (cmp : V → V → Ordering) (key : α → V) (acc y : α) : α :=
  match cmp (key acc) (key y) with
  | .gt => acc
  | _ => y

/-- `Iterator::max_by_key` (std): the last element whose key is maximal -/
def maxByKeyLast {α V : Type} (cmp : V → V → Ordering) (key : α → V) : List α → Option α
  | [] => none
  | x :: xs => some (xs.foldl (maxStep cmp key) x)

/-- the step of `partial_max_by_key`'s fold -/
def partialStep {α V : Type} (pcmp : V → V → Option Ordering) (key : α → V) (acc : Option α) (item : α) : Option α :=
  match acc with
  | none => some item
  | some a =>
    match pcmp (key item) (key a) with
    | some .gt => some item
    | some .eq => some item
    | _ => some a

/-- `partial_max_by_key` (local fn of `partial_resolve`) -/
def partialMaxByKey {α V : Type} (pcmp : V → V → Option Ordering) (key : α → V) (l : List α) : Option α :=
  l.foldl (partialStep pcmp key) none

/-- `Inventory::resolve` for `V: Ord` -/
def resolve {V M : Type} (cmp : V → V → Ordering) (inv : List (Artifact V M)) (os : Os) (arch : Arch) (req : Req V M) :
    Option (Artifact V M) :=
  maxByKeyLast cmp (·.version) (inv.filter (selects os arch req))

/-- `Inventory::partial_resolve` for `V: PartialOrd` -/
def partialResolve {V M : Type} (pcmp : V → V → Option Ordering) (inv : List (Artifact V M)) (os : Os) (arch : Arch)
    (req : Req V M) : Option (Artifact V M) :=
  partialMaxByKey pcmp (·.version) (inv.filter (selects os arch req))

/-! ## checksums -/

/-- trait `Digest` -/
structure Digest where
  nameCompatible : List Char → Bool
  lengthCompatible : Nat → Bool

inductive ChecksumErr | missingPrefix | incompatiblePrefix | invalidValue | invalidLength
deriving DecidableEq, Repr

/-- `str::split_once(':')`: split at the first colon -/
def splitOnceColon : List Char → Option (List Char × List Char)
  | [] => none
  | c :: rest =>
    if c = ':' then some ([], rest)
    else match splitOnceColon rest with
      | none => none
      | some (k, v) => some (c :: k, v)

/-- `hex::decode`: even length, digits of either case (`hexDecodeChars` of `Base/Proto`) -/
def decodeHex (s : List Char) : Option Bytes := hexDecodeChars s

/-- `hex::encode`: lowercase -/
def encodeHex (b : Bytes) : List Char := hexEncodeChars b

/-- `impl FromStr for Checksum<D>` -/
def parseChecksum (d : Digest) (s : List Char) : Except ChecksumErr Checksum :=
  match splitOnceColon s with
  | none => .error .missingPrefix
  | some (key, value) =>
    match decodeHex value with
    | none => .error .invalidValue
    | some bytes =>
      if !d.nameCompatible key then .error .incompatiblePrefix
      else if !d.lengthCompatible bytes.length then .error .invalidLength
      else .ok ⟨key, bytes⟩

/-- `impl Serialize for Checksum<D>` -/
def renderChecksum (c : Checksum) : List Char := c.name ++ ':' :: encodeHex c.value

/-! ## the serde record of an artifact (the level below is TOML text, left to the correspondence) -/

def Os.render : Os → List Char
  | .darwin => "darwin".toList
  | .linux => "linux".toList

def Arch.render : Arch → List Char
  | .amd64 => "amd64".toList
  | .arm64 => "arm64".toList

/-- derived `Deserialize` with `rename_all = "lowercase"`: exactly the lowercase variant names -/
def Os.parse (s : List Char) : Option Os :=
  if s = "darwin".toList then some .darwin else if s = "linux".toList then some .linux else none

def Arch.parse (s : List Char) : Option Arch :=
  if s = "amd64".toList then some .amd64 else if s = "arm64".toList then some .arm64 else none

/-- what serde sees of one artifact; `EV`, `EM` are the serialised forms of the user's version and metadata types -/
structure Rec (EV EM : Type) where
  version : EV
  os : List Char
  arch : List Char
  url : List Char
  checksum : List Char
  metadata : EM

/-- a user type's `Serialize`/`Deserialize` pair -/
structure Codec (α E : Type) where
  enc : α → E
  dec : E → Option α

def encodeArtifact {V M EV EM : Type} (cv : Codec V EV) (cm : Codec M EM) (a : Artifact V M) : Rec EV EM :=
  ⟨cv.enc a.version, a.os.render, a.arch.render, a.url, renderChecksum a.checksum, cm.enc a.metadata⟩

def decodeArtifact {V M EV EM : Type} (cv : Codec V EV) (cm : Codec M EM) (d : Digest) (r : Rec EV EM) : Option (Artifact V M) :=
  match cv.dec r.version, Os.parse r.os, Arch.parse r.arch, parseChecksum d r.checksum, cm.dec r.metadata with
  | some v, some os, some arch, .ok c, some m => some ⟨v, os, arch, r.url, c, m⟩
  | _, _, _, _, _ => none

def encodeInventory {V M EV EM : Type} (cv : Codec V EV) (cm : Codec M EM) (inv : List (Artifact V M)) : List (Rec EV EM) :=
  inv.map (encodeArtifact cv cm)

def decodeInventory {V M EV EM : Type} (cv : Codec V EV) (cm : Codec M EM) (d : Digest) :
    List (Rec EV EM) → Option (List (Artifact V M))
  | [] => some []
  | r :: rs =>
    match decodeArtifact cv cm d r, decodeInventory cv cm d rs with
    | some a, some as => some (a :: as)
    | _, _ => none

/-! ## the version types the correspondence harness instantiates `V` with -/

/-- `Tv(u32)`: `#[derive(PartialOrd, Ord)]` on an integer -/
def natCmp (a b : Nat) : Ordering := compare a b

/-- `Pv(u8, u8)` with a hand-written `PartialOrd`: the product order, `(a₁,a₂) ≤ (b₁,b₂)` iff `a₁ ≤ b₁` and `a₂ ≤ b₂`;
`(0,1)` and `(1,0)` are incomparable -/
def pairPCmp (a b : Nat × Nat) : Option Ordering :=
  if a.1 = b.1 ∧ a.2 = b.2 then some .eq
  else if a.1 ≤ b.1 ∧ a.2 ≤ b.2 then some .lt
  else if b.1 ≤ a.1 ∧ b.2 ≤ a.2 then some .gt
  else none

end CnbVerif.Inventory
