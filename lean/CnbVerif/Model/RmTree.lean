import CnbVerif.Base.Proto
import CnbVerif.Gen.Tables
/-!
Model for C11: a file system with **symlinks and permission modes**, the permission-fixing recursive removal
`libcnb/src/util.rs remove_dir_recursively`, `libcnb/src/layer/shared.rs delete_layer`, and the three public
operations that reach it (`BuildContext::uncached_layer`, `cached_layer` with a `DeleteLayer` decision, the trait API's
`handle_layer` with `ExistingLayerStrategy::Recreate`) — each with the outcome of the **buildpack's part** of the call
(`Bp`): the deciding callback (`restored_layer_action` / `invalid_metadata_action`, `existing_layer_strategy` /
`migrate_incompatible_metadata`) answers "delete" or returns `Err`; the trait API's `Layer::create` succeeds or returns
`Err` — in the code's own order: read, decide, delete, `create_dir_all`, `create`, write.

*Data.* The file system is the flat map `FS := path ↦ node` (`file mode bytes | dir mode | link target`), a path being the
list of its components below the root of the world (the directory that holds the layers directory and whatever lies
beside it). Keys are **canonical** paths; every system call takes a *syntactic* path and resolves it as the kernel does:
component by component, following symlinks (relative and absolute targets, `.`/`..`) under a budget of 40 expansions
(`ELOOP`), the last component being followed or not depending on the call.

*Hard links.* A regular file whose inode has (or had, when the state was recorded) more than one name is the node
`hard ino mode content` under each of its names; names with the same `ino` are the same file. A system call that acts
on the *inode* through one name (`chmod`) acts on every name of it (`chmodIno`); a call that acts on the *name*
(`unlink`) removes that name only and leaves the inode's other names exactly as they were. A private regular file (one
name) stays `file mode content`. In-place `fs::write` through a name of a shared inode is outside the model
(`unsupported`, like a write through a symlink): `request` writes `<name>.toml` only where no file stands.

*Permissions* are a parameter `root : Bool`: as root nothing is denied; otherwise search (x) on every directory walked
through, read (r) to list a directory, write+search on the parent to create or remove an entry, owner bits only, every
node owned by the caller (so `chmod` is always allowed). ACLs, sticky bits, mount points are out (DESIGN §7 C11).

`removeDirRecursively` is modelled **as repaired for defects D4 and D8**: a path that is not a directory — a symlink
(D4), a regular file (D8) — is unlinked as such, never `chmod`-ed, never descended into (`symlink_metadata` first).
`rmRecOld` is the code before the repair of D4, `rmRecMid` the code between the two repairs (only a symlink is unlinked;
a regular file is `chmod 0777`-ed before `read_dir` fails); both are kept for the counterexamples.
-/
namespace CnbVerif.RmTree
open CnbVerif

abbrev Name := Bytes
abbrev Path := List Name

/-! ## Plain data (shared with `Spec/Frame.lean`) -/

inductive Node where
  | file (mode : Nat) (content : Bytes)
  | dir (mode : Nat)
  | link (target : Bytes)
  /-- one name of the regular file with inode `ino`, which has other names as well (hard links) -/
  | hard (ino : Nat) (mode : Nat) (content : Bytes)
deriving DecidableEq, Repr

abbrev FS := List (Path × Node)

/-- the node recorded at a canonical path (first binding wins) -/
def fget : FS → Path → Option Node
  | [], _ => none
  | (k, v) :: r, p => if k = p then some v else fget r p

def Node.isDir : Node → Bool
  | .dir _ => true
  | _ => false

def Node.isLink : Node → Bool
  | .link _ => true
  | _ => false

def isDirAt (fs : FS) (p : Path) : Bool :=
  match fget fs p with
  | some (.dir _) => true
  | _ => false

def isLinkAt (fs : FS) (p : Path) : Bool :=
  match fget fs p with
  | some (.link _) => true
  | _ => false

def Node.isHard : Node → Bool
  | .hard _ _ _ => true
  | _ => false

/-- a name of a regular file that has other names as well -/
def isHardAt (fs : FS) (p : Path) : Bool :=
  match fget fs p with
  | some (.hard _ _ _) => true
  | _ => false

/-- `a` is a prefix of `b` (component-wise) -/
def isPre : Path → Path → Bool
  | [], _ => true
  | _ :: _, [] => false
  | a :: as, b :: bs => if a = b then isPre as bs else false

/-- a tree: every recorded path below the first level has a recorded directory as its parent -/
def WF (fs : FS) : Prop := ∀ k v, fget fs k = some v → k.dropLast ≠ [] → isDirAt fs k.dropLast = true

def wfB (fs : FS) : Bool := fs.all (fun kv => decide (kv.1.dropLast = []) || isDirAt fs kv.1.dropLast)

/-! ## Names of the layer's own paths -/

/-- the layers directory, as a component below the root of the world -/
def layersName : Name := [108, 97, 121, 101, 114, 115] -- "layers"

def tomlName (n : Name) : Name := n ++ [46, 116, 111, 109, 108] -- ".toml"

/-- `libcnb/src/sbom.rs cnb_sbom_path` suffixes, regenerated from the source -/
def sbomExts : List Bytes := Gen.sbomSuffixes.map (fun s => s.2.toList.map Char.toNat)

def sbomName (n : Name) (ext : Bytes) : Name := n ++ [46, 115, 98, 111, 109, 46] ++ ext -- ".sbom."

def layerPath (n : Name) : Path := [layersName, n]
def tomlPath (n : Name) : Path := [layersName, tomlName n]
def sbomPaths (n : Name) : List Path := sbomExts.map (fun e => [layersName, sbomName n e])

/-! ## Map updates -/

def ferase (fs : FS) (p : Path) : FS := fs.filter (fun kv => !decide (kv.1 = p))
def fset (fs : FS) (p : Path) (v : Node) : FS := (p, v) :: ferase fs p

/-! ## Path resolution -/

inductive Err
  | notFound | notDir | isDir | access | loop | notEmpty | exists | fuel | unsupported | parse
  /-- not a system call's failure: the buildpack's callback returned `Err` -/
  | buildpack
deriving DecidableEq, Repr

instance instDecEqExcept {ε α : Type} [DecidableEq ε] [DecidableEq α] : DecidableEq (Except ε α)
  | .ok a, .ok b => if h : a = b then isTrue (by rw [h]) else isFalse (by intro e; cases e; exact h rfl)
  | .error a, .error b => if h : a = b then isTrue (by rw [h]) else isFalse (by intro e; cases e; exact h rfl)
  | .ok _, .error _ => isFalse (by intro e; cases e)
  | .error _, .ok _ => isFalse (by intro e; cases e)

inductive Comp
  | name (n : Name)
  | up
deriving DecidableEq, Repr

def splitSlash : Bytes → List Bytes
  | [] => [[]]
  | b :: rest =>
    if b = 47 then [] :: splitSlash rest
    else match splitSlash rest with
      | [] => [[b]]
      | h :: t => (b :: h) :: t

/-- components of a link target: empty components and `.` vanish, `..` goes up -/
def compsOf (b : Bytes) : List Comp :=
  (splitSlash b).filterMap (fun s =>
    if s = [] ∨ s = [46] then none else if s = [46, 46] then some Comp.up else some (Comp.name s))

def isAbs : Bytes → Bool
  | 47 :: _ => true
  | _ => false

def bit (m b : Nat) : Bool := (m / b) % 2 == 1

/-- may the caller look names up in the directory at canonical path `cur`? (the root of the world always) -/
def searchOk (root : Bool) (fs : FS) (cur : Path) : Bool :=
  root || match fget fs cur with
    | some (.dir m) => bit m 64
    | _ => true

/-- may the caller add or remove an entry in the parent directory of canonical path `q`? -/
def parentW (root : Bool) (fs : FS) (q : Path) : Bool :=
  root || match fget fs q.dropLast with
    | some (.dir m) => bit m 128 && bit m 64
    | _ => true

inductive StepRes
  | done (q : Path)
  | expand (cur : Path) (rest : List Comp)
  | err (e : Err)
deriving DecidableEq, Repr

/-- walk components from the canonical directory `cur` until the end or the next symlink to expand -/
def walkComps (root : Bool) (fs : FS) (follow : Bool) : Path → List Comp → StepRes
  | cur, [] => .done cur
  | cur, .up :: rest => walkComps root fs follow cur.dropLast rest
  | cur, .name x :: rest =>
    if searchOk root fs cur then
      match fget fs (cur ++ [x]) with
      | none => .err .notFound
      | some (.link tgt) =>
        if rest.isEmpty && !follow then .done (cur ++ [x])
        else .expand (if isAbs tgt then [] else cur) (compsOf tgt ++ rest)
      | some (.dir _) => walkComps root fs follow (cur ++ [x]) rest
      | some (.file _ _) => if rest.isEmpty then .done (cur ++ [x]) else .err .notDir
      | some (.hard _ _ _) => if rest.isEmpty then .done (cur ++ [x]) else .err .notDir
    else .err .access

def walk (root : Bool) (fs : FS) (follow : Bool) : Nat → Path → List Comp → Except Err Path
  | 0, _, _ => .error .loop
  | f + 1, cur, cs =>
    match walkComps root fs follow cur cs with
    | .done q => .ok q
    | .err e => .error e
    | .expand c cs' => walk root fs follow f c cs'

/-- canonical path of a syntactic path (`MAXSYMLINKS` = 40 expansions) -/
def resolve (root : Bool) (fs : FS) (follow : Bool) (p : Path) : Except Err Path :=
  walk root fs follow 41 [] (p.map Comp.name)

/-- `lstat` / `symlink_metadata`: the last component is not followed -/
def lstat (root : Bool) (fs : FS) (p : Path) : Except Err (Path × Node) :=
  match resolve root fs false p with
  | .error e => .error e
  | .ok q => match fget fs q with
    | some v => .ok (q, v)
    | none => .error .notFound

/-- `stat` / `metadata`: every link is followed -/
def stat (root : Bool) (fs : FS) (p : Path) : Except Err (Path × Node) :=
  match resolve root fs true p with
  | .error e => .error e
  | .ok q => match fget fs q with
    | some v => .ok (q, v)
    | none => .error .notFound

def existsB (root : Bool) (fs : FS) (p : Path) : Bool :=
  match stat root fs p with
  | .ok _ => true
  | .error _ => false

def isDirB (root : Bool) (fs : FS) (p : Path) : Bool :=
  match stat root fs p with
  | .ok (_, .dir _) => true
  | _ => false

/-! ## System calls -/

/-- the mode of inode `i` becomes `m` -/
def Node.remode (i m : Nat) : Node → Node
  | .hard j m' c => if j = i then .hard j m c else .hard j m' c
  | v => v

/-- `chmod` on the inode `i`: the new mode shows under every one of its names -/
def chmodIno (i m : Nat) (fs : FS) : FS := fs.map (fun kv => (kv.1, kv.2.remode i m))

/-- `fs::set_permissions` (follows links; the caller owns every node). The mode belongs to the inode: through a name of
a shared inode every other name of it changes as well. -/
def chmod (root : Bool) (fs : FS) (p : Path) (m : Nat) : Except Err FS :=
  match stat root fs p with
  | .error e => .error e
  | .ok (q, .file _ c) => .ok (fset fs q (.file m c))
  | .ok (q, .dir _) => .ok (fset fs q (.dir m))
  | .ok (_, .link _) => .ok fs
  | .ok (_, .hard i _ _) => .ok (chmodIno i m fs)

def stripPre : Path → Path → Option Path
  | [], k => some k
  | _ :: _, [] => none
  | a :: as, b :: bs => if a = b then stripPre as bs else none

/-- names of the immediate children of the directory at canonical path `q`, each once -/
def childNames (q : Path) : FS → List Name
  | [] => []
  | (k, _) :: r =>
    match stripPre q k with
    | some [x] => x :: (childNames q r).filter (fun y => !decide (y = x))
    | _ => childNames q r

/-- `fs::read_dir` (follows links) with each entry's `file_type` (`d_type`: the entry itself, links not followed) -/
def readDir (root : Bool) (fs : FS) (p : Path) : Except Err (List (Name × Bool)) :=
  match stat root fs p with
  | .error e => .error e
  | .ok (q, .dir m) =>
    if root || bit m 256 then .ok ((childNames q fs).map (fun x => (x, isDirAt fs (q ++ [x]))))
    else .error .access
  | .ok _ => .error .notDir

/-- `fs::remove_file`: the *name* goes; a shared inode's other names (their mode, their content) are not touched -/
def unlink (root : Bool) (fs : FS) (p : Path) : Except Err FS :=
  match lstat root fs p with
  | .error e => .error e
  | .ok (_, .dir _) => .error .isDir
  | .ok (q, _) => if parentW root fs q then .ok (ferase fs q) else .error .access

/-- does any recorded path lie strictly below `q`? -/
def hasBelow (fs : FS) (q : Path) : Bool := fs.any (fun kv => isPre q kv.1 && !decide (kv.1 = q))

/-- `fs::remove_dir`: only an empty real directory -/
def rmdir (root : Bool) (fs : FS) (p : Path) : Except Err FS :=
  match lstat root fs p with
  | .error e => .error e
  | .ok (q, .dir _) =>
    if hasBelow fs q then .error .notEmpty
    else if parentW root fs q then .ok (ferase fs q) else .error .access
  | .ok _ => .error .notDir

/-- canonical path of an existing directory (the root of the world is one) -/
def statDir (root : Bool) (fs : FS) (p : Path) : Except Err Path :=
  if p = [] then .ok [] else
  match stat root fs p with
  | .error e => .error e
  | .ok (q, .dir _) => .ok q
  | .ok _ => .error .notDir

def newDirMode : Nat := 0o755
def newFileMode : Nat := 0o644

/-- `mkdir` (umask 022) -/
def mkdir (root : Bool) (fs : FS) (p : Path) : Except Err FS :=
  match p.getLast? with
  | none => .error .exists
  | some x =>
    match statDir root fs p.dropLast with
    | .error e => .error e
    | .ok q =>
      if searchOk root fs q then
        match fget fs (q ++ [x]) with
        | some _ => .error .exists
        | none => if parentW root fs (q ++ [x]) then .ok (fset fs (q ++ [x]) (.dir newDirMode)) else .error .access
      else .error .access

/-- `fs::create_dir_all` -/
def mkdirAll (root : Bool) : Nat → FS → Path → Except Err FS
  | 0, fs, _ => .ok fs
  | f + 1, fs, p =>
    if p = [] then .ok fs else
    match mkdir root fs p with
    | .ok fs1 => .ok fs1
    | .error e =>
      if e = .notFound then
        match mkdirAll root f fs p.dropLast with
        | .error e' => .error e'
        | .ok fs1 =>
          match mkdir root fs1 p with
          | .ok fs2 => .ok fs2
          | .error e2 => if isDirB root fs1 p then .ok fs1 else .error e2
      else if isDirB root fs p then .ok fs else .error e

/-- `fs::write` (create or truncate, umask 022). Writing *through* a symlink, or in place through a name of a shared
inode, is outside the model (`unsupported`). -/
def writeFile (root : Bool) (fs : FS) (p : Path) (content : Bytes) : Except Err FS :=
  match lstat root fs p with
  | .ok (q, .file m _) => if root || bit m 128 then .ok (fset fs q (.file m content)) else .error .access
  | .ok (_, .dir _) => .error .isDir
  | .ok (_, .link _) => .error .unsupported
  | .ok (_, .hard _ _ _) => .error .unsupported
  | .error e =>
    if e = .notFound then
      match p.getLast? with
      | none => .error .isDir
      | some x =>
        match statDir root fs p.dropLast with
        | .error e' => .error e'
        | .ok q =>
          if searchOk root fs q then
            match fget fs (q ++ [x]) with
            | some _ => .error .unsupported
            | none =>
              if parentW root fs (q ++ [x]) then .ok (fset fs (q ++ [x]) (.file newFileMode content)) else .error .access
          else .error .access
    else .error e

/-- `fs::read_to_string` -/
def readFile (root : Bool) (fs : FS) (p : Path) : Except Err Bytes :=
  match stat root fs p with
  | .error e => .error e
  | .ok (_, .file m c) => if root || bit m 256 then .ok c else .error .access
  | .ok (_, .hard _ m c) => if root || bit m 256 then .ok c else .error .access
  | .ok (_, .dir _) => .error .isDir
  | .ok (_, .link _) => .error .loop

/-! ## `remove_dir_recursively` -/

/-- result of an operation that may fail half-way: the verdict and the file system it leaves behind -/
abbrev Res := Except Err Unit × FS

def lift (fs : FS) : Except Err FS → Res
  | .ok fs' => (.ok (), fs')
  | .error e => (.error e, fs)

/-- the `for entry in read_dir(dir)` loop: a directory entry (by its own file type) is descended into, anything else
is `remove_file`d; the first failure ends the loop -/
def rmEntries (root : Bool) (rec : FS → Path → Res) (p : Path) : List (Name × Bool) → FS → Res
  | [], fs => (.ok (), fs)
  | (x, isD) :: xs, fs =>
    match (if isD then rec fs (p ++ [x]) else lift fs (unlink root fs (p ++ [x]))) with
    | (.error e, fs') => (.error e, fs')
    | (.ok _, fs') => rmEntries root rec p xs fs'

/-- `remove_dir_recursively` **as repaired** (D4, D8): a path that is not a directory (a symlink, a regular file with one
name or several) is unlinked as such; a directory is `chmod 0777`-ed, emptied, `remove_dir`-ed -/
def rmRec (root : Bool) : Nat → FS → Path → Res
  | 0, fs, _ => (.error .fuel, fs)
  | f + 1, fs, p =>
    match lstat root fs p with
    | .error e => (.error e, fs)
    | .ok (_, .dir _) =>
      match chmod root fs p 0o777 with
      | .error e => (.error e, fs)
      | .ok fs1 =>
        match readDir root fs1 p with
        | .error e => (.error e, fs1)
        | .ok entries =>
          match rmEntries root (fun s q => rmRec root f s q) p entries fs1 with
          | (.error e, fs2) => (.error e, fs2)
          | (.ok _, fs2) => lift fs2 (rmdir root fs2 p)
    | .ok _ => lift fs (unlink root fs p)

/-- the code **between** the repairs of D4 and D8: only a symlink is unlinked; anything else — also a regular file — is
`chmod 0777`-ed (through to its inode) before `read_dir` -/
def rmRecMid (root : Bool) : Nat → FS → Path → Res
  | 0, fs, _ => (.error .fuel, fs)
  | f + 1, fs, p =>
    match lstat root fs p with
    | .error e => (.error e, fs)
    | .ok (_, .link _) => lift fs (unlink root fs p)
    | .ok _ =>
      match chmod root fs p 0o777 with
      | .error e => (.error e, fs)
      | .ok fs1 =>
        match readDir root fs1 p with
        | .error e => (.error e, fs1)
        | .ok entries =>
          match rmEntries root (fun s q => rmRecMid root f s q) p entries fs1 with
          | (.error e, fs2) => (.error e, fs2)
          | (.ok _, fs2) => lift fs2 (rmdir root fs2 p)

/-- the code **before** the repair of D4: no look at the path itself, `chmod` and `read_dir` follow a top-level link -/
def rmRecOld (root : Bool) : Nat → FS → Path → Res
  | 0, fs, _ => (.error .fuel, fs)
  | f + 1, fs, p =>
    match chmod root fs p 0o777 with
    | .error e => (.error e, fs)
    | .ok fs1 =>
      match readDir root fs1 p with
      | .error e => (.error e, fs1)
      | .ok entries =>
        match rmEntries root (fun s q => rmRecOld root f s q) p entries fs1 with
        | (.error e, fs2) => (.error e, fs2)
        | (.ok _, fs2) => lift fs2 (rmdir root fs2 p)

/-! ## `delete_layer` -/

/-- `default_on_not_found(fs::remove_file(p))?` for each path in turn -/
def unlinkAll (root : Bool) : FS → List Path → Res
  | fs, [] => (.ok (), fs)
  | fs, p :: ps =>
    match unlink root fs p with
    | .ok fs' => unlinkAll root fs' ps
    | .error e => if e = .notFound then unlinkAll root fs ps else (.error e, fs)

/-- depth budget of the recursion: no recorded path is longer than the longest one -/
def maxKeyLen : FS → Nat
  | [] => 0
  | (k, _) :: r => max k.length (maxKeyLen r)

def depthFuel (fs : FS) : Nat := maxKeyLen fs + 1

/-- `delete_layer`: the directory (not-found tolerated, wherever it arises), then `<name>.toml`, then the SBOM files -/
def deleteLayerWith (rm : FS → Path → Res) (root : Bool) (fs : FS) (n : Name) : Res :=
  match rm fs (layerPath n) with
  | (.error e, fs1) =>
    if e = .notFound then unlinkAll root fs1 (tomlPath n :: sbomPaths n) else (.error e, fs1)
  | (.ok _, fs1) => unlinkAll root fs1 (tomlPath n :: sbomPaths n)

def deleteLayer (root : Bool) (fs : FS) (n : Name) : Res :=
  deleteLayerWith (fun s p => rmRec root (depthFuel fs) s p) root fs n

def deleteLayerOld (root : Bool) (fs : FS) (n : Name) : Res :=
  deleteLayerWith (fun s p => rmRecOld root (depthFuel fs) s p) root fs n

def deleteLayerMid (root : Bool) (fs : FS) (n : Name) : Res :=
  deleteLayerWith (fun s p => rmRecMid root (depthFuel fs) s p) root fs n

/-! ## The public operations that delete and recreate a layer -/

inductive Api
  | uncached   -- `BuildContext::uncached_layer`
  | cached     -- `BuildContext::cached_layer`, both callbacks answer `DeleteLayer`
  | handle     -- trait API `handle_layer`, `ExistingLayerStrategy::Recreate` / `MetadataMigration::RecreateLayer`
deriving DecidableEq, Repr

/-- where an operation failed: the variant of `LayerError` reported (`read`, `delete`, `write`), or the buildpack's own
error (`Error::BuildpackError`) and which callback returned it — the deciding one (`decide`: nothing was deleted yet),
`Layer::create` for a layer that did not exist (`create`), `Layer::create` after the existing layer had been deleted
(`recreate`) -/
inductive Stage | read | delete | write | decide | create | recreate
deriving DecidableEq, Repr

/-- what the buildpack's part of the call does: every callback succeeds (and decides to delete) / `Layer::create`
returns `Err` (trait API only; the struct API has no such callback) / the deciding callback returns `Err` (the struct
API's `cached_layer` and the trait API; `uncached_layer` has no callback) -/
inductive Bp | ok | createErr | decideErr
deriving DecidableEq, Repr

/-- outcome of `create_layer` -/
abbrev CreateRes := Except (Stage × Err) Unit × FS

/-- outcome of a request: failure with its stage, or success telling whether an existing layer was deleted first
(`LayerState::Empty { cause: RestoredLayerAction | InvalidMetadataAction }` / the strategy callback ran) or the layer is
`NewlyCreated` -/
abbrev ReqRes := Except (Stage × Err) Bool × FS

def tag (deleted : Bool) : CreateRes → ReqRes
  | (.ok _, s) => (.ok deleted, s)
  | (.error (st, e), s) => (.error (if deleted && decide (st = .create) then Stage.recreate else st, e), s)

/-- The target layer's `<name>.toml` is recorded as a one-byte token naming the document (the TOML text itself is
C01/C07/C08's subject): `B` is not a content-metadata document at all, anything else is one. -/
def tomlGarbage : Bytes := [66]

/-- token of the empty document `read_layer` writes when the directory exists without its `<name>.toml` -/
def emptyToml : Bytes := [69]

/-- token of the freshly written `<name>.toml`: requested types, no metadata (`U`, `C`) / the create result's (`R`) -/
def freshToml : Api → Bytes
  | .uncached => [85]
  | .cached => [67]
  | .handle => [82]

/-- does `Layer::create` run and return `Err`? (`handle_create_layer` calls it between `create_dir_all` and `write_layer`;
the struct API's `create_layer` calls nothing of the buildpack's) -/
def createFails (api : Api) (bp : Bp) : Bool := decide (api = .handle) && decide (bp = .createErr)

/-- `create_layer` / `handle_create_layer`: `create_dir_all`; the trait API calls `Layer::create` here — when it returns
`Err` the call ends with the new empty directory in place and nothing else written; write `<name>.toml`; the trait API
then replaces the SBOM files by the (empty) list of the create result -/
def createLayer (root : Bool) (api : Api) (bp : Bp) (fs : FS) (n : Name) : CreateRes :=
  match mkdirAll root 2 fs (layerPath n) with
  | .error e => (.error (.write, e), fs)
  | .ok fs1 =>
    if createFails api bp then (.error (.create, .buildpack), fs1) else
    match writeFile root fs1 (tomlPath n) (freshToml api) with
    | .error e => (.error (.write, e), fs1)
    | .ok fs2 =>
      if api = .handle then
        if isDirB root fs2 (layerPath n) then
          match unlinkAll root fs2 (sbomPaths n) with
          | (.error e, fs3) => (.error (.write, e), fs3)
          | (.ok _, fs3) => (.ok (), fs3)
        else (.error (.write, .notFound), fs2)
      else (.ok (), fs2)

/-- does the deciding callback run and return `Err`? (`uncached_layer`'s two callbacks are the library's own) -/
def decideFails (api : Api) (bp : Bp) : Bool := !decide (api = .uncached) && decide (bp = .decideErr)

/-- `read_layer` with its two normalisations, the deciding callback (consulted for every decodable document: it returns
`Err` — the call ends there, before anything is deleted — or decides to delete), `delete_layer`, `create_layer` -/
def request (root : Bool) (api : Api) (bp : Bp) (fs : FS) (n : Name) : ReqRes :=
  let dirE := existsB root fs (layerPath n)
  let tomlE := existsB root fs (tomlPath n)
  if !dirE && !tomlE then tag false (createLayer root api bp fs n)
  else if !dirE then
    match unlink root fs (tomlPath n) with
    | .error e => (.error (.read, e), fs)
    | .ok fs1 => tag false (createLayer root api bp fs1 n)
  else
    match (if tomlE then Except.ok fs else writeFile root fs (tomlPath n) emptyToml) with
    | .error e => (.error (.read, e), fs)
    | .ok fs1 =>
      match readFile root fs1 (tomlPath n) with
      | .error e => (.error (.read, e), fs1)
      | .ok content =>
        if content = tomlGarbage then (.error (.read, .parse), fs1)
        else if decideFails api bp then (.error (.decide, .buildpack), fs1)
        else
          match deleteLayer root fs1 n with
          | (.error e, fs2) => (.error (.delete, e), fs2)
          | (.ok _, fs2) => tag true (createLayer root api bp fs2 n)

end CnbVerif.RmTree
