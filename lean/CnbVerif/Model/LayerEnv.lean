import CnbVerif.Base.Proto
import CnbVerif.Gen.Tables
/-!
Model of `libcnb/src/layer_env.rs` (`LayerEnvDelta`, `LayerEnv::{insert, apply}`) and `libcnb/src/env.rs`.

* `Env` (a `HashMap<OsString, OsString>`) is an association list read through `get`, written by `set`.
* `Delta` (a `BTreeMap<(ModificationBehavior, OsString), OsString>`) is the list of its entries in the
  map's iteration order: ascending by (behaviour index from the generated table, name bytes).
  `Delta.insert` is `BTreeMap::insert` (replace on equal key).
* `Delta.apply` is the `for` loop of `LayerEnvDelta::apply`, a left fold in iteration order.
-/
namespace CnbVerif

abbrev Env := List (Bytes × Bytes)

def Env.get (e : Env) (n : Bytes) : Option Bytes := List.lookup n e
def Env.set (e : Env) (n v : Bytes) : Env := (n, v) :: e.filter (fun kv => kv.1 != n)
def Env.keys (e : Env) : List Bytes := e.map (·.1)

structure Entry where
  beh : Beh
  name : Bytes
  val : Bytes
deriving DecidableEq, Repr

/-- the BTreeMap key `(behaviour, name)` flattened so that the tuple order is one lexicographic order -/
def Entry.key (e : Entry) : Bytes := Gen.behIdx e.beh :: e.name
def mkKey (b : Beh) (n : Bytes) : Bytes := Gen.behIdx b :: n

abbrev Delta := List Entry

def Delta.insert (d : Delta) (b : Beh) (n v : Bytes) : Delta :=
  match d with
  | [] => [⟨b, n, v⟩]
  | e :: r =>
    if e.key = mkKey b n then ⟨b, n, v⟩ :: r
    else if bytesLt (mkKey b n) e.key then ⟨b, n, v⟩ :: e :: r
    else e :: Delta.insert r b n v

/-- `BTreeMap::get(&(behaviour, name))` -/
def Delta.find (d : Delta) (b : Beh) (n : Bytes) : Option Bytes :=
  (List.find? (fun e => e.key == mkKey b n) d).map (·.val)

/-- `LayerEnvDelta::delimiter_for` -/
def Delta.delimFor (d : Delta) (n : Bytes) : Bytes := (d.find .delim n).getD []

/-- one iteration of the loop in `LayerEnvDelta::apply` -/
def Delta.step (d : Delta) (env : Env) (e : Entry) : Env :=
  match e.beh with
  | .override => env.set e.name e.val
  | .default => if (env.get e.name).isSome then env else env.set e.name e.val
  | .append =>
    let prev := (env.get e.name).getD []
    let prev := if prev.isEmpty then prev else prev ++ d.delimFor e.name
    env.set e.name (prev ++ e.val)
  | .prepend =>
    let prev := (env.get e.name).getD []
    let new := if prev.isEmpty then e.val else e.val ++ d.delimFor e.name ++ prev
    env.set e.name new
  | .delim => env

def Delta.apply (d : Delta) (env : Env) : Env := d.foldl (Delta.step d) env

/-- `libcnb::layer_env::Scope` (process type names are Rust `String`s, kept as their UTF-8 bytes) -/
inductive Scope
  | all | build | launch | process (p : Bytes)
deriving DecidableEq, Repr

structure LayerEnv where
  all : Delta := []
  build : Delta := []
  launch : Delta := []
  /-- `HashMap<String, LayerEnvDelta>`: iteration order is unspecified, lookups are by key -/
  process : List (Bytes × Delta) := []
  pathsBuild : Delta := []
  pathsLaunch : Delta := []
deriving Repr

def LayerEnv.empty : LayerEnv := {}

def procGet (m : List (Bytes × Delta)) (p : Bytes) : Option Delta := List.lookup p m
def procSet (m : List (Bytes × Delta)) (p : Bytes) (d : Delta) : List (Bytes × Delta) :=
  match m with
  | [] => [(p, d)]
  | (q, x) :: r => if q = p then (p, d) :: r else (q, x) :: procSet r p d

def LayerEnv.insert (le : LayerEnv) (s : Scope) (b : Beh) (n v : Bytes) : LayerEnv :=
  match s with
  | .all => { le with all := le.all.insert b n v }
  | .build => { le with build := le.build.insert b n v }
  | .launch => { le with launch := le.launch.insert b n v }
  | .process p =>
    { le with process := procSet le.process p (((procGet le.process p).getD []).insert b n v) }

/-- the `vec![…]` of deltas chosen by `LayerEnv::apply` -/
def LayerEnv.deltas (le : LayerEnv) : Scope → List Delta
  | .all => [le.all]
  | .build => [le.all, le.build, le.pathsBuild]
  | .launch => [le.all, le.launch, le.pathsLaunch]
  | .process p =>
    match procGet le.process p with
    | some d => [le.all, d]
    | none => [le.all]

def LayerEnv.apply (le : LayerEnv) (s : Scope) (env : Env) : Env :=
  (le.deltas s).foldl (fun env d => d.apply env) env

/-- `LayerEnv::apply_to_empty`: `self.apply(scope, &Env::new())` -/
def LayerEnv.applyToEmpty (le : LayerEnv) (s : Scope) : Env := le.apply s []

/-- the delta of user-inserted entries a scope designates (ignoring `all` and the implicit paths) -/
def LayerEnv.scoped (le : LayerEnv) : Scope → Delta
  | .all => le.all
  | .build => le.build
  | .launch => le.launch
  | .process p => (procGet le.process p).getD []

end CnbVerif
