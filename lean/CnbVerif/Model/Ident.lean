import CnbVerif.Base.Regex
import CnbVerif.Gen.Regexes
/-!
Model of the regex-validated newtypes of `libcnb-data/src/newtypes.rs` (`libcnb_newtype!`): `LayerName`,
`ProcessType`, `BuildpackId`, `ExecDProgramOutputKey`.

* `FromStr::from_str` = `fancy_regex::Regex::new($regex).is_match(value)`, value kept verbatim on success.
* `Deserialize` = `String::deserialize` then `parse` (same function).
* the literal macro = `verify_regex!($regex, literal, new_unchecked(literal), compile_error!)`: same regex, same `is_match`.
* `Display` writes the stored string, `Serialize` (derived on a one-field tuple struct) serialises the stored string.

The regexes come from `Gen.Regexes` (translated from the source on every run). `fancy_regex` itself is modelled by the
textbook semantics (`Matches`) computed by Brzozowski derivatives (`matchB`); `Anchored` = `^(?!neg$)pos$` with `$` = end of
text only (fancy_regex / regex crate default: no multi-line, `$` does not match before a final `\n`). Core Lean only.
-/
namespace CnbVerif

/-- textbook semantics of `Re` on strings of characters -/
inductive Matches : Re → List Char → Prop
  | eps : Matches .eps []
  | cls {r c} : inRanges r c.toNat = true → Matches (.cls r) [c]
  | seq {a b s t} : Matches a s → Matches b t → Matches (.seq a b) (s ++ t)
  | altL {a b s} : Matches a s → Matches (.alt a b) s
  | altR {a b s} : Matches b s → Matches (.alt a b) s
  | starNil {a} : Matches (.star a) []
  | starCons {a s t} : Matches a s → Matches (.star a) t → Matches (.star a) (s ++ t)
  | plus {a s t} : Matches a s → Matches (.star a) t → Matches (.plus a) (s ++ t)

def nullable : Re → Bool
  | .empty => false
  | .eps => true
  | .cls _ => false
  | .seq a b => nullable a && nullable b
  | .alt a b => nullable a || nullable b
  | .star _ => true
  | .plus a => nullable a

/-- Brzozowski derivative -/
def deriv (c : Char) : Re → Re
  | .empty => .empty
  | .eps => .empty
  | .cls r => if inRanges r c.toNat then .eps else .empty
  | .seq a b => if nullable a then .alt (.seq (deriv c a) b) (deriv c b) else .seq (deriv c a) b
  | .alt a b => .alt (deriv c a) (deriv c b)
  | .star a => .seq (deriv c a) (.star a)
  | .plus a => .seq (deriv c a) (.star a)

/-- whole-string match -/
def matchB (r : Re) : List Char → Bool
  | [] => nullable r
  | c :: s => matchB (deriv c r) s

/-- `Regex::new("^(?!neg$)pos$").is_match(s)` -/
def accepts (a : Anchored) (s : List Char) : Bool :=
  matchB a.pos s && !(match a.neg with | some n => matchB n s | none => false)

/-- `str::parse::<T>()`, `T::deserialize` and the literal macro `t!(…)`: the value is the input, verbatim -/
def parseNewtype (a : Anchored) (s : List Char) : Option (List Char) := if accepts a s then some s else none

/-- `Display for T` (writes `self.0`) -/
def displayNewtype (v : List Char) : List Char := v

/-- `Serialize for T` (derived on `struct T(String)`: the inner string) -/
def serializeNewtype (v : List Char) : List Char := v

end CnbVerif
