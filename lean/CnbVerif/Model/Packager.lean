import CnbVerif.Base.Proto
import CnbVerif.Model.DepGraph
import CnbVerif.Model.PkgDescriptor
/-!
Model of `cargo libcnb package`: `libcnb-cargo/src/package/command.rs` (`execute`), `libcnb-package/src/lib.rs`
(`assemble_buildpack_directory`, `find_buildpack_dirs`), `package.rs` (`package_buildpack`, `package_libcnb_buildpack`,
`package_composite_buildpack`), `build.rs` (`build_buildpack_binaries`), `cargo.rs`
(`determine_buildpack_cargo_target_name`), `output.rs` (`create_packaged_buildpack_dir_resolver`),
`buildpack_kind.rs` — in the code's own order. Core Lean only. The dependency order is C13's model
(`DepGraph.createGraph` / `getDependencies`), composite descriptors are C14's model (`PkgDescriptor.packageDescriptor`).

**Abstract workspace.** What the code reads of the sources: the directories holding a `buildpack.toml` in the order the
directory walk yields them (`find_buildpack_dirs`), for each its id, the raw bytes of `buildpack.toml` (opaque), and its
kind (`determine_buildpack_kind`): *libcnb* (component descriptor + `Cargo.toml`; cargo metadata gives the package name and
the bin target names), *composite* (descriptor with an order; its `package.toml`), *foreign* (component descriptor, no
`Cargo.toml`: never a node of the graph). Compiled binaries are abstract: `Content.artifact pkg target profile` stands for
the file cargo leaves at `<target dir>/<triple>/<debug|release>/<target>` for that package (cargo and rustc are runtime).

**The package directory** is a flat map from paths (relative to the package directory) to entries: regular files, symbolic
links and directories. `create_dir_all p` makes an entry for every non-empty prefix of `p` (`dirEntries`). `lookup` takes
the first entry for a path, so `write` shadows. `remove_dir_all p` drops every entry at or below `p`, symbolic links are
entries like any other (not followed). The result of `let _ = fs::remove_dir_all(..)` is ignored by the code; the model
takes the removal to succeed (it does for every content the tool itself or the harness, running as root, can leave).

**Selection.** Which buildpacks are selected, packaged (and in which order) and printed is decided from the workspace
sources and the invocation directory alone (`selectionOf`): the package directory is *not* an input of that decision — it
only says where the output directories are (`packageDirAbs`, `destStr`), wherever it lies relative to the sources (outside
the workspace, the workspace root itself, an ancestor of buildpack directories, a buildpack's own directory …).

**Pure part and effect of one loop iteration.** Nothing in the loop body reads the package directory: it reads the
workspace sources and the id → packaged-directory map (the directory walk does not enter the package directory because of
the ignore file the property's quantifier supplies). The model therefore computes, per buildpack in build order, a `Step`
(destination, entries to write, in the code's write order) from the sources and the map so far (`planStep`), and applies
it to the tree (`applyStep`: wipe, create, write). An error in iteration *k* aborts; the tree then holds the effects of
iterations `< k` — the model reports only the error (the property says nothing about failed runs).
-/
namespace CnbVerif.Packager
open CnbVerif.Chars CnbVerif.PkgDescriptor

/-! ### data -/

inductive Profile
  | dev
  | release
deriving DecidableEq, Repr

/-- content of a regular file -/
inductive Content
  /-- literal bytes (whatever representation the caller uses for bytes; equal representation = equal bytes) -/
  | raw (bytes : String)
  /-- the binary cargo built for bin target `target` of package `pkg` under `profile` -/
  | artifact (pkg target : String) (profile : Profile)
  /-- a `package.toml`, as the document it holds -/
  | pkg (d : Descriptor)
deriving DecidableEq, Repr

inductive Node
  | dir
  | file (c : Content)
  | link (target : String)
deriving DecidableEq, Repr

abbrev Path := List String

/-- the tree below the package directory -/
abbrev FS := List (Path × Node)

def lookup (fs : FS) (p : Path) : Option Node := (fs.find? (fun e => e.1 == p)).map (·.2)

/-- create or replace the leaf at `p` -/
def write (p : Path) (n : Node) (fs : FS) : FS := (p, n) :: fs

/-- `fs::remove_dir_all(p)`: everything at or below `p` -/
def removeAll (p : Path) (fs : FS) : FS := fs.filter (fun e => !(p.isPrefixOf e.1))

/-- the directories `fs::create_dir_all(p)` makes sure exist: every non-empty prefix of `p` -/
def dirEntries (p : Path) : FS := (List.range p.length).map (fun k => (p.take (k + 1), Node.dir))

/-- `fs::create_dir_all(p)` (on the way there is nothing but directories — the code fails otherwise) -/
def mkdirAll (p : Path) (fs : FS) : FS := dirEntries p ++ fs

inductive Kind
  /-- a libcnb.rs buildpack: cargo package name and bin target names (cargo metadata order) -/
  | libcnb (pkgName : String) (bins : List String)
  /-- a composite buildpack and its `package.toml` as written in the sources -/
  | composite (pkg : Descriptor)
  /-- a directory with a component `buildpack.toml` but no `Cargo.toml` -/
  | foreign
deriving DecidableEq, Repr

structure Buildpack where
  id : String
  /-- directory, relative to the workspace root (`""` = the root itself) -/
  dir : Str
  /-- the bytes of `buildpack.toml` -/
  descriptor : String
  kind : Kind
deriving DecidableEq, Repr

structure Workspace where
  /-- absolute path of the cargo workspace root (`cargo locate-project --workspace`) -/
  root : Str
  /-- every directory holding a `buildpack.toml`, in the order of the directory walk -/
  dirs : List Buildpack
deriving Repr

structure Config where
  profile : Profile
  /-- `--target` -/
  target : String
  /-- `--package-dir` as given -/
  packageDir : Option Str
deriving Repr

inductive Err
  | noBuildpacksFound
  | missingDependency (id : String)
  | invalidDependencyId (text : Str)
  | unknownRootNode (id : String)
  | noBinTargets
  | ambiguousBinTargets
  | descriptor (e : PkgDescriptor.Err)
deriving DecidableEq, Repr

/-! ### naming of output directories (`output.rs`) -/

def profileDir : Profile → String
  | .dev => "debug"
  | .release => "release"

/-- `default_buildpack_directory_name`: `buildpack_id.replace('/', "_")` -/
def dirName (id : String) : String := String.ofList (id.toList.map (fun c => if c = '/' then '_' else c))

/-- the packaged directory of `id`, relative to the package directory -/
def destPath (cfg : Config) (id : String) : Path := [cfg.target, profileDir cfg.profile, dirName id]

/-- the directory of a buildpack as the walk reports it (`entry.path()` below the start directory) -/
def absDir (root dir : Str) : Str := if dir.isEmpty then root else joinPath root dir

/-- `absolutize_path(args.package_dir.unwrap_or(workspace_root.join("packaged")), current_dir)` -/
def packageDirAbs (ws : Workspace) (inv : Str) (cfg : Config) : Str :=
  match cfg.packageDir with
  | none => joinPath ws.root "packaged".toList
  | some p => absolutizePath p inv

/-- `package_dir.join(target_triple).join("debug"|"release").join(directory name)`, as printed -/
def destStr (pkgAbs : Str) (cfg : Config) (id : String) : Str :=
  joinPath (joinPath (joinPath pkgAbs cfg.target.toList) (profileDir cfg.profile).toList) (dirName id).toList

/-! ### main and additional binary targets (`cargo.rs`, `build.rs`) -/

/-- `determine_buildpack_cargo_target_name` -/
def mainTarget (pkgName : String) (bins : List String) : Except Err String :=
  match bins with
  | [] => .error .noBinTargets
  | [b] => .ok b
  | _ => if bins.contains pkgName then .ok pkgName else .error .ambiguousBinTargets

/-- the bin targets built besides the main one -/
def additionalTargets (main : String) (bins : List String) : List String := bins.filter (fun b => b != main)

/-! ### what is written into a packaged directory -/

/-- the `package.toml` of a packaged libcnb.rs buildpack: `[buildpack]\nuri = "."\n` -/
def libcnbPackageToml : Descriptor := ⟨".".toList, [], "linux".toList⟩

def additionalDir : Path := [".libcnb-cargo", "additional-bin"]

/-- `assemble_buildpack_directory` followed by the `package.toml` write, in write order (paths relative to the
destination) -/
def libcnbItems (profile : Profile) (descriptor pkgName main : String) (adds : List String) : List (Path × Node) :=
  [(["buildpack.toml"], .file (.raw descriptor)),
   (["bin"], .dir),
   (["bin", "build"], .file (.artifact pkgName main profile)),
   (["bin", "detect"], .link "build")] ++
  (if adds.isEmpty then []
   else ([".libcnb-cargo"], Node.dir) :: (additionalDir, Node.dir) :: adds.map (fun n => (additionalDir ++ [n], Node.file (.artifact pkgName n profile)))) ++
  [(["package.toml"], .file (.pkg libcnbPackageToml))]

/-- `package_composite_buildpack`, in write order -/
def compositeItems (descriptor : String) (out : Descriptor) : List (Path × Node) :=
  [(["buildpack.toml"], .file (.raw descriptor)), (["package.toml"], .file (.pkg out))]

/-- `packaged_buildpack_dirs.get(id)` -/
def pathsOf (dirs : List (String × Str)) (id : Str) : Option Str :=
  (dirs.find? (fun e => e.1.toList == id)).map (·.2)

/-- one iteration of the packaging loop, as data -/
structure Step where
  id : String
  dest : Path
  items : List (Path × Node)
deriving Repr

/-- the entries one buildpack's packaged directory receives -/
def itemsFor (ws : Workspace) (cfg : Config) (dirs : List (String × Str)) (bp : Buildpack) : Except Err (List (Path × Node)) :=
  match bp.kind with
  | .libcnb pkgName bins =>
    match mainTarget pkgName bins with
    | .error e => .error e
    | .ok main => .ok (libcnbItems cfg.profile bp.descriptor pkgName main (additionalTargets main bins))
  | .composite pkg =>
    match packageDescriptor (pathsOf dirs) (absDir ws.root bp.dir) pkg with
    | .error e => .error (.descriptor e)
    | .ok out => .ok (compositeItems bp.descriptor out)
  -- `package_buildpack` answers `UnsupportedBuildpack`; unreachable, foreign directories are never graph nodes
  | .foreign => .error .noBuildpacksFound

def planStep (ws : Workspace) (cfg : Config) (dirs : List (String × Str)) (bp : Buildpack) : Except Err Step :=
  match itemsFor ws cfg dirs bp with
  | .error e => .error e
  | .ok items => .ok ⟨bp.id, destPath cfg bp.id, items⟩

/-- the loop over the build order: the steps, and the id → packaged-directory map (`packaged_buildpack_dirs`, in
insertion order) -/
def planLoop (ws : Workspace) (cfg : Config) (pkgAbs : Str) :
    List Buildpack → List (String × Str) → Except Err (List Step × List (String × Str))
  | [], dirs => .ok ([], dirs)
  | bp :: rest, dirs =>
    match planStep ws cfg dirs bp with
    | .error e => .error e
    | .ok s =>
      match planLoop ws cfg pkgAbs rest (dirs ++ [(bp.id, destStr pkgAbs cfg bp.id)]) with
      | .error e => .error e
      | .ok (ss, dirs') => .ok (s :: ss, dirs')

/-- write the entries in order -/
def writeAll (dest : Path) (items : List (Path × Node)) (fs : FS) : FS :=
  items.foldl (fun fs it => write (dest ++ it.1) it.2 fs) fs

/-- the effect of one iteration: `remove_dir_all(dest)`, `create_dir_all(dest)`, then the writes -/
def applyStep (fs : FS) (s : Step) : FS := writeAll s.dest s.items (mkdirAll s.dest (removeAll s.dest fs))

/-! ### the dependency graph (`buildpack_dependency_graph.rs`) -/

def packable (bp : Buildpack) : Bool :=
  match bp.kind with
  | .foreign => false
  | _ => true

/-- `get_buildpack_dependencies`: the ids of the `libcnb:` references, in order; an invalid id is the error -/
def libcnbDepIds : List Str → Except Err (List String)
  | [] => .ok []
  | dep :: rest =>
    match splitScheme dep with
    | some (sch, r) =>
      if sch = libcnbScheme then
        if validId r then
          match libcnbDepIds rest with
          | .error e => .error e
          | .ok ids => .ok (String.ofList r :: ids)
        else .error (.invalidDependencyId r)
      else libcnbDepIds rest
    | none => libcnbDepIds rest

/-- `build_libcnb_buildpack_dependency_graph_node` -/
def toNode (bp : Buildpack) : Except Err DepGraph.Node :=
  match bp.kind with
  | .composite pkg =>
    match libcnbDepIds (readDescriptor pkg).deps with
    | .error e => .error e
    | .ok ids => .ok ⟨bp.id, ids⟩
  | _ => .ok ⟨bp.id, []⟩

def toNodes : List Buildpack → Except Err (List DepGraph.Node)
  | [] => .ok []
  | bp :: rest =>
    match toNode bp with
    | .error e => .error e
    | .ok n =>
      match toNodes rest with
      | .error e => .error e
      | .ok ns => .ok (n :: ns)

/-- the buildpacks that become graph nodes, in walk order -/
def nodesOf (ws : Workspace) : List Buildpack := ws.dirs.filter packable

/-- `root_nodes`: the node whose directory is the current directory, else every node when the current directory is the
workspace root, else none -/
def rootIds (ws : Workspace) (inv : Str) : List String :=
  match (nodesOf ws).find? (fun bp => absDir ws.root bp.dir == inv) with
  | some bp => [bp.id]
  | none => if inv == ws.root then (nodesOf ws).map (·.id) else []

/-! ### stdout -/

/-- `BTreeMap<BuildpackId, PathBuf>` iteration order: by id -/
def sortDirs (dirs : List (String × Str)) : List (String × Str) := sortBy (fun a b => decide (a.1 < b.1)) dirs

/-- the lines printed at the end: the packaged directories of the root nodes -/
def stdoutLines (roots : List String) (dirs : List (String × Str)) : List Str :=
  ((sortDirs dirs).filter (fun e => roots.contains e.1)).map (·.2)

/-! ### which cargo workspace an invocation directory belongs to (`find_cargo_workspace_root_dir`) -/

/-- `inv` is the directory `d` or lies below it -/
def isBelow (d inv : Str) : Bool := inv == d || (d ++ ['/']).isPrefixOf inv

/-- `cargo locate-project --workspace` run in `inv` (cargo is runtime; this is the modelled rule): a crate that is its own
cargo workspace (`standalone`: directories, relative to `ws.root`, of crates with their own `[workspace]` table, excluded from
the outer one) is the workspace root for every directory at or below it — the innermost such crate wins —, otherwise the
outer root is. The tool then only sees the buildpack directories below that root. -/
def effectiveWorkspace (ws : Workspace) (standalone : List Str) (inv : Str) : Workspace :=
  let cands := standalone.filter (fun d => !d.isEmpty && isBelow (absDir ws.root d) inv)
  let innermost := cands.foldl (fun best d =>
    match best with
    | none => some d
    | some b => if b.length < d.length then some d else some b) (none : Option Str)
  match innermost with
  | none => ws
  | some d =>
    ⟨absDir ws.root d, ws.dirs.filterMap (fun bp =>
      if bp.dir == d then some { bp with dir := [] }
      else if (d ++ ['/']).isPrefixOf bp.dir then some { bp with dir := bp.dir.drop (d.length + 1) }
      else none)⟩

/-! ### the selection clause of `execute` -/

structure Selection where
  /-- the selected buildpacks (`root_nodes`) -/
  roots : List String
  /-- the ids packaged, in build order (`build_order`) -/
  order : List String
deriving DecidableEq, Repr

/-- what `execute` selects and in which order it packages: `root_nodes` and `get_dependencies` over the graph of the
workspace (C13's model). Neither `Config` (profile, target, `--package-dir`) nor the tree in the package directory is an
input. -/
def selectionOf (ws : Workspace) (inv : Str) : Except Err Selection :=
  let bps := nodesOf ws
  match toNodes bps with
  | .error e => .error e
  | .ok nodes =>
    match DepGraph.createGraph nodes with
    | .error d => .error (.missingDependency d)
    | .ok g =>
      let roots := rootIds ws inv
      match DepGraph.getDependencies g roots with
      | .error r => .error (.unknownRootNode r)
      | .ok order =>
        if order.isEmpty then .error .noBuildpacksFound
        else .ok ⟨roots, (order.filterMap (fun i => bps[i]?)).map (·.id)⟩

/-- the ids whose output directories are printed, in print order: the packaged ids sorted (`BTreeMap` iteration), those
among the selected ones -/
def printedIds (sel : Selection) : List String :=
  (sortBy (fun a b => decide (a < b)) sel.order).filter (fun id => sel.roots.contains id)

/-! ### `execute` -/

structure Plan where
  roots : List String
  steps : List Step
  dirs : List (String × Str)
deriving Repr

/-- everything `execute` decides without looking at the package directory -/
def plan (ws : Workspace) (inv : Str) (cfg : Config) : Except Err Plan :=
  let pkgAbs := packageDirAbs ws inv cfg
  let bps := nodesOf ws
  match toNodes bps with
  | .error e => .error e
  | .ok nodes =>
    match DepGraph.createGraph nodes with
    | .error d => .error (.missingDependency d)
    | .ok g =>
      let roots := rootIds ws inv
      match DepGraph.getDependencies g roots with
      | .error r => .error (.unknownRootNode r)
      | .ok order =>
        if order.isEmpty then .error .noBuildpacksFound
        else
          match planLoop ws cfg pkgAbs (order.filterMap (fun i => bps[i]?)) [] with
          | .error e => .error e
          | .ok (steps, dirs) => .ok ⟨roots, steps, dirs⟩

structure Result where
  fs : FS
  stdout : List Str
  /-- the ids packaged, in build order -/
  built : List String
deriving Repr

/-- `execute`: from the tree the package directory holds before the run to the tree after it and the lines on stdout -/
def package (ws : Workspace) (inv : Str) (cfg : Config) (seed : FS) : Except Err Result :=
  match plan ws inv cfg with
  | .error e => .error e
  | .ok pl => .ok ⟨pl.steps.foldl applyStep seed, stdoutLines pl.roots pl.dirs, pl.steps.map (·.id)⟩

end CnbVerif.Packager
