import CnbVerif.Base.Chars
import CnbVerif.Model.UriSchemes
/-!
Model of `libcnb-package/src/package_descriptor.rs` (`normalize_package_descriptor` = `replace_libcnb_uris` then
`absolutize_dependency_paths`) and `libcnb-package/src/util.rs` (`absolutize_path`, `normalize_path`), in the code's
own order. Core Lean only.

A package descriptor is its three observable parts: the buildpack URI, the dependency URIs in order, the platform os.
URIs are their text; of `uriparse::URIReference` only what the code looks at is modelled: the scheme
(`^[A-Za-z][A-Za-z0-9+.-]*:`) and the rest. Paths follow `std::path` on unix: `components()` drops empty components
and `.`, `PathBuf::pop` is a no-op on `/` and on the empty path, `Path::join` inserts a separator unless the left
side ends with one.

Every URI of the descriptor goes through uriparse once (`read_toml_file` parses, `write_toml_file` prints): `roundTrip`
models what that does to the text — a registered scheme is printed in its registered (lower-case) spelling, and after
an authority an empty path is printed as `/`. Everything else of the text is kept (known finding C14-authority-empty-path).

Boundary (DESIGN C14): scheme-less references with authority, query or fragment, `libcnb:` references with an
authority, ports with leading zeros / IPv6 literals in non-canonical form (uriparse reprints those too), and id → path
maps holding relative paths are outside the quantifier.
-/
namespace CnbVerif.PkgDescriptor
open CnbVerif.Chars

structure Descriptor where
  buildpack : Str
  deps : List Str
  platform : Str
deriving DecidableEq, Repr

/-- `ReplaceLibcnbUriError::{BuildpackIdError, MissingBuildpackPath}` -/
inductive Err
  | invalidId (text : Str)
  | missingPath (id : Str)
deriving DecidableEq, Repr

def schemeChar (c : Char) : Bool := c.isAlphanum || c = '+' || c = '.' || c = '-'

/-- scan scheme characters up to the first `:` -/
def scanScheme : Str → Option (Str × Str)
  | [] => none
  | c :: cs =>
    if c = ':' then some ([], cs)
    else if schemeChar c then
      match scanScheme cs with
      | some (a, r) => some (c :: a, r)
      | none => none
    else none

/-- `uri.scheme()` and what follows the colon, as uriparse's `parse_scheme` + `starts_with(":")` decide it -/
def splitScheme : Str → Option (Str × Str)
  | [] => none
  | c :: cs =>
    if c.isAlpha then
      match scanScheme cs with
      | some (a, r) => some (c :: a, r)
      | none => none
    else none

/-! ### the uriparse round trip of a URI text -/

def lowerStr (s : Str) : Str := s.map Char.toLower

/-- `Scheme::as_str` after `parse_scheme`: a registered name in its registered spelling, any other scheme as written -/
def canonScheme (sch : Str) : Str := if uriparseRegistered.contains (lowerStr sch) then lowerStr sch else sch

def authChar (c : Char) : Bool := c != '/' && c != '?' && c != '#'

/-- `path.set_absolute(true)` when an authority is present: an empty path is printed as `/` -/
def fixAuthority (rest : Str) : Str :=
  match rest with
  | '/' :: '/' :: body =>
    let auth := body.takeWhile authChar
    let tail := body.drop auth.length
    if tail.head? = some '/' then rest else '/' :: '/' :: (auth ++ '/' :: tail)
  | _ => rest

/-- `URIReference::try_from(text).to_string()` for the texts inside the quantifier -/
def roundTrip (s : Str) : Str :=
  match splitScheme s with
  | none => s
  | some (sch, rest) => canonScheme sch ++ ':' :: fixAuthority rest

def libcnbScheme : Str := "libcnb".toList

def idChar (c : Char) : Bool := c.isAlphanum || c = '.' || c = '/' || c = '-'

/-- `BuildpackId::from_str`: one or more of alnum, `.`, `/`, `-`, and not `app`, `config`, `sbom` (the regex itself is
C09's subject) -/
def validId (s : Str) : Bool :=
  !s.isEmpty && s.all idChar && s != "app".toList && s != "config".toList && s != "sbom".toList

/-- `replace_libcnb_uri` -/
def replaceLibcnbUri (paths : Str → Option Str) (dep : Str) : Except Err Str :=
  match splitScheme dep with
  | some (sch, rest) =>
    if sch = libcnbScheme then
      if validId rest then
        match paths rest with
        | some p => .ok p
        | none => .error (.missingPath rest)
      else .error (.invalidId rest)
    else .ok dep
  | none => .ok dep

/-- `.map(...).collect::<Result<Vec<_>, _>>()`: in order, the first error wins -/
def mapExcept {α β ε} (f : α → Except ε β) : List α → Except ε (List β)
  | [] => .ok []
  | a :: as =>
    match f a with
    | .error e => .error e
    | .ok b =>
      match mapExcept f as with
      | .error e => .error e
      | .ok bs => .ok (b :: bs)

def replaceLibcnbUris (paths : Str → Option Str) (d : Descriptor) : Except Err Descriptor :=
  match mapExcept (replaceLibcnbUri paths) d.deps with
  | .error e => .error e
  | .ok deps => .ok { d with deps := deps }

/-! ### paths -/

def dot : Str := ['.']
def dotdot : Str := ['.', '.']

/-- `Path::components()` without the root: empty components and `.` are dropped -/
def comps (s : Str) : List Str := (splitOnChar '/' s).filter (fun c => !c.isEmpty && c != dot)

def isAbs (s : Str) : Bool := s.head? = some '/'

/-- the loop of `normalize_path` over the non-root components: `..` pops, a name is pushed -/
def normComps (cs : List Str) : List Str :=
  cs.foldl (fun acc c => if c = dotdot then acc.dropLast else acc ++ [c]) []

/-- `Path::join` for a relative right side -/
def joinPath (parent path : Str) : Str :=
  if parent.isEmpty then path
  else if parent.getLast? = some '/' then parent ++ path
  else parent ++ '/' :: path

/-- `normalize_path`, then the `PathBuf` as text -/
def normalizePath (p : Str) : Str :=
  let body := joinChar '/' (normComps (comps p))
  if isAbs p then '/' :: body else body

/-- `absolutize_path` -/
def absolutizePath (path parent : Str) : Str :=
  if isAbs path then path else normalizePath (joinPath parent path)

/-- `absolutize_dependency_paths`: only scheme-less references are touched -/
def absolutizeDeps (parent : Str) (d : Descriptor) : Descriptor :=
  { d with deps := d.deps.map (fun dep =>
      match splitScheme dep with
      | none => absolutizePath dep parent
      | some _ => dep) }

/-- `normalize_package_descriptor`; `parent` is the directory holding the original `package.toml` -/
def normalizeDescriptor (paths : Str → Option Str) (parent : Str) (d : Descriptor) : Except Err Descriptor :=
  match replaceLibcnbUris paths d with
  | .error e => .error e
  | .ok d1 => .ok (absolutizeDeps parent d1)

/-- what `read_toml_file::<PackageDescriptor>` hands on, seen through the later `write_toml_file`: every URI text
after its uriparse round trip -/
def readDescriptor (d : Descriptor) : Descriptor :=
  { d with buildpack := roundTrip d.buildpack, deps := d.deps.map roundTrip }

/-- `package_composite_buildpack`, from the text of the original `package.toml` to the text of the written one -/
def packageDescriptor (paths : Str → Option Str) (parent : Str) (d : Descriptor) : Except Err Descriptor :=
  normalizeDescriptor paths parent (readDescriptor d)

end CnbVerif.PkgDescriptor
