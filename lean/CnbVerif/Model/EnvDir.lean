import CnbVerif.Model.LayerEnv
/-!
Model of the on-disk side of `libcnb/src/layer_env.rs`: `LayerEnvDelta::{write_to_env_dir, read_from_env_dir}`,
`LayerEnv::{write_to_layer_dir, read_from_layer_dir}` (incl. the implicit layer paths of C10).

A directory is an association list name ↦ node; only the layer directory, its `env*` children and the
per-process children of `env.launch` are ever inspected, so no recursion over trees is needed.
Failing I/O is `none` (the correspondence maps every `io::Error` to `err:io`).

The reader is modelled **as repaired** for defect D2 (see DESIGN.md §8): directories inside an env directory
are skipped, and each sub-directory of `env.launch` is read as that process type's delta.
-/
namespace CnbVerif

inductive LinkKind | toDir | toFile | dangling
deriving DecidableEq, Repr

inductive Node
  | file (b : Bytes)
  | dir (es : List (Bytes × Node))
  | link (k : LinkKind)
deriving Repr

abbrev Dir := List (Bytes × Node)

mutual
/-- structural equality of nodes as a `Bool` (`Lemmas/NodeEq.lean`: `beq = true ↔ =`) -/
def Node.beq : Node → Node → Bool
  | .file a, .file b => a == b
  | .dir a, .dir b => Node.beqList a b
  | .link a, .link b => a == b
  | _, _ => false
def Node.beqList : List (Bytes × Node) → List (Bytes × Node) → Bool
  | [], [] => true
  | (k, x) :: r, (k', x') :: r' => k == k' && Node.beq x x' && Node.beqList r r'
  | _, _ => false
end

def Node.optBeq : Option Node → Option Node → Bool
  | none, none => true
  | some a, some b => Node.beq a b
  | _, _ => false

def Dir.optBeq : Option Dir → Option Dir → Bool
  | none, none => true
  | some a, some b => Node.beqList a b
  | _, _ => false

def Dir.get (d : Dir) (n : Bytes) : Option Node := List.lookup n d
def Dir.erase (d : Dir) (n : Bytes) : Dir := d.filter (fun kv => kv.1 != n)
def Dir.set (d : Dir) (n : Bytes) (x : Node) : Dir := (n, x) :: d.erase n

/-- `Path::is_dir()` (follows symlinks) -/
def Node.isDirFollow : Option Node → Bool
  | some (.dir _) => true
  | some (.link .toDir) => true
  | _ => false

def nEnv : Bytes := [101, 110, 118]                                    -- "env"
def nEnvBuild : Bytes := [101, 110, 118, 46, 98, 117, 105, 108, 100]       -- "env.build"
def nEnvLaunch : Bytes := [101, 110, 118, 46, 108, 97, 117, 110, 99, 104]  -- "env.launch"

/-- the file an entry is written to: `name ++ suffix`, raw value bytes -/
def Entry.fileOf (e : Entry) : Bytes × Node := (e.name ++ Gen.writeSuffix e.beh, .file e.val)

/-- `LayerEnvDelta::write_to_env_dir(parent/name)`:
`if path.exists() { remove_dir_all }; if !entries.is_empty() { create_dir_all; write each file }`.
The entry being a regular file makes `remove_dir_all` fail; symlinks at these names are not modelled. -/
def writeToEnvDir (parent : Dir) (name : Bytes) (d : Delta) : Option Dir :=
  let cleared : Option Dir :=
    match parent.get name with
    | none => some parent
    | some (.dir _) => some (parent.erase name)
    | some (.file _) => none
    | some (.link _) => none
  match cleared with
  | none => none
  | some p => if d.isEmpty then some p else some (p.set name (.dir (d.map Entry.fileOf)))

/-- one iteration of `for (process_name, delta) in &self.process` -/
def writeProcess (layer : Dir) (pd : Bytes × Delta) : Option Dir :=
  match layer.get nEnvLaunch with
  | some (.dir es) =>
    match writeToEnvDir es pd.1 pd.2 with
    | some es' => some (layer.set nEnvLaunch (.dir es'))
    | none => none
  | none =>
    -- `create_dir_all(env.launch/<process>)` creates `env.launch` as well
    if pd.2.isEmpty then some layer else some (layer.set nEnvLaunch (.dir [(pd.1, .dir (pd.2.map Entry.fileOf))]))
  | some _ => none

def writeProcesses : Dir → List (Bytes × Delta) → Option Dir
  | layer, [] => some layer
  | layer, pd :: rest =>
    match writeProcess layer pd with
    | some l => writeProcesses l rest
    | none => none

/-- `LayerEnv::write_to_layer_dir`; the per-process deltas are visited in the (unspecified) map order `le.process` -/
def writeToLayerDir (le : LayerEnv) (layer : Dir) : Option Dir :=
  match writeToEnvDir layer nEnv le.all with
  | none => none
  | some l1 =>
    match writeToEnvDir l1 nEnvBuild le.build with
    | none => none
    | some l2 =>
      match writeToEnvDir l2 nEnvLaunch le.launch with
      | none => none
      | some l3 => writeProcesses l3 le.process

/-- last occurrence of `.` : `(before, after)` -/
def splitLastDot : Bytes → Option (Bytes × Bytes)
  | [] => none
  | c :: cs =>
    match splitLastDot cs with
    | some (b, a) => some (c :: b, a)
    | none => if c = 46 then some ([], cs) else none

/-- `(Path::file_stem, Path::extension)` of a directory entry name (`rsplit_file_at_dot`) -/
def stemExt (name : Bytes) : Option Bytes × Option Bytes :=
  if name = [46, 46] then (none, none)
  else match splitLastDot name with
    | none => (some name, none)
    | some (b, a) => if b = [] then (some name, none) else (some b, some a)

/-- the behaviour a file name designates, with the variable name; `none` = ignored -/
def classify (name : Bytes) : Option (Beh × Bytes) :=
  match stemExt name with
  | (some stem, none) => some (Gen.readNoExtension, stem)
  | (some stem, some ext) =>
    match List.lookup ext Gen.readSuffixTable with
    | some b => some (b, stem)
    | none => none
  | (none, _) => none

/-- `LayerEnvDelta::read_from_env_dir` over the directory listing `es` (in `read_dir` order). -/
def readFromEnvDir : Dir → Delta → Option Delta
  | [], acc => some acc
  | (name, .file b) :: rest, acc =>
    match classify name with
    | some (beh, n) => readFromEnvDir rest (acc.insert beh n b)
    | none => readFromEnvDir rest acc
  | (_, .dir _) :: rest, acc => readFromEnvDir rest acc      -- repaired reader: directories are skipped
  | (_, .link _) :: _, _ => none                              -- not modelled

/-- the process sub-directories of `env.launch` (repaired reader) -/
def readProcesses : Dir → List (Bytes × Delta) → Option (List (Bytes × Delta))
  | [], acc => some acc
  | (name, .dir es) :: rest, acc =>
    match readFromEnvDir es [] with
    | some d => readProcesses rest (procSet acc name d)
    | none => none
  | _ :: rest, acc => readProcesses rest acc

def LSub.dirName : LSub → Bytes
  | .bin => [98, 105, 110]                                   -- "bin"
  | .lib => [108, 105, 98]                                   -- "lib"
  | .incl => [105, 110, 99, 108, 117, 100, 101]              -- "include"
  | .pkgconfig => [112, 107, 103, 99, 111, 110, 102, 105, 103]  -- "pkgconfig"

/-- `layer_dir.join(sub)` for a layer path without trailing slash -/
def joinPath (layerPath sub : Bytes) : Bytes := layerPath ++ [47] ++ sub

/-- the loop over `layer_path_specs` in `read_from_layer_dir` -/
def readLayerPaths (layerPath : Bytes) (layer : Dir) (le : LayerEnv) :
    List (Bytes × PScope × LSub) → LayerEnv
  | [] => le
  | (var, sc, sub) :: rest =>
    let le' :=
      if Node.isDirFollow (layer.get sub.dirName) then
        match sc with
        | .build => { le with pathsBuild :=
            (le.pathsBuild.insert .prepend var (joinPath layerPath sub.dirName)).insert .delim var Gen.pathListSeparator }
        | .launch => { le with pathsLaunch :=
            (le.pathsLaunch.insert .prepend var (joinPath layerPath sub.dirName)).insert .delim var Gen.pathListSeparator }
      else le
    readLayerPaths layerPath layer le' rest

def readEnvEntry (layer : Dir) (name : Bytes) : Option Delta :=
  match layer.get name with
  | some (.dir es) => readFromEnvDir es []
  | some (.link .toDir) => none       -- not modelled
  | _ => some []

/-- the per-process deltas found under `env.launch` -/
def readLaunchProcesses (layer : Dir) : Option (List (Bytes × Delta)) :=
  match layer.get nEnvLaunch with
  | some (.dir es) => readProcesses es []
  | _ => some []

/-- `LayerEnv::read_from_layer_dir` (repaired reader) -/
def readFromLayerDir (layerPath : Bytes) (layer : Dir) : Option LayerEnv :=
  let le0 := readLayerPaths layerPath layer LayerEnv.empty Gen.layerPathSpecs
  match readEnvEntry layer nEnv, readEnvEntry layer nEnvBuild, readEnvEntry layer nEnvLaunch,
      readLaunchProcesses layer with
  | some a, some b, some l, some ps => some { le0 with all := a, build := b, launch := l, process := ps }
  | _, _, _, _ => none

end CnbVerif
