import CnbVerif.Base.CnbData
import CnbVerif.Base.Proto
/-!
Model of libcnb-data's builders, in the code's own order (C07):
`BuildPlanBuilder` (build_plan.rs: `VecDeque` accumulation, `or()` called once more inside `build()`),
`ProcessBuilder`, `LaunchBuilder` (launch.rs), `ExecDProgramOutput::from` (a `HashMap` collected from pairs). Core only.
-/
namespace CnbVerif.Builders
open CnbVerif.Cnb CnbVerif.Codec

/-! ## BuildPlanBuilder -/

inductive PlanOp where
  | provides (name : String)
  | requires (r : Req)
  | or
deriving Repr, Inhabited

structure PlanBuilder where
  acc : List Group
  curP : List String
  curR : List Req
deriving Repr, Inhabited

def PlanBuilder.new : PlanBuilder := ⟨[], [], []⟩

/-- `fn or(mut self)`: push the current group at the back, start an empty one -/
def PlanBuilder.or (b : PlanBuilder) : PlanBuilder := ⟨b.acc ++ [⟨b.curP, b.curR⟩], [], []⟩

def PlanBuilder.step (b : PlanBuilder) : PlanOp → PlanBuilder
  | .provides n => { b with curP := b.curP ++ [n] }
  | .requires r => { b with curR := b.curR ++ [r] }
  | .or => b.or

/-- `fn build(self)`: `self.or()`, then `pop_front` is the top level and the rest become `or` entries -/
def PlanBuilder.build (b : PlanBuilder) : Plan :=
  match b.or.acc with
  | head :: rest => ⟨head, rest⟩
  | [] => ⟨⟨[], []⟩, []⟩

def buildPlan (ops : List PlanOp) : Plan := (ops.foldl PlanBuilder.step PlanBuilder.new).build

/-! ## `Require::new(name)` followed by `Require::metadata(table)`

`metadata` converts its argument with `toml::Value::try_from`, which (toml 0.8) does not turn the serialised form of a
datetime back into a datetime: every datetime, at any depth, becomes the table `{ "$__toml_private_datetime" = "<text>" }`. -/

mutual
def privDt : TV → TV
  | .dt r => .tbl [("$__toml_private_datetime", .str r)]
  | .arr xs => .arr (privDtList xs)
  | .tbl kvs => .tbl (privDtKVs kvs)
  | t => t
def privDtList : List TV → List TV
  | [] => []
  | x :: xs => privDt x :: privDtList xs
def privDtKVs : List (String × TV) → List (String × TV)
  | [] => []
  | (k, v) :: r => (k, privDt v) :: privDtKVs r
end

def requireWithMetadata (name : String) (mdata : Table) : Req := ⟨name, privDtKVs mdata⟩

/-- `Require::new(name)` followed by any number of `metadata(table)` calls (`self.metadata = table`: each call replaces
the table; none leaves `Table::new()`, which is also what `requires("name")` through `From<S>` gives) -/
def requireSeq (name : String) (tables : List Table) : Req :=
  tables.foldl (fun r t => ⟨r.name, privDtKVs t⟩) ⟨name, []⟩

mutual
/-- no datetime anywhere in the value -/
def noDt : TV → Bool
  | .dt _ => false
  | .arr xs => noDtList xs
  | .tbl kvs => noDtKVs kvs
  | _ => true
def noDtList : List TV → Bool
  | [] => true
  | x :: xs => noDt x && noDtList xs
def noDtKVs : List (String × TV) → Bool
  | [] => true
  | (_, v) :: r => noDt v && noDtKVs r
end

/-! ## ProcessBuilder / LaunchBuilder -/

inductive ProcOp where
  | arg (a : String)
  | args (as : List String)
  | dflt (b : Bool)
  | wd (d : Option String)
deriving Repr, Inhabited

def procNew (type : String) (command : List String) : Proc := ⟨type, command, [], false, none⟩

def procStep (p : Proc) : ProcOp → Proc
  | .arg a => { p with args := p.args ++ [a] }
  | .args as => as.foldl (fun q a => { q with args := q.args ++ [a] }) p
  | .dflt b => { p with dflt := b }
  | .wd d => { p with wd := d }

def buildProc (type : String) (command : List String) (ops : List ProcOp) : Proc := ops.foldl procStep (procNew type command)

inductive LaunchOp where
  | process (type : String) (command : List String) (ops : List ProcOp)
  | label (key value : String)
  | slice (paths : List String)
deriving Repr, Inhabited

def launchStep (l : Launch) : LaunchOp → Launch
  | .process t c ops => { l with processes := l.processes ++ [buildProc t c ops] }
  | .label k v => { l with labels := l.labels ++ [(k, v)] }
  | .slice ps => { l with slices := l.slices ++ [ps] }

def buildLaunch (ops : List LaunchOp) : Launch := ops.foldl launchStep ⟨[], [], []⟩

/-! ## `build()` inside a call sequence (the non-consuming builders `ProcessBuilder`, `LaunchBuilder`)

`pub fn build(&self) -> T { self.t.clone() }`: `build` only reads the builder, so it may be called at any point of a call
sequence and any number of times; the builder goes on in the state it had. (`BuildPlanBuilder::build(self)` consumes the
builder — no call can follow it — so its model stays `buildPlan`: one `build` at the end.) -/

/-- one entry of a call sequence on a non-consuming builder: a `&mut self` call, or `build()` -/
inductive SeqOp (α : Type) where
  | call (op : α)
  | build
deriving Repr, Inhabited

/-- runs a call sequence on a builder in state `s` and returns what its `build()` calls returned, in call order.
`build` is an observation: the state after it is the state before it. -/
def runSeq {σ α β : Type} (step : σ → α → σ) (build : σ → β) : σ → List (SeqOp α) → List β
  | _, [] => []
  | s, .call op :: rest => runSeq step build (step s op) rest
  | s, .build :: rest => build s :: runSeq step build s rest

/-- one `ProcessBuilder`: `new(type, command)`, the calls with `build()` anywhere between them, and a `build()` at the
end; every `Process` built, in order -/
def procSession (type : String) (command : List String) (ops : List (SeqOp ProcOp)) : List Proc :=
  runSeq procStep (fun p => p) (procNew type command) (ops ++ [.build])

/-- the whole surface of `LaunchBuilder`: the singular calls, the plural ones (`processes` / `labels` / `slices`: a loop
over the singular call), and a `ProcessBuilder` whose every built `Process` is handed to `process(..)` -/
inductive LaunchOpX where
  | session (type : String) (command : List String) (ops : List (SeqOp ProcOp))
  | processes (ps : List (String × List String × List ProcOp))
  | label (key value : String)
  | labels (kvs : List (String × String))
  | slice (paths : List String)
  | slices (pss : List (List String))
deriving Repr, Inhabited

/-- `fn process(&mut self, p)`: `self.launch.processes.push(p)` -/
def launchPush (l : Launch) (p : Proc) : Launch := { l with processes := l.processes ++ [p] }

def launchStepX (l : Launch) : LaunchOpX → Launch
  | .session t c ops => (procSession t c ops).foldl launchPush l
  | .processes ps => ps.foldl (fun l p => launchStep l (.process p.1 p.2.1 p.2.2)) l
  | .label k v => launchStep l (.label k v)
  | .labels kvs => kvs.foldl (fun l kv => launchStep l (.label kv.1 kv.2)) l
  | .slice ps => launchStep l (.slice ps)
  | .slices pss => pss.foldl (fun l ps => launchStep l (.slice ps)) l

/-- one `LaunchBuilder`: `new()`, the calls with `build()` anywhere between them, and a `build()` at the end; every
`Launch` built, in order -/
def launchSession (ops : List (SeqOp LaunchOpX)) : List Launch :=
  runSeq launchStepX (fun l => l) ⟨[], [], []⟩ (ops ++ [.build])

/-! ## Layers through the public layer APIs: which file of the layers directory holds which document

`libcnb/src/layer/shared.rs`: every reader and writer of a layer's content metadata derives the file from the layer name as
`layers_dir.join(format!("{layer_name}.toml"))` (`read_layer`, `write_layer`, `replace_layer_metadata`, `replace_layer_types`,
`delete_layer`). The layers directory, as far as C07 looks at it, is the list of (file name in bytes, document), the entry written
last first. -/

abbrev LayersDir := List (Bytes × LayerMeta)

/-- `format!("{layer_name}.toml")`: the name's bytes followed by `.toml` -/
def layerFilePath (name : Bytes) : Bytes := name ++ [46, 116, 111, 109, 108]

/-- reading the file `p` -/
def dirGet : LayersDir → Bytes → Option LayerMeta
  | [], _ => none
  | (q, m) :: rest, p => if q = p then some m else dirGet rest p

/-- `write_toml_file(value, p)` -/
def dirPut (d : LayersDir) (p : Bytes) (m : LayerMeta) : LayersDir := (p, m) :: d

/-- a layer constructed through the public API: `cached_layer` (restored layer kept) / `uncached_layer`, followed by
`LayerRef::write_metadata(table)` when a table is given; trait API `handle_layer` whose `create` / `update` return `md` -/
inductive LayerCall where
  | cached (name : Bytes) (launch build : Bool) (md : Option Table)
  | uncached (name : Bytes) (launch build : Bool) (md : Option Table)
  | handle (name : Bytes) (types : LayerTypes) (md : Option Table)
deriving Repr, Inhabited

/-- `struct_api::handling::handle_layer`: `read_layer`; no layer: `create_layer` = `write_layer` with the types and no metadata;
a layer and the action is keep: `replace_layer_types` (read the file, set the types, write it); delete: `delete_layer`, `create_layer` -/
def structHandle (d : LayersDir) (name : Bytes) (types : LayerTypes) (keep : Bool) : LayersDir :=
  match dirGet d (layerFilePath name) with
  | none => dirPut d (layerFilePath name) ⟨some types, none⟩
  | some cur => if keep then dirPut d (layerFilePath name) ⟨some types, cur.mdata⟩ else dirPut d (layerFilePath name) ⟨some types, none⟩

/-- `LayerRef::write_metadata` = `replace_layer_metadata`: read the file, keep its types, write the given metadata -/
def writeMetadata (d : LayersDir) (name : Bytes) (t : Table) : LayersDir :=
  match dirGet d (layerFilePath name) with
  | some cur => dirPut d (layerFilePath name) ⟨cur.types, some t⟩
  | none => d

def thenMetadata (d : LayersDir) (name : Bytes) : Option Table → LayersDir
  | some t => writeMetadata d name t
  | none => d

def layerStep (d : LayersDir) : LayerCall → LayersDir
  | .cached n l b md => thenMetadata (structHandle d n ⟨l, b, true⟩ true) n md
  | .uncached n l b md => thenMetadata (structHandle d n ⟨l, b, false⟩ false) n md
  -- trait API: `handle_create_layer` / `handle_update_layer` end in `write_layer(types(), returned metadata)`
  | .handle n ty md => dirPut d (layerFilePath n) ⟨some ty, md⟩

/-- the layers directory after the calls, starting empty -/
def layerSession (calls : List LayerCall) : LayersDir := calls.foldl layerStep []

/-- the document found at `<layers>/<name>.toml` after the calls -/
def layerFileAfter (calls : List LayerCall) (name : Bytes) : Option LayerMeta := dirGet (layerSession calls) (layerFilePath name)

def LayerCall.name : LayerCall → Bytes
  | .cached n _ _ _ => n
  | .uncached n _ _ _ => n
  | .handle n _ _ => n

/-- names in order of first use -/
def firstUses : List Bytes → List Bytes
  | [] => []
  | n :: rest => n :: (firstUses rest).filter (fun m => m ≠ n)

/-! ## ExecDProgramOutput: pairs collected into a map — a later pair with the same key replaces the earlier one -/

def mapInsert (m : List (String × String)) (kv : String × String) : List (String × String) :=
  if m.any (fun e => e.1 == kv.1) then m.map (fun e => if e.1 == kv.1 then kv else e) else m ++ [kv]

def collectMap (pairs : List (String × String)) : List (String × String) := pairs.foldl mapInsert []

end CnbVerif.Builders
