import CnbVerif.Model.LayerStore
/-!
Model of the trait-based layer API: `libcnb/src/layer/trait_api/handling.rs` (`handle_layer`, `handle_create_layer`,
`handle_update_layer`, `write_layer` with `ExecDPrograms/Sboms::{Keep, Replace}`, `read_layer` = the shared read
followed by `LayerEnv::read_from_layer_dir`) and `BuildContext::handle_layer`.

Same layers directory as C01 (`Store`, `Layer`, `Toml`, `MetaTbl` of `Model/LayerStore.lean`), same shared functions
(`readLayer` with both normalisations, `deleteLayer` as repaired for D1, `replaceSboms`, `replaceExecd`,
`restoreLayer`), same environment reader/writer (`Model/EnvDir.lean`, reader as repaired for D2).
A `Layer` implementation is data (`LDef`): its types, its metadata type, and what each callback answers.
A value of the layer's metadata type `M` is written as it serialises: for `versioned` (`struct { v: i64 }`) only `v`
(`viewAs`), for `generic` (`Option<toml::Table>`) the table itself.
-/
namespace CnbVerif

/-- answer of `existing_layer_strategy` (or a buildpack error) -/
inductive Strat | keep | update | recreate | fail
deriving DecidableEq, Repr

/-- answer of `migrate_incompatible_metadata` (or a buildpack error) -/
inductive Migr
  | recreate
  | replace (m : MetaTbl)
  | fail
deriving DecidableEq, Repr

/-- a `LayerResult` together with what the callback did inside the layer directory before returning -/
structure LResult where
  mdata : Option MetaTbl := none
  /-- `LayerResult::env`; `none` is written as the empty environment -/
  env : Option LayerEnv := none
  /-- exec.d programs: name ↦ content of the source file, `none` = the source file does not exist -/
  execd : List (Bytes × Option Bytes) := []
  /-- SBOMs by format index into `Gen.sbomSuffixes` -/
  sboms : List (Nat × Bytes) := []
  /-- entries the callback creates in the layer directory, in order (a later write replaces an earlier one) -/
  files : List (Bytes × Node) := []
deriving Repr

/-- `create` / `update` -/
inductive Cb
  | ok (r : LResult)
  | fail
deriving Repr

/-- a data-driven `Layer` implementation -/
structure LDef where
  types : LTypes
  mt : MetaT
  strategy : Strat
  migrate : Migr
  create : Cb
  update : Cb
deriving Repr

/-- one callback invocation, with the metadata the callback was shown (`create`: whether the directory it was
handed is an existing empty directory) -/
inductive TCall
  | create (emptyDir : Bool)
  | strategy (m : Option MetaTbl)
  | update (m : Option MetaTbl)
  | migrate (m : Option MetaTbl)
deriving DecidableEq, Repr

/-- result of `BuildContext::handle_layer`: the returned `LayerData` (metadata, env) or an error kind -/
inductive TOut
  | data (m : Option MetaTbl) (le : LayerEnv)
  | err (k : ErrKind)
  | ok
deriving Repr

/-- `trait_api::handling::read_layer` -/
inductive TRead
  | none
  | some (m : Option MetaTbl) (le : LayerEnv)
  | parseErr
  | ioErr
deriving Repr

/-- `read_layer::<M>`: the shared read (normalisations, decode), then `LayerEnv::read_from_layer_dir(layer.path)` -/
def tReadLayer (lp : Bytes) (l : Layer) (mt : MetaT) : Layer × TRead :=
  match readLayer l mt with
  | (l1, .none) => (l1, .none)
  | (l1, .parseErr) => (l1, .parseErr)
  | (l1, .some m) =>
    match l1.dir with
    | some d =>
      match readFromLayerDir lp d with
      | some le => (l1, .some m le)
      | none => (l1, .ioErr)
    | none => (l1, .ioErr)

/-- `trait_api::handling::write_layer`, in the code's order: shared `write_layer` (create_dir_all + toml), the
environment, the SBOMs if `Replace`, the exec.d programs if `Replace`. `none` = `Keep`. -/
def tWriteLayer (l : Layer) (le : LayerEnv) (ty : Option LTypes) (m : Option MetaTbl)
    (execd : Option (List (Bytes × Option Bytes))) (sboms : Option (List (Nat × Bytes))) : Layer × Option ErrKind :=
  let d0 := l.dir.getD []
  let l1 : Layer := { l with dir := some d0, toml := some (.doc ty m) }
  match writeToLayerDir le d0 with
  | none => (l1, some .io)
  | some d2 =>
    let l2 : Layer := { l1 with dir := some d2 }
    let l3 : Layer := match sboms with
      | none => l2
      | some sb => (replaceSboms l2 sb).1
    match execd with
    | none => (l3, none)
    | some ps =>
      match replaceExecd l3 ps with
      | (l4, .ok) => (l4, none)
      | (l4, .err k) => (l4, some k)
      | (l4, _) => (l4, some .io)

/-- the callback's own writes into the layer directory -/
def applyFiles (d : Dir) (fs : List (Bytes × Node)) : Dir := fs.foldl (fun d f => d.set f.1 f.2) d

/-- the re-read that ends `handle_create_layer`, `handle_update_layer` and the `Keep` arm; the returned layer data
carries the stored metadata decoded as the layer's metadata type -/
def tReread (lp : Bytes) (l : Layer) (mt : MetaT) (log : List TCall) : Layer × TOut × List TCall :=
  match tReadLayer lp l mt with
  | (l1, .some m le) => (l1, .data (viewAs mt m) le, log)
  | (l1, .none) => (l1, .err .missingLayer, log)
  | (l1, .parseErr) => (l1, .err .genericMeta, log)
  | (l1, .ioErr) => (l1, .err .io, log)

/-- `write_layer(.., Replace(exec_d_programs), Replace(sboms))` with the layer's types, then re-read -/
def tPersist (lp : Bytes) (l : Layer) (L : LDef) (r : LResult) (log : List TCall) : Layer × TOut × List TCall :=
  match tWriteLayer l (r.env.getD LayerEnv.empty) (some L.types) (viewAs L.mt r.mdata) (some r.execd) (some r.sboms) with
  | (l1, some k) => (l1, .err k, log)
  | (l1, none) => tReread lp l1 L.mt log

/-- `handle_create_layer`: `create_dir_all`, the `create` callback, write, re-read -/
def tCreate (lp : Bytes) (l : Layer) (L : LDef) (log : List TCall) : Layer × TOut × List TCall :=
  let d0 := l.dir.getD []
  let l0 : Layer := { l with dir := some d0 }
  let log := log ++ [.create d0.isEmpty]
  match L.create with
  | .fail => (l0, .err .buildpack, log)
  | .ok r => tPersist lp { l0 with dir := some (applyFiles d0 r.files) } L r log

/-- `handle_update_layer`: the `update` callback (shown the layer data just read), write, re-read -/
def tUpdate (lp : Bytes) (l : Layer) (L : LDef) (m : Option MetaTbl) (log : List TCall) : Layer × TOut × List TCall :=
  let log := log ++ [.update (viewAs L.mt m)]
  match L.update with
  | .fail => (l, .err .buildpack, log)
  | .ok r => tPersist lp { l with dir := l.dir.map (fun d => applyFiles d r.files) } L r log

def tomlTypes : Option Toml → Option LTypes
  | some (.doc t _) => t
  | _ => none

/-- `handle_layer`; `fuel` bounds the re-entry after a metadata migration -/
def tHandle (lp : Bytes) (L : LDef) : Nat → Layer → List TCall → Layer × TOut × List TCall
  | 0, l, log => (l, .err .diverge, log)
  | fuel + 1, l, log =>
    match tReadLayer lp l L.mt with
    | (l1, .none) => tCreate lp l1 L log
    | (l1, .ioErr) => (l1, .err .io, log)
    | (l1, .some m le) =>
      let log := log ++ [.strategy (viewAs L.mt m)]
      match L.strategy with
      | .fail => (l1, .err .buildpack, log)
      | .recreate => tCreate lp (deleteLayer l1) L log
      | .update => tUpdate lp l1 L m log
      | .keep =>
        -- the environment that was read is written back (its implicit layer paths are not), the types come from
        -- `layer.types()`, the metadata is the decoded `M` value; exec.d and SBOMs are kept
        match tWriteLayer l1 le (some L.types) (viewAs L.mt m) none none with
        | (l2, some k) => (l2, .err k, log)
        | (l2, none) => tReread lp l2 L.mt log
    | (l1, .parseErr) =>
      match tReadLayer lp l1 .generic with
      | (l2, .some gm gle) =>
        let log := log ++ [.migrate gm]
        match L.migrate with
        | .fail => (l2, .err .buildpack, log)
        | .recreate => tHandle lp L fuel (deleteLayer l2) log
        | .replace m' =>
          -- `write_layer` with the *existing* types, `Keep`, `Keep`
          match tWriteLayer l2 gle (tomlTypes l2.toml) (viewAs L.mt (some m')) none none with
          | (l3, some k) => (l3, .err k, log)
          | (l3, none) => tHandle lp L fuel l3 log
      | (l2, .none) => (l2, .err .missingLayer, log)
      | (l2, .parseErr) => (l2, .err .genericMeta, log)
      | (l2, .ioErr) => (l2, .err .io, log)

/-- `layers_dir.join(layer_name)` with the layers directory written `$L` -/
def layerPath (n : Bytes) : Bytes := [36, 76, 47] ++ n

inductive TOp
  | handle (n : Bytes) (L : LDef)
  | restore
  /-- something outside libcnb overwrites `<name>.toml` with text that is not a content-metadata document -/
  | breakToml (n : Bytes)
deriving Repr

def tFuel : Nat := 3

def tStep (s : Store) : TOp → Store × TOut × List TCall
  | .restore => (s.map (fun kv => (kv.1, restoreLayer kv.2)), .ok, [])
  | .breakToml n => (s.set n { s.get n with toml := some .broken }, .ok, [])
  | .handle n L =>
    let r := tHandle (layerPath n) L tFuel (s.get n) []
    (s.set n r.1, r.2.1, r.2.2)

/-! ### what a caller can observe of the returned layer data -/

/-- the returned `LayerData` seen from outside: its metadata and, for each probe (scope, starting environment),
the environment `LayerData::env.apply` produces -/
inductive TObs
  | data (m : Option MetaTbl) (applied : List (Scope × Env × Env))
  | err (k : ErrKind)
  | ok
deriving Repr

def TOut.observe (probes : List (Scope × Env)) : TOut → TObs
  | .data m le => .data m (probes.map (fun p => (p.1, p.2, le.apply p.1 p.2)))
  | .err k => .err k
  | .ok => .ok

end CnbVerif
