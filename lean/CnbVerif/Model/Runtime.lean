import CnbVerif.Model.RuntimeTypes
import CnbVerif.Gen.Tables
import CnbVerif.Gen.Runtime
/-!
Model of `libcnb/src/runtime.rs`: `libcnb_runtime`, `libcnb_runtime_detect`, `libcnb_runtime_build`, `context_target`,
`DetectArgs::parse` / `BuildArgs::parse`, `read_buildpack_dir`, in the code's own order. Exit codes come from `Gen.Tables`
(`libcnb/src/exit_code.rs`), the supported API and the list of environment reads (which variable, in which order, what is done
with the result: `Gen.contextTargetReads`, `Gen.buildpackDirRead`) from `Gen.Runtime` (`libcnb/src/lib.rs`, `runtime.rs`).

The environment carries *values* (`Vars`: every variable is unset or set to text / to bytes that are not Unicode). `readVar`
interprets one generated read on such a value; a read is unconditional by construction of `EnvUse` — there is no constructor
for "required unless another variable says …", the translator reports such source as a broken tie.

A phase returns what it did so far (`Eff`) together with `Except ErrKind Int` — the `crate::Result<i32, _>` of the
Rust functions. `libcnb_runtime` turns `Ok code` into `exit(code)` and `Err e` into `on_error(e); exit(1)`.
Failures *before* the phase functions (API check, executable name, argument count) exit directly, without `on_error`.

File system abstraction: writing to a path succeeds unless a directory sits there (`Pre.dir`, `EISDIR` from `File::create`)
or the write itself fails (`Pre.writeFails`, `ENOSPC` from `write_all`) — `fs::write` / `write_toml_file` hand back either
error, the caller wraps it in `Error::CannotWrite…` and it travels to `on_error`; reading `store.toml` gives `None` when
absent, `Some` when valid (`StorePre.writeFails` reads as valid: the fault appears after the read), an error when malformed
or a directory.
-/
namespace CnbVerif.Runtime

variable {P L S D : Type}

/-- effects of a phase so far -/
structure Eff (P L S D : Type) where
  detectRan : Bool := false
  buildRan : Bool := false
  plan : FileOut P := .untouched
  launch : FileOut L := .untouched
  store : FileOut S := .untouched
  bsbom : Fmt → FileOut D := fun _ => .untouched
  lsbom : Fmt → FileOut D := fun _ => .untouched

def Eff.none : Eff P L S D := {}

/-- `std::env::var(NAME)`: the text of a variable that is set to valid Unicode; `VarError::NotPresent` / `NotUnicode` otherwise -/
def envVar : Option EnvVal → Option String
  | some (.text s) => some s
  | _ => none

def Vars.get (v : Vars) : VarName → Option EnvVal
  | .bpDir => v.bpDir
  | .os => v.os
  | .arch => v.arch
  | .variant => v.variant
  | .dname => v.dname
  | .dver => v.dver

/-- one generated read applied to the variable's state: the value handed on (`none` = the `None` of an optional read) or the
error that ends the phase. Nothing but this variable is consulted. -/
def readVar : EnvUse → Option EnvVal → Except ErrKind (Option String)
  | .required k, x => match envVar x with
    | some s => .ok (some s)
    | none => .error k
  | .optionalOk, x => .ok (envVar x)
  | .defaulted d, x => .ok (some ((envVar x).getD d))

/-- the reads of a function one after the other (`?` after each): the first error ends it. The values read go into the
`Target` / `buildpack_dir` handed to the buildpack; the decision logic never looks at them. -/
def readAll : List (VarName × EnvUse) → Vars → Except ErrKind Unit
  | [], _ => .ok ()
  | (n, u) :: rest, v => match readVar u (v.get n) with
    | .error k => .error k
    | .ok _ => readAll rest v

/-- `read_buildpack_dir` -/
def readBuildpackDir (v : Vars) : Except ErrKind (Option String) :=
  readVar Gen.buildpackDirRead.2 (v.get Gen.buildpackDirRead.1)

/-- `read_buildpack_descriptor::<BuildpackDescriptorApiOnly>()` followed by the comparison with
`LIBCNB_SUPPORTED_BUILDPACK_API`: `true` when the run may continue. `CNB_BUILDPACK_DIR` is read first. -/
def apiCheck (v : Vars) (d : Desc) : Bool :=
  match readBuildpackDir v with
  | .error _ => false
  | .ok _ => match d with
    | .api ma mi _ => (ma, mi) = Gen.supportedApi
    | _ => false

/-- `read_buildpack_descriptor::<ComponentBuildpackDescriptor<_>>()` succeeds -/
def descFullOk : Desc → Bool
  | .api _ _ restOk => restOk
  | _ => false

/-- `context_target`: os, arch, (variant is optional: `.ok()`), distro name, distro version — the generated list -/
def contextTarget (v : Vars) : Except ErrKind Unit := readAll Gen.contextTargetReads v

/-- `fs::write` / `write_toml_file` onto a path: `File::create` then `write_all`; an error of either step is the result -/
def canWrite : Pre → Bool
  | .dir => false          -- open fails
  | .writeFails => false   -- open succeeds, write fails
  | _ => true

/-- `libcnb_runtime_detect` -/
def detectPhase (i : Invocation P L S D) : Eff P L S D × Except ErrKind Int :=
  if !i.cwdOk then (Eff.none, .error .appDir)
  else match readBuildpackDir i.vars with
  | .error k => (Eff.none, .error k)
  | .ok _ =>
  if !descFullOk i.desc then (Eff.none, .error .descriptor)
  else if i.plat = .bad then (Eff.none, .error .platform)
  else match contextTarget i.vars with
    | .error k => (Eff.none, .error k)
    | .ok () =>
      let e : Eff P L S D := { detectRan := true }
      match i.dbeh with
      | .err => (e, .error .buildpack)
      | .fail => (e, .ok Gen.exit_DETECT_DETECTION_FAILED)
      | .pass => (e, .ok Gen.exit_DETECT_DETECTION_PASSED)
      | .passPlan p =>
        if canWrite i.planPre then ({ e with plan := .written p }, .ok Gen.exit_DETECT_DETECTION_PASSED)
        else (e, .error .writePlan)

/-- the `for sbom in sboms { fs::write(..)? }` loops: state after the loop and whether it completed -/
def writeSboms (pre : Fmt → Pre) : List (Fmt × D) → (Fmt → FileOut D) → (Fmt → FileOut D) × Bool
  | [], st => (st, true)
  | (f, d) :: rest, st =>
    if canWrite (pre f) then writeSboms pre rest (fun g => if g = f then .written d else st g)
    else (st, false)

def storeAsPre : StorePre → Pre
  | .absent => .absent
  | .dir => .dir
  | .writeFails => .writeFails
  | _ => .file

/-- the writes of `libcnb_runtime_build` for a successful result: launch.toml, store.toml, build SBOMs, launch SBOMs -/
def buildWrites (i : Invocation P L S D) (e : Eff P L S D) (r : BuildOk L S D) : Eff P L S D × Except ErrKind Int :=
  let step1 : Option (Eff P L S D) :=
    match r.launch with
    | none => some e
    | some l => if canWrite i.launchPre then some { e with launch := .written l } else none
  match step1 with
  | none => (e, .error .writeLaunch)
  | some e1 =>
    let step2 : Option (Eff P L S D) :=
      match r.store with
      | none => some e1
      | some s => if canWrite (storeAsPre i.storePre) then some { e1 with store := .written s } else none
    match step2 with
    | none => (e1, .error .writeStore)
    | some e2 =>
      let wb := writeSboms i.bPre r.bsboms e2.bsbom
      let e3 := { e2 with bsbom := wb.1 }
      if !wb.2 then (e3, .error .writeBuildSbom)
      else
        let wl := writeSboms i.lPre r.lsboms e3.lsbom
        let e4 := { e3 with lsbom := wl.1 }
        if !wl.2 then (e4, .error .writeLaunchSbom)
        else (e4, .ok Gen.exit_GENERIC_SUCCESS)

/-- `libcnb_runtime_build` -/
def buildPhase (i : Invocation P L S D) : Eff P L S D × Except ErrKind Int :=
  if !i.cwdOk then (Eff.none, .error .appDir)
  else match readBuildpackDir i.vars with
  | .error k => (Eff.none, .error k)
  | .ok _ =>
  if !descFullOk i.desc then (Eff.none, .error .descriptor)
  else if i.plat = .bad then (Eff.none, .error .platform)
  else if i.planIn ≠ .ok then (Eff.none, .error .planIn)
  else if i.storePre = .malformed ∨ i.storePre = .dir then (Eff.none, .error .store)
  else match contextTarget i.vars with
    | .error k => (Eff.none, .error k)
    | .ok () =>
      let e : Eff P L S D := { buildRan := true }
      match i.bbeh with
      | .err => (e, .error .buildpack)
      | .layerErr => (e, .error .layer)
      | .ok r => buildWrites i e r

/-- an exit before any phase function ran -/
def exitEarly (code : Int) : Outcome P L S D :=
  { exit := code, detectRan := false, buildRan := false, onError := 0, errKind := none,
    plan := .untouched, launch := .untouched, store := .untouched,
    bsbom := fun _ => .untouched, lsbom := fun _ => .untouched }

/-- the final `match result { Ok(code) => exit(code), Err(e) => { buildpack.on_error(e); exit(1) } }` -/
def finish (r : Eff P L S D × Except ErrKind Int) : Outcome P L S D :=
  let e := r.1
  match r.2 with
  | .ok code =>
    { exit := code, detectRan := e.detectRan, buildRan := e.buildRan, onError := 0, errKind := none,
      plan := e.plan, launch := e.launch, store := e.store, bsbom := e.bsbom, lsbom := e.lsbom }
  | .error k =>
    { exit := Gen.exit_GENERIC_UNSPECIFIED_ERROR, detectRan := e.detectRan, buildRan := e.buildRan, onError := 1,
      errKind := some k, plan := e.plan, launch := e.launch, store := e.store, bsbom := e.bsbom, lsbom := e.lsbom }

/-- `libcnb_runtime` -/
def runtime (i : Invocation P L S D) : Outcome P L S D :=
  if !apiCheck i.vars i.desc then exitEarly Gen.exit_GENERIC_CNB_API_VERSION_ERROR
  else match i.exe with
    | .detect =>
      if i.nargs = 2 then finish (detectPhase i) else exitEarly Gen.exit_GENERIC_UNSPECIFIED_ERROR
    | .build =>
      if i.nargs = 3 then finish (buildPhase i) else exitEarly Gen.exit_GENERIC_UNSPECIFIED_ERROR
    | .other => exitEarly Gen.exit_GENERIC_UNEXPECTED_EXECUTABLE_NAME_ERROR

end CnbVerif.Runtime
