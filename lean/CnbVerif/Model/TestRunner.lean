import CnbVerif.Model.Argv
/-!
Model of what a libcnb-test scenario does to the outside world: which `docker`/`pack` commands it issues, in which
order, and which temporary directories are alive — `TestRunner::build` / `build_internal`, `TestContext::{start_container,
run_shell_command, download_sbom_files, rebuild}`, `ContainerContext::{logs_now, logs_wait, address_for_port, shell_exec}`
and the two `Drop` impls (`TemporaryDockerResources`, `ContainerContext`).

Rust's ownership and unwinding are encoded by hand (this is the part of C16 that is *modelled, not verified*):
* every function returns an `Outcome`; `panicked` means "unwinding through the caller", which then drops what it owns;
* `ContainerContext` exists before `docker run`, so its `Drop` (`docker rm … --force`, **panics on failure**) runs on
  every exit of `start_container`; a panic inside `Drop` while already unwinding aborts the process (`aborted`):
  nothing runs after that, no guard is released;
* `TemporaryDockerResources` is owned by `build_internal` until it moves into the `TestContext` handed to the closure;
  it is dropped (two commands, errors ignored) when that closure ends or unwinds, unless `rebuild` moved it on —
  a scenario is therefore a *chain* of builds: `rebuild` is the last thing a closure can do;
* locals of `build_internal` (`app_dir` if it is a private copy, `buildpacks_target_dir`) are `TempDir` guards released
  when the frame is left, normally or by unwinding.

Generated names are pseudo-words `[1000, k]` (docker identifiers), `[2000, k]` (temp dirs), `/`+`3000` (the manifest
dir; `/`+`3001` is the base of absolute fixtures): the tags 1000/2000/3000/3001 cannot collide with user data (bytes < 256) and are renamed by first occurrence when a log is rendered.
Core Lean only.
-/
namespace CnbVerif.TestRunner
open CnbVerif CnbVerif.Argv

inductive Res | ok | nonzero | notFound
deriving DecidableEq, Repr

/-- the typed command structs of `docker.rs` / `pack.rs` -/
inductive ACmd
  | packBuild (c : PackBuildCommand)
  | sbom (image dir : Word)
  | run (c : DockerRunCommand)
  | exec (ctr cmd : Word)
  | logs (ctr : Word) (follow : Bool)
  | port (ctr : Word) (p : Nat)
  | rm (ctr : Word)
  | rmi (image : Word)
  | volRm (vols : List Word)
deriving Repr

/-- `impl From<…> for Command` -/
def ACmd.toCmd : ACmd → Cmd
  | .packBuild c => ⟨.pack, packBuildArgv c⟩
  | .sbom i d => ⟨.pack, packSbomDownloadArgv i d⟩
  | .run c => ⟨.docker, dockerRunArgv c⟩
  | .exec c x => ⟨.docker, shellExecArgv c x⟩
  | .logs c f => ⟨.docker, dockerLogsArgv c f⟩
  | .port c p => ⟨.docker, dockerPortArgv c p⟩
  | .rm c => ⟨.docker, dockerRmArgv c⟩
  | .rmi i => ⟨.docker, dockerRmiArgv i⟩
  | .volRm v => ⟨.docker, dockerVolumeRemoveArgv v⟩

def ACmd.prog (a : ACmd) : Prog := a.toCmd.prog

/-- a command the scenario tried to run, with what came of it -/
structure Entry where
  cmd : ACmd
  res : Res
deriving Repr

inductive Guard | appCopy (n : Nat) | bpDir (n : Nat) | sbomDir (n : Nat)
deriving DecidableEq, Repr

inductive Outcome | ok | panicked | aborted
deriving DecidableEq, Repr

/-- a build configuration together with the facts of the environment that decide how `build_internal` proceeds -/
structure BuildCfg where
  cfg : BuildConfig
  /-- the normalised app dir is a directory -/
  appDirValid : Bool
  /-- an `app_dir_preprocessor` is configured -/
  preprocessor : Bool
  /-- `expected_pack_result == PackResult::Success` -/
  expectSuccess : Bool
  triple : Word
  /-- what `pack build` does for this build when nothing is injected -/
  packResult : Res
deriving Repr

inductive CAct
  | logsNow
  | logsWait
  | port (p : Nat)
  | exec (cmd : Word)
  | panic
deriving Repr

inductive Act
  | startContainer (cfg : ContainerConfig) (cacts : List CAct)
  | runShell (cmd : Word)
  | downloadSbom
  | panic
deriving Repr

/-- one `build`/`rebuild` with what its closure does before it ends or rebuilds -/
structure Build where
  cfg : BuildCfg
  acts : List Act
deriving Repr

/-- `TestContext.config` is a plain clone of the configuration its build was given (`config.clone()` in `build_internal`; in
particular its `app_dir` is the fixture, not the private copy handed to pack), so `context.rebuild(context.config.clone(), …)`
is a rebuild with that same configuration: the chain then simply repeats it.
`build cfg₀ [acts₀ …, rebuild cfg₁ [acts₁ …, rebuild …]]` as the chain `[(cfg₀, acts₀), (cfg₁, acts₁), …]` -/
abbrev Scenario := List Build

/-- injected results: global command index → the command → index among the commands of the same program → override -/
abbrev Oracle := Nat → ACmd → Nat → Option Res

structure St where
  log : List Entry
  ids : Nat
  tmps : Nat
  guards : List Guard
deriving Repr

def nameWord (k : Nat) : Word := [1000, k]
def tmpWord (k : Nat) : Word := [2000, k]
def manifestWord : Word := [47, 3000]

/-- `util::run_command`: the command is issued; its result is the injected one or `base` -/
def St.exec (o : Oracle) (base : Res) (c : ACmd) (s : St) : Res × St :=
  let r := (o s.log.length c (s.log.countP (fun e => e.cmd.prog == c.prog))).getD base
  (r, { s with log := s.log ++ [⟨c, r⟩] })

def St.release (s : St) (gs : List Guard) : St := { s with guards := s.guards.filter (fun g => !gs.contains g) }

def ofRes (r : Res) : Outcome := if r = .ok then .ok else .panicked

/-- one call on a `ContainerContext` inside the `start_container` closure -/
def evalCAct (o : Oracle) (ctr : Word) (cfg : ContainerConfig) (a : CAct) (s : St) : Outcome × St :=
  match a with
  | .logsNow => let r := s.exec o .ok (.logs ctr false); (ofRes r.1, r.2)
  | .logsWait => let r := s.exec o .ok (.logs ctr true); (ofRes r.1, r.2)
  | .port p =>
    if cfg.exposedPorts.contains p then
      let r := s.exec o .ok (.port ctr p)
      match r.1 with
      | .ok => (.ok, r.2)
      | .nonzero =>
        -- the panic message includes `self.logs_now()`
        (.panicked, (r.2.exec o .ok (.logs ctr false)).2)
      | .notFound => (.panicked, r.2)
    else (.panicked, s)
  | .exec cmd => let r := s.exec o .ok (.exec ctr cmd); (ofRes r.1, r.2)
  | .panic => (.panicked, s)

def evalCActs (o : Oracle) (ctr : Word) (cfg : ContainerConfig) : List CAct → St → Outcome × St
  | [], s => (.ok, s)
  | a :: r, s =>
    match (evalCAct o ctr cfg a s).1 with
    | .ok => evalCActs o ctr cfg r (evalCAct o ctr cfg a s).2
    | oc => (oc, (evalCAct o ctr cfg a s).2)

/-- `TestContext::start_container` -/
def evalStart (o : Oracle) (image triple : Word) (cfg : ContainerConfig) (cacts : List CAct) (s : St) : Outcome × St :=
  let name := nameWord s.ids
  let s0 : St := { s with ids := s.ids + 1 }
  match platformOf triple with
  | none => (.panicked, s0)
  | some plat =>
    -- the ContainerContext exists from here on
    let r1 := s0.exec o .ok (.run (startContainerCommand image name plat cfg))
    let r2 := if r1.1 = .ok then evalCActs o name cfg cacts r1.2 else (.panicked, r1.2)
    -- Drop for ContainerContext
    let r3 := r2.2.exec o .ok (.rm name)
    if r3.1 = .ok then (r2.1, r3.2)
    else if r2.1 = .ok then (.panicked, r3.2)
    else (.aborted, r3.2)

def evalAct (o : Oracle) (image triple : Word) (a : Act) (s : St) : Outcome × St :=
  match a with
  | .startContainer cfg cacts => evalStart o image triple cfg cacts s
  | .runShell cmd =>
    let name := nameWord s.ids
    let s0 : St := { s with ids := s.ids + 1 }
    match platformOf triple with
    | none => (.panicked, s0)
    | some plat =>
      let r := s0.exec o .ok (.run (runShellCommand image name plat cmd))
      (ofRes r.1, r.2)
  | .downloadSbom =>
    let t := s.tmps
    let s0 : St := { s with tmps := t + 1, guards := .sbomDir t :: s.guards }
    let r := s0.exec o .ok (.sbom image (tmpWord t))
    (ofRes r.1, r.2.release [.sbomDir t])
  | .panic => (.panicked, s)

def evalActs (o : Oracle) (image triple : Word) : List Act → St → Outcome × St
  | [], s => (.ok, s)
  | a :: r, s =>
    match (evalAct o image triple a s).1 with
    | .ok => evalActs o image triple r (evalAct o image triple a s).2
    | oc => (oc, (evalAct o image triple a s).2)

/-- `Drop for TemporaryDockerResources`: both commands are issued, their results ignored -/
def dropResources (o : Oracle) (res : Resources) (s : St) : St :=
  ((s.exec o .ok (.rmi res.imageName)).2.exec o .ok (.volRm [res.buildCacheVolumeName, res.launchCacheVolumeName])).2

/-- the temp-dir guards `build_internal` creates before `pack build`: the private app copy (with a preprocessor) and
the directory for compiled buildpacks -/
def buildGuards (b : Build) (s : St) : List Guard :=
  if b.cfg.preprocessor then [.bpDir (s.tmps + 1), .appCopy s.tmps] else [.bpDir s.tmps]

def buildAppPath (b : Build) (s : St) : Word :=
  if b.cfg.preprocessor then tmpWord s.tmps else normalizedAppDir manifestWord b.cfg.cfg.appDir

/-- `build_internal` for the head of the chain; the empty chain is the end of the innermost closure, where the
`TestContext` — and with it the `TemporaryDockerResources` — goes out of scope -/
def evalBuilds (o : Oracle) (res : Resources) : List Build → St → Outcome × St
  | [], s => (.ok, dropResources o res s)
  | b :: rest, s =>
    if !b.cfg.appDirValid then (.panicked, dropResources o res s)
    else
      let gs := buildGuards b s
      let s0 : St := { s with tmps := s.tmps + gs.length, guards := gs ++ s.guards }
      let r := s0.exec o b.cfg.packResult (.packBuild (packBuildCommand res b.cfg.cfg (buildAppPath b s)))
      let proceed := (b.cfg.expectSuccess && r.1 == .ok) || (!b.cfg.expectSuccess && r.1 == .nonzero)
      -- a panic before the closure: the locals are dropped first, then the resources (a parameter)
      if !proceed then (.panicked, dropResources o res (r.2.release gs))
      else
        let ra := evalActs o res.imageName b.cfg.triple b.acts r.2
        match ra.1 with
        | .aborted => (.aborted, ra.2)
        -- the closure unwinds: its `TestContext` is dropped, then the locals of `build_internal`
        | .panicked => (.panicked, (dropResources o res ra.2).release gs)
        | .ok =>
          let rb := evalBuilds o res rest ra.2
          match rb.1 with
          | .aborted => (.aborted, rb.2)
          | oc => (oc, rb.2.release gs)

def initSt : St := ⟨[], 1, 0, []⟩

/-- `TestRunner::build`: a fresh image name, then `build_internal` -/
def run (o : Oracle) (sc : Scenario) : Outcome × St := evalBuilds o (resourcesFor (nameWord 0)) sc initSt

end CnbVerif.TestRunner
