import CnbVerif.Model.TestRunner
/-!
Fault scripts for the libcnb-test model (C16): *which* external commands fail is described by a list of rules, each
selecting commands by **kind** (the docker/pack sub-command) and by **when / for whom** (always, the command at a given
position of the log, every command from a position on, every command addressing the j-th container of the run).
`faultOracle` turns a script into the `Oracle` of `Model/TestRunner`; the stand-in docker/pack of the harness
(`harness/src/bin/standin.rs`, `STANDIN_FAULTS`) implements the same selection on real argv.

A failing command inside a closure is a panic in that closure (`logs_now`, `logs_wait`, `shell_exec`, `address_for_port`,
`download_sbom_files`, `run_shell_command`, the detached `docker run` of `start_container` all `panic!` on a command
error); what is dropped afterwards is decided by `Model/TestRunner` (`evalStart`: `Drop for ContainerContext` runs
`docker rm … --force` on every exit).  Core Lean only.
-/
namespace CnbVerif.TestRunner
open CnbVerif CnbVerif.Argv

/-- the sub-commands libcnb-test issues, as a fault rule can select them -/
inductive FKind
  | packBuild | sbom | runDetached | runAttached | logsNow | logsFollow | logs | exec | port | rm | rmi | volRm
  /-- every command except `docker rm` -/
  | notRm
  | any
deriving DecidableEq, Repr

def FKind.selects : FKind → ACmd → Bool
  | .packBuild, .packBuild _ => true
  | .sbom, .sbom _ _ => true
  | .runDetached, .run c => c.detach
  | .runAttached, .run c => !c.detach
  | .logsNow, .logs _ f => !f
  | .logsFollow, .logs _ f => f
  | .logs, .logs _ _ => true
  | .exec, .exec _ _ => true
  | .port, .port _ _ => true
  | .rm, .rm _ => true
  | .rmi, .rmi _ => true
  | .volRm, .volRm _ => true
  | .notRm, .rm _ => false
  | .notRm, _ => true
  | .any, _ => true
  | _, _ => false

/-- the container a command addresses (`--name` of a `docker run`, the container argument of exec/logs/port/rm) -/
def ACmd.container? : ACmd → Option Word
  | .run c => some c.containerName
  | .exec c _ => some c
  | .logs c _ => some c
  | .port c _ => some c
  | .rm c => some c
  | _ => none

inductive FSel
  /-- every invocation of the kind -/
  | all
  /-- the command at position `k` (1-based) of the whole log, if it is of the kind -/
  | atIdx (k : Nat)
  /-- every command of the kind at position `k` or later -/
  | fromIdx (k : Nat)
  /-- every command of the kind that addresses the `j`-th container of the run: the one named by the `j`-th `docker run`
  (identifier `j` — the image is identifier 0, and every `start_container` / `run_shell_command` takes the next one) -/
  | ctr (j : Nat)
deriving DecidableEq, Repr

structure FRule where
  kind : FKind
  sel : FSel
deriving DecidableEq, Repr

def FRule.hits (r : FRule) (i : Nat) (c : ACmd) : Bool :=
  r.kind.selects c &&
    (match r.sel with
     | .all => true
     | .atIdx k => i + 1 == k
     | .fromIdx k => decide (k ≤ i + 1)
     | .ctr j => c.container? == some (nameWord j))

/-- a command hit by some rule exits unsuccessfully -/
def faultOracle (rules : List FRule) : Oracle :=
  fun i c _ => if rules.any (fun r => r.hits i c) then some .nonzero else none

/-- the rule cannot make a `docker rm` fail -/
def FRule.sparesRm (r : FRule) : Bool := r.kind != .rm && r.kind != .any

end CnbVerif.TestRunner
