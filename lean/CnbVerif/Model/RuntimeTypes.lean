/-!
Plain data types of C05, shared by the model (`Model/Runtime.lean`), the specification (`Spec/RuntimeTable.lean`)
and the driver. No functions with behaviour live here. Core Lean only.

`Invocation` is the finite product of the property's quantifier (executable name × argument count × buildpack.toml
state × each `CNB_*` variable unset or set to some value × buildpack behaviour × pre-existing output files), extended by the other
sources of a phase error (working directory, platform directory, buildpack-plan file). The payloads the buildpack
hands back (build plan `P`, launch `L`, store `S`, SBOM data `D`) are type parameters: the decision logic never looks
inside them.
-/
namespace CnbVerif.Runtime

/-- file name of `argv[0]` — the *invoked* name. What the file on disk is called, whether the name is a copy, a hard link or a
symlink (to a neutrally named file, or to a real file itself called `build` / `detect` as in a packaged buildpack), and whether
it is reached by absolute path, relative path, `$PATH` lookup or an explicit `argv[0]` is not a dimension of the model: the
code consults nothing but this name. The harness varies all of that per name (field 8 of a case). -/
inductive Exe | detect | build | other
deriving DecidableEq, Repr

/-- `<CNB_BUILDPACK_DIR>/buildpack.toml`. `api ma mi restOk`: the `api` key parses to `ma.mi`; `restOk` says whether the
whole file is a valid component buildpack descriptor. -/
inductive Desc
  | api (major minor : Nat) (restOk : Bool)
  | malformedApi   -- `api` present but not a version string
  | missingApi     -- TOML without an `api` key
  | noFile         -- no buildpack.toml
  | unreadable     -- buildpack.toml cannot be read (it is a directory)
  | notToml        -- not TOML at all
deriving DecidableEq, Repr

/-- the value of an environment variable as the process sees it: text (valid Unicode - what `env::var` hands out as a
`String`; any text, the empty string included) or bytes that are not valid UTF-8 (`VarError::NotUnicode`) -/
inductive EnvVal
  | text (s : String)
  | raw (bytes : List Nat)
deriving DecidableEq, Repr

/-- the `CNB_*` variables the runtime reads. Each one is unset (`none`) or set to a value (`some v`): the environment is a
dimension of the invocation with its *values*, not only with presence bits. -/
structure Vars where
  bpDir : Option EnvVal     -- CNB_BUILDPACK_DIR
  os : Option EnvVal        -- CNB_TARGET_OS
  arch : Option EnvVal      -- CNB_TARGET_ARCH
  variant : Option EnvVal   -- CNB_TARGET_ARCH_VARIANT (optional)
  dname : Option EnvVal     -- CNB_TARGET_DISTRO_NAME
  dver : Option EnvVal      -- CNB_TARGET_DISTRO_VERSION
deriving DecidableEq, Repr

/-- names of the variables, for the generated list of reads (`Gen/Runtime.lean`) -/
inductive VarName | bpDir | os | arch | variant | dname | dver
deriving DecidableEq, Repr

/-- platform directory: readable / no `env` sub-directory (tolerated) / unreadable (a non-UTF-8 file in `env`) -/
inductive Plat | ok | noEnv | bad
deriving DecidableEq, Repr

/-- the buildpack plan file handed to `build` -/
inductive PlanIn | ok | missing | malformed
deriving DecidableEq, Repr

/-- what is at an output path before the run: nothing, a file with old content, a directory (opening the path for writing
fails), or something that can be opened for writing but cannot be written (`writeFails`: no space left on the device — every
write of at least one byte fails; the harness puts a link to `/dev/full` there). The last two differ in *when* the fault
shows: at open time or at write time. -/
inductive Pre | absent | file | dir | writeFails
deriving DecidableEq, Repr

/-- `<layers>/store.toml` before the run; it is both an input (previous store) and an output. `writeFails`: a valid store is
read at the start of the phase, and by the time the result is written the path can be opened but not written (the device
filled up in between; the test buildpack's build code puts the link to `/dev/full` there) -/
inductive StorePre | absent | valid | malformed | dir | writeFails
deriving DecidableEq, Repr

inductive Fmt | cdx | spdx | syft
deriving DecidableEq, Repr

def Fmt.all : List Fmt := [.cdx, .spdx, .syft]

/-- what the buildpack's `detect` returns -/
inductive DetectBeh (P : Type)
  | pass | passPlan (p : P) | fail | err
deriving Repr

/-- a successful `BuildResult` -/
structure BuildOk (L S D : Type) where
  launch : Option L
  store : Option S
  bsboms : List (Fmt × D)
  lsboms : List (Fmt × D)

/-- what the buildpack's `build` returns: a result, its own error, or a framework layer error it propagated -/
inductive BuildBeh (L S D : Type)
  | ok (r : BuildOk L S D) | err | layerErr

structure Invocation (P L S D : Type) where
  exe : Exe
  /-- number of arguments after `argv[0]` -/
  nargs : Nat
  desc : Desc
  vars : Vars
  /-- the working directory can be determined -/
  cwdOk : Bool
  plat : Plat
  planIn : PlanIn
  dbeh : DetectBeh P
  bbeh : BuildBeh L S D
  planPre : Pre
  launchPre : Pre
  storePre : StorePre
  bPre : Fmt → Pre
  lPre : Fmt → Pre

/-- what happened to an output path: still as before, written with payload `a`, or anything else (only ever
produced when parsing an observation of the implementation) -/
inductive FileOut (α : Type)
  | untouched | written (a : α) | other
deriving DecidableEq, Repr

/-- which `libcnb::Error` variant reached `on_error` (compared by the correspondence, ignored by the spec) -/
inductive ErrKind
  | appDir | bpDir | descriptor | platform | planIn | store | targetOs | targetArch | distroName | distroVersion
  | buildpack | layer | writePlan | writeLaunch | writeStore | writeBuildSbom | writeLaunchSbom
deriving DecidableEq, Repr

/-- what the code does with the result of one `env::var(NAME)` call (regenerated from the source by the translator):
* `required k`  — `env::var(NAME).map_err(Error::<k>)?`: unset or not Unicode ⇒ the phase ends with error `k`, whatever any
  other variable holds;
* `optionalOk`  — `env::var(NAME).ok()`: unset or not Unicode ⇒ `None`, never an error;
* `defaulted d` — `env::var(NAME).unwrap_or…(d)`: unset or not Unicode ⇒ the text `d`, never an error.
Any other shape (a requirement that depends on another variable's value, a `match`, …) has no constructor here: the
translator reports it as a broken tie instead. -/
inductive EnvUse
  | required (k : ErrKind)
  | optionalOk
  | defaulted (d : String)
deriving DecidableEq, Repr

structure Outcome (P L S D : Type) where
  exit : Int
  detectRan : Bool
  buildRan : Bool
  /-- number of `on_error` calls -/
  onError : Nat
  errKind : Option ErrKind
  plan : FileOut P
  launch : FileOut L
  store : FileOut S
  bsbom : Fmt → FileOut D
  lsbom : Fmt → FileOut D

end CnbVerif.Runtime
