import CnbVerif.Model.MappedWrite
import CnbVerif.Gen.Sites
/-!
# Model B of C19 — `libherokubuildpack/src/command.rs`, `output_and_write_streams` / `spawn_and_write_streams`

The child is a *script*: the sequence of its blocking writes (`false` = stdout, `true` = stderr). Each stream has a kernel
pipe of bounded capacity `cap`. The parent runs, per stream, one copier (`io::copy(&mut pipe, &mut tee(&mut buffer, writer))`,
`write_child_process_output`): it moves bytes from the pipe into a `TeeWrite` whose first target is the buffer that
becomes `Output.stdout` / `Output.stderr` and whose second target is the supplied writer; it finishes when it reads EOF,
which a pipe reports once it is empty and every write end is closed, i.e. the child is done with its script.

Steps are byte-granular; a read or write of several bytes is a sequence of such steps, so the reachable states of any
coarser granularity are among the reachable states here. How the real copier chunks the bytes for the supplied writer (one
`write` per pipe read of at most 8 KiB) does not matter for what that writer ends up holding: for the writers of write.rs
this is `C19.mapped_output_independent_of_flushes` / `tee_full_input_with_flushes` (any chunking, any flushes). That the
copier is `std::io::copy` — which calls nothing but `write` on the writer — is read from the source (`Gen.Sites.copierBodies`). Which process/thread moves next is not determined: `succs` lists
every enabled step (the scheduler picks one).

`Mode.parallel` is the code (both copier threads are spawned inside one scope before either is joined — tied to the source by
`Gen.Sites`); `Mode.sequential` is the variant "drain stdout to EOF, then stderr" that the property rules out.

What the model does not exhibit: real OS pipes (capacity, atomicity, `SIGPIPE`), the scheduler, thread creation failure,
errors of the supplied writers, grandchildren that keep the pipe open.
-/
namespace CnbVerif.Pipes
open CnbVerif MW

/-- parent-side state of one stream -/
structure Chan where
  /-- bytes the child has written that the copier has not read yet -/
  pipe : Bytes
  /-- `tee(&mut buffer, writer)`: `a` = the buffer returned in `Output`, `b` = the supplied writer -/
  tee : Tee
  /-- the copier thread has read EOF and finished -/
  eof : Bool
deriving DecidableEq, Repr

structure PSt where
  /-- what the child still has to write; `[]` = the child has exited and its pipe ends are closed -/
  script : List (Bool × Bytes)
  o : Chan
  e : Chan
deriving DecidableEq, Repr

def PSt.chan (s : PSt) (st : Bool) : Chan := if st then s.e else s.o
def PSt.setChan (s : PSt) (st : Bool) (c : Chan) : PSt := if st then { s with e := c } else { s with o := c }

def Chan.init : Chan := ⟨[], Tee.init, false⟩
def init (script : List (Bool × Bytes)) : PSt := ⟨script, Chan.init, Chan.init⟩

/-- The child: drop an exhausted write, or move the next byte of the current write into its pipe if there is room
(otherwise the child is blocked in `write(2)`). -/
def childStep (cap : Nat) (s : PSt) : Option PSt :=
  match s.script with
  | [] => none
  | (_, []) :: rest => some { s with script := rest }
  | (st, b :: bs) :: rest =>
    if (s.chan st).pipe.length < cap then
      some { s.setChan st { s.chan st with pipe := (s.chan st).pipe ++ [b] } with script := (st, bs) :: rest }
    else none

/-- The copier thread of stream `st` (`io::copy`): pass the next byte on to the tee; at EOF finish; with an empty pipe
whose write end is still open it is blocked in `read(2)`. -/
def copyStep (st : Bool) (s : PSt) : Option PSt :=
  if (s.chan st).eof then none
  else match (s.chan st).pipe with
    | b :: rest => some (s.setChan st { s.chan st with pipe := rest, tee := teeWrite (s.chan st).tee [b] })
    | [] => if s.script.isEmpty then some (s.setChan st { s.chan st with eof := true }) else none

inductive Mode | parallel | sequential
deriving DecidableEq, Repr

/-- The discipline the source has *now*, read by the translator from `write_child_process_output`: both copier threads are
spawned before either is joined, inside one `thread::scope`, exactly when the event list is spawn, spawn, join, join. -/
def codeMode : Mode :=
  if Gen.Sites.copierEvents = [.spawn, .spawn, .join, .join] ∧ Gen.Sites.copiersInOneScope = true then .parallel
  else .sequential

/-- may the stderr copier run? In the code always (its thread exists from the start); in the sequential variant only
after the stdout copier has finished. -/
def stderrCopierRuns (mode : Mode) (s : PSt) : Bool :=
  match mode with
  | .parallel => true
  | .sequential => s.o.eof

/-- every step some process/thread can take in `s` -/
def succs (mode : Mode) (cap : Nat) (s : PSt) : List PSt :=
  (childStep cap s).toList ++ (copyStep false s).toList ++
    (if stderrCopierRuns mode s then (copyStep true s).toList else [])

/-- both copier threads have been joined and the child has exited: `output_and_write_streams` returns -/
def final (s : PSt) : Bool := s.script.isEmpty && s.o.eof && s.e.eof

/-- states the system can be in, from `s0` -/
inductive Reachable (mode : Mode) (cap : Nat) (s0 : PSt) : PSt → Prop
  | refl : Reachable mode cap s0 s0
  | step {s s'} : Reachable mode cap s0 s → s' ∈ succs mode cap s → Reachable mode cap s0 s'

/-- an execution: consecutive states are related by a step -/
inductive Exec (mode : Mode) (cap : Nat) : List PSt → Prop
  | one (s) : Exec mode cap [s]
  | cons {s s' l} : s' ∈ succs mode cap s → Exec mode cap (s' :: l) → Exec mode cap (s :: s' :: l)

def scriptCost : List (Bool × Bytes) → Nat
  | [] => 0
  | (_, bytes) :: rest => 2 * bytes.length + 1 + scriptCost rest

/-- the termination measure: every step lowers it -/
def measure (s : PSt) : Nat :=
  scriptCost s.script + s.o.pipe.length + s.e.pipe.length + (if s.o.eof then 0 else 1) + (if s.e.eof then 0 else 1)

/-- all bytes a script writes to one stream (model-side helper; the specification has its own `streamBytes`) -/
def written (st : Bool) (script : List (Bool × Bytes)) : Bytes :=
  ((script.filter (fun i => i.1 == st)).map (·.2)).flatten

/-- The state in which `output_and_write_streams` returns. By `C19.delivery` every reachable final state of the step
model is this one, so the driver computes it directly instead of scheduling hundreds of thousands of byte steps. -/
def finalOf (script : List (Bool × Bytes)) : PSt :=
  { script := [],
    o := ⟨[], ⟨written false script, written false script⟩, true⟩,
    e := ⟨[], ⟨written true script, written true script⟩, true⟩ }

/-- run with the scheduler "first enabled step" for at most `fuel` steps (used by the driver on small scripts to
cross-check `finalOf`) -/
def runFirst (mode : Mode) (cap : Nat) : Nat → PSt → PSt
  | 0, s => s
  | fuel + 1, s => match succs mode cap s with
    | [] => s
    | s' :: _ => runFirst mode cap fuel s'

/-! ## When the call returns: stream close vs. child exit

A child process can close its stdout and stderr and live on (a daemon detaching from its stdio). What the parent can observe of a
child's life is the order of three events: `close false` (every write end of the stdout pipe is closed: the stdout copier reads
EOF), `close true` (the same for stderr), `exit`. An exit closes whatever the child still held open.

The parent's side of a call is the list of blocking statements it goes through before it returns; each is enabled by what the
child has done so far. `spawn_and_write_streams` = `write_child_process_output` = join the stdout copier, join the stderr copier,
hand the `Child` back — plus a wait for the exit exactly when the source holds one (`Gen.Sites.spawnWaitCalls`, regenerated from
command.rs on every run). `output_and_write_streams` = the same followed by `child.wait()`.

`returned prog evs`: a prompt parent (one that is never the slow side) has returned by the time the child has done `evs`. -/

inductive CEv | close (stream : Bool) | exit
deriving DecidableEq, Repr

inductive PStmt | joinCopier (stream : Bool) | waitExit
deriving DecidableEq, Repr

/-- is this blocking statement past, once the child has done `evs`? A copier finishes at EOF of its pipe: the stream was closed, or
the process is gone; a `wait` finishes at the exit only. -/
def enabledAfter (evs : List CEv) : PStmt → Bool
  | .joinCopier st => evs.contains (.close st) || evs.contains .exit
  | .waitExit => evs.contains .exit

def returned (prog : List PStmt) (evs : List CEv) : Bool := prog.all (enabledAfter evs)

/-- `spawn_and_write_streams` as the source has it now -/
def spawnProg : List PStmt :=
  [.joinCopier false, .joinCopier true] ++ (if Gen.Sites.spawnWaitCalls = [] then [] else [.waitExit])

/-- `output_and_write_streams`: `spawn_and_write_streams(..).and_then(|mut child| child.wait())` -/
def outputProg : List PStmt := spawnProg ++ [.waitExit]

/-- the variant the property rules out for `spawn_and_write_streams`: wait for the exit before handing the child back -/
def spawnProgWaiting : List PStmt := [.joinCopier false, .joinCopier true, .waitExit]

end CnbVerif.Pipes
