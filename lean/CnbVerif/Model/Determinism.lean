import CnbVerif.Model.LayerStore
import CnbVerif.Gen.HashSites
/-!
Model side of C20. A Lean function is deterministic; the nondeterminism the Rust code could have is the order in which
a `HashMap` hands out its entries (std's `RandomState` is seeded per process), the order of `read_dir`, clocks, random
identifiers. The writers that iterate a hash map take the map as a *list in iteration order*:

* `writeToLayerDir le layer` (Model/EnvDir, C03): the loop `for (process_name, delta) in &self.process` visits `le.process`;
* `replaceExecd l progs` (Model/LayerStore, C01): `for (name, path) in exec_d_programs` visits `progs`; that model leaves an
  empty `exec.d` when a source file is missing. `replaceExecdLoop` below spells the copy loop out (it stops at the first
  missing source and keeps what was copied before) so that the error path can be stated too;
* `writeLayerTrait`: the trait API's `write_layer` (trait_api/handling.rs), which runs both loops on the data of a
  `LayerResult` (`env`, `exec_d_programs: HashMap`).

The theorems (Props/C20) quantify over **every permutation** of those lists.
`coveredIterSites` is the hand-written list of hash-iteration sites this model accounts for; the generated list
`Gen.HashSites.iterSites` must be contained in it (obligation `iteration_sites_are_modelled`).
-/
namespace CnbVerif.Det
open CnbVerif

/-- the copy loop of `replace_layer_exec_d_programs`, in iteration order, into the fresh `exec.d` directory:
`fs::copy(path, exec_d_dir.join(name))` per program; the first missing source ends the loop with `MissingExecDFile`.
Returns the directory content and whether the loop completed. -/
def copyExecd : Dir → List (Bytes × Option Bytes) → Dir × Bool
  | acc, [] => (acc, true)
  | acc, (n, some b) :: rest => copyExecd (acc.set n (.file b)) rest
  | acc, (_, none) :: _ => (acc, false)

/-- `replace_layer_exec_d_programs` with the loop spelled out (same control flow as `replaceExecd` otherwise) -/
def replaceExecdLoop (l : Layer) (progs : List (Bytes × Option Bytes)) : Layer × Out :=
  match l.dir with
  | none => (l, .err .missingLayer)
  | some d =>
    let d1 : Dir := match d.get nExecd with
      | some (.dir _) => d.erase nExecd
      | _ => d
    if progs.isEmpty then ({ l with dir := some d1 }, .ok)
    else
      match d1.get nExecd with
      | some _ => (l, .err .io)
      | none =>
        let r := copyExecd [] progs
        ({ l with dir := some (d1.set nExecd (.dir r.1)) }, if r.2 then .ok else .err .missingExecd)

/-- trait API `write_layer(layers_dir, name, env, content_metadata, ExecDPrograms::Replace(progs), Sboms::Replace(sb))`:
`shared::write_layer` (create_dir_all + `<name>.toml`), `env.write_to_layer_dir`, `replace_layer_sboms`,
`replace_layer_exec_d_programs`; the first failure ends it. `procs` is `env.process` in iteration order. -/
def writeLayerTrait (l : Layer) (t : LTypes) (m : Option MetaTbl) (le : LayerEnv) (procs : List (Bytes × Delta))
    (sb : List (Nat × Bytes)) (progs : List (Bytes × Option Bytes)) : Layer × Out :=
  let d0 : Dir := l.dir.getD []
  let l1 : Layer := { l with dir := some d0, toml := some (.doc (some t) m) }
  match writeToLayerDir { le with process := procs } d0 with
  | none => (l1, .err .io)
  | some d' =>
    let r := replaceSboms { l1 with dir := some d' } sb
    match r.2 with
    | .ok => replaceExecdLoop r.1 progs
    | e => (r.1, e)

/-- what the model predicts for the comparison of two runs on identical inputs -/
def pairObservation : String := "equal"

/-- A hash-iteration site of /repo that the model accounts for, with the reason its order cannot reach an output. -/
structure Covered where
  site : String × String × String × Nat
  why : String

def coveredIterSites : List Covered := [
  ⟨("libcnb/src/layer_env.rs", "LayerEnv::write_to_layer_dir", "for (process_name,delta) in &self.process", 0),
   "each iteration writes the directory env.launch/<process_name>; the names are distinct map keys: Props/C20 env_iteration_order_irrelevant"⟩,
  ⟨("libcnb/src/layer/shared.rs", "replace_layer_exec_d_programs", "for (name,path) in exec_d_programs", 0),
   "each iteration copies one file to exec.d/<name>; the names are distinct map keys: Props/C20 execd_iteration_order_irrelevant (when every source exists; the error path keeps an order-dependent subset: execd_error_path_depends_on_order)"⟩,
  ⟨("libcnb/src/env.rs", "Env::iter", "self.inner.iter()", 0),
   "public accessor handing the map's iterator to the buildpack author; no caller inside the scanned files (a call would be listed as its own site because `Env` counts as hash-backed)"⟩,
  ⟨("libcnb/src/env.rs", "Env::into_iter", "self.iter()", 0),
   "`impl IntoIterator for &Env`, delegates to Env::iter; no `for … in &env` inside the scanned files (would be listed)"⟩
]

/-- `read_dir` sites and why directory order cannot reach an output -/
def coveredReadDirSites : List Covered := [
  ⟨("libcnb/src/layer_env.rs", "LayerEnv::read_from_layer_dir", "fs::read_dir(&env_launch_path)", 0),
   "sub-directories of env.launch are inserted into the `process` map under their (distinct) names"⟩,
  ⟨("libcnb/src/layer_env.rs", "LayerEnvDelta::read_from_env_dir", "fs::read_dir(path.as_ref())", 0),
   "files are inserted into a BTreeMap keyed by (behaviour, stem); the visiting order matters only when two file names classify to the same key (`VAR` and `VAR.override`), which libcnb's writer never produces (Lemmas/EnvDir2 classify_fileOf) but a hand-prepared layer can hold: then the last file visited wins, and the visiting order is `read_dir` order — assumed stable for identical inputs on one file system, sampled by the harness class `layers-dupenv`; routing the listing through a hash container is caught there and by iteration_sites_are_modelled"⟩,
  ⟨("libcnb/src/platform.rs", "read_platform_env", "fs::read_dir(env_path)", 0),
   "files are inserted into `Env` under their (distinct) names; the platform env is an input, not an output"⟩,
  ⟨("libcnb/src/util.rs", "remove_dir_recursively", "fs::read_dir(dir)", 0),
   "everything below the directory is removed, in whatever order"⟩
]

/-- serialised types that are hash-backed on purpose outside the phase outputs: (file, type, field) -/
def hashBackedOutsidePhases : List (String × String × String) := [
  -- the output of an exec.d program (written at launch time to fd 3 by `write_exec_d_program_output`), a TOML table whose
  -- key order follows the map's iteration order; not one of the files named by the property
  ("libcnb-data/src/exec_d.rs", "ExecDProgramOutput", "0")
]

/-- documents the phases write (C20's list): build plan, launch.toml, store.toml, `<layer>.toml` -/
def phaseDocumentFiles : List String :=
  ["libcnb-data/src/build_plan.rs", "libcnb-data/src/launch.rs", "libcnb-data/src/store.rs",
   "libcnb-data/src/layer_content_metadata.rs", "libcnb-data/src/sbom.rs", "libcnb-data/src/generic.rs"]

/-- types a serialised field may name without being defined in the scanned files: `libcnb_newtype!` string newtypes
(serialised as a string through `Display`/`String`) -/
def knownStringNewtypes : List (String × String) :=
  [("libcnb-data/src/exec_d.rs", "ExecDProgramOutputKey"), ("libcnb-data/src/launch.rs", "ProcessType")]

def siteCovered (cov : List Covered) (s : String × String × String × Nat) : Bool := cov.any (fun c => c.site == s)

end CnbVerif.Det
