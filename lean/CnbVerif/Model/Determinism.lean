import CnbVerif.Model.LayerStore
import CnbVerif.Gen.HashSites
/-!
Model side of C20. A Lean function is deterministic; the nondeterminism the Rust code could have is the order in which
a `HashMap` hands out its entries (std's `RandomState` is seeded per process), the order of `read_dir`, clocks, random
identifiers. The writers that iterate a hash map take the map as a *list in iteration order*:

* `writeToLayerDir le layer` (Model/EnvDir, C03): the loop `for (process_name, delta) in &self.process` visits `le.process`;
* `replaceExecd l progs` (Model/LayerStore, C01): `for (name, path) in exec_d_programs` visits `progs`; that model leaves an
  empty `exec.d` when a source file is missing. `replaceExecdLoop` below spells the copy loop out (it stops at the first
  missing source and keeps what was copied before) so that the error path can be stated too;
* `replaceExecdX`: the same function on a view of `exec.d` that keeps storage identity (`XFs`: which names are hard links
  of one inode, which are symlinks to a sibling or to a file elsewhere), for a restored layer whose `exec.d` is written
  again; `XFs.copyTo` is `fs::copy` onto a name that may already exist (create-or-truncate through symlinks);
* `writeLayerTrait`: the trait API's `write_layer` (trait_api/handling.rs), which runs both loops on the data of a
  `LayerResult` (`env`, `exec_d_programs: HashMap`).

* `writeBuildResultSboms` / `replaceLayerSbomFiles`: the SBOM files of a `BuildResult` / of a layer, written from a `Vec`
  in the Vec's order (no hash container on that path; a Vec may hold several SBOMs of one format, the last one stays).

The theorems (Props/C20) quantify over **every permutation** of those lists.
`coveredIterSites` is the hand-written list of hash-iteration sites this model accounts for; the generated list
`Gen.HashSites.iterSites` must be contained in it (obligation `iteration_sites_are_modelled`).
-/
namespace CnbVerif.Det
open CnbVerif

/-- the copy loop of `replace_layer_exec_d_programs`, in iteration order, into the fresh `exec.d` directory:
`fs::copy(path, exec_d_dir.join(name))` per program; the first missing source ends the loop with `MissingExecDFile`.
Returns the directory content and whether the loop completed. -/
def copyExecd : Dir → List (Bytes × Option Bytes) → Dir × Bool
  | acc, [] => (acc, true)
  | acc, (n, some b) :: rest => copyExecd (acc.set n (.file b)) rest
  | acc, (_, none) :: _ => (acc, false)

/-- `replace_layer_exec_d_programs` with the loop spelled out (same control flow as `replaceExecd` otherwise) -/
def replaceExecdLoop (l : Layer) (progs : List (Bytes × Option Bytes)) : Layer × Out :=
  match l.dir with
  | none => (l, .err .missingLayer)
  | some d =>
    let d1 : Dir := match d.get nExecd with
      | some (.dir _) => d.erase nExecd
      | _ => d
    if progs.isEmpty then ({ l with dir := some d1 }, .ok)
    else
      match d1.get nExecd with
      | some _ => (l, .err .io)
      | none =>
        let r := copyExecd [] progs
        ({ l with dir := some (d1.set nExecd (.dir r.1)) }, if r.2 then .ok else .err .missingExecd)

/-- trait API `write_layer(layers_dir, name, env, content_metadata, ExecDPrograms::Replace(progs), Sboms::Replace(sb))`:
`shared::write_layer` (create_dir_all + `<name>.toml`), `env.write_to_layer_dir`, `replace_layer_sboms`,
`replace_layer_exec_d_programs`; the first failure ends it. `procs` is `env.process` in iteration order. -/
def writeLayerTrait (l : Layer) (t : LTypes) (m : Option MetaTbl) (le : LayerEnv) (procs : List (Bytes × Delta))
    (sb : List (Nat × Bytes)) (progs : List (Bytes × Option Bytes)) : Layer × Out :=
  let d0 : Dir := l.dir.getD []
  let l1 : Layer := { l with dir := some d0, toml := some (.doc (some t) m) }
  match writeToLayerDir { le with process := procs } d0 with
  | none => (l1, .err .io)
  | some d' =>
    let r := replaceSboms { l1 with dir := some d' } sb
    match r.2 with
    | .ok => replaceExecdLoop r.1 progs
    | e => (r.1, e)

/-! ### `exec.d` with storage identity (a restored layer written again)

`Dir`/`Node` values have no notion of two names sharing storage. A restored layer's `exec.d` can hold such names: a
symlink to a sibling or to a file elsewhere, two hard links of one inode (also with a third name outside `exec.d`).
`fs::copy(src, exec.d/<name>)` opens its destination with `O_CREAT|O_TRUNC` following symlinks, so writing to an
*existing* name writes whatever storage that name designates. `XFs` keeps that identity for what existed before the call
(`ino k`: every name carrying the same `k`, inside or outside `exec.d`, is the same file); a file the call itself
creates has storage of its own (`own`), nothing else can name it before the call returns. -/

/-- what a name inside `exec.d` designates -/
inductive XEnt
  | own (b : Bytes)          -- regular file created by this call
  | ino (k : Nat)            -- regular file that existed before: inode `k`
  | symSib (t : Bytes)       -- symlink to the sibling name `t` (present or not)
  | symOut (k : Nat)         -- symlink to a file outside `exec.d`: inode `k`
  | other                    -- sub-directory, symlink that resolves to nothing writable
deriving DecidableEq, Repr

/-- `exec.d` (`names`), the content of the pre-existing inodes (`data`), one entry in `outer` per name an inode has outside `exec.d` -/
structure XFs where
  names : List (Bytes × XEnt) := []
  data : List (Nat × Bytes) := []
  outer : List Nat := []
deriving Repr

def XFs.setName (fs : XFs) (n : Bytes) (e : XEnt) : XFs :=
  { fs with names := (n, e) :: fs.names.filter (fun kv => kv.1 != n) }
def XFs.setData (fs : XFs) (k : Nat) (b : Bytes) : XFs :=
  { fs with data := (k, b) :: fs.data.filter (fun kv => kv.1 != k) }

/-- `fs::copy(src, exec.d/<n>)` with `b` the source's bytes: create-or-truncate through symlinks (`fuel` = the
kernel's bound on link resolution; exhausted = ELOOP), then write. `none` = `io::Error`. -/
def XFs.copyTo (fs : XFs) (n : Bytes) (b : Bytes) : Nat → Option XFs
  | 0 => none
  | fuel + 1 =>
    match List.lookup n fs.names with
    | none => some (fs.setName n (.own b))
    | some (.own _) => some (fs.setName n (.own b))
    | some (.ino k) => some (fs.setData k b)
    | some (.symOut k) => some (fs.setData k b)
    | some (.symSib t) => fs.copyTo t b fuel
    | some .other => none

/-- the copy loop in iteration order (every source present); the flag says whether it completed -/
def XFs.copyAll : XFs → List (Bytes × Bytes) → XFs × Bool
  | fs, [] => (fs, true)
  | fs, (n, b) :: rest =>
    match fs.copyTo n b 40 with
    | some fs' => XFs.copyAll fs' rest
    | none => (fs, false)

/-- `replace_layer_exec_d_programs` on a layer whose `exec.d` is a directory or absent, every source present:
`remove_dir_all` unlinks every name (storage that has a name elsewhere stays as it is), `create_dir_all` makes a fresh
directory, then the loop. First component `none` = no `exec.d` afterwards (no program wanted). -/
def replaceExecdX (fs : XFs) (progs : List (Bytes × Bytes)) : Option XFs × Bool :=
  if progs.isEmpty then (none, true)
  else
    let r := XFs.copyAll { fs with names := [] } progs
    (some r.1, r.2)

/-- the `Dir` view of `exec.d` -/
def XFs.node (fs : XFs) : XEnt → Node
  | .own b => .file b
  | .ino k => .file ((List.lookup k fs.data).getD [])
  | .symSib t => .link (match List.lookup t fs.names with | some .other => .toDir | some _ => .toFile | none => .dangling)
  | .symOut _ => .link .toFile
  | .other => .dir []
def XFs.toDir (fs : XFs) : Dir := fs.names.map (fun kv => (kv.1, fs.node kv.2))

/-- how many names the storage behind an entry has -/
def XFs.nlink (fs : XFs) : XEnt → Nat
  | .ino k => (fs.names.filter (fun kv => kv.2 == .ino k)).length + (fs.outer.filter (· == k)).length
  | _ => 1

/-! ### SBOM files: written from a `Vec<Sbom>` in the Vec's own order

There is one file per (base name, format): `<layers>/<base>.sbom.<suffix of the format>` (`cnb_sbom_path`), base =
`build` / `launch` for the SBOMs of a `BuildResult`, the layer name for a layer's. Nothing keeps a caller from putting
several SBOMs of one format into the Vec (`BuildResultBuilder::build_sbom` / `launch_sbom`, `LayerResultBuilder::sbom`
push, `LayerRef::write_sboms` takes a slice). The writers visit the Vec front to back and `fs::write` creates or
truncates, so a later SBOM of a format replaces an earlier one. No hash-ordered container is involved:
`BuildResultBuilder::build_unwrapped` moves the two Vecs into `InnerBuildResult::Pass` as they are (a hash iteration
there would be a site of `Gen.HashSites.iterSites` that `coveredIterSites` does not list). -/

/-- (base name, index of the format in `SBOM_FORMATS` / `Gen.Tables.sbomSuffixes`) -/
abbrev SbomKey := String × Nat
/-- the SBOM files of a layers directory -/
abbrev SbomFiles := List (SbomKey × Bytes)

/-- `fs::write(path, data)`: create or truncate -/
def SbomFiles.write (fs : SbomFiles) (k : SbomKey) (b : Bytes) : SbomFiles :=
  (k, b) :: fs.filter (fun kv => kv.1 != k)

/-- `for sbom in sboms { fs::write(cnb_sbom_path(&sbom.format, layers_dir, base), &sbom.data)? }` -/
def writeSbomVec (base : String) : SbomFiles → List (Nat × Bytes) → SbomFiles
  | fs, [] => fs
  | fs, (f, b) :: rest => writeSbomVec base (fs.write (base, f) b) rest

/-- the tail of `libcnb_runtime_build` on `InnerBuildResult::Pass { build_sboms, launch_sboms, .. }`: the loop over
`build_sboms`, then the loop over `launch_sboms` (runtime.rs), on the Vecs exactly as the builder received them -/
def writeBuildResultSboms (fs : SbomFiles) (buildSboms launchSboms : List (Nat × Bytes)) : SbomFiles :=
  writeSbomVec "launch" (writeSbomVec "build" fs buildSboms) launchSboms

/-- `replace_layer_sboms` (layer/shared.rs; reached by `LayerRef::write_sboms` and by the trait API's
`Sboms::Replace`): the file of every format is removed, then the slice is written front to back -/
def replaceLayerSbomFiles (name : String) (fs : SbomFiles) (sboms : List (Nat × Bytes)) : SbomFiles :=
  writeSbomVec name (fs.filter (fun kv => kv.1.1 != name)) sboms

/-- the Vec seen as a registration sequence: which file each element is written to -/
def sbomRegs (base : String) (sb : List (Nat × Bytes)) : List (SbomKey × Bytes) := sb.map (fun x => ((base, x.1), x.2))

/-- what the model predicts for the comparison of two runs on identical inputs -/
def pairObservation : String := "equal"

/-- A hash-iteration site of /repo that the model accounts for, with the reason its order cannot reach an output. -/
structure Covered where
  site : String × String × String × Nat
  why : String

def coveredIterSites : List Covered := [
  ⟨("libcnb/src/layer_env.rs", "LayerEnv::write_to_layer_dir", "for (process_name,delta) in &self.process", 0),
   "each iteration writes the directory env.launch/<process_name>; the names are distinct map keys: Props/C20 env_iteration_order_irrelevant"⟩,
  ⟨("libcnb/src/layer/shared.rs", "replace_layer_exec_d_programs", "for (name,path) in exec_d_programs", 0),
   "each iteration copies one file to exec.d/<name>; the names are distinct map keys and exec.d was wiped and re-created just before the loop, so every destination is a fresh file of its own whatever the restored exec.d held (symlinks, hard links): Props/C20 execd_iteration_order_irrelevant, execd_rewrite_ignores_restored_entries (when every source exists; the error path keeps an order-dependent subset: execd_error_path_counterexample)"⟩,
  ⟨("libcnb/src/env.rs", "Env::iter", "self.inner.iter()", 0),
   "public accessor handing the map's iterator to the buildpack author; no caller inside the scanned files (a call would be listed as its own site because `Env` counts as hash-backed)"⟩,
  ⟨("libcnb/src/env.rs", "Env::into_iter", "self.iter()", 0),
   "`impl IntoIterator for &Env`, delegates to Env::iter; no `for … in &env` inside the scanned files (would be listed)"⟩
]

/-- `read_dir` sites and why directory order cannot reach an output -/
def coveredReadDirSites : List Covered := [
  ⟨("libcnb/src/layer_env.rs", "LayerEnv::read_from_layer_dir", "fs::read_dir(&env_launch_path)", 0),
   "sub-directories of env.launch are inserted into the `process` map under their (distinct) names"⟩,
  ⟨("libcnb/src/layer_env.rs", "LayerEnvDelta::read_from_env_dir", "fs::read_dir(path.as_ref())", 0),
   "files are inserted into a BTreeMap keyed by (behaviour, stem); the visiting order matters only when two file names classify to the same key (`VAR` and `VAR.override`), which libcnb's writer never produces (Lemmas/EnvDir2 classify_fileOf) but a hand-prepared layer can hold: then the last file visited wins, and the visiting order is `read_dir` order — assumed stable for identical inputs on one file system, sampled by the harness class `layers-dupenv`; routing the listing through a hash container is caught there and by iteration_sites_are_modelled"⟩,
  ⟨("libcnb/src/platform.rs", "read_platform_env", "fs::read_dir(env_path)", 0),
   "files are inserted into `Env` under their (distinct) names; the platform env is an input, not an output"⟩,
  ⟨("libcnb/src/util.rs", "remove_dir_recursively", "fs::read_dir(dir)", 0),
   "everything below the directory is removed, in whatever order"⟩
]

/-- serialised types that are hash-backed on purpose outside the phase outputs: (file, type, field) -/
def hashBackedOutsidePhases : List (String × String × String) := [
  -- the output of an exec.d program (written at launch time to fd 3 by `write_exec_d_program_output`), a TOML table whose
  -- key order follows the map's iteration order; not one of the files named by the property
  ("libcnb-data/src/exec_d.rs", "ExecDProgramOutput", "0")
]

/-- documents the phases write (C20's list): build plan, launch.toml, store.toml, `<layer>.toml` -/
def phaseDocumentFiles : List String :=
  ["libcnb-data/src/build_plan.rs", "libcnb-data/src/launch.rs", "libcnb-data/src/store.rs",
   "libcnb-data/src/layer_content_metadata.rs", "libcnb-data/src/sbom.rs", "libcnb-data/src/generic.rs"]

/-- types a serialised field may name without being defined in the scanned files: `libcnb_newtype!` string newtypes
(serialised as a string through `Display`/`String`) -/
def knownStringNewtypes : List (String × String) :=
  [("libcnb-data/src/exec_d.rs", "ExecDProgramOutputKey"), ("libcnb-data/src/launch.rs", "ProcessType")]

def siteCovered (cov : List Covered) (s : String × String × String × Nat) : Bool := cov.any (fun c => c.site == s)

end CnbVerif.Det
