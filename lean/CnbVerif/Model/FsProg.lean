import CnbVerif.Model.LayerStore
import CnbVerif.Gen.Tables
/-!
# C12 — layer handling and output writing as programs over primitive file-system calls

The operations of `libcnb/src/layer/shared.rs`, `layer/struct_api/handling.rs`, `layer/trait_api/handling.rs`,
`layer_env.rs` (`write_to_layer_dir`, `read_from_layer_dir`), `util.rs` (`remove_dir_recursively`,
`default_on_not_found`), `libcnb-common/src/toml_file.rs` and the output writing of `runtime.rs`, re-expressed as
**programs** (`Prog`) over the `std::fs` calls they make, in the code's own order:

* `call c k`      one `std::fs` call (`Prim`: `create_dir_all`, `write`, `read`, `remove_file`, `remove_dir`,
                  `remove_dir_all`, `set_permissions`, `read_dir`, `copy`); its error is returned at once (`?`)
* `probe q k`     `Path::exists` / `Path::is_dir` — a `statx`, never failed by the fault plan (outside C12's quantifier)
* `fail tag`      an error that is not an I/O error (parse error, missing layer, buildpack callback error)
* `tolerate b k`  **the only catching combinator**: `default_on_not_found(b)?; k` — swallows `NotFound`, nothing else.
                  It sits exactly where the code says `default_on_not_found` (three sites in `delete_layer`, one in
                  `replace_layer_sboms`) plus the one `is_not_found_error_kind` match around reading `store.toml` in
                  `libcnb_runtime_build`.

`run` interprets a program over any state type `σ` with a semantics `Sem σ` for the primitives and a fault plan
`some (k, e)`: the `k`-th call (counting from 0) fails with errno `e` instead of being executed. The theorems of
`Props/C12.lean` hold for every `Sem`; the driver uses the concrete flat file system `FS` below.
-/
namespace CnbVerif.FsProg

inductive Errno
  | enoent | eexist | eio | eacces | enospc | enotdir | eisdir | enotempty
deriving DecidableEq, Repr

/-- path below the fault prefix, as components (`[]` is the prefix directory itself) -/
abbrev Path := List String

/-- file contents as far as control flow depends on them -/
inductive Content
  | raw (s : String)          -- opaque bytes
  | ltoml (t : Toml)          -- a layer content metadata file `<layer>.toml`
  | doc (name : String)       -- a serialised phase output (`launch.toml`, `store.toml`, build plan), named by a token
deriving DecidableEq, Repr

inductive Obj
  | file (c : Content)
  | dir (mode : Nat)          -- permission bits: `remove_dir_recursively` opens a directory up (0o777) before emptying it
deriving DecidableEq, Repr

inductive Prim
  | mkdirAll (p : Path)                 -- fs::create_dir_all
  | write (p : Path) (c : Content)      -- fs::write
  | read (p : Path)                     -- fs::read / fs::read_to_string
  | unlink (p : Path)                   -- fs::remove_file
  | rmdir (p : Path)                    -- fs::remove_dir
  | removeDirAll (p : Path)             -- fs::remove_dir_all
  | chmod (p : Path)                    -- fs::set_permissions
  | readDir (p : Path)                  -- fs::read_dir (+ iteration)
  | copy (c : Content) (dst : Path)     -- fs::copy from a source outside the tree, whose content is `c`
deriving DecidableEq, Repr

inductive Val
  | unit
  | content (c : Content)
  | names (es : List (String × Bool))   -- directory entries: name, is a directory
deriving DecidableEq, Repr

inductive Probe
  | exists (p : Path)
  | isDir (p : Path)
deriving Repr

inductive Prog
  | ret (v : Val)
  | fail (tag : String)
  | call (c : Prim) (k : Val → Prog)
  | probe (q : Probe) (k : Bool → Prog)
  | tolerate (body : Prog) (k : Prog)

inductive Err
  | io (e : Errno)
  | other (tag : String)
deriving DecidableEq, Repr

inductive Outcome
  | ok (v : Val)
  | err (e : Err)
deriving DecidableEq, Repr

def Outcome.isOk : Outcome → Bool
  | .ok _ => true
  | .err _ => false

/-- what `default_on_not_found` lets through: success, or an I/O error of kind `NotFound` -/
def Outcome.swallowed : Outcome → Bool
  | .ok _ => true
  | .err (.io .enoent) => true
  | .err _ => false

/-- semantics of the primitives over a state type -/
structure Sem (σ : Type) where
  /-- the call when it is not failed by the plan (it may still fail on its own, e.g. `ENOENT` for a missing file) -/
  exec : Prim → σ → Except Errno Val × σ
  probe : Probe → σ → Bool
  /-- the state left behind by a call the plan failed (partial effects are allowed) -/
  faulted : Prim → σ → Errno → σ

/-- one executed call: the primitive, whether it sits inside a `tolerate`, and the state it was issued in -/
structure Ev (σ : Type) where
  prim : Prim
  tol : Bool
  pre : σ

structure Res (σ : Type) where
  out : Outcome
  st : σ
  /-- number of the next call -/
  n : Nat
  log : List (Ev σ)

/-- fault plan: fail call number `k` with errno `e` -/
abbrev Plan := Option (Nat × Errno)

def injected : Plan → Nat → Option Errno
  | some (k, e), n => if k = n then some e else none
  | none, _ => none

def run {σ : Type} (S : Sem σ) (plan : Plan) : Bool → Prog → σ → Nat → Res σ
  | _, .ret v, s, n => ⟨.ok v, s, n, []⟩
  | _, .fail t, s, n => ⟨.err (.other t), s, n, []⟩
  | tol, .probe q k, s, n => run S plan tol (k (S.probe q s)) s n
  | tol, .call c k, s, n =>
    match injected plan n with
    | some e => ⟨.err (.io e), S.faulted c s e, n + 1, [⟨c, tol, s⟩]⟩
    | none =>
      match S.exec c s with
      | (.error e, s') => ⟨.err (.io e), s', n + 1, [⟨c, tol, s⟩]⟩
      | (.ok v, s') =>
        let r := run S plan tol (k v) s' (n + 1)
        ⟨r.out, r.st, r.n, ⟨c, tol, s⟩ :: r.log⟩
  | tol, .tolerate b k, s, n =>
    let r := run S plan true b s n
    if r.out.swallowed then
      let r2 := run S plan tol k r.st r.n
      ⟨r2.out, r2.st, r2.n, r.log ++ r2.log⟩
    else r

/-- a whole operation: no enclosing `tolerate`, calls numbered from 0 -/
def exec {σ : Type} (S : Sem σ) (plan : Plan) (p : Prog) (s : σ) : Res σ := run S plan false p s 0

/-! ## The concrete file system: a flat map path ↦ object -/

abbrev FS := List (Path × Obj)

/-- mode of a freshly created directory (0o755) and of one opened up by `set_permissions` (0o777) -/
def modeNew : Nat := 493
def modeOpen : Nat := 511

def FS.get (fs : FS) (p : Path) : Option Obj := if p = [] then some (.dir modeNew) else fs.lookup p
def FS.isDir (fs : FS) (p : Path) : Bool := match fs.get p with | some (.dir _) => true | _ => false
def FS.has (fs : FS) (p : Path) : Bool := (fs.get p).isSome
def FS.erase (fs : FS) (p : Path) : FS := fs.filter (fun e => e.1 != p)
def FS.set (fs : FS) (p : Path) (o : Obj) : FS := (p, o) :: fs.erase p
/-- remove `p` and everything below it -/
def FS.eraseTree (fs : FS) (p : Path) : FS := fs.filter (fun e => !(p.isPrefixOf e.1))
def Obj.isDir : Obj → Bool | .dir _ => true | .file _ => false

/-- entries of directory `p`: (name, is a directory), sorted by name -/
def FS.children (fs : FS) (p : Path) : List (String × Bool) :=
  sortBy (fun a b => decide (a.1 < b.1))
    (fs.filterMap (fun e => match e.1.getLast? with
      | some name => if e.1.dropLast = p then some (name, e.2.isDir) else none
      | none => none))

/-- why a call on `p` cannot even reach `p` -/
def FS.parentErr (fs : FS) (p : Path) : Option Errno :=
  match fs.get p.dropLast with
  | some (.dir _) => none
  | some (.file _) => some .enotdir
  | none => some .enoent

def prefixes (p : Path) : List Path := (List.range p.length).map (fun i => p.take (i + 1))

def mkdirAllFs (fs : FS) (p : Path) : Except Errno FS :=
  (prefixes p).foldlM (fun (fs : FS) q =>
    match fs.get q with
    | some (.dir _) => pure fs
    | some (.file _) => throw (if q = p then Errno.eexist else Errno.enotdir)
    | none => pure (fs.set q (.dir modeNew))) fs

def writeFs (fs : FS) (p : Path) (c : Content) : Except Errno FS :=
  match fs.parentErr p with
  | some e => throw e
  | none => match fs.get p with
    | some (.dir _) => throw .eisdir
    | _ => pure (fs.set p (.file c))

def fsExec : Prim → FS → Except Errno Val × FS
  | .mkdirAll p, fs => match mkdirAllFs fs p with
    | .ok fs' => (.ok .unit, fs')
    | .error e => (.error e, fs)
  | .write p c, fs => match writeFs fs p c with
    | .ok fs' => (.ok .unit, fs')
    | .error e => (.error e, fs)
  | .copy c p, fs => match writeFs fs p c with
    | .ok fs' => (.ok .unit, fs')
    | .error e => (.error e, fs)
  | .read p, fs => match fs.get p with
    | some (.file c) => (.ok (.content c), fs)
    | some (.dir _) => (.error .eisdir, fs)
    | none => (.error (match fs.parentErr p with | some .enotdir => .enotdir | _ => .enoent), fs)
  | .unlink p, fs => match fs.get p with
    | some (.file _) => (.ok .unit, fs.erase p)
    | some (.dir _) => (.error .eisdir, fs)
    | none => (.error (match fs.parentErr p with | some .enotdir => .enotdir | _ => .enoent), fs)
  | .rmdir p, fs => match fs.get p with
    | some (.dir _) => if (fs.children p).isEmpty then (.ok .unit, fs.erase p) else (.error .enotempty, fs)
    | some (.file _) => (.error .enotdir, fs)
    | none => (.error .enoent, fs)
  | .removeDirAll p, fs => match fs.get p with
    | some (.dir _) => (.ok .unit, fs.eraseTree p)
    | some (.file _) => (.error .enotdir, fs)
    | none => (.error .enoent, fs)
  | .chmod p, fs => match fs.get p with
    | some (.dir _) => (.ok .unit, fs.set p (.dir modeOpen))
    | some (.file _) => (.ok .unit, fs)
    | none => (.error .enoent, fs)
  | .readDir p, fs => match fs.get p with
    | some (.dir _) => (.ok (.names (fs.children p)), fs)
    | some (.file _) => (.error .enotdir, fs)
    | none => (.error .enoent, fs)

def fsProbe : Probe → FS → Bool
  | .exists p, fs => fs.has p
  | .isDir p, fs => fs.isDir p

/-- the flat file system; a failed call leaves the state as it was (the theorems do not depend on this choice) -/
def fsSem : Sem FS := { exec := fsExec, probe := fsProbe, faulted := fun _ s _ => s }

/-! ## The programs -/

def layerDir (n : String) : Path := ["layers", n]
def layerToml (n : String) : Path := ["layers", n ++ ".toml"]
/-- `cnb_sbom_path(format, layers_dir, name)` for the format with the given suffix (`Gen.sbomSuffixes`) -/
def sbomPath (n : String) (suffix : String) : Path := ["layers", n ++ ".sbom." ++ suffix]
def sbomSuffixList : List String := Gen.sbomSuffixes.map (·.2)

/-- `fs::write(path, bytes)?; k` -/
def fsWrite (p : Path) (c : Content) (k : Prog) : Prog := .call (.write p c) fun _ => k
/-- `let c = fs::read(path)?; k c` -/
def fsRead (p : Path) (k : Content → Prog) : Prog :=
  .call (.read p) fun v => match v with
    | .content c => k c
    | _ => .fail "type"

/-- `toml::from_str::<LayerContentMetadata<_>>`: the generic document, if the bytes are one -/
def parseLToml : Content → Option (Option LTypes × Option MetaTbl)
  | .ltoml (.doc t m) => some (t, m)
  | .ltoml .broken => none
  | .raw s => if s = "" then some (none, none) else none
  | .doc _ => none

inductive RL
  | none
  | some (t : Option LTypes) (m : Option MetaTbl)
  | parseErr

/-- `shared::read_layer::<M>` -/
def readLayer (n : String) (mt : MetaT) (k : RL → Prog) : Prog :=
  .probe (.exists (layerDir n)) fun d =>
  .probe (.exists (layerToml n)) fun t =>
    if !d && !t then k .none
    else if !d && t then .call (.unlink (layerToml n)) fun _ => k .none
    else
      let rest : Prog := fsRead (layerToml n) fun c =>
        match parseLToml c with
        | some (ty, m) => if decodes mt m then k (.some ty m) else k .parseErr
        | none => k .parseErr
      if !t then fsWrite (layerToml n) (.raw "") rest else rest

/-- `read_toml_file::<LayerContentMetadata>` (generic metadata) -/
def readGeneric (p : Path) (k : Option LTypes → Option MetaTbl → Prog) : Prog :=
  fsRead p fun c => match parseLToml c with
    | some (t, m) => k t m
    | none => .fail "toml"

/-- `shared::write_layer`: `create_dir_all(layer_dir)?; write_toml_file(metadata, <layer>.toml)?` -/
def writeLayerShared (n : String) (t : Option LTypes) (m : Option MetaTbl) (k : Prog) : Prog :=
  .call (.mkdirAll (layerDir n)) fun _ => fsWrite (layerToml n) (.ltoml (.doc t m)) k

/-- `struct_api::create_layer` -/
def createLayer (n : String) (t : LTypes) : Prog :=
  writeLayerShared n (some t) none <|
  readLayer n .generic fun r => match r with
    | .some _ _ => .ret .unit
    | .none => .fail "CouldNotReadLayerAfterCreate"
    | .parseErr => .fail "parse"

/-- `util::remove_dir_recursively(dir)?; k` — `fuel` bounds the directory depth -/
def rmRec : Nat → Path → Prog → Prog
  | 0, _, _ => .fail "depth"
  | f + 1, p, k =>
    .call (.chmod p) fun _ =>
    .call (.readDir p) fun v => match v with
      | .names es =>
        es.foldr (fun e acc =>
            if e.2 then rmRec f (p ++ [e.1]) acc
            else .call (.unlink (p ++ [e.1])) fun _ => acc)
          (.call (.rmdir p) fun _ => k)
      | _ => .fail "type"

def unit : Prog := .ret .unit

/-- `for format in SBOM_FORMATS { default_on_not_found(fs::remove_file(cnb_sbom_path(format, …)))?; }` -/
def unlinkSboms (n : String) : List String → Prog → Prog
  | [], k => k
  | s :: rest, k => .tolerate (.call (.unlink (sbomPath n s)) fun _ => unit) (unlinkSboms n rest k)

/-- `shared::delete_layer` -/
def deleteLayer (n : String) (k : Prog) : Prog :=
  .tolerate (rmRec 8 (layerDir n) unit) <|
  .tolerate (.call (.unlink (layerToml n)) fun _ => unit) <|
  unlinkSboms n sbomSuffixList k

/-- `shared::replace_layer_types` -/
def replaceTypes (n : String) (t : LTypes) (k : Prog) : Prog :=
  readGeneric (layerToml n) fun _ m => fsWrite (layerToml n) (.ltoml (.doc (some t) m)) k

/-- `shared::replace_layer_metadata` -/
def replaceMeta (n : String) (m : MetaTbl) (k : Prog) : Prog :=
  readGeneric (layerToml n) fun t _ => fsWrite (layerToml n) (.ltoml (.doc t (some m))) k

/-- `struct_api::handle_layer`; `fuel` bounds the re-entry after `ReplaceMetadata` -/
def handleLayer (n : String) (t : LTypes) (mt : MetaT) (ci : CbInv) (cr : CbRes) : Nat → Prog
  | 0 => .fail "diverge"
  | f + 1 =>
    readLayer n mt fun r => match r with
    | .none => createLayer n t
    | .some _ _ =>
      match cr with
      | .fail => .fail "buildpack"
      | .delete _ => deleteLayer n (createLayer n t)
      | .keep _ => replaceTypes n t unit
    | .parseErr =>
      readGeneric (layerToml n) fun _ _ =>
      match ci with
      | .fail => .fail "buildpack"
      | .delete _ => deleteLayer n (createLayer n t)
      | .replace m' _ => replaceMeta n m' (handleLayer n t mt ci cr f)

/-- `struct_api::handle_layer` with callbacks that LOOK at what was read from disk, in the code's order: typed read
(`read_layer::<M>`), on a decode failure the second, generic read of `<layer>.toml` (`read_toml_file`), then
`invalid_metadata_action(&generic.metadata)` and the action it chose; `restored_layer_action(&metadata)` gets the
metadata as decoded by `M`. A read that failed never reaches a callback: its error is returned by `call`. -/
def handleLayerD (n : String) (t : LTypes) (mt : MetaT) (ci : Option MetaTbl → CbInv) (cr : Option MetaTbl → CbRes) : Nat → Prog
  | 0 => .fail "diverge"
  | f + 1 =>
    readLayer n mt fun r => match r with
    | .none => createLayer n t
    | .some _ m =>
      match cr (viewAs mt m) with
      | .fail => .fail "buildpack"
      | .delete _ => deleteLayer n (createLayer n t)
      | .keep _ => replaceTypes n t unit
    | .parseErr =>
      readGeneric (layerToml n) fun _ gm =>
      match ci gm with
      | .fail => .fail "buildpack"
      | .delete _ => deleteLayer n (createLayer n t)
      | .replace m' _ => replaceMeta n m' (handleLayerD n t mt ci cr f)

/-- `fs::write` of each SBOM: (format suffix, data) -/
def writeSboms (n : String) : List (String × String) → Prog → Prog
  | [], k => k
  | (s, d) :: rest, k => fsWrite (sbomPath n s) (.raw d) (writeSboms n rest k)

/-- `shared::replace_layer_sboms` -/
def replaceSboms (n : String) (sb : List (String × String)) (k : Prog) : Prog :=
  .probe (.isDir (layerDir n)) fun d =>
    if !d then .fail "missingLayer"
    else unlinkSboms n sbomSuffixList (writeSboms n sb k)

def copyProgs (dir : Path) : List (String × String) → Prog → Prog
  | [], k => k
  | (name, body) :: rest, k => .call (.copy (.raw body) (dir ++ [name])) fun _ => copyProgs dir rest k

/-- `shared::replace_layer_exec_d_programs`; every program's source exists outside the tree, with the given body -/
def replaceExecd (n : String) (progs : List (String × String)) (k : Prog) : Prog :=
  .probe (.isDir (layerDir n)) fun d =>
    if !d then .fail "missingLayer"
    else
      let dir := layerDir n ++ ["exec.d"]
      let rest : Prog := if progs.isEmpty then k else .call (.mkdirAll dir) fun _ => copyProgs dir progs k
      .probe (.isDir dir) fun e => if e then .call (.removeDirAll dir) fun _ => rest else rest

/-- files of one env directory: (file name incl. the behaviour suffix, value) -/
abbrev EnvFiles := List (String × String)

structure EnvSpec where
  all : EnvFiles := []
  build : EnvFiles := []
  launch : EnvFiles := []
  procs : List (String × EnvFiles) := []

def writeFiles (dir : Path) : EnvFiles → Prog → Prog
  | [], k => k
  | (name, v) :: rest, k => fsWrite (dir ++ [name]) (.raw v) (writeFiles dir rest k)

/-- `LayerEnvDelta::write_to_env_dir` -/
def writeEnvDir (dir : Path) (fs : EnvFiles) (k : Prog) : Prog :=
  let rest : Prog := if fs.isEmpty then k else .call (.mkdirAll dir) fun _ => writeFiles dir fs k
  .probe (.exists dir) fun e => if e then .call (.removeDirAll dir) fun _ => rest else rest

def writeProcDirs (launchDir : Path) : List (String × EnvFiles) → Prog → Prog
  | [], k => k
  | (p, fs) :: rest, k => writeEnvDir (launchDir ++ [p]) fs (writeProcDirs launchDir rest k)

/-- `LayerEnv::write_to_layer_dir` -/
def writeToLayerDir (layer : Path) (e : EnvSpec) (k : Prog) : Prog :=
  writeEnvDir (layer ++ ["env"]) e.all <|
  writeEnvDir (layer ++ ["env.build"]) e.build <|
  writeEnvDir (layer ++ ["env.launch"]) e.launch <|
  writeProcDirs (layer ++ ["env.launch"]) e.procs k

/-- the loop of `read_from_env_dir` over the listing: directories are skipped, every file is read -/
def readFiles (dir : Path) : List (String × Bool) → (EnvFiles → Prog) → Prog
  | [], k => k []
  | (name, isDir) :: rest, k =>
    if isDir then readFiles dir rest k
    else fsRead (dir ++ [name]) fun c =>
      readFiles dir rest fun fs => k ((name, match c with | .raw s => s | _ => "") :: fs)

/-- `LayerEnvDelta::read_from_env_dir` -/
def readEnvDir (dir : Path) (k : EnvFiles → Prog) : Prog :=
  .call (.readDir dir) fun v => match v with
    | .names es => readFiles dir es k
    | _ => .fail "type"

/-- `if dir.is_dir() { read_from_env_dir(dir)? }` -/
def readEnvDirIf (dir : Path) (k : EnvFiles → Prog) : Prog :=
  .probe (.isDir dir) fun d => if d then readEnvDir dir k else k []

def readProcDirs (launchDir : Path) : List (String × Bool) → (List (String × EnvFiles) → Prog) → Prog
  | [], k => k []
  | (name, isDir) :: rest, k =>
    if isDir then readEnvDir (launchDir ++ [name]) fun fs => readProcDirs launchDir rest fun ps => k ((name, fs) :: ps)
    else readProcDirs launchDir rest k

/-- `LayerEnv::read_from_layer_dir` (the `is_dir` probes for the implicit layer paths read nothing) -/
def readFromLayerDir (layer : Path) (k : EnvSpec → Prog) : Prog :=
  readEnvDirIf (layer ++ ["env"]) fun a =>
  readEnvDirIf (layer ++ ["env.build"]) fun b =>
  let launchDir := layer ++ ["env.launch"]
  .probe (.isDir launchDir) fun d =>
    if d then
      readEnvDir launchDir fun l =>
      .call (.readDir launchDir) fun v => match v with
        | .names es => readProcDirs launchDir es fun ps => k { all := a, build := b, launch := l, procs := ps }
        | _ => .fail "type"
    else k { all := a, build := b }

/-- what a trait-API `Layer::create/update` hands back -/
structure LayerResultSpec where
  mdata : MetaTbl
  env : EnvSpec
  sboms : List (String × String)
  execd : List (String × String)

/-- `trait_api::write_layer` (`none` = `Keep`) -/
def tWriteLayer (n : String) (t : Option LTypes) (m : Option MetaTbl) (e : EnvSpec)
    (execd : Option (List (String × String))) (sboms : Option (List (String × String))) (k : Prog) : Prog :=
  writeLayerShared n t m <|
  writeToLayerDir (layerDir n) e <|
  (match sboms with | some sb => replaceSboms n sb | none => id) <|
  (match execd with | some ps => replaceExecd n ps | none => id) k

inductive TRL
  | none
  | some (t : Option LTypes) (m : Option MetaTbl) (e : EnvSpec)
  | parseErr

/-- `trait_api::read_layer::<M>` -/
def tReadLayer (n : String) (mt : MetaT) (k : TRL → Prog) : Prog :=
  readLayer n mt fun r => match r with
    | .none => k .none
    | .parseErr => k .parseErr
    | .some t m => readFromLayerDir (layerDir n) fun e => k (.some t m e)

/-- the final re-read of `handle_create_layer` / `handle_update_layer` / the `Keep` branch -/
def tReread (n : String) : Prog :=
  tReadLayer n .versioned fun r => match r with
    | .some _ _ _ => unit
    | .none => .fail "UnexpectedMissingLayer"
    | .parseErr => .fail "parse"

/-- `trait_api::handle_create_layer` -/
def tCreate (n : String) (t : LTypes) (r : LayerResultSpec) : Prog :=
  .call (.mkdirAll (layerDir n)) fun _ =>
  tWriteLayer n (some t) (some r.mdata) r.env (some r.execd) (some r.sboms) (tReread n)

inductive Strategy | keep | recreate | update
deriving DecidableEq, Repr

inductive Migration
  | recreate
  | replace (m : MetaTbl)
deriving Repr

/-- `trait_api::handle_layer` for a layer whose metadata type decodes `versioned` tables -/
def tHandle (n : String) (t : LTypes) (st : Strategy) (mig : Migration) (created updated : LayerResultSpec) : Nat → Prog
  | 0 => .fail "diverge"
  | f + 1 =>
    tReadLayer n .versioned fun r => match r with
    | .none => tCreate n t created
    | .some _ m e =>
      match st with
      | .recreate => deleteLayer n (tCreate n t created)
      | .update => tWriteLayer n (some t) (some updated.mdata) updated.env (some updated.execd) (some updated.sboms) (tReread n)
      | .keep => tWriteLayer n (some t) (viewAs .versioned m) e none none (tReread n)
    | .parseErr =>
      tReadLayer n .generic fun g => match g with
      | .some gt _ ge =>
        match mig with
        | .recreate => deleteLayer n (tHandle n t st mig created updated f)
        | .replace m' => tWriteLayer n gt (some m') ge none none (tHandle n t st mig created updated f)
      | .none => .fail "UnexpectedMissingLayer"
      | .parseErr => .fail "parse"

/-- `trait_api::handle_layer` with callbacks that LOOK at the `LayerData` read from disk: `existing_layer_strategy` sees the
typed metadata and the env read back from the layer directory, `update` derives its result from them, and
`migrate_incompatible_metadata` sees the generic metadata of the second `read_layer::<GenericMetadata>` -/
def tHandleD (n : String) (t : LTypes) (st : Option MetaTbl → EnvSpec → Strategy) (mig : Option MetaTbl → Migration)
    (created : LayerResultSpec) (updated : Option MetaTbl → EnvSpec → LayerResultSpec) : Nat → Prog
  | 0 => .fail "diverge"
  | f + 1 =>
    tReadLayer n .versioned fun r => match r with
    | .none => tCreate n t created
    | .some _ m e =>
      match st (viewAs .versioned m) e with
      | .recreate => deleteLayer n (tCreate n t created)
      | .update =>
        let u := updated (viewAs .versioned m) e
        tWriteLayer n (some t) (some u.mdata) u.env (some u.execd) (some u.sboms) (tReread n)
      | .keep => tWriteLayer n (some t) (viewAs .versioned m) e none none (tReread n)
    | .parseErr =>
      tReadLayer n .generic fun g => match g with
      | .some gt gm ge =>
        match mig gm with
        | .recreate => deleteLayer n (tHandleD n t st mig created updated f)
        | .replace m' => tWriteLayer n gt (some m') ge none none (tHandleD n t st mig created updated f)
      | .none => .fail "UnexpectedMissingLayer"
      | .parseErr => .fail "parse"

/-- `libcnb_runtime_detect` after a `Pass` with a build plan: `write_toml_file(&build_plan, build_plan_path)` -/
def detectWritesPlan : Prog := fsWrite ["plan.toml"] (.doc "plan-new") unit

/-- `libcnb_runtime_build`: `store.toml` is read first (not-found is tolerated, any other failure is `CannotReadStore`),
then, after the buildpack's `build`, the outputs it returned are written in this order -/
def buildWrites (launch store : Bool) (buildSboms launchSboms : List (String × String)) : Prog :=
  .tolerate (fsRead ["layers", "store.toml"] fun c => match c with
      | .doc _ => unit
      | _ => .fail "store-parse") <|
  (if launch then fsWrite ["layers", "launch.toml"] (.doc "launch-new") else id) <|
  (if store then fsWrite ["layers", "store.toml"] (.doc "store-new") else id) <|
  writeSboms "build" buildSboms <|
  writeSboms "launch" launchSboms unit

/-- the calls the code deliberately wraps in not-found tolerance: the steps of `remove_dir_recursively`, `remove_file`
(best-effort deletes), and reading the optional `store.toml` -/
def Prim.isBestEffort : Prim → Bool
  | .chmod _ => true
  | .readDir _ => true
  | .unlink _ => true
  | .rmdir _ => true
  | .read p => p == ["layers", "store.toml"]
  | _ => false

/-! ## What one primitive looks like at the libc level (for the tie to the real call trace)

`(class, path, result)` of every libc call Rust's `std::fs` makes for the primitive in the given state, in the
vocabulary of `harness/shim/faultfs.c`. Used only by the driver: a real call that was failed is located in the
model's run by this key. -/

def pathStr (p : Path) : String := if p.isEmpty then "." else String.intercalate "/" p

def errnoName : Errno → String
  | .enoent => "ENOENT" | .eexist => "EEXIST" | .eio => "EIO" | .eacces => "EACCES" | .enospc => "ENOSPC"
  | .enotdir => "ENOTDIR" | .eisdir => "EISDIR" | .enotempty => "ENOTEMPTY"

def resName (r : Except Errno Val) : String := match r with | .ok _ => "ok" | .error e => errnoName e

def Content.isEmpty : Content → Bool
  | .raw s => s = ""
  | .ltoml (.doc none none) => true
  | _ => false

abbrev LibcCall := String × String × String

/-- `create_dir_all`: `mkdir` walks up while the answer is `ENOENT`, then down again -/
def mkdirCalls (fs : FS) : Nat → Path → List LibcCall
  | 0, _ => []
  | f + 1, q =>
    if q.isEmpty then []
    else if fs.has q then [("mkdir", pathStr q, "EEXIST")]
    else if fs.isDir q.dropLast then [("mkdir", pathStr q, "ok")]
    else ("mkdir", pathStr q, "ENOENT") :: mkdirCalls fs f q.dropLast ++ [("mkdir", pathStr q, "ok")]

/-- `remove_dir_all`: `openat(O_DIRECTORY|O_NOFOLLOW)`, `unlinkat` per file, recursion per directory, `unlinkat(AT_REMOVEDIR)` -/
def rmAllCalls (fs : FS) : Nat → Path → List LibcCall
  | 0, _ => []
  | f + 1, p =>
    ("openat-dir", pathStr p, "ok") ::
      ((fs.children p).foldr (fun e acc =>
        (if e.2 then rmAllCalls fs f (p ++ [e.1]) else [("unlinkat", pathStr (p ++ [e.1]), "ok")]) ++ acc)
        [("rmdirat", pathStr p, "ok")])

def libcCalls (c : Prim) (fs : FS) : List LibcCall :=
  let r := resName (fsExec c fs).1
  match c with
  | .mkdirAll p => mkdirCalls fs (p.length + 1) p
  | .write p ct => ("openw", pathStr p, r) :: (if r = "ok" && !ct.isEmpty then [("write", pathStr p, "ok")] else [])
  | .copy _ p => ("openw", pathStr p, r) :: (if r = "ok" then [("fchmod", pathStr p, "ok"), ("copy", pathStr p, "ok")] else [])
  | .read p => ("openr", pathStr p, r) :: (if r = "ok" then [("read", pathStr p, "ok")] else [])
  | .unlink p => [("unlink", pathStr p, r)]
  | .rmdir p => [("rmdir", pathStr p, r)]
  | .chmod p => [("chmod", pathStr p, r)]
  | .readDir p => [("opendir", pathStr p, r)]
  | .removeDirAll p => if r = "ok" then rmAllCalls fs 8 p else [("openat-dir", pathStr p, r)]

end CnbVerif.FsProg
