import CnbVerif.Base.DriverLoop
import CnbVerif.Driver.C12
/-! Driver executable of property C12: its own binary, so that another property's model being edited (or broken) never
affects this property's check. -/
def main : IO Unit := CnbVerif.runDriver "c12" CnbVerif.DriverC12.handle
