import CnbVerif.Base.DriverLoop
import CnbVerif.Driver.C13
/-! Driver executable of property C13: its own binary, so that another property's model being edited (or broken) never
affects this property's check. -/
def main : IO Unit := CnbVerif.runDriver "c13" CnbVerif.DriverC13.handle
