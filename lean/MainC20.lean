import CnbVerif.Base.DriverLoop
import CnbVerif.Driver.C20
/-! Driver executable of property C20: its own binary, so that another property's model being edited (or broken) never
affects this property's check. -/
def main : IO Unit := CnbVerif.runDriver "c20" CnbVerif.DriverC20.handle
