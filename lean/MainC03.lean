import CnbVerif.Base.DriverLoop
import CnbVerif.Driver.C03
/-! Driver executable of property C03: its own binary, so that another property's model being edited (or broken) never
affects this property's check. -/
def main : IO Unit := CnbVerif.runDriver "c03" CnbVerif.DriverC03.handle
