"""Per-property configuration of ./check: one file propcfg/Cxx.py each, defining CFG."""
import importlib, os, re

PROPS = {}
for _f in sorted(os.listdir(os.path.join(os.path.dirname(os.path.abspath(__file__)), "propcfg"))):
    _m = re.fullmatch(r"(C\d\d)\.py", _f)
    if _m:
        PROPS[_m.group(1)] = importlib.import_module("propcfg." + _m.group(1)).CFG
