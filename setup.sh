#!/bin/bash
# Build the framework from files on disk only (offline): harness + translator, generated tables, Lean library, driver.
set -e
cd "$(dirname "$0")"
export CARGO_NET_OFFLINE=true
(cd harness && cargo build --offline --bins 2>&1 | tail -3)
./harness/target/debug/translator /repo lean/CnbVerif/Gen || true
(cd lean && lake build 2>&1 | tail -3 && lake build $(for i in $(seq -w 1 20); do echo driver_c$i; done) 2>&1 | tail -1)
[ -f harness/shim/faultfs.c ] && gcc -shared -fPIC -O1 -o harness/target/faultfs.so harness/shim/faultfs.c -ldl || true
echo setup-done
